import SshAudit.Driver.ReportOps
import SshAudit.Model.Output
namespace SshAudit.Driver
open SshAudit SshAudit.Output

/-- `bvdcjJ:L` — batch, verbose, debug, colors, json, jsonIndent as 0/1, then the level number -/
def decCfg (tok : String) : Option Cfg :=
  match tok.splitOn ":" with
  | [flags, lv] => do
    let lv ← decNat lv
    match flags.toList with
    | [b, v, d, c, j, ji] => do
      let f (ch : Char) : Option Bool := if ch = '1' then some true else if ch = '0' then some false else none
      let b ← f b; let v ← f v; let d ← f d; let c ← f c; let j ← f j; let ji ← f ji
      pure { batch := b, verbose := v, debug := d, colors := c, level := lv, json := j, jsonIndent := ji }
    | _ => none
  | _ => none

def decMeth (tok : String) : Option Meth :=
  match tok with
  | "head" => some .head
  | "good" => some .good
  | "info" => some .info
  | "warn" => some .warn
  | "fail" => some .fail
  | _ => none

def methName : Meth → String
  | .head => "head" | .good => "good" | .info => "info" | .warn => "warn" | .fail => "fail"

/-- one buffer operation: fields separated by `:` -/
def decOp (tok : String) : Option Op :=
  match tok.splitOn ":" with
  | ["p", m, t, e, a] => do let m ← decMeth m; let t ← decStr t; let e ← decBool e; let a ← decBool a; pure (.print m t e a)
  | ["h", t, e] => do let t ← decStr t; let e ← decBool e; pure (.head t e)
  | ["s"] => some .sep
  | ["e"] => some .enter
  | ["x"] => some .exit
  | ["f", b] => do let b ← decBool b; pure (.flush b)
  | ["c", t, b] => do let t ← decStr t; let b ← decBool b; pure (.close t b)
  | ["w"] => some .write
  | ["r"] => some .reset
  | ["v", t, w] => do let t ← decStr t; let w ← decBool w; pure (.v t w)
  | ["d", t, w] => do let t ← decStr t; let w ← decBool w; pure (.d t w)
  | _ => none

def decOps (tok : String) : Option (List Op) :=
  if tok = "_" then some [] else (tok.splitOn ";").mapM decOp

def decFps (tok : String) : Option (List Fp) :=
  if tok = "_" then some [] else
  (tok.splitOn ";").mapM fun (e : String) =>
    match e.splitOn ":" with
    | [t, a, b] => do let t ← decStr t; let a ← decStr a; let b ← decStr b; pure ({ ftype := t, sha256 := a, md5 := b } : Fp)
    | _ => none

def jbuf (b : Buf) : J := .obj [
  ("buffer", J.ofStrs b.buffer), ("sect", J.ofStrs b.sect), ("inSection", .bool b.inSection), ("lineEnded", .bool b.lineEnded),
  ("out", .arr (b.out.map J.ofStrs)), ("err", J.ofOpt (fun e => .str (exnName e).toList) b.err)]

def jpair (p : Finding × Item) : J :=
  .arr [.str p.1.cat, .str p.1.shown, .str (Output.levelName p.1.level), .str p.1.text, .str (methName p.2.meth).toList, .str p.2.text]

def outputOp (op : String) (args : List String) : Option J :=
  match op with
  | "buf.exec" =>
    match args with
    | [c, ops] => do let c ← decCfg c; let ops ← decOps ops; pure (jok (jbuf (exec c ops {})))
    | _ => none
  | "out.strip" =>
    match args with
    | [t] => do let t ← decStr t; pure (jok (.str (stripAnsi t)))
    | _ => none
  | "out.sort" =>
    match args with
    | [l] => do let l ← decStrs l; pure (jok (J.ofStrs (sortStr l)))
    | _ => none
  | "output.run" =>
    match args with
    | c :: hk :: tg :: cip :: hd :: bn :: s1 :: va :: sw :: dsp :: cmp :: fps :: pt :: jc :: ji :: vm :: er ::
        role :: bsw :: bcm :: rn :: rest => do
      let cfg ← decCfg c
      let hasKex ← decBool hk
      let target ← decOptStr tg; let clientIP ← decOptStr cip; let header ← decOptStr hd
      let btext ← decOptStr bn; let ssh1 ← decBool s1; let validAscii ← decBool va; let software ← decOptStr sw
      let swDisplay ← decOptStr dsp; let compat ← decOptStr cmp; let fps ← decFps fps; let putty ← decBool pt
      let jc ← decStr jc; let ji ← decStr ji; let vmsgs ← decStrs vm; let err ← decOptStr er
      let client ← decBool role
      let bsw ← decOptStr bsw; let bcm ← decOptStr bcm; let rate ← decStr rn
      let peer ← decPeerR rest
      let r := Report.report Gen.rsaFamily Gen.ssh2db peer client bsw (Version.parse bsw bcm) rate
      let empty : Report.Report := { kex := [], key := [], enc := [], mac := [], status := 0, compression := [], recs := [], notes := [], unknown := [] }
      let inp : Input := {
        report := if hasKex then r else empty, hasKex := hasKex, rsaFamily := Gen.rsaFamily, hostKeys := peer.hostKeys, dhSizes := peer.dhSizes,
        maxlen := (if hasKex then maxlenOf peer else 0) + 1, target := target, clientIP := clientIP, header := header,
        banner := btext.map (fun t => { text := t, ssh1 := ssh1, validAscii := validAscii, software := software }),
        swDisplay := swDisplay, compat := compat, fps := fps, putty := putty, jsonCompact := jc, jsonIndented := ji }
      let fin := exec cfg (outputOps cfg inp) {}
      let so := match err with
        | none => stdoutOf cfg vmsgs inp
        | some e => stdoutOfError cfg vmsgs inp e
      pure (jok (.obj [
        ("entries", J.ofStrs (render cfg inp)), ("closed", J.ofStrs (renderClosed cfg inp)),
        ("stdout", .str (outText so)), ("stdoutEntries", J.ofStrs (outEntries so)),
        ("err", J.ofOpt (fun e => .str (exnName e).toList) fin.err), ("status", .nat (exitStatus cfg inp)),
        ("pairs", .arr ((shownPairs cfg inp).map jpair)),
        ("findings", .arr ((findingsOf inp.report).map fun f => .arr [.str f.cat, .str f.shown, .str (Output.levelName f.level), .str f.text]))]))
    | _ => none
  | _ => none

end SshAudit.Driver
