import SshAudit.Driver.WireOps
import SshAudit.Driver.ReportOps
import SshAudit.Driver.OutputOps
import SshAudit.Driver.Ssh1ReportOps
import SshAudit.Model.JsonDoc
namespace SshAudit.Driver
open SshAudit SshAudit.JsonDoc

/-- a value in prefix notation, items separated by `/`:
    `n` null, `t` / `f` bool, `i<decimal>` int, `s<text token>` str, `a<k>` a list of the `k` values that follow,
    `o<k>` a dict of the `k` (key as `s…`, value) pairs that follow -/
partial def decValToks : List String → Option (Val × List String)
  | [] => none
  | tok :: rest =>
    match tok.toList with
    | ['n'] => some (.null, rest)
    | ['t'] => some (.bool true, rest)
    | ['f'] => some (.bool false, rest)
    | 'i' :: ds => (String.ofList ds).toInt?.map (fun i => (.int i, rest))
    | 's' :: ds => (decStr (String.ofList ds)).map (fun t => (.str t, rest))
    | 'a' :: ds =>
      match (String.ofList ds).toNat? with
      | none => none
      | some k =>
        let rec go : Nat → List String → List Val → Option (List Val × List String)
          | 0, r, acc => some (acc.reverse, r)
          | k + 1, r, acc =>
            match decValToks r with
            | some (v, r') => go k r' (v :: acc)
            | none => none
        (go k rest []).map (fun (xs, r) => (.arr xs, r))
    | 'o' :: ds =>
      match (String.ofList ds).toNat? with
      | none => none
      | some k =>
        let rec goM : Nat → List String → List (Str × Val) → Option (List (Str × Val) × List String)
          | 0, r, acc => some (acc.reverse, r)
          | k + 1, r, acc =>
            match decValToks r with
            | some (.str key, r') =>
              match decValToks r' with
              | some (v, r'') => goM k r'' ((key, v) :: acc)
              | none => none
            | _ => none
        (goM k rest []).map (fun (kvs, r) => (.obj kvs, r))
    | _ => none

def decVal (tok : String) : Option Val :=
  match decValToks (tok.splitOn "/") with
  | some (v, []) => some v
  | _ => none

instance : Inhabited J := ⟨.null⟩

/-- a parse tree of the modelled `json.loads` in the driver's JSON: objects as lists of `[key, value]` pairs (all members, in source
    order), floats as the string `float` inside a one-element object -/
partial def jOfJV : PolicyFile.Json.JV → J
  | .null => .null
  | .bool b => .bool b
  | .int i => .num i
  | .float => .obj [("float", .null)]
  | .str v => .str v
  | .arr xs => .arr (xs.map jOfJV)
  | .obj kvs => .obj [("obj", .arr (kvs.map fun (k, v) => .arr [.str k, jOfJV v]))]

def jLoads (t : Str) : J :=
  match PolicyFile.Json.loads t with
  | .ok v => jok (jOfJV v)
  | .error .invalid => .obj [("err", .str "json".toList)]
  | .error .outOfModel => .obj [("err", .str "out-of-model".toList)]

def jTexts (v : Val) : J :=
  let c := dumpsCompact v
  let i := dumpsIndented v
  .obj [("compact", .str c), ("indented", .str i), ("loadsCompact", jLoads c), ("loadsIndented", jLoads i)]

/-- `<raw> <protocol> <software|~> <comments|~>` or a single `~` -/
def decBannerDoc : List String → Option (Option BannerDoc)
  | ["~"] => some none
  | [raw, pr, sw, cm] => do
    let raw ← decStr raw; let pr ← decStr pr; let sw ← decOptStr sw; let cm ← decOptStr cm
    pure (some { raw := raw, protocol := pr, software := sw, comments := cm })
  | _ => none

/-- the entries of the per-thread database that differ from the master copy when `output()` is called (the scan records host-key and
    modulus size findings there): `cat:name:slot|slot|…` joined by `;` (`_` = none); a slot is `,`-joined optional texts (`_` = empty) -/
def decSlot (tok : String) : Option (List (Option Str)) :=
  if tok = "_" then some [] else (tok.splitOn ",").mapM decOptStr

def decEdits (tok : String) : Option (List (Str × Str × List (List (Option Str)))) :=
  if tok = "_" then some [] else
  (tok.splitOn ";").mapM fun (e : String) =>
    match e.splitOn ":" with
    | [c, n, d] => do
      let c ← decStr c; let n ← decStr n; let d ← (d.splitOn "|").mapM decSlot
      pure (c, n, d)
    | _ => none

def applyEdits (db : DB) (es : List (Str × Str × List (List (Option Str)))) : DB :=
  es.foldl (fun d (c, n, desc) => Report.updateEntry d c n (fun _ => desc)) db

/-- `jd.dumps <value>`: the two texts of `json.dumps(v, sort_keys=True)` / `…, indent=4` and what the modelled `json.loads` makes of each.
    `jd.loads <text>`: the modelled `json.loads`.
    `jd.doc <host:port> <client|~> <fps> <role> <banner software|~> <banner comments|~> <rate notes> <kex> <key> <encC> <encS> <macC> <macS> <comp> <hostkeys> <dh> <db edits> <banner tokens…>`:
    the document of a standard audit of an SSH-2 peer (generated tables), as the two texts.
    `jd.doc1 <cmask> <amask> <hkBits> <hkE> <hkN> <client|~> <rate> <host:port> <sha256 text> <banner tokens of ssh1.report…>`: the else-branch for an SSH-1 peer.
    `jd.docnone <client|~> <host:port> <notes> <banner tokens of ssh1.report…>`: the else-branch without any peer data (error path). -/
def jsonDocOp (op : String) (args : List String) : Option J :=
  match op with
  | "jd.dumps" =>
    match args with
    | [v] => do let v ← decVal v; pure (jok (jTexts v))
    | _ => none
  | "jd.loads" =>
    match args with
    | [t] => do let t ← decStr t; pure (jLoads t)
    | _ => none
  | "jd.doc" =>
    match args with
    | hp :: cl :: fps :: role :: bsw :: bcm :: rn :: k :: key :: ec :: es :: mc :: ms :: c :: hk :: dh :: eds :: btoks => do
      let hp ← decStr hp; let cl ← decOptStr cl; let fps ← decFps fps
      let client ← decBool role
      let bsw ← decOptStr bsw; let bcm ← decOptStr bcm; let rate ← decStr rn
      let peer ← decPeerR [k, key, ec, es, mc, ms, c, hk, dh]
      let b ← decBannerDoc btoks
      let eds ← decEdits eds
      let m : Meta := { hostPort := hp, clientHost := cl, banner := b, fps := fps }
      let v := docOfAudit Gen.rsaFamily Gen.failUnknown (applyEdits Gen.ssh2db eds) peer client bsw (Version.parse bsw bcm) rate m
      pure (jok (jTexts v))
    | _ => none
  | "jd.doc1" =>
    match args with
    | cm :: am :: hb :: he :: hn :: cl :: rn :: hp :: sha :: btoks => do
      let cm ← decNat cm; let am ← decNat am; let hb ← decNat hb; let he ← decNat he; let hn ← decNat hn
      let cl ← decOptStr cl; let rn ← decStr rn; let hp ← decStr hp; let sha ← decStr sha
      let b ← decBanner1 btoks
      let pkm : Wire.Pkm := { cookie := [], skBits := 0, skE := 0, skN := 0, hkBits := hb, hkE := he, hkN := hn, pflags := 0, cmask := cm, amask := am }
      let x : Ssh1Report.Input := { pkm := pkm, banner := b, clientHost := cl, target := none, header := [], rateNotes := rn, hostPort := hp }
      let h : Ssh1Report.Hashes := { sha256 := fun _ => sha, md5 := fun _ => [] }
      pure (jok (jTexts (docElse (Ssh1Report.doc ssh1Tables h Gen.ssh1db Gen.ssh2db x))))
    | _ => none
  | "jd.docnone" =>
    match args with
    | cl :: hp :: notes :: btoks => do
      let cl ← decOptStr cl; let hp ← decStr hp; let notes ← decStrs notes
      let b ← decBanner1 btoks
      let d : Ssh1Report.Doc := {
        bannerRaw := match b with | some b => Banner.render b | none => [],
        bannerProtocol := b.map (fun b => Text.natToStr b.protocol.1 ++ ['.'] ++ Text.natToStr b.protocol.2),
        bannerSoftware := b.bind (·.software), bannerComments := b.bind (·.comments),
        clientIp := cl, target := if cl.isSome then none else some hp,
        key := [Ssh1Report.rsa1], enc := none, aut := none, fpType := Ssh1Report.rsa1, fp := none, recs := [], notes := notes }
      pure (jok (jTexts (docElse d)))
    | _ => none
  | _ => none

end SshAudit.Driver
