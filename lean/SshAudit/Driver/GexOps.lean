import SshAudit.Driver.WireOps
import SshAudit.Model.Gex
import SshAudit.Gen.Tables
namespace SshAudit.Driver
open SshAudit SshAudit.Gex

def decResp (tok : String) : Option Resp :=
  if tok = "f" then some .failed else if tok = "r" then some .noReconnect
  else if tok.startsWith "s" then (tok.drop 1).toNat?.map Resp.size else none

def decResps (tok : String) : Option (List Resp) :=
  if tok = "_" then some [] else (tok.splitOn ",").mapM decResp

/-- a server that answers the probes from a fixed list, in order (exhausted = refuses) -/
def streamSrv : List Resp → Probe → Resp × List Resp
  | [], _ => (.failed, [])
  | r :: rs, _ => (r, rs)

/-- entry description: slots separated by `;`, each `_` (empty) or `,`-separated optional strings -/
def decDesc (tok : String) : Option (List (List (Option Str))) :=
  (tok.splitOn ";").mapM fun (sl : String) =>
    if sl = "_" then some [] else (sl.splitOn ",").mapM decOptStr

def jdesc (d : List (List (Option Str))) : J := .arr (d.map fun l => .arr (l.map (J.ofOpt .str)))
def jprobe (p : Probe) : J := .arr [.nat p.1, .nat p.2.1, .nat p.2.2]

/-- `GEXTest.run`: every offered group-exchange algorithm in table order, stopping after a failed reconnect -/
def gexAudit (isOpenSSH : Bool) (kexList : List Str) (answers : List Resp) : List J :=
  let rec go (algs : List Str) (st : List Resp) (acc : List J) : List J :=
    match algs with
    | [] => acc
    | a :: rest =>
      if kexList.contains a then
        let res := run streamSrv st isOpenSSH
        let j := J.obj [("alg", .str a), ("reported", J.ofOpt J.nat res.reported), ("note", .bool res.fallbackNote),
                        ("probes", .arr (res.trace.map (fun pr => jprobe pr.1)))]
        if res.stop then acc ++ [j] else go rest res.srvSt (acc ++ [j])
      else go rest st acc
  go Gen.gexAlgs answers []

def styleOf (tok : String) : Option (List Nat → Unit → Probe → Resp × Unit) :=
  if tok = "strict" then some strict else if tok = "roundup" then some roundUp else if tok = "openssh" then some opensshStyle else none

def gexOp (op : String) (args : List String) : Option J :=
  match op, args with
  | "gex.audit", [o, k, a] => do
    let o ← decBool o; let k ← decStrs k; let a ← decResps a
    pure (jok (.arr (gexAudit o k a)))
  | "gex.rate", [d, n, f] => do
    let d ← decDesc d; let n ← decNat n; let f ← decBool f
    pure (jok (jdesc (rate d n f)))
  | "gex.family", [st, m, o] => do
    let st ← styleOf st
    let m ← if m = "_" then some [] else (m.splitOn ",").mapM (fun (x : String) => x.toNat?)
    let o ← decBool o
    let res := run (st m) () o
    pure (jok (.obj [("reported", J.ofOpt J.nat res.reported), ("note", .bool res.fallbackNote), ("probes", .arr (res.trace.map (fun pr => jprobe pr.1)))]))
  | _, _ => none

end SshAudit.Driver
