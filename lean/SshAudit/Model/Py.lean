/-
  Python semantics of the primitives the logic translator (`harness/translate_logic.py`) emits.  Hand-written, small, core Lean only.
  This file (with `Model/Text.lean`: `startsWith`, `endsWith`, `join`) is the whole trusted vocabulary of the generated
  `SshAudit.Gen.Logic`: `int` is `Int`, `str` is `List Char`, `bytes` is `List UInt8`, a partial operation (one that can raise) is
  `Option`-valued (`none` = "an exception is raised").
-/
import SshAudit.Model.Text
namespace SshAudit
namespace Py

/-- what the logic translator puts in the place of a function outside its subset (the `_eq_model` theorem then no longer type-checks) -/
structure Untranslatable where
  reason : String

/-! ### `& | ^` on unbounded two's-complement integers (`Int.negSucc n` is `~n`) -/

def band : Int → Int → Int
  | .ofNat m, .ofNat n => .ofNat (m &&& n)
  | .ofNat m, .negSucc n => .ofNat (m ^^^ (m &&& n))       -- m & ~n : the bits of m that are not in n
  | .negSucc m, .ofNat n => .ofNat (n ^^^ (n &&& m))
  | .negSucc m, .negSucc n => .negSucc (m ||| n)           -- ~m & ~n = ~(m | n)

def bor : Int → Int → Int
  | .ofNat m, .ofNat n => .ofNat (m ||| n)
  | .ofNat m, .negSucc n => .negSucc (n ^^^ (n &&& m))     -- m | ~n = ~(n & ~m)
  | .negSucc m, .ofNat n => .negSucc (m ^^^ (m &&& n))
  | .negSucc m, .negSucc n => .negSucc (m &&& n)           -- ~m | ~n = ~(m & n)

def bxor : Int → Int → Int
  | .ofNat m, .ofNat n => .ofNat (m ^^^ n)
  | .ofNat m, .negSucc n => .negSucc (m ^^^ n)             -- m ^ ~n = ~(m ^ n)
  | .negSucc m, .ofNat n => .negSucc (m ^^^ n)
  | .negSucc m, .negSucc n => .ofNat (m ^^^ n)

/-- `a // b` (`ZeroDivisionError` for `b == 0`) -/
def floordiv (a b : Int) : Option Int := if b = 0 then none else some (Int.fdiv a b)
/-- `a % b` (`ZeroDivisionError` for `b == 0`) -/
def mod (a b : Int) : Option Int := if b = 0 then none else some (Int.fmod a b)
/-- `a >> b` (`ValueError` for a negative count) -/
def shr (a b : Int) : Option Int := if b < 0 then none else some (a >>> b.toNat)
/-- `a << b` (`ValueError` for a negative count) -/
def shl (a b : Int) : Option Int := if b < 0 then none else some (a <<< b.toNat)

/-! ### sequences -/

/-- `xs[i]` (`IndexError` outside `-len .. len-1`) -/
def getItem (xs : List α) (i : Int) : Option α :=
  if 0 ≤ i then xs[i.toNat]?
  else if -(xs.length : Int) ≤ i then xs[((xs.length : Int) + i).toNat]?
  else none

/-- `xs` with position `n` replaced, `none` when there is no such position (one pass, no `length`: cheap to evaluate) -/
def setAt? : List α → Nat → α → Option (List α)
  | [], _, _ => none
  | _ :: xs, 0, v => some (v :: xs)
  | x :: xs, n + 1, v =>
    match setAt? xs n v with
    | some r => some (x :: r)
    | none => none

/-- `xs[i] = v` on a list -/
def setItem (xs : List α) (i : Int) (v : α) : Option (List α) :=
  if 0 ≤ i then setAt? xs i.toNat v
  else if -(xs.length : Int) ≤ i then setAt? xs ((xs.length : Int) + i).toNat v
  else none

/-- a slice bound as Python clamps it -/
def normIdx (len : Nat) (i : Int) : Nat := if i < 0 then ((len : Int) + i).toNat else min i.toNat len
/-- `xs[lo:hi]` -/
def slice (xs : List α) (lo hi : Int) : List α := (xs.take (normIdx xs.length hi)).drop (normIdx xs.length lo)
/-- `xs[lo:]` -/
def sliceFrom (xs : List α) (lo : Int) : List α := xs.drop (normIdx xs.length lo)
/-- `xs[:hi]` -/
def sliceTo (xs : List α) (hi : Int) : List α := xs.take (normIdx xs.length hi)

/-- `ord(b)` of a `bytes` value (`TypeError` unless its length is 1) -/
def ordB : Bytes → Option Int
  | [x] => some (Int.ofNat x.toNat)
  | _ => none
/-- `ord(s)` of a `str` value -/
def ordS : Str → Option Int
  | [c] => some (Int.ofNat c.toNat)
  | _ => none

/-- `[v] * n` -/
def replicate (n : Int) (v : α) : List α := List.replicate n.toNat v
/-- `range(n)` -/
def range (n : Int) : List Int := (List.range n.toNat).map Int.ofNat

/-- a `for` loop whose body can raise: the accumulator after the last pass, `none` as soon as a pass raises -/
def foldlOpt (f : β → α → Option β) : β → List α → Option β
  | b, [] => some b
  | b, x :: xs =>
    match f b x with
    | some b' => foldlOpt f b' xs
    | none => none

/-- `'%d' % i` (also `%u`, which CPython treats as `%d`) -/
def fmtD (i : Int) : Str := if i < 0 then '-' :: Text.natToStr (-i).toNat else Text.natToStr i.toNat

/-- position of the first element equal to `v` -/
def indexOfNat [BEq α] : List α → α → Option Nat
  | [], _ => none
  | x :: xs, v => if x == v then some 0 else (indexOfNat xs v).map (· + 1)
/-- `xs.index(v)` (`ValueError` when absent) -/
def indexOf [BEq α] (xs : List α) (v : α) : Option Int := (indexOfNat xs v).map Int.ofNat

/-- `del xs[i]` (`IndexError` outside `-len .. len-1`) -/
def delItem (xs : List α) (i : Int) : Option (List α) :=
  if 0 ≤ i then (if i.toNat < xs.length then some (xs.eraseIdx i.toNat) else none)
  else if -(xs.length : Int) ≤ i then some (xs.eraseIdx ((xs.length : Int) + i).toNat)
  else none

/-- `xs.insert(i, v)` (the position is clamped like a slice bound: never raises) -/
def insert (xs : List α) (i : Int) (v : α) : List α :=
  let k := normIdx xs.length i
  xs.take k ++ v :: xs.drop k

/-- `while len(xs) < n: xs.append(v)` -/
def padTo (xs : List α) (n : Int) (v : α) : List α := xs ++ List.replicate (n - (xs.length : Int)).toNat v

/-- position of the first occurrence of `t` in `s` at or after `k` places from the start of the original text -/
def findFrom (t : Str) : Str → Nat → Option Nat
  | [], k => if t.isEmpty then some k else none
  | c :: cs, k => if t.isPrefixOf (c :: cs) then some k else findFrom t cs (k + 1)

/-- `s.find(t)`: index of the first occurrence, `-1` when there is none -/
def find (s t : Str) : Int :=
  match findFrom t s 0 with
  | some k => (k : Int)
  | none => -1

/-- `b * k` on bytes (empty for `k ≤ 0`) -/
def repeatB (b : Bytes) (k : Int) : Bytes := (List.replicate k.toNat b).flatten

/-- `range(a, b, c)` for a positive step -/
def range3 (a b c : Int) : List Int :=
  if c ≤ 0 then [] else (List.range ((b - a + c - 1) / c).toNat).map (fun (i : Nat) => a + c * (i : Int))

/-- big-endian value of a byte string -/
def beNat (b : Bytes) : Nat := b.foldl (fun a x => a * 256 + x.toNat) 0

/-- `struct.unpack(fmt, b)[0]` for the one-field formats the code uses (`struct.error` — `none` — for a buffer of the wrong size and for
    any other format) -/
def unpack1 (fmt : Str) (b : Bytes) : Option Int :=
  if fmt = ['>', 'I'] then (if b.length = 4 then some (beNat b : Int) else none)
  else if fmt = ['>', 'i'] then (if b.length = 4 then some (if beNat b < 2 ^ 31 then (beNat b : Int) else (beNat b : Int) - 2 ^ 32) else none)
  else if fmt = ['>', 'H'] then (if b.length = 2 then some (beNat b : Int) else none)
  else if fmt = ['B'] then (if b.length = 1 then some (beNat b : Int) else none)
  else none

/-- the low `L` base-256 digits of `m` as bytes, most significant first -/
def beBytes (m : Nat) : Nat → Bytes
  | 0 => []
  | L+1 => beBytes (m / 256) L ++ [UInt8.ofNat (m % 256)]

/-- `struct.pack(fmt, *xs)` for the formats `'>kQ'` the code builds with `'>{}Q'.format(k)` (`k` in canonical decimal): `k` unsigned 64-bit
    big-endian fields.  `struct.error` — `none` — when `k` is not the number of values or a value is outside `0 .. 2^64-1`; any other spelling of
    a format is `none` too (the code never builds one) -/
def packQ (fmt : Str) (xs : List Int) : Option Bytes :=
  if fmt = '>' :: (fmtD (Int.ofNat xs.length) ++ ['Q']) ∧ (∀ x ∈ xs, 0 ≤ x ∧ x < 18446744073709551616) then
    some (xs.flatMap fun x => beBytes x.toNat 8)
  else none

/-- `b.startswith(p)` on bytes -/
def startsWithB (b p : Bytes) : Bool := p.isPrefixOf b
/-- `b.lstrip(cs)` on bytes: leading bytes that occur in `cs` removed -/
def lstripB (b cs : Bytes) : Bytes := b.dropWhile (fun x => cs.contains x)

/-! ### the definitions agree with CPython on sampled values (expected values computed with CPython 3.12) -/
example : band (-6) 29 = 24 ∧ band 29 (-6) = 24 ∧ band (-6) (-29) = -30 ∧ band 4242 999 = 130 := by decide
example : bor (-6) 29 = -1 ∧ bor 29 (-7) = -3 ∧ bor (-6) (-29) = -5 ∧ bor 4242 999 = 5111 ∧ bor (-100) 33 = -67 := by decide
example : bxor (-6) 29 = -25 ∧ bxor 29 (-6) = -25 ∧ bxor (-6) (-29) = 25 ∧ bxor 4242 999 = 4981 := by decide
example : band (-256) 65535 = 65280 ∧ band 65535 (-256) = 65280 ∧ bor 5 (-256) = -251 ∧ bor (-256) 5 = -251 := by decide
example : floordiv (-7) 2 = some (-4) ∧ mod (-7) 2 = some 1 ∧ floordiv 7 (-2) = some (-4) ∧ mod 7 (-2) = some (-1) ∧ mod 7 0 = none := by decide
example : shr (-9) 1 = some (-5) ∧ shr 9 (-1) = none ∧ shl 3 4 = some 48 ∧ ((-9 : Int) >>> 3) = -2 := by decide
example : slice [1, 2, 3, 4, 5] 1 (-1) = [2, 3, 4] ∧ slice [1, 2, 3, 4, 5] (-2) 9 = [4, 5] ∧ slice [1, 2, 3] 2 1 = ([] : List Nat)
    ∧ slice [1, 2, 3] (-7) 2 = [1, 2] ∧ sliceFrom [1, 2, 3] (-1) = [3] ∧ sliceTo [1, 2, 3] (-1) = [1, 2] ∧ sliceTo [1, 2, 3] (-5) = ([] : List Nat) := by decide
example : getItem [1, 2, 3] (-1) = some 3 ∧ getItem [1, 2, 3] 3 = none ∧ getItem [1, 2, 3] (-4) = (none : Option Nat)
    ∧ setItem [1, 2, 3] (-3) 9 = some [9, 2, 3] ∧ setItem [1, 2, 3] 3 9 = none := by decide

example : delItem [1, 2, 3] 1 = some [1, 3] ∧ delItem [1, 2, 3] (-1) = some [1, 2] ∧ delItem [1, 2, 3] 3 = none ∧ delItem [1, 2, 3] (-4) = (none : Option (List Nat))
    ∧ insert [1, 2, 3] 1 9 = [1, 9, 2, 3] ∧ insert [1, 2, 3] 7 9 = [1, 2, 3, 9] ∧ insert [1, 2, 3] (-1) 9 = [1, 2, 9, 3] ∧ insert [1, 2, 3] (-9) 9 = [9, 1, 2, 3]
    ∧ padTo [1] 3 0 = [1, 0, 0] ∧ padTo [1, 2, 3] 2 0 = [1, 2, 3] := by decide
example : find "OpenSSH_8.9".toList "SSH".toList = 4 ∧ find "abc".toList "x".toList = -1 ∧ find "abc".toList [] = 0 ∧ find [] [] = 0
    ∧ find "aab".toList "ab".toList = 1 ∧ find "ab".toList "abc".toList = -1 := by decide
example : repeatB [255] 3 = [255, 255, 255] ∧ repeatB [0] (-1) = [] ∧ range3 0 10 4 = [0, 4, 8] ∧ range3 0 8 4 = [0, 4] ∧ range3 0 0 4 = []
    ∧ unpack1 ['>', 'I'] [255, 255, 255, 254] = some 4294967294 ∧ unpack1 ['>', 'i'] [255, 255, 255, 254] = some (-2)
    ∧ unpack1 ['>', 'i'] [127, 0, 0, 1] = some 2130706433 ∧ unpack1 ['>', 'I'] [1, 2, 3] = none ∧ unpack1 ['>', 'H'] [1, 2] = some 258 := by decide
example : fmtD 0 = ['0'] ∧ fmtD (-12) = ['-', '1', '2'] ∧ fmtD 3072 = ['3', '0', '7', '2'] := by decide
example : indexOf [(0 : Int), 2, 3, 1, -1] 1 = some 3 ∧ indexOf [(0 : Int), 2, 3, 1, -1] 7 = none ∧ indexOf [(5 : Int), 5] 5 = some 0 := by decide
example : packQ ">2Q".toList [1, 18446744073709551615] = some [0, 0, 0, 0, 0, 0, 0, 1, 255, 255, 255, 255, 255, 255, 255, 255]
    ∧ packQ ">0Q".toList [] = some [] ∧ packQ ">1Q".toList [-1] = none ∧ packQ ">1Q".toList [18446744073709551616] = none
    ∧ packQ ">2Q".toList [1] = none ∧ packQ ">1Q".toList [72623859790382856] = some [1, 2, 3, 4, 5, 6, 7, 8] := by decide
example : startsWithB [255, 128, 1] [255, 128] = true ∧ startsWithB [255] [255, 128] = false ∧ startsWithB [] [] = true
    ∧ lstripB [0, 0, 1, 0] [0] = [1, 0] ∧ lstripB [0, 0] [0] = [] ∧ lstripB [1, 0] [0] = [1, 0] := by decide

end Py
end SshAudit
