/- Helper lemmas for the report model (C01, C03, C04, C13).  Core Lean only. -/
import SshAudit.Model.Report
namespace SshAudit.Report
open SshAudit

/-! ### `algLines` is a list homomorphism -/

theorem algLines_append (rf : List Str) (db : DB) (cat : Str) (xs ys : List Str) (hk : List (Str × HostKeyInfo)) (dh : List (Str × Nat)) :
    algLines rf db cat (xs ++ ys) hk dh = algLines rf db cat xs hk dh ++ algLines rf db cat ys hk dh := by
  simp [algLines, List.filterMap_append]

theorem algLines_nil (rf : List Str) (db : DB) (cat : Str) (hk : List (Str × HostKeyInfo)) (dh : List (Str × Nat)) :
    algLines rf db cat [] hk dh = [] := rfl

theorem algLines_cons (rf : List Str) (db : DB) (cat : Str) (n : Str) (ns : List Str) (hk : List (Str × HostKeyInfo)) (dh : List (Str × Nat)) :
    algLines rf db cat (n :: ns) hk dh = algLines rf db cat [n] hk dh ++ algLines rf db cat ns hk dh :=
  algLines_append rf db cat [n] ns hk dh

/-- is a line printed for this name? (`len(alg_name.strip()) == 0` on the normalised name) -/
def printed (cat n : Str) : Bool := !(Text.stripU (gssNormalize cat n)).isEmpty

theorem algTexts_isSome (db : DB) (cat n : Str) : (algTexts db cat n).isSome = printed cat n := by
  unfold algTexts printed
  simp only
  split
  · next h => simp [h]
  · next h => split <;> simp [h]

theorem algLines_single (rf : List Str) (db : DB) (cat n : Str) (hk : List (Str × HostKeyInfo)) (dh : List (Str × Nat)) :
    algLines rf db cat [n] hk dh =
      match algTexts db cat n with
      | some (ts, unk) => [{ cat := cat, name := n, shown := shownName rf cat n hk dh, notes := ts, unknown := unk }]
      | none => [] := by
  unfold algLines
  cases h : algTexts db cat n with
  | none => simp [h]
  | some v => obtain ⟨ts, unk⟩ := v; simp [h]

theorem algLines_names (rf : List Str) (db : DB) (cat : Str) (ns : List Str) (hk : List (Str × HostKeyInfo)) (dh : List (Str × Nat)) :
    (algLines rf db cat ns hk dh).map (·.name) = ns.filter (printed cat) := by
  induction ns with
  | nil => rfl
  | cons n ns ih =>
    rw [algLines_cons, List.map_append, ih, algLines_single]
    have hp := algTexts_isSome db cat n
    cases h : algTexts db cat n with
    | none => rw [h] at hp; simp [List.filter_cons, ← hp]
    | some v => obtain ⟨ts, unk⟩ := v; rw [h] at hp; simp [List.filter_cons, ← hp]

/-! ### `rindex` -/

theorem findIdx?_append_of_not_mem (c : Char) (b rest : List Char) (h : c ∉ b) :
    (b ++ c :: rest).findIdx? (· = c) = some b.length := by
  induction b with
  | nil => simp [List.findIdx?_cons]
  | cons x xs ih =>
    have hx : x ≠ c := by intro e; apply h; simp [e]
    have hxs : c ∉ xs := by intro e; apply h; simp [e]
    simp [List.findIdx?_cons, hx, ih hxs]

theorem rindex_last (c : Char) (a b : Str) (h : c ∉ b) : Text.rindex c (a ++ c :: b) = some a.length := by
  unfold Text.rindex
  have hr : (a ++ c :: b).reverse = b.reverse ++ c :: a.reverse := by simp
  have hnb : c ∉ b.reverse := by simpa using h
  rw [hr, findIdx?_append_of_not_mem c b.reverse a.reverse hnb]
  simp only [List.length_reverse, List.length_append, List.length_cons]
  congr 1; omega

/-! ### database updates commute with lookups -/

theorem find?_map_fst {β : Type} (l : List (Str × β)) (g : Str × β → Str × β) (hg : ∀ x, (g x).1 = x.1) (c : Str) :
    (l.map g).find? (·.1 = c) = (l.find? (·.1 = c)).map g := by
  induction l with
  | nil => rfl
  | cons x xs ih =>
    simp only [List.map_cons, List.find?_cons, hg]
    by_cases h : x.1 = c <;> simp [h, ih]

theorem cat_updateEntry (db : DB) (cat name : Str) (f : List (List (Option Str)) → List (List (Option Str))) (c : Str) :
    DBm.cat (updateEntry db cat name f) c =
      if c = cat then (DBm.cat db c).map (fun e => if e.name = name then { e with desc := f e.desc } else e) else DBm.cat db c := by
  unfold DBm.cat updateEntry
  rw [find?_map_fst _ _ (by intro x; obtain ⟨a, b⟩ := x; simp only; split <;> rfl)]
  cases h : db.find? (·.1 = c) with
  | none => simp
  | some ce =>
    obtain ⟨c', es⟩ := ce
    have hc : c' = c := by have := List.find?_some h; simpa using this
    subst hc
    by_cases hcc : c' = cat
    · simp [hcc]
    · simp [hcc]

theorem keys_updateEntry (db : DB) (cat name : Str) (f : List (List (Option Str)) → List (List (Option Str))) (c : Str) :
    DBm.keys (updateEntry db cat name f) c = DBm.keys db c := by
  unfold DBm.keys
  rw [cat_updateEntry]
  split
  · rw [List.map_map]; congr 1; funext e; simp only [Function.comp]; split <;> rfl
  · rfl

theorem find?_map_name (es : List Entry) (g : Entry → Entry) (hg : ∀ e, (g e).name = e.name) (n : Str) :
    (es.map g).find? (·.name = n) = (es.find? (·.name = n)).map g := by
  induction es with
  | nil => rfl
  | cons x xs ih =>
    simp only [List.map_cons, List.find?_cons, hg]
    by_cases h : x.name = n <;> simp [h, ih]

theorem lookup_updateEntry (db : DB) (cat name : Str) (f : List (List (Option Str)) → List (List (Option Str))) (c n : Str) :
    DBm.lookup (updateEntry db cat name f) c n =
      if c = cat ∧ n = name then (DBm.lookup db c n).map (fun e => { e with desc := f e.desc }) else DBm.lookup db c n := by
  unfold DBm.lookup
  rw [cat_updateEntry]
  by_cases hc : c = cat
  · simp only [hc, if_true, true_and]
    rw [find?_map_name _ _ (by intro e; split <;> rfl)]
    cases h : (DBm.cat db cat).find? (·.name = n) with
    | none => simp
    | some e =>
      have hn : e.name = n := by have := List.find?_some h; simpa using this
      by_cases hnn : n = name
      · subst hnn; simp [hn]
      · have : ¬ e.name = name := by rw [hn]; exact hnn
        simp [hnn, this]
  · simp [hc]

end SshAudit.Report
