"""C01 — Report lists exactly the algorithms the peer advertised.

Theorems: SshAudit.Props.C01 (names shown per category = advertised non-blank names in order with
multiplicity, for every list/database state/role; shown name = name + optional size suffix;
compression; SSH-1 masks ↔ bits; KEXINIT bytes → lists via C10).
Tie: KEXINIT payload bytes → real SSH2_Kex.parse → real output() under {plain, batch, verbose} ×
{server, client} × {text, JSON}; the batch text records and the JSON are compared with the model's
`report`; all 128 × 64 SSH-1 masks with `ssh1.masks`.
Oracle: an independent 20-line KEXINIT reader gives the advertised lists; the names extracted from the
implementation's own output must equal them (non-blank ones, in order, once per occurrence).
"""
import json

from common import Coverage, tbytes
from props import report_common as rc
from props import peergen as pg

ID = 'C01'
MODULE = 'SshAudit.Props.C01'
NAMESPACE = 'SshAudit.C01'
THEOREMS = ['text_names_exact', 'lines_in_category', 'printed_plain', 'role_irrelevant', 'shown_name_prefix', 'compression_text',
            'maskFrom_mem', 'mask_mem', 'maskFrom_sublist', 'mask_sublist', 'kexinit_lists_from_bytes']
EXTENSIONS = ['props.ext.C01_ssh1']
GEN_LOGIC = ['kex_parse']            # SSH2_Kex.parse assigns the ten name-lists in wire order (Props/GenLogic6); the round trip with the writer is C10's
GEN_LOGIC_COROLLARIES = False
TECHNIQUE = 'Lean 4 theorems (list homomorphism / filter identities by induction over arbitrary lists; bit-mask membership and sublist by induction) + byte-to-report correspondence through SSH2_Kex.parse and output()'
LEVEL_TEXT = ('For every name-list, database state, role and size map the model report lists per category exactly the advertised non-blank names (order, multiplicity), never moves a name '
              'between categories and only ever appends a size suffix; SSH-1 masks list exactly the set bits in table order. The model is tied to the code by feeding generated KEXINIT bytes '
              'through the real parser and output() in text (plain/batch/verbose, both roles) and JSON, and comparing with the model and with an independent KEXINIT reader.')
LEVEL_NOTE = ('Trusted: Lean kernel, harness, the UTF-8 decoder (external: applied per name). Whitespace-only names are outside RFC 4251 and the quantifier: the text report drops them, JSON keeps them (observation D25). '
              'The text parser of the harness needs names without " -- [" and without control characters. SSH-1 JSON lists were null before the D08 repair.')


def gen_wire_lists(r):
    lists = []
    for i, cat in enumerate(['kex', 'key', 'enc', 'enc', 'mac', 'mac', None, None, None, None]):
        if cat is None:
            lists.append(r.choice([[b'none'], [b'none', b'zlib@openssh.com'], [b'zlib', b'none'], [b''], [b'zlib@openssh.com', b'zlib'], [b'zlib'], [b'zlib', b'zlib', b'none', b'none'], [b'none', b'lz4@example.org']]) if i < 8 else [b''])
            continue
        names = [n.encode() for n in pg.gen_list(r, cat)]
        if r.random() < 0.04:
            names.insert(r.randint(0, len(names)), bytes(r.choice([0xff, 0xc3, 0xa9, 0xe2, 0x82, 0x80, 0x41, 0x62]) for _ in range(r.randint(1, 6))))
        if r.random() < 0.04:   # names that are blank only to a Unicode-aware strip() (EN SPACE, NBSP, IDEOGRAPHIC SPACE, NEL, LINE SEPARATOR, FS) and names containing such characters
            ws = r.choice(['\u2002', '\xa0', '\u3000', '\x85', '\u2028', '\x1c', '\u2002\xa0', ' \u3000 '])
            names.insert(r.randint(0, len(names)), (ws if r.random() < 0.7 else 'a' + ws + 'b').encode('utf-8'))
        lists.append(names)
    # compression s->c is list 7; make c->s equal most of the time
    if r.random() < 0.8:
        lists[6] = lists[7]
    if r.random() < 0.7:      # symmetric directions (typical) vs. different client/server lists
        lists[2] = lists[3]
        lists[4] = lists[5]
    return lists


def names_from_records(records, verbose):
    algs = rc.parse_alg_records(records, verbose=verbose)
    return {c: [x[0].rstrip(' ') if not x[0].strip() == '' else x[0] for x in algs[c]] for c in rc.CATS}


def dedup_consecutive(l):
    out = []
    for x in l:
        if not out or out[-1] != x:
            out.append(x)
    return out


def run(ctx):
    from ssh_audit.ssh2_kex import SSH2_Kex
    from ssh_audit.ssh1_publickeymessage import SSH1_PublicKeyMessage
    from ssh_audit.banner import Banner
    from ssh_audit import ssh_audit as sa
    from ssh_audit.auditconf import AuditConf
    import fakenet
    r = ctx.rng
    cov = Coverage('one evaluation = one rendering (KEXINIT payload x role x format/mode) through the real SSH2_Kex.parse + output(); non-trivial = distinct payloads with at least one '
                   'category of >= 2 names; lists: database names (60%), unknown RFC-4251 names, gss names with random base64 suffix incl. = + /, duplicates, 100-300-char names, empty lists, '
                   'blank names, 4% non-UTF-8 names; SSH-1: all 128 x 64 masks')
    failures, mismatches = [], []
    lines, expect = [], []

    def fail(kind, inp, observed, expected):
        failures.append({'sig': {'kind': kind}, 'input': inp, 'observed': observed, 'expected': expected,
                         'how': 'harness/props/C01.py: SSH2_Kex.parse(payload) + output() on the real code'})
    n_cases = ctx.scale(350, 6000)
    for i in range(n_cases):
        wl = gen_wire_lists(r)
        payload = pg.kexinit_bytes(wl)
        adv = pg.independent_kexinit_reader(payload)
        dec = [[n.decode('utf-8', 'replace') for n in l] for l in adv]
        want = {'kex': dec[0], 'key': dec[1], 'enc': dec[3], 'mac': dec[5]}
        kex = SSH2_Kex.parse(None, payload)
        peer = {'kex': kex.kex_algorithms, 'key': kex.key_algorithms, 'encC': kex.client.encryption, 'encS': kex.server.encryption,
                'macC': kex.client.mac, 'macS': kex.server.mac, 'comp': kex.server.compression, 'host_keys': {}, 'dh': {}}
        inp = {'kexinit_payload_hex': payload.hex()}
        nontriv = any(len(v) >= 2 for v in want.values())
        for client in (False, True):
            for mode in ('batch', 'plain', 'verbose'):
                ret, out, text, banner = rc.run_output(peer, client=client, batch=(mode == 'batch'), verbose=(mode == 'verbose'))
                got = names_from_records(out.records, verbose=(mode == 'verbose'))
                cov.add((payload, client, mode), nontriv, tags=['text-' + mode, 'client' if client else 'server'],
                        sample={'lists': {k: v[:6] for k, v in want.items()}, 'mode': mode, 'client': client} if i % 997 == 0 and mode == 'batch' else None)
                for c in rc.CATS:
                    exp = [n for n in want[c] if n.strip() != '']
                    if mode != 'batch':
                        exp = [n.rstrip(' ') for n in exp]
                    g = got[c]
                    if mode == 'verbose':
                        g, exp = dedup_consecutive(g), dedup_consecutive(exp)
                    if g != exp:
                        fail('text_names_differ', dict(inp, client=client, mode=mode, category=c), g[:12], exp[:12])
                if mode == 'batch':
                    comp_line = [s for lvl, s, _, _ in out.records if s.startswith('(gen) compression: ')]
                    expc = [x for x in dec[7] if x != 'none']
                    expline = '(gen) compression: ' + ('enabled (%s)' % ', '.join(expc) if expc else 'disabled')
                    if comp_line != [expline]:
                        fail('compression_line', dict(inp, client=client), comp_line, expline)
            # JSON
            jret, jout, jtext, banner = rc.run_output(peer, client=client, batch=False, use_json=True)
            doc = json.loads(jtext)
            cov.add((payload, client, 'json'), nontriv, tags=['json', 'client' if client else 'server'])
            for c in rc.CATS:
                g = [e['algorithm'] for e in doc[c]]
                if g != want[c]:
                    fail('json_names_differ', dict(inp, client=client, category=c), g[:12], want[c][:12])
            if doc['compression'] != dec[7]:
                fail('json_compression', dict(inp, client=client), doc['compression'], dec[7])
            if doc['banner']['raw'] != 'SSH-2.0-OpenSSH_8.0' or doc['banner']['software'] != 'OpenSSH_8.0' or doc['banner']['protocol'] != '2.0':
                fail('json_banner', dict(inp, client=client), doc['banner'], 'the banner as sent')
            # model correspondence (batch text structure + JSON)
            imp = rc.impl_report(peer, client=client)
            lines.append(rc.report_line(peer, client, imp['banner']))
            expect.append((imp, inp, client))
        # byte level: the model's KEXINIT parser sees the same lists
        lines.append('kex.parse %s' % tbytes(payload))
        expect.append(('kexparse', [[n.decode('utf-8', 'replace') for n in l] for l in adv], inp))
    model = ctx.driver(lines) if ctx.driver_ok else []
    for line, m, ex in zip(lines, model, expect):
        if ex[0] == 'kexparse':
            mm = m.get('ok', {})
            got = [[bytes.fromhex(x).decode('utf-8', 'replace') for x in mm.get(k, [])] for k in ('kex', 'key', 'encC', 'encS', 'macC', 'macS', 'compC', 'compS', 'langC', 'langS')]
            if got != ex[1]:
                mismatches.append({'stream': 'kex.parse', 'op': line[:300], 'model': got, 'impl': ex[1]})
            continue
        imp, inp, client = ex
        d = rc.compare(rc.canon_model(m), imp) if 'ok' in m else ['model error %r' % m]
        if d:
            mismatches.append({'stream': 'report', 'op': line[:400], 'model': d[:3], 'impl': inp, 'client': client})
    # SSH-1 masks, exhaustively
    ml, mexp = [], []
    step = 1 if ctx.tier == 'thorough' else 3
    for cmask in range(0, 128, 1):
        for amask in range(0, 64, step):
            pkm = SSH1_PublicKeyMessage(b'\0' * 8, (768, 65537, 0x1234567), (1024, 65537, 0x7654321), 2, cmask, amask)
            ciphers, auths = pkm.supported_ciphers, pkm.supported_authentications
            from ssh_audit.ssh1 import SSH1
            wc = [SSH1.CIPHERS[i] for i in range(7) if cmask >> i & 1]
            wa = [SSH1.AUTHS[i] for i in range(1, 7) if amask >> i & 1]
            cov.add(('ssh1', cmask, amask), cmask != 0 or amask != 0, tags=['ssh1-mask'])
            if ciphers != wc or auths != wa:
                fail('ssh1_mask_lists', {'cmask': cmask, 'amask': amask}, [ciphers, auths], [wc, wa])
            ml.append('ssh1.masks %d %d' % (cmask, amask))
            mexp.append([ciphers, auths])
            if (cmask * 64 + amask) % (37 if ctx.tier != 'thorough' else 5) == 0 and cmask != 0 and amask > 1:
                # the SSH-1 report (text and JSON) lists exactly these
                fakenet.reset_dbs()
                out = rc.recording_buffer()
                out.batch, out.use_colors = True, False
                aconf = AuditConf('h', 22)
                aconf.batch, aconf.colors = True, False
                sa.output(out, aconf, Banner.parse('SSH-1.5-OpenSSH_3.9'), [], pkm=pkm)
                algs = rc.parse_alg_records(out.records)
                got = [[x[0] for x in algs['enc']], [x[0] for x in algs['aut']]]
                if got != [wc, wa]:
                    fail('ssh1_text_lists', {'cmask': cmask, 'amask': amask}, got, [wc, wa])
                fakenet.reset_dbs()
                out = rc.recording_buffer()
                aconf.json = True
                sa.output(out, aconf, Banner.parse('SSH-1.5-OpenSSH_3.9'), [], pkm=pkm)
                doc = json.loads(out.get_buffer())
                if [doc.get('enc'), doc.get('aut')] != [wc, wa]:
                    fail('ssh1_json_lists', {'cmask': cmask, 'amask': amask}, [doc.get('enc'), doc.get('aut')], [wc, wa])
    # whole audits through main() (handshake, host-key and group-exchange probes, report): the names listed are still exactly the ones advertised —
    # the probe phase re-uses the parsed lists when it builds its own KEXINITs and must not change them
    for k in range(ctx.scale(25, 400)):
        wl = gen_wire_lists(r)
        wl[0] = [b'curve25519-sha256'] + [n for n in wl[0] if n != b'curve25519-sha256'][:4] + ([b'diffie-hellman-group-exchange-sha256'] if k % 3 == 0 else [])
        wl[1] = [b'ssh-ed25519', b'rsa-sha2-512'] + [n for n in wl[1] if n not in (b'ssh-ed25519', b'rsa-sha2-512')][:3]
        for i_ in (2, 3, 4, 5):          # 'none' and other names a cautious client would not offer, in every direction
            wl[i_] = list(wl[i_]) + ([b'none'] if k % 2 == 0 else []) + ([b'3des-cbc', b'arcfour'] if i_ < 4 and k % 4 == 0 else [])
        payload = pg.kexinit_bytes(wl)
        adv = pg.independent_kexinit_reader(payload)
        dec = [[n.decode('utf-8', 'replace') for n in l] for l in adv]
        want = {'kex': dec[0], 'key': dec[1], 'enc': dec[3], 'mac': dec[5]}
        # a notice before the identification string, long enough that the tool's 2048-byte read ends inside the banner line (seed C01-9)
        pre = (b'N' * r.randint(2005, 2046) + b'\r\n') if k % 4 == 1 else (b'Welcome\r\n' if k % 4 == 3 else b'')
        srv = fakenet.Server(banner=b'SSH-2.0-OpenSSH_8.0', kexinit_payload=b'\x14' + payload, hostkeys={'ssh-ed25519': fakenet.ed25519_blob(), 'rsa-sha2-512': fakenet.rsa_blob(3072)},
                             gex=lambda a, b_, c: 3072 if c >= 3072 else None, pre_banner=pre)
        for extra in ([], ['-j']):
            net = fakenet.FakeNet({'10.1.0.1': srv})
            code, text = fakenet.run_main(['-n', '--skip-rate-test'] + extra + ['10.1.0.1'], net)
            cov.add(('e2e', payload, tuple(extra)), True, tags=['whole-audit', 'json' if extra else 'text'])
            inp = {'kexinit_payload_hex': payload.hex(), 'whole_audit': True, 'args': extra, 'pre_banner_len': len(pre)}
            if extra:
                try:
                    doc = json.loads(text)
                    got = {c: [e['algorithm'] for e in doc[c]] for c in rc.CATS}
                except Exception:
                    got = None
                exp = want
            else:
                got = {c: [] for c in rc.CATS}
                for line in text.split('\n'):
                    for c in rc.CATS:
                        if line.startswith('(%s) ' % c) and not line.startswith('(%s) `- ' % c):
                            got[c].append(line[6:].split(' -- ')[0].rstrip(' ').split(' (')[0])
                exp = {c: [n for n in want[c] if n.strip() != ''] for c in rc.CATS}
            if len(net.connects) < 2:
                raise RuntimeError('C01 whole-audit stage: no probe connection was made')
            # compression methods and banner as sent (the probes hand the parsed compression list to send_kexinit as well: seed C01-7)
            if extra:
                gotc, expc_ = (doc.get('compression') if got is not None else None), dec[7]
                gotb, expb = ((doc.get('banner') or {}).get('raw') if got is not None else None), 'SSH-2.0-OpenSSH_8.0'
            else:
                cl = [l for l in text.split('\n') if l.startswith('(gen) compression: ')]
                ec = [x for x in dec[7] if x != 'none']
                gotc, expc_ = cl, ['(gen) compression: ' + ('enabled (%s)' % ', '.join(ec) if ec else 'disabled')]
                bl = [l for l in text.split('\n') if l.startswith('(gen) banner: ')]
                gotb, expb = bl, ['(gen) banner: SSH-2.0-OpenSSH_8.0']
            if gotc != expc_:
                fail('whole_audit_compression_differs', inp, gotc, expc_)
            if gotb != expb:
                fail('whole_audit_banner_differs', inp, gotb, expb)
            if got != exp:
                bad = [c for c in rc.CATS if got is None or got[c] != exp[c]]
                fail('whole_audit_names_differ', inp, {c: (got or {}).get(c) for c in bad[:2]}, {c: exp[c] for c in bad[:2]})
    # whole CLIENT audits through main() -c (listening socket, a scripted client connects and speaks first): the same clause for the client role,
    # on the path a user takes (listen_and_accept -> get_banner -> KEXINIT -> output), in text and JSON
    for k in range(ctx.scale(20, 300)):
        wl = gen_wire_lists(r)
        payload = pg.kexinit_bytes(wl)
        adv = pg.independent_kexinit_reader(payload)
        dec = [[n.decode('utf-8', 'replace') for n in l] for l in adv]
        want = {'kex': dec[0], 'key': dec[1], 'enc': dec[3], 'mac': dec[5]}
        cbanner = r.choice([b'SSH-2.0-OpenSSH_8.0', b'SSH-2.0-PuTTY_Release_0.78', b'SSH-2.0-dropbear_2020.81', b'SSH-2.0-libssh_0.9.6', b'SSH-2.0-Go'])
        for extra in ([], ['-j']):
            peer_ = fakenet.Server(banner=cbanner, kexinit_payload=b'\x14' + payload)
            net = fakenet.FakeNet({})
            net.clients = [(peer_, ('192.0.2.50', 50000 + k))]
            code, text = fakenet.run_main(['-c', '-n', '-p', '2222'] + extra, net)
            cov.add(('e2e-client', payload, tuple(extra)), True, tags=['whole-client-audit', 'json' if extra else 'text'])
            inp = {'kexinit_payload_hex': payload.hex(), 'whole_client_audit': True, 'banner': cbanner.decode(), 'args': extra}
            if net.connects or len(net.accepted) != 1:
                fail('client_audit_connections', inp, {'outgoing': net.connects[:3], 'accepted': net.accepted}, 'one accepted connection, none opened')
            if extra:
                try:
                    doc = json.loads(text)
                    got = {c: [e['algorithm'] for e in doc[c]] for c in rc.CATS}
                    gotc, gotb = doc.get('compression'), (doc.get('banner') or {}).get('raw')
                except Exception:
                    got, gotc, gotb = None, None, None
                exp, expc_, expb = want, dec[7], cbanner.decode()
            else:
                got = {c: [] for c in rc.CATS}
                for line in text.split('\n'):
                    for c in rc.CATS:
                        if line.startswith('(%s) ' % c) and not line.startswith('(%s) `- ' % c):
                            got[c].append(line[6:].split(' -- ')[0].rstrip(' ').split(' (')[0])
                exp = {c: [n for n in want[c] if n.strip() != ''] for c in rc.CATS}
                ec = [x for x in dec[7] if x != 'none']
                gotc, expc_ = [l for l in text.split('\n') if l.startswith('(gen) compression: ')], ['(gen) compression: ' + ('enabled (%s)' % ', '.join(ec) if ec else 'disabled')]
                gotb, expb = [l for l in text.split('\n') if l.startswith('(gen) banner: ')], ['(gen) banner: ' + cbanner.decode()]
            if got != exp:
                bad = [c for c in rc.CATS if got is None or got[c] != exp[c]]
                fail('whole_audit_names_differ', inp, {c: (got or {}).get(c) for c in bad[:2]}, {c: exp[c] for c in bad[:2]})
            if gotc != expc_:
                fail('whole_audit_compression_differs', inp, gotc, expc_)
            if gotb != expb:
                fail('whole_audit_banner_differs', inp, gotb, expb)
    mm = ctx.driver(ml) if ctx.driver_ok else []
    for line, m, ex in zip(ml, mm, mexp):
        if m.get('ok') != ex:
            mismatches.append({'stream': 'ssh1.masks', 'op': line, 'model': m, 'impl': ex})
    fakenet.reset_dbs()
    return {'failures': failures, 'mismatches': mismatches, 'coverage': cov, 'corr_cases': len(model) + len(mm),
            'assumptions': ['the UTF-8 decoder is external; names are split on "," at the byte level and decoded per piece',
                            'the harness text parser assumes names contain no " -- [" and no control characters (generators avoid them)'],
            'observations': ['D25: whitespace-only names (outside RFC 4251) are dropped by the text report and kept by the JSON; an empty name-list appears in JSON as one entry with an empty name']}


def replay(obj):
    from ssh_audit.ssh2_kex import SSH2_Kex
    f = obj.get('failure', obj)
    inp = f['input']
    if 'kexinit_payload_hex' not in inp:
        print(json.dumps(f, indent=1)[:2000])
        import sys
        from common import rerun_for_signature
        return rerun_for_signature(sys.modules[__name__], f)
    payload = bytes.fromhex(inp['kexinit_payload_hex'])
    if inp.get('whole_client_audit'):
        import sys
        from common import rerun_for_signature
        return rerun_for_signature(sys.modules[__name__], f)
    if inp.get('whole_audit'):
        import fakenet
        adv = pg.independent_kexinit_reader(payload)
        dec = [[n.decode('utf-8', 'replace') for n in l] for l in adv]
        want = {'kex': dec[0], 'key': dec[1], 'enc': dec[3], 'mac': dec[5]}
        srv = fakenet.Server(banner=b'SSH-2.0-OpenSSH_8.0', kexinit_payload=b'\x14' + payload, hostkeys={'ssh-ed25519': fakenet.ed25519_blob(), 'rsa-sha2-512': fakenet.rsa_blob(3072)},
                             gex=lambda a, b_, c: 3072 if c >= 3072 else None)
        code, text = fakenet.run_main(['-n', '--skip-rate-test', '-j', '10.1.0.1'], fakenet.FakeNet({'10.1.0.1': srv}))
        doc = json.loads(text)
        got = {c: [e['algorithm'] for e in doc[c]] for c in rc.CATS}
        for c in rc.CATS:
            print(c, 'advertised', want[c][:12], 'reported', got[c][:12])
        print('compression advertised', dec[7], 'reported', doc.get('compression'))
        print('banner reported', (doc.get('banner') or {}).get('raw'))
        return 1 if (got != want or doc.get('compression') != dec[7] or (doc.get('banner') or {}).get('raw') != 'SSH-2.0-OpenSSH_8.0') else 0
    adv = pg.independent_kexinit_reader(payload)
    dec = [[n.decode('utf-8', 'replace') for n in l] for l in adv]
    want = {'kex': dec[0], 'key': dec[1], 'enc': dec[3], 'mac': dec[5]}
    kex = SSH2_Kex.parse(None, payload)
    peer = {'kex': kex.kex_algorithms, 'key': kex.key_algorithms, 'encC': kex.client.encryption, 'encS': kex.server.encryption,
            'macC': kex.client.mac, 'macS': kex.server.mac, 'comp': kex.server.compression, 'host_keys': {}, 'dh': {}}
    bad = 0
    for client in (False, True):
        ret, out, text, banner = rc.run_output(peer, client=client, batch=True)
        got = names_from_records(out.records, False)
        for c in rc.CATS:
            exp = [n for n in want[c] if n.strip() != '']
            if got[c] != exp:
                print('PROPERTY FAILS (%s, client=%s): shown %r, advertised %r' % (c, client, got[c][:10], exp[:10]))
                bad = 1
    if not bad:
        print('text report lists exactly the advertised names for this payload')
    return bad
