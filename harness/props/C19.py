"""C19 — An audit's footprint on the target is bounded and non-intrusive.

Theorems: SshAudit.Props.C19 (for every server behaviour: one connection per probe, host-key probes <= probe
types advertised, <= 9 group-exchange probes per offered algorithm, each probe connection carries KEXINIT and
at most one KEXDH_INIT / GEX_REQUEST+GEX_INIT and nothing else, every established connection is closed; the
rate check makes <= max attempts with <= `concurrent` sockets open and sends nothing; it does not run with
--skip-rate-test, for a client audit or without a DH key exchange; the DHEat attack and the interactive rate
test are entered only when requested).
Tie: (a) whole audits through the real main() over scripted targets whose n-th probe connection follows a plan
(refused / no banner / unreadable KEXINIT / no group / reply garbage / no reply: close or stall / reply ok) — the per-connection log
(established, SSH message types received by the target, closed) vs. the model's `footprint.audit`;
(b) the real DHEat._dh_rate_test driven by a scripted clock / connect / select vs. `footprint.rate`.
Oracle (independent of the model): message types on every connection form one of the five allowed shapes (no
NEWKEYS, no service or authentication request ever); the first connection carries only KEXINIT; the number of
probe connections is within 1 + 17 + 9 per group-exchange algorithm; everything established is closed; rate
connections receive nothing, are <= 38 with <= 3 open at once, absent with --skip-rate-test or without DH;
DHEat.run / the interactive rate test are never entered by a standard or policy audit.
"""
import gc
import io
import re
import socket as real_socket
import sys
import types

from common import Coverage, tstrs, tbool
import fakenet as fn
from props.C12 import STYLES, UNIVERSE, SHA1, SHA256

ID = 'C19'
MODULE = 'SshAudit.Props.C19'
NAMESPACE = 'SshAudit.C19'
THEOREMS = ['audit_footprintH_bounded', 'audit_footprint_total', 'probeConn_facts', 'probeConn_wf', 'hkStep_inv', 'hk_fold', 'hostkey_connections_bounded', 'hostkey_conns_wf', 'hostkey_table_size', 'no_startable_kex_no_probe',
            'loop_conns', 'gex_connections_bounded', 'gex_conns_wf', 'gex_algs_size', 'gexAll_bounded', 'audit_footprint_bounded', 'audit_footprint_36',
            'rateOpen_inv', 'rate_bounded', 'rate_from_start', 'rate_not_run', 'dos_only_on_request']
TECHNIQUE = 'Lean 4 theorems (induction over probe lists / rate-loop iterations for arbitrary server state machines: connection-count, message-shape, closure and concurrency bounds; dispatch of intrusive features) + per-connection log correspondence with main() and _dh_rate_test over scripted targets'
LEVEL_TEXT = ('The probe phases and the rate loop are modelled over arbitrary server behaviour; the bounds (connections per phase, message shapes per connection, closure, attempts and concurrency of the rate check, dispatch of the '
              'intrusive modes) are proved for every server. The same plans are run through the real main() / _dh_rate_test and the per-connection logs compared with the model.')
LEVEL_NOTE = ('PARTIAL: wall-clock duration of the rate check (<= 1.5 s) is represented by a time-up event, not proved about a real clock; the 30-second socket recycling of the interactive test is not modelled. '
              'D21 (unbounded connection attempts against a silent target) was repaired in /repo.')

KEX_POOL = ['curve25519-sha256', 'diffie-hellman-group14-sha256', SHA1, SHA256, 'sntrup761x25519-sha512@openssh.com', 'ecdh-sha2-nistp256',
            'kex-strict-s-v00@openssh.com', 'diffie-hellman-group1-sha1', 'mlkem768x25519-sha256']
SHAPES = ([], [20], [20, 30], [20, 34], [20, 34, 32])
GARBAGE_KEX = fn.pkt(b'\x14' + b'B' * 11)
WRONG_TYPE = fn.pkt(b'\x63' + b'\x00' * 12)


def key_blob(t):
    if t.startswith('ssh-ed25519'):
        return fn.ed25519_blob()
    if t in ('ssh-rsa', 'rsa-sha2-256', 'rsa-sha2-512'):
        return fn.rsa_blob(3072)
    if t.startswith('ecdsa-sha2-nistp256'):
        return fn.ecdsa_blob('nistp256', 65)
    if t == 'ssh-ed448':
        return fn.ed448_blob()
    return fn.ed25519_blob()


class PlanNet(fn.FakeNet):
    """every connection attempt after the first follows the next plan entry (exhausted: everything works)"""
    def __init__(self, ip, banner, payload, keys, gexfn, plan):
        super().__init__({})
        self.ip, self.banner, self.payload, self.keys, self.gexfn = ip, banner, payload, keys, gexfn
        self.plan = list(plan)
        self.attempt_servers = []

    def route(self, addr):
        idx = len(self.connects) - 1
        entry = 'X' if idx == 0 or idx - 1 >= len(self.plan) else self.plan[idx - 1]
        kw = {}
        hostkeys = {t: key_blob(t) for t in self.keys}
        gex = self.gexfn
        if entry == 'c':
            self.attempt_servers.append(None)
            return None
        if entry == 'b':
            kw['silent'] = True
        elif entry == 'k':
            kw['raw_after_banner'] = GARBAGE_KEX
        elif entry == 'g':
            gex = None
        elif entry == 'x':
            hostkeys = {t: ('raw', WRONG_TYPE) for t in self.keys}
            # group-exchange reply after GEX_INIT: garbage as well
        elif entry == 'n':
            hostkeys = _Always(('close',))      # the *_INIT message is never answered: the connection is closed
        elif entry == 's':
            hostkeys = _Always(('stall',))      # … or the server just goes quiet
        srv = fn.Server(banner=self.banner, kexinit_payload=self.payload, hostkeys=hostkeys, gex=gex, **kw)
        srv.entry = entry
        if entry in ('x', 'g'):
            # 'g' on a probe that does not use group exchange: the reply to KEXDH_INIT is unusable
            srv.hostkeys = _Always(('raw', WRONG_TYPE))
        elif isinstance(hostkeys, _Always):
            srv.hostkeys = hostkeys          # (an empty dict subclass is falsy: Server() would replace it)
        self.attempt_servers.append(srv)
        return srv


class _Always(dict):
    def __init__(self, v):
        super().__init__()
        self.v = v

    def get(self, k, d=None):
        return self.v


def conn_log(net):
    res = []
    for s in net.open_socks:
        if s.conn is None:
            res.append([False, [], False])
        else:
            res.append([True, list(s.conn.msgs), bool(s.closed)])
    return res


def gen_scenario(r, master_types):
    kex = r.sample(KEX_POOL, r.randint(1, 5))
    if r.random() < 0.5 and SHA256 not in kex:
        kex.insert(r.randrange(len(kex) + 1), SHA256)
    if r.random() < 0.25:      # repeated names (a server is free to list a name several times): the probes go by the tool's own tables, not by occurrences
        for _ in range(r.randint(1, 4)):
            kex.insert(r.randrange(len(kex) + 1), r.choice([SHA256, SHA1, r.choice(kex)]))
    keys = r.sample(master_types, r.randint(1, 5))
    if r.random() < 0.2:
        for _ in range(r.randint(1, 3)):
            keys.insert(r.randrange(len(keys) + 1), r.choice(keys))
    if r.random() < 0.3:
        keys.insert(r.randrange(len(keys) + 1), 'unknown-key-type@example.org')
    if r.random() < 0.4:
        keys = [k for k in ['rsa-sha2-512', 'rsa-sha2-256', 'ssh-rsa', 'ssh-ed25519'] if r.random() < 0.8] or ['ssh-ed25519']
    openssh = r.random() < 0.5
    n = r.choice([0, 0, 1, 2, 4, 8, 14])
    plan = [r.choice('XXXXXXXxxgkbcnnss') for _ in range(n)]
    style = r.choice(sorted(STYLES))
    M = sorted(r.sample(UNIVERSE, r.randint(0, 4)))
    return {'kex': kex, 'keys': keys, 'openssh': openssh, 'plan': plan, 'style': style, 'M': M}


def run_audit(sc, extra=('--skip-rate-test',), hook=None, targets_file=False):
    ip = '10.19.0.1'
    banner = b'SSH-2.0-OpenSSH_8.9p1' if sc['openssh'] else b'SSH-2.0-dropbear_2022.83'
    payload = fn.kexinit(sc['kex'], sc['keys'], ['aes256-ctr'], ['hmac-sha2-256'])
    net = PlanNet(ip, banner, payload, sc['keys'], STYLES[sc['style']](sc['M']), sc['plan'])
    calls = []
    from ssh_audit.dheat import DHEat
    orig_run, orig_rate = DHEat.run, DHEat.dh_rate_test

    def run_spy(self):
        calls.append(('dheat',))

    def rate_spy(out, aconf, kex, max_time, max_connections, concurrent_sockets):
        calls.append(('rate', max_time, max_connections, concurrent_sockets, bool(aconf.conn_rate_test_enabled), len(net.connects)))
        return orig_rate(out, aconf, kex, max_time, max_connections, concurrent_sockets)
    DHEat.run = run_spy
    DHEat.dh_rate_test = staticmethod(rate_spy)
    path = None
    try:
        if targets_file:
            import os
            import tempfile
            fd, path = tempfile.mkstemp(prefix='verif_targets_')
            os.write(fd, (ip + '\n').encode())
            os.close(fd)
            code, out = fn.run_main(['-n'] + list(extra) + ['-T', path, '--threads', '1'], net)
        else:
            code, out = fn.run_main(['-n'] + list(extra) + [ip], net)
    finally:
        DHEat.run, DHEat.dh_rate_test = orig_run, staticmethod(orig_rate)
        if path:
            os.unlink(path)
    return code, out, net, calls


def audit_line(sc):
    return 'footprint.audit %s %s %s %s %s %s' % (tbool(sc['openssh']), tstrs(sc['kex']), tstrs(sc['keys']), ','.join(sc['plan']) or '_', sc['style'],
                                                 ','.join(str(m) for m in sc['M']) or '_')


def shape_problems(log, n_gex_algs, n_key_types):
    probs = []
    if log and log[0][1] != [20]:
        probs.append(('first_connection_not_kexinit_only', log[0]))
    for i, (connected, msgs, closed) in enumerate(log):
        if msgs not in SHAPES:
            probs.append(('message_shape', {'connection': i, 'msgs': msgs}))
        if connected and not closed:
            probs.append(('connection_left_open', {'connection': i, 'msgs': msgs}))
    bound = 1 + n_key_types + 9 * n_gex_algs
    if len(log) > bound:
        probs.append(('too_many_connections', {'connections': len(log), 'bound': bound}))
    return probs


# ---- rate loop under a scripted clock / connect / select -----------------------------------------------------------

class RSock:
    def __init__(self, env):
        self.env = env
        self.open = False
        self.closed = False
        self.kind = 'n'
        self.recvd = 0
        self.sent = b''

    def setblocking(self, b):
        pass

    def connect_ex(self, addr):
        env = self.env
        env.attempted += 1
        ok = env.connect_flags.pop(0) if env.connect_flags else True
        if not ok:
            return 111
        self.open = True
        env.cur += 1
        env.max = max(env.max, env.cur)
        return 0

    def recv(self, n):
        self.recvd += 1
        return {'b': b'SSH-2.0-', 'x': b'Exceeded', 'g': b'\x00\x01garb'}.get(self.kind, b'')

    def send(self, d):
        self.sent += bytes(d)
        self.env.sent_any = True
        return len(d)

    def shutdown(self, how):
        pass

    def close(self):
        if self.open and not self.closed:
            self.env.cur -= 1
            self.env.closed += 1
        self.closed = True


class RateEnv:
    def __init__(self, iters):
        self.iters = list(iters)
        self.i = -1
        self.attempted = 0
        self.cur = 0
        self.max = 0
        self.closed = 0
        self.sent_any = False
        self.connect_flags = []
        self.cur_iter = None
        self.time_calls = 0

    def modules(self):
        env = self
        sock = types.ModuleType('ratesocket')
        for k in dir(real_socket):
            if k.isupper() or k in ('error', 'timeout', 'gaierror'):
                setattr(sock, k, getattr(real_socket, k))
        sock.socket = lambda *a: RSock(env)
        sock.getaddrinfo = lambda host, port, family=0, *a: [(real_socket.AF_INET, real_socket.SOCK_STREAM, 6, '', (host, port))]
        clk = types.ModuleType('rateclock')

        def now():
            env.time_calls += 1
            if env.time_calls == 1:
                return 1000.0
            env.i += 1
            if env.i >= len(env.iters) or env.iters[env.i] == 'T':
                env.cur_iter = None
                return 1000.0 + 2.0
            c, rd, x = env.iters[env.i]
            env.cur_iter = (rd, x)
            env.connect_flags = [ch == '1' for ch in c]
            return 1000.0 + 0.001 * (env.i + 1)
        clk.time = now
        clk.sleep = lambda s: None
        sel = types.ModuleType('rateselect')

        def select(r, w, x, t=None):
            rd, nx = env.cur_iter if env.cur_iter else ('', 0)
            rl = list(r[:len(rd)])
            for s, ch in zip(rl, rd):
                s.kind = ch
            el = list(r[len(rl):len(rl) + nx])
            return rl, [], el
        sel.select = select
        return sock, clk, sel


def run_rate(iters, max_conn, conc):
    import ssh_audit.dheat as dh
    from ssh_audit.outputbuffer import OutputBuffer
    from ssh_audit.ssh2_kex import SSH2_Kex
    from ssh_audit.auditconf import AuditConf
    env = RateEnv(iters)
    sock, clk, sel = env.modules()
    old = dh.socket, dh.time, dh.select
    dh.socket, dh.time, dh.select = sock, clk, sel
    out = OutputBuffer()
    out.debug = True
    buf = io.StringIO()
    so = sys.stdout
    sys.stdout = buf
    try:
        aconf = AuditConf('10.19.0.2', 22)
        payload = fn.kexinit(['diffie-hellman-group14-sha256'], ['ssh-ed25519'], ['aes256-ctr'], ['hmac-sha2-256'])
        kex = SSH2_Kex.parse(out, payload[1:])
        dh.DHEat._dh_rate_test(out, aconf, kex, 1.5, max_conn, conc)
    finally:
        sys.stdout = so
        dh.socket, dh.time, dh.select = old
    m = re.search(r'connections created: (\d+)', buf.getvalue())
    return {'attempted': env.attempted, 'opened': int(m.group(1)) if m else None, 'max_concurrent': env.max, 'closed': env.closed}, env


def run_versions_differ(extra, second):
    """the first connection answers "Protocol major versions differ." and closes; `second` says what a second connection would meet"""
    differ = b'Protocol major versions differ.\n'
    first = fn.Server(banner=b'SSH-1.99-OpenSSH_3.9p1', raw_after_banner=differ, close_after_send=True)
    later = {'same': fn.Server(banner=b'SSH-1.99-OpenSSH_3.9p1', raw_after_banner=differ, close_after_send=True),
             'pkm': fn.Server(banner=b'SSH-1.5-OpenSSH_3.9p1', raw_after_banner=b'\x00\x00\x00\x05\x00\x00\x00\x02\x00' * 3),
             'silent': fn.Server(silent=True), 'refuse': fn.Server(refuse=True), 'alternate': None}[second]
    if second == 'alternate':
        # every later connection announces the OTHER major version than the one before it and refuses again (seed C09-9: the peer steers the retry direction)
        two = fn.Server(banner=b'SSH-2.0-OpenSSH_8.0', raw_after_banner=differ, close_after_send=True)
        one = fn.Server(banner=b'SSH-1.5-OpenSSH_3.9p1', raw_after_banner=differ, close_after_send=True)
        srv = fn.StagedServer([first] + [two, one] * 40)
    else:
        srv = fn.StagedServer([first] + [later] * 40)
    if second == 'refuse':
        class RNet(fn.FakeNet):
            def route(self, addr):
                return srv if len(self.connects) <= 1 else None
        net = RNet({})
    else:
        net = fn.FakeNet({'10.19.0.3': srv})
    net.cap = 60

    class Cap(Exception):
        pass
    orig_route = net.route

    def route(addr):
        if len(net.connects) > net.cap:
            raise RecursionError('harness: more than %d connections' % net.cap)
        return orig_route(addr)
    net.route = route
    code, out = fn.run_main(['-n', '--skip-rate-test'] + list(extra) + ['10.19.0.3'], net)
    gc.collect()        # a scan that ends through sys.exit() drops its sockets when the exception's frames are released (what process exit does)
    return code, out, conn_log(net)


def gen_iters(r, conc):
    n = r.choice([0, 1, 3, 8, 20, 60])
    its = []
    for _ in range(n):
        if r.random() < 0.03:
            its.append('T')
            continue
        c = ''.join(r.choice('1110') for _ in range(r.randint(0, conc + 1)))
        rd = ''.join(r.choice('bbnxxg') for _ in range(r.randint(0, conc)))
        its.append((c, rd, r.choice([0, 0, 0, 1, 2])))
    return its


def iter_tok(it):
    """model token: only "starts with SSH-" matters to the loop ('x' = sshd's "Exceeded MaxStartups" line, 'g' = other bytes, 'n' = closed)"""
    return 'T' if it == 'T' else '%s/%s/%d' % (it[0], ''.join('b' if ch == 'b' else 'n' for ch in it[1]), it[2])


def iter_name(it):
    return 'T' if it == 'T' else '%s/%s/%d' % it


def run(ctx):
    from ssh_audit.hostkeytest import HostKeyTest
    r = ctx.rng
    cov = Coverage('one evaluation = one whole audit through the real main() against a planned target, or one run of the real rate loop under a scripted clock/connect/select; non-trivial = distinct (algorithms, plan, moduli policy) '
                   'or distinct iteration script; plans mix refused / silent / unreadable-KEXINIT / no-group / garbage-reply / good connections at every probe position')
    failures, mismatches = [], []
    master_types = list(HostKeyTest.HOST_KEY_TYPES)

    def fail(kind, inp, observed, expected, how='harness/props/C19.py: real main() over a planned target'):
        failures.append({'sig': {'kind': kind}, 'input': inp, 'observed': observed, 'expected': expected, 'how': how})
    lines, expect = [], []
    scs = []
    fixed = [{'kex': [SHA1, SHA256, 'curve25519-sha256'], 'keys': master_types[:], 'openssh': True, 'plan': [], 'style': 'openssh', 'M': [2048, 3072]},
             {'kex': [SHA256], 'keys': ['ssh-rsa', 'rsa-sha2-256', 'rsa-sha2-512'], 'openssh': False, 'plan': ['x', 'x', 'x'], 'style': 'strict', 'M': []},
             {'kex': ['sntrup761x25519-sha512@openssh.com'], 'keys': ['ssh-ed25519'], 'openssh': True, 'plan': ['c'], 'style': 'strict', 'M': [4096]},
             {'kex': ['curve25519-sha256', SHA256], 'keys': ['ssh-ed25519', 'ssh-rsa'], 'openssh': True, 'plan': ['X', 'X', 'c'], 'style': 'roundup', 'M': [8192]},
             {'kex': ['curve25519-sha256', SHA1, SHA256], 'keys': ['ssh-ed25519'], 'openssh': False, 'plan': ['X', 'X', 'g', 'b', 'X', 'X', 'X', 'X', 'X', 'k'], 'style': 'strict', 'M': []},
             {'kex': ['curve25519-sha256'], 'keys': ['ssh-rsa', 'ssh-ed25519', 'ecdsa-sha2-nistp256', 'ssh-ed448'], 'openssh': True, 'plan': ['s', 'n', 's', 'n'], 'style': 'strict', 'M': []},
             {'kex': [SHA256], 'keys': ['rsa-sha2-512', 'ssh-ed25519'], 'openssh': True, 'plan': ['n', 's', 'n', 's', 'n', 's'], 'style': 'openssh', 'M': [2048, 4096]},
             {'kex': [SHA256] * 6 + ['curve25519-sha256'] + [SHA1] * 3, 'keys': ['ssh-ed25519', 'ssh-ed25519', 'ssh-rsa', 'ssh-ed25519'], 'openssh': False, 'plan': [], 'style': 'strict', 'M': [4096]}]
    for _ in range(ctx.scale(120, 2500)):
        scs.append(gen_scenario(r, master_types))
    for sc in fixed + scs:
        code, out, net, calls = run_audit(sc)
        log = conn_log(net)
        n_gex = len([k for k in (SHA1, SHA256) if k in sc['kex']])
        n_types = len([t for t in master_types if t in sc['keys']])
        cov.add((tuple(sc['kex']), tuple(sc['keys']), sc['openssh'], tuple(sc['plan']), sc['style'], tuple(sc['M'])), True,
                tags=['conns-%02d' % min(len(log), 30), 'gex-algs-%d' % n_gex] + ['plan:' + e for e in set(sc['plan'])],
                sample={'scenario': sc, 'log': log[:6]} if len(cov.samples) < 3 else None)
        for kind, obs in shape_problems(log, n_gex, n_types):
            fail(kind, {'scenario': sc, 'args': ['--skip-rate-test']}, obs, 'allowed shapes %r, all closed, bounded count' % (SHAPES,))
        if 'Traceback' in out or code not in (0, 1, 2, 3):
            fail('audit_crashed', {'scenario': sc, 'args': ['--skip-rate-test']}, out[-300:], 'a report')
        if calls:
            fail('intrusive_feature_entered', {'scenario': sc, 'args': ['--skip-rate-test']}, calls, 'no rate test and no DHEat with --skip-rate-test')
        lines.append(audit_line(sc))
        expect.append((log, sc))
    # the same audits named in a targets file (-T): the options of the command line reach the per-target configuration — with
    # --skip-rate-test no rate check is entered and the footprint is the single-target one (seed C19-11)
    for sc in fixed[:5] + scs[:ctx.scale(8, 60)]:
        code, out, net, calls = run_audit(sc, targets_file=True)
        log_t = conn_log(net)
        cov.add(('targets-file', tuple(sc['kex']), tuple(sc['keys']), tuple(sc['plan'])), True, tags=['targets-file-mode'])
        if calls:
            fail('intrusive_feature_entered', {'scenario': sc, 'args': ['--skip-rate-test', '-T', '<file with this target>']}, calls,
                 'no rate test and no DHEat with --skip-rate-test, also for targets read from a file')
        ref = conn_log(run_audit(sc)[2])
        if log_t != ref:
            fail('footprint_differs_in_targets_file_mode', {'scenario': sc, 'args': ['--skip-rate-test', '-T', '<file with this target>']}, log_t[:12], ref[:12])
    model = ctx.driver(lines) if ctx.driver_ok else []
    for line, m, (log, sc) in zip(lines, model, expect):
        got = m.get('ok')
        mm = [[c[1], c[2], c[3]] for c in got] if isinstance(got, list) else got
        if mm != log:
            mismatches.append({'stream': 'footprint.audit', 'op': line, 'model': str(got)[:400], 'impl': str(log)[:400], 'case': sc})
    corr = len(model)

    # ---- the first connection answers "Protocol major versions differ.": one retry as SSH-1 (none with -2), no probes, everything closed
    hlines, hexp = [], []
    for extra, tok in (([], 'd1'), (['-2'], 'd0'), (['-1'], 'e'), (['-j'], 'd1'), (['-b', '-v'], 'd1')):
        for second in ('same', 'pkm', 'silent', 'refuse', 'alternate'):
            code, out, log = run_versions_differ(extra, second)
            inp = {'handshake': 'versions-differ', 'second_connection': second, 'args': extra}
            cov.add(('hs', tuple(extra), second), True, tags=['handshake-retry', 'conns-%02d' % min(len(log), 30)])
            if len(log) > 2:
                fail('too_many_connections', inp, {'connections': len(log)}, 'the handshake is retried as SSH-1 at most once: <= 2 connections')
            for kind, obs in shape_problems(log, 0, 0):
                if kind != 'too_many_connections':
                    fail(kind, inp, obs, 'allowed shapes, all closed')
            if 'Traceback' in out or code not in (0, 1, 2, 3):
                fail('audit_crashed', inp, out[-300:], 'a documented status')
            if second != 'refuse':
                hlines.append('footprint.hs ' + (tok + 'n' if tok == 'd1' and second == 'silent' else tok))
                hexp.append((log, inp))
    hmodel = ctx.driver(hlines) if ctx.driver_ok else []
    for line, m, (log, inp) in zip(hlines, hmodel, hexp):
        got = m.get('ok')
        mm = [[c[1], c[2], c[3]] for c in got] if isinstance(got, list) else got
        if mm != log:
            mismatches.append({'stream': 'footprint.hs', 'op': line, 'model': str(got)[:300], 'impl': str(log)[:300], 'case': inp})
    corr += len(hmodel)

    # ---- full audits with the rate check on -------------------------------------------------------------------------
    rr_lines, rr_expect = [], []
    for sc in (fixed + scs)[:ctx.scale(40, 400)]:
        base = len(conn_log(run_audit(sc)[2]))
        for extra in ([], ['-P', 'Hardened OpenSSH Server v9.9 (version 1)'] if r.random() < 0.3 else []):
            code, out, net, calls = run_audit(sc, extra=extra)
            log = conn_log(net)
            rate_conns = net.open_socks[base:]
            rr_lines.append('footprint.rateruns %s %s %s' % (tbool(False), tbool(False), tstrs(sc['kex'])))
            rr_expect.append((len(rate_conns) > 0, {'scenario': sc, 'args': extra}))
            inp = {'scenario': sc, 'args': extra}
            if code not in (0, 1, 2, 3):
                raise RuntimeError('C19 harness: audit did not run: %r' % out[:200])
            cov.add(('rate', tuple(sc['kex']), tuple(sc['plan']), tuple(extra)), True, tags=['full-audit', 'rate-conns-%02d' % len(rate_conns)])
            if [c for c in calls if c[0] == 'dheat'] or [c for c in calls if c[0] == 'rate' and (c[4] or c[1:4] != (1.5, 38, 3))]:
                fail('intrusive_feature_entered', inp, calls, 'only the 1.5 s / 38 / 3 rate check')
            if len([c for c in calls if c[0] == 'rate']) > 1:
                fail('rate_test_repeated', inp, calls, 'at most one rate check')
            if len(rate_conns) > 38:
                fail('rate_test_too_many_attempts', inp, len(rate_conns), '<= 38')
            for s in rate_conns:
                if s.conn is not None and (s.conn.received or s.conn.msgs):
                    fail('rate_test_sent_data', inp, s.conn.received[:40].hex(), 'nothing is sent on rate-check connections')
                    break
            if net.unclosed():
                fail('connection_left_open', inp, len(net.unclosed()), 0)
            for kind, obs in shape_problems(log[:base], 2, len(master_types)):
                fail(kind, inp, obs, 'allowed shapes')
    # concurrency of the rate check inside a full audit: measured on its own net
    for kexs in (['diffie-hellman-group14-sha256'], ['curve25519-sha256', SHA256], ['curve25519-sha256'], ['mlkem768x25519-sha256', 'kex-strict-s-v00@openssh.com']):
        for variant in ('banner', 'close', 'silent', 'exceeded'):
            sc = {'kex': kexs, 'keys': ['ssh-ed25519'], 'openssh': True, 'plan': [], 'style': 'openssh', 'M': [3072]}
            base_net = run_audit(sc)[2]
            base = len(base_net.connects)
            ip = '10.19.0.1'
            payload = fn.kexinit(sc['kex'], sc['keys'], ['aes256-ctr'], ['hmac-sha2-256'])

            class VNet(PlanNet):
                def route(self, addr):
                    if len(self.connects) > base:
                        self.attempt_servers.append('rate')
                        if self.rate_start is None:
                            self.rate_start = self.cur_open
                            self.max_open = self.cur_open
                        return fn.Server(banner=(b'Exceeded MaxStartups' if variant == 'exceeded' else b'SSH-2.0-OpenSSH_8.9p1'), kexinit_payload=payload, silent=(variant == 'silent'),
                                         close_on_connect=(variant == 'close'), close_after_send=(variant == 'exceeded'))
                    return super().route(addr)
            net = VNet(ip, b'SSH-2.0-OpenSSH_8.9p1', payload, sc['keys'], STYLES['openssh']([3072]), [])
            net.rate_start = None
            code, out = fn.run_main(['-n', ip], net)
            n_rate = len(net.connects) - base
            inp = {'scenario': sc, 'args': [], 'rate_variant': variant}
            cov.add(('ratefull', tuple(kexs), variant), True, tags=['rate-variant:' + variant, 'rate-conns-%02d' % n_rate])
            rr_lines.append('footprint.rateruns %s %s %s' % (tbool(False), tbool(False), tstrs(kexs)))
            rr_expect.append((n_rate > 0, inp))
            if n_rate > 38:
                fail('rate_test_too_many_attempts', inp, n_rate, '<= 38')
            if net.rate_start is not None and net.max_open - net.rate_start > 3:
                fail('rate_test_too_many_concurrent', inp, net.max_open - net.rate_start, '<= 3')
            if net.unclosed():
                fail('connection_left_open', inp, len(net.unclosed()), 0)

    rr_model = ctx.driver(rr_lines) if ctx.driver_ok else []
    for line, m, (got, inp) in zip(rr_lines, rr_model, rr_expect):
        if m.get('ok') != got:
            mismatches.append({'stream': 'footprint.rateruns', 'op': line[:300], 'model': m.get('ok'), 'impl': got, 'case': inp})
    corr += len(rr_model)

    # ---- the rate loop itself vs. the model -------------------------------------------------------------------------
    rlines, rexp = [], []
    fixed_its = [[('111', 'xxx', 0)] * 200, [('111', 'xbx', 0)] * 200, [('111', 'ggg', 0)] * 200, [('111', 'nnn', 0)] * 200, [('111', 'bbb', 0)] * 200, [('111', '', 0)] * 200]
    for k in range(ctx.scale(300, 6000) + len(fixed_its)):
        mx, conc = r.choice([(38, 3), (38, 3), (5, 2), (10, 5), (1, 1), (7, 3)])
        its = gen_iters(r, conc)
        if k < len(fixed_its):
            mx, conc, its = 38, 3, fixed_its[k]
        got, env = run_rate(its, mx, conc)
        inp = {'iters': [iter_name(i) for i in its], 'max': mx, 'concurrent': conc}
        cov.add(('rateloop', mx, conc, tuple(inp['iters'])), True, tags=['rate-loop', 'attempted-%02d' % got['attempted']])
        how = 'harness/props/C19.py: real DHEat._dh_rate_test under a scripted clock/connect/select'
        if got['attempted'] > mx:
            fail('rate_test_too_many_attempts', inp, got['attempted'], '<= %d' % mx, how)
        if got['max_concurrent'] > conc:
            fail('rate_test_too_many_concurrent', inp, got['max_concurrent'], '<= %d' % conc, how)
        if env.cur != 0:
            fail('connection_left_open', inp, env.cur, 0, how)
        if env.sent_any:
            fail('rate_test_sent_data', inp, True, 'nothing is sent', how)
        rlines.append('footprint.rate %d %d %s' % (mx, conc, ','.join(iter_tok(i) for i in its) or '_'))
        rexp.append((got, inp))
    rmodel = ctx.driver(rlines) if ctx.driver_ok else []
    for line, m, (got, inp) in zip(rlines, rmodel, rexp):
        if m.get('ok') != got:
            mismatches.append({'stream': 'footprint.rate', 'op': line[:300], 'model': m.get('ok'), 'impl': got, 'case': inp})
    corr += len(rmodel)

    # ---- the intrusive modes are reached only on request ------------------------------------------------------------
    sc = fixed[0]
    for extra, want in ((['--conn-rate-test', '2'], 'interactive'), (['--dheat', '1'], 'dheat')):
        ip = '10.19.0.1'
        payload = fn.kexinit(sc['kex'], sc['keys'], ['aes256-ctr'], ['hmac-sha2-256'])
        net = PlanNet(ip, b'SSH-2.0-OpenSSH_8.9p1', payload, sc['keys'], STYLES['openssh']([3072]), [])
        calls = []
        from ssh_audit.dheat import DHEat
        orig_run, orig_rate = DHEat.run, DHEat.dh_rate_test
        DHEat.run = lambda self: calls.append('dheat')
        DHEat.dh_rate_test = staticmethod(lambda out, aconf, kex, a, b, c: calls.append('interactive' if aconf.conn_rate_test_enabled else 'rate') or '')
        try:
            code, out = fn.run_main(list(extra) + [ip], net)
        finally:
            DHEat.run, DHEat.dh_rate_test = orig_run, staticmethod(orig_rate)
        cov.add(('request', tuple(extra)), True, tags=['requested:' + want])
        if calls != [want] or len(net.connects) != 1:
            fail('requested_mode_dispatch', {'args': extra}, {'calls': calls, 'connects': len(net.connects)}, [want])
    fn.reset_dbs()
    return {'failures': failures, 'mismatches': mismatches, 'coverage': cov, 'corr_cases': corr,
            'assumptions': ['PARTIAL: the 1.5-second limit of the rate check is a time-up event of the scripted clock; real elapsed time is not measured',
                            'the target is in-process (fakenet): message types are read from what the scripted server received'],
            'observations': []}


def replay(obj):
    f = obj.get('failure', obj)
    inp = f['input']
    if 'iters' in inp:
        its = [i if i == 'T' else (i.split('/')[0], i.split('/')[1], int(i.split('/')[2])) for i in inp['iters']]
        got, env = run_rate(its, inp['max'], inp['concurrent'])
        print(got, 'still open:', env.cur)
        bad = got['attempted'] > inp['max'] or got['max_concurrent'] > inp['concurrent'] or env.cur != 0 or env.sent_any
        return 1 if bad else 0
    if 'handshake' in inp:
        code, out, log = run_versions_differ(inp['args'], inp['second_connection'])
        for i, c in enumerate(log[:12]):
            print(i, c)
        probs = [p for p in shape_problems(log, 0, 0) if p[0] != 'too_many_connections']
        print('exit', code, 'connections', len(log), probs[:3])
        return 1 if (len(log) > 2 or probs or 'Traceback' in out or code not in (0, 1, 2, 3)) else 0
    if 'scenario' not in inp:
        print('dispatch case: run harness/check.py C19')
        return 1
    sc = inp['scenario']
    from ssh_audit.hostkeytest import HostKeyTest
    code, out, net, calls = run_audit(sc, extra=inp.get('args') or [])
    log = conn_log(net)
    for i, c in enumerate(log):
        print(i, c)
    print('calls', calls, 'unclosed', len(net.unclosed()))
    base = len(conn_log(run_audit(sc)[2]))
    probs = shape_problems(log[:base], 2, len(HostKeyTest.HOST_KEY_TYPES))
    rate = net.open_socks[base:]
    if len(rate) > 38 or net.unclosed() or any(s.conn is not None and s.conn.received for s in rate):
        probs.append(('rate', len(rate)))
    if '--skip-rate-test' in (inp.get('args') or []) and calls:
        probs.append(('calls', calls))
    print(probs)
    return 1 if probs else 0
