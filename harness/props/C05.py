"""C05 — A policy made from a target passes on that target and fails on any drift.

Theorems: SshAudit.Props.C05 (made_policy_passes, drift_* for every covered attribute with the
field named, builtin_self_pass over all regenerated built-in policies, first-'='-only split).
Tie: `policy.made` (what -M + the parser yield) and `policy.parseline` compared with the real
Policy.create -> Policy(policy_data=…) round trip; `policy.evaluate` compared on every perturbation.
Oracle: on the real code: the -M text loads, passes on the same peer with no errors, fails naming
the field on every single-attribute perturbation; every built-in policy passes on its own peer.
"""
import copy
import json
import os

from common import Coverage, tstr
from props.policy_common import policy_tokens, peer_tokens, impl_evaluate, mk_kex, FakeBanner

ID = 'C05'
MODULE = 'SshAudit.Props.C05'
NAMESPACE = 'SshAudit.C05'
THEOREMS = ['lookup_map', 'made_policy_passes', 'made_policy_verdict', 'drift_kex', 'drift_ciphers', 'drift_macs', 'drift_hostkeys',
            'drift_hostkey_size', 'drift_ca', 'drift_modulus', 'builtin_self_pass', 'splitEq1_append', 'splitEq1_value_may_contain_eq']
EXTENSIONS = ['props.ext.C05_file']
TECHNIQUE = 'Lean 4 theorems over the policy model (made policy satisfies the spec; every single-attribute drift falsifies it and names the field; decide +kernel over all regenerated built-in policies) + correspondence of create/parse/evaluate with policy.py'
LEVEL_TEXT = ('For every peer the structured policy that -M plus the parser yield is proved to pass on that peer with an empty error list, and to fail — naming the field — when any one '
              'covered attribute differs; all built-in policies (regenerated from the source each run) are proved by kernel evaluation to pass on a peer configured as listed. '
              'The text layer (Policy.create, the line parser) is tied by running the real create→load round trip against the model for generated peers with =,+,/,@ in names.')
LEVEL_NOTE = ('Trusted: Lean kernel, translator (built-in policies), correspondence harness. json.dumps/json.loads of the two size dictionaries is an external function '
              '(assumed inverse on dict[str, dict[str, int|str]]; exercised). D11 (names containing "=" made the -M file unloadable) was repaired in /repo; its witnesses run first.')

ALPH = 'abcdefghijklmnopqrstuvwxyz0123456789-@.+/=_'


def gen_name(r):
    k = r.random()
    if k < 0.15:
        return 'gss-%s-%s' % (r.choice(['gex-sha1', 'group14-sha256', 'group1-sha1']), ''.join(r.choice('abcdefghijklmnopqrstuvwxyzABCDEF0123456789+/') for _ in range(22)) + '==')
    return ''.join(r.choice(ALPH) for _ in range(r.choice([1, 3, 8, 20, r.randint(1, 40)])))


def gen_peer(r, db):
    def lst(cat):
        k = r.choice([1, 1, 2, 4, 8])
        return [r.choice(list(db[cat])) if r.random() < 0.6 else gen_name(r) for _ in range(k)]
    q = {'banner_str': 'SSH-2.0-OpenSSH_8.0', 'has_kex': True, 'comp': r.choice([['none'], ['none', 'zlib@openssh.com']]),
         'key': lst('key'), 'kex': lst('kex'), 'enc': lst('enc'), 'mac': lst('mac'), 'host_keys': {}, 'dh': {}}
    # an empty name-list on the wire (e.g. the MAC list of an AEAD-only server) reaches the tool as [''] (ReadBuf.read_list)
    if r.random() < 0.08:
        q[r.choice(['mac', 'mac', 'enc', 'key'])] = ['']
    for k in q['key']:
        if r.random() < 0.6 and k not in q['host_keys']:
            ca = r.choice([('', 0), ('', 0), ('ssh-rsa', 4096), ('ssh-ed25519', 256), ('ecdsa-sha2-nistp256', 256), ('ssh-rsa', 0), ('', 2048)])
            q['host_keys'][k] = {'hostkey_size': r.choice([256, 1024, 2048, 3072, 4096]), 'ca_key_type': ca[0], 'ca_key_size': ca[1]}
    for k in q['kex']:
        if 'group-exchange' in k or r.random() < 0.1:
            q['dh'][k] = r.choice([1024, 2048, 3072, 4096, 8192])
    return q


def perturbations(r, q):
    """every single covered attribute changed: (field expected in the error list, perturbed peer)"""
    out = []
    for fld, key in (('Key exchanges', 'kex'), ('Host keys', 'key'), ('Ciphers', 'enc'), ('MACs', 'mac')):
        l = q[key]
        for kind in ('insert', 'delete', 'swap'):
            l2 = list(l)
            if kind == 'insert':
                l2.insert(r.randint(0, len(l2)), 'zz-extra@example.com')
            elif kind == 'delete':
                if not l2:
                    continue
                l2.pop(r.randrange(len(l2)))
            else:
                if len(set(l2)) < 2:
                    continue
                i, j = r.sample(range(len(l2)), 2)
                if l2[i] == l2[j]:
                    continue
                l2[i], l2[j] = l2[j], l2[i]
            q2 = copy.deepcopy(q)
            q2[key] = l2
            if key == 'key':   # keep measured sizes consistent with the (possibly shorter) key list
                pass
            out.append((fld, q2))
    for t, v in q['host_keys'].items():
        q2 = copy.deepcopy(q)
        q2['host_keys'][t]['hostkey_size'] += r.choice([-1, 1, 1024])
        out.append(('Host key (%s) sizes' % t, q2))
        if v['ca_key_type'] != '' and v['ca_key_size'] > 0:
            q2 = copy.deepcopy(q)
            q2['host_keys'][t]['ca_key_size'] += r.choice([-1, 1])
            out.append(('CA signature size (%s)' % v['ca_key_type'], q2))
            q2 = copy.deepcopy(q)
            q2['host_keys'][t]['ca_key_type'] = 'ssh-ed25519' if v['ca_key_type'] != 'ssh-ed25519' else 'ssh-rsa'
            out.append(('CA signature type', q2))
    for t in q['dh']:
        q2 = copy.deepcopy(q)
        q2['dh'][t] += r.choice([-1, 1, 1024])
        out.append(('Group exchange (%s) modulus sizes' % t, q2))
    return out


def impl_make_and_load(q):
    """The real -M text for the peer, loaded by the real parser. Returns (policy_text, Policy | exception)."""
    from ssh_audit.policy import Policy
    from ssh_audit.banner import Banner
    kex = mk_kex(q)
    try:
        text = Policy.create('target.example', Banner.parse(q['banner_str']), kex, False)
    except Exception as e:  # noqa: the writer itself failing is a failure of the property, not of the harness
        return '', e
    try:
        return text, Policy(policy_data=text)
    except Exception as e:  # noqa
        return text, e


def policy_struct(pol):
    hs = None
    if pol._hostkey_sizes is not None:
        hs = [[k, v['hostkey_size'], v.get('ca_key_type', ''), v.get('ca_key_size', 0)] for k, v in pol._hostkey_sizes.items()]
    dh = None if pol._dh_modulus_sizes is None else [[k, v] for k, v in pol._dh_modulus_sizes.items()]
    return {'banner': pol._banner, 'compressions': pol._compressions, 'host_keys': pol._host_keys, 'optional_host_keys': pol._optional_host_keys,
            'kex': pol._kex, 'ciphers': pol._ciphers, 'macs': pol._macs, 'hostkey_sizes': hs, 'dh_modulus_sizes': dh,
            'subset': pol._allow_algorithm_subset_and_reordering, 'larger': pol._allow_larger_keys}


def eval_loaded(pol, q):
    pol = copy.deepcopy(pol)
    passed, errs, _ = pol.evaluate(FakeBanner(q['banner_str']), mk_kex(q))
    return {'passed': passed, 'errors': [dict(e) for e in errs]}


def struct_to_p(st):
    p = dict(st)
    if st['hostkey_sizes'] is not None:
        p['hostkey_sizes'] = {k: {'hostkey_size': a, 'ca_key_type': b, 'ca_key_size': c} for k, a, b, c in st['hostkey_sizes']}
    if st['dh_modulus_sizes'] is not None:
        p['dh_modulus_sizes'] = {k: v for k, v in st['dh_modulus_sizes']}
    return p


def run(ctx):
    from ssh_audit.ssh2_kexdb import SSH2_KexDB
    from ssh_audit.builtin_policies import BUILTIN_POLICIES
    from ssh_audit.policy import Policy
    r = ctx.rng
    db = SSH2_KexDB.MASTER_DB
    cov = Coverage('one evaluation = one (made policy, peer or perturbed peer) pair through the real create/load/evaluate; non-trivial = distinct pairs; peers: name-lists over RFC 4251 '
                   'printable names incl. = + / @ and gss-…== names, database names, size maps over host-key/CA/modulus values; every single-attribute perturbation; all built-in policies')
    failures, mismatches = [], []
    lines, expect = [], []

    def fail(kind, inp, observed, expected):
        failures.append({'sig': {'kind': kind}, 'input': inp, 'observed': observed, 'expected': expected,
                         'how': 'Policy.create -> Policy(policy_data=…) -> evaluate on the real code (harness/props/C05.py)'})
    # corpus: D11 witnesses first
    peers = []
    q = gen_peer(r, db)
    q['kex'] = ['gss-group14-sha256-toWM5Slw5Ew8Mqkay+al2g==', 'gss-gex-sha1-toWM5Slw5Ew8Mqkay+al2g==', 'curve25519-sha256']
    peers.append((q, ['corpus-D11']))
    q = gen_peer(r, db)
    q['enc'] = ['a=b', '=', 'x==']
    peers.append((q, ['corpus-D11']))
    q = gen_peer(r, db)
    q['enc'], q['mac'] = ['chacha20-poly1305@openssh.com', 'aes256-gcm@openssh.com'], ['']
    peers.append((q, ['corpus-empty-list']))
    for _ in range(ctx.scale(400, 10000)):
        peers.append((gen_peer(r, db), ['generated']))
    stale = [0]
    for q, tags in peers:
        text, pol = impl_make_and_load(q)
        has_eq = any('=' in n for k in ('key', 'kex', 'enc', 'mac') for n in q[k])
        cov.add(('load', json.dumps(q, sort_keys=True)), True, tags=tags + (['names-with-eq'] if has_eq else []),
                sample={'peer': q, 'policy_text_lines': [l for l in text.split('\n') if l and not l.startswith('#')][:12]} if len(cov.samples) < 2 else None)
        if isinstance(pol, Exception):
            fail('made_policy_does_not_load', {'peer': q}, repr(pol), 'the -M output loads without error')
            continue
        pol0 = copy.deepcopy(pol)
        st = policy_struct(pol)
        lines.append('policy.made %s' % peer_tokens(q))
        expect.append(('made', st, q))
        for l in text.split('\n'):
            l = l.strip()
            if l and not l.startswith('#') and l.split('=')[0].strip() in ('host keys', 'key exchanges', 'ciphers', 'macs'):
                lines.append('policy.parseline %s' % tstr(l))
                key = l.split('=')[0].strip()
                expect.append(('line', [key, {'host keys': pol._host_keys, 'key exchanges': pol._kex, 'ciphers': pol._ciphers, 'macs': pol._macs}[key]], l))
        same = eval_loaded(pol, q)
        if not same['passed'] or same['errors']:
            fail('made_policy_fails_on_own_peer', {'peer': q}, same, 'passes with no errors')
        p = struct_to_p(st)
        lines.append('policy.evaluate %s %s' % (policy_tokens(p), peer_tokens(q)))
        expect.append(('eval', same, q))
        for fld, q2 in perturbations(r, q):
            res = eval_loaded(pol, q2)
            cov.add(('drift', fld, json.dumps(q2, sort_keys=True)), True, tags=['drift:' + fld.split(' (')[0]])
            got = [e['mismatched_field'] for e in res['errors']]
            if res['passed'] or fld not in got:
                fail('drift_not_detected', {'peer': q, 'perturbed_peer': q2, 'attribute': fld}, {'passed': res['passed'], 'error_fields': got},
                     'fails and names the field %r' % fld)
            lines.append('policy.evaluate %s %s' % (policy_tokens(p), peer_tokens(q2)))
            expect.append(('eval', res, q2))
        # one loaded policy evaluated on several peers in a row (what a multi-target policy scan does): every verdict equals that of a fresh policy object
        hist = [q2 for _, q2 in perturbations(r, q)][:2]
        seq = hist[:1] + [q] + hist[1:] + [q]
        for idx, qq in enumerate(seq):
            passed, errs, _ = pol.evaluate(FakeBanner(qq['banner_str']), mk_kex(qq))
            got_seq = {'passed': passed, 'errors': [dict(e) for e in errs]}
            fresh = eval_loaded(pol0, qq)
            cov.add(('history', idx, json.dumps(qq, sort_keys=True)), True, tags=['evaluation-history'])
            # (the verdict only: on the unchanged tree the *error list* of a re-used Policy object still holds the previous peer's entries —
            #  `_errors` is never reset — which the tool never shows because every target gets its own deep copy of the policy; observation D35)
            if got_seq['passed'] != fresh['passed']:
                fail('verdict_depends_on_evaluation_history', {'peer': q, 'sequence': seq[:idx + 1]}, got_seq, fresh)
                break
            if got_seq['errors'] != fresh['errors']:
                stale[0] += 1
    # built-in policies on a peer configured exactly as listed
    for name, bp in BUILTIN_POLICIES.items():
        pol = Policy.load_builtin_policy(name)
        q = {'banner_str': bp['banner'] if bp['banner'] is not None else 'SSH-2.0-OpenSSH_9.9', 'has_kex': True, 'comp': bp['compressions'] or ['none'],
             'key': bp['host_keys'] or [], 'kex': bp['kex'] or [], 'enc': bp['ciphers'] or [], 'mac': bp['macs'] or [],
             'host_keys': {k: {'hostkey_size': v['hostkey_size'], 'ca_key_type': v.get('ca_key_type', ''), 'ca_key_size': v.get('ca_key_size', 0)}
                           for k, v in (bp['hostkey_sizes'] or {}).items()},
             'dh': dict(bp['dh_modulus_sizes'] or {})}
        res = eval_loaded(pol, q)
        cov.add(('builtin', name), True, tags=['builtin-policy'])
        if not res['passed'] or res['errors']:
            fail('builtin_policy_fails_on_own_peer', {'policy': name}, res, 'passes with no errors')
    whole_audit_stage(ctx, fail, cov)
    model = ctx.driver(lines) if ctx.driver_ok else []
    for line, m, (kind, want, _) in zip(lines, model, expect):
        got = m.get('ok')
        if got != want:
            mismatches.append({'stream': 'policy.' + kind, 'op': line[:500], 'model': m, 'impl': want})
    return {'failures': failures, 'mismatches': mismatches, 'coverage': cov, 'corr_cases': len(model),
            'assumptions': ['json.loads(json.dumps(d)) == d for the host_key_sizes / dh_modulus_sizes dictionaries (external function, exercised on every generated peer)',
                            'names are RFC 4251 printable names (no comma, no white space, no newline) as in the property\'s quantifier'],
            'observations': (['D35: a Policy object evaluated on several peers in a row keeps the earlier peers\' entries in its error list (%d of the sequences here); the verdict is unaffected, and the tool '
                              'never re-uses a Policy object (one deep copy per target), so this is outside the property\'s quantifier' % stale[0]] if stale[0] else [])}


# ---------------------------------------------------------------- whole audits: -M on a scripted server, -P on the same server and on a drifted one

def _wa_server(spec):
    """scripted server from a JSON-able description: lists, per host-key type what is presented, the moduli the server hands out"""
    import fakenet as fn
    cas = {'rsa2048': fn.rsa_blob(2048), 'rsa3072': fn.rsa_blob(3072), 'rsa4096': fn.rsa_blob(4096), 'ed25519': fn.ed25519_blob(b'\x51' * 32), 'ecdsa': fn.ecdsa_blob('nistp256')}
    hostkeys = {}
    for t, d in spec['hostkeys'].items():
        if d['kind'] == 'rsa':
            hostkeys[t] = fn.rsa_blob(d['bits'])
        elif d['kind'] == 'ed25519':
            hostkeys[t] = fn.ed25519_blob()
        elif d['kind'] == 'ecdsa':
            hostkeys[t] = fn.ecdsa_blob('nistp256')
        elif d['kind'] == 'rsa-cert':
            hostkeys[t] = fn.cert_blob('ssh-rsa-cert-v01@openssh.com', fn.mpint(65537) + fn.mpint((1 << (d['bits'] - 1)) | 1), cas[d['ca']])   # the key type inside the blob is ssh-rsa-cert for all three RSA certificate algorithms
        elif d['kind'] == 'ed25519-cert':
            hostkeys[t] = fn.cert_blob(t, fn.sstr(b'\x42' * 32), cas[d['ca']])
    mods = sorted(spec.get('moduli') or [])

    def gex(mn, pf, mx):
        ok = [m for m in mods if mn <= m <= mx]
        if not ok:
            return None
        up = [m for m in ok if m >= pf]
        return up[0] if up else ok[-1]
    def gex_of(ms):
        ms = sorted(ms)

        def g(mn, pf, mx):
            ok = [m for m in ms if mn <= m <= mx]
            if not ok:
                return None
            up = [m for m in ok if m >= pf]
            return up[0] if up else ok[-1]
        return g
    if spec.get('moduli_by_alg'):       # a group policy of its own per group-exchange algorithm (seed C05-11)
        gex = {a: gex_of(ms) for a, ms in spec['moduli_by_alg'].items()}
        mods = True
    return fn.simple_server(kex=tuple(spec['kex']), key=tuple(spec['key']), enc=tuple(spec['enc']), mac=tuple(spec['mac']), banner=spec['banner'].encode(), hostkeys=hostkeys, gex=gex if mods else None)


def _wa_run(args, spec):
    import fakenet as fn
    return fn.run_main(['-n', '--skip-rate-test'] + args + ['10.5.0.1'], fn.FakeNet({'10.5.0.1': _wa_server(spec)}))


def _wa_gen(r):
    rsa_bits = r.choice([2048, 3072, 4096])
    hostkeys = {'ssh-ed25519': {'kind': 'ed25519'}}
    key = ['ssh-ed25519']
    for t in r.sample(['rsa-sha2-512', 'rsa-sha2-256', 'ssh-rsa'], r.randint(0, 3)):
        hostkeys[t] = {'kind': 'rsa', 'bits': rsa_bits}
        key.append(t)
    # several RSA certificate algorithms, each with a certificate of its own (other key size, other CA): seed C05-8
    for t in r.sample(['rsa-sha2-512-cert-v01@openssh.com', 'rsa-sha2-256-cert-v01@openssh.com', 'ssh-rsa-cert-v01@openssh.com'], r.randint(0, 3)):
        hostkeys[t] = {'kind': 'rsa-cert', 'bits': r.choice([2048, 3072, 4096]), 'ca': r.choice(['rsa2048', 'rsa3072', 'rsa4096', 'ed25519', 'ecdsa'])}
        key.append(t)
    if r.random() < 0.4:
        hostkeys['ssh-ed25519-cert-v01@openssh.com'] = {'kind': 'ed25519-cert', 'ca': r.choice(['rsa2048', 'rsa4096', 'ed25519'])}
        key.append('ssh-ed25519-cert-v01@openssh.com')
    r.shuffle(key)
    kex = ['curve25519-sha256'] + r.sample(['diffie-hellman-group-exchange-sha256', 'diffie-hellman-group-exchange-sha1', 'diffie-hellman-group14-sha256', 'kex-strict-s-v00@openssh.com'], r.randint(1, 3))
    return {'kex': kex, 'key': key, 'enc': r.sample(['aes256-ctr', 'aes128-ctr', 'chacha20-poly1305@openssh.com', 'aes256-gcm@openssh.com'], r.randint(1, 3)),
            'mac': r.sample(['hmac-sha2-256-etm@openssh.com', 'hmac-sha2-512', 'umac-128-etm@openssh.com'], r.randint(1, 2)), 'banner': 'SSH-2.0-OpenSSH_9.6',
            'hostkeys': hostkeys, 'moduli': r.choice([[2048], [3072], [2048, 4096], [4096], [1024, 2048]])}


def _wa_drifts(r, spec):
    """(drifted spec, field the failed audit must name)"""
    out = []
    for t, d in spec['hostkeys'].items():
        if d['kind'] in ('rsa', 'rsa-cert'):
            s2 = copy.deepcopy(spec)
            nb = 4096 if d['bits'] != 4096 else 3072
            if d['kind'] == 'rsa':
                for t2, d2 in s2['hostkeys'].items():       # one RSA key for the whole RSA family
                    if d2['kind'] == 'rsa':
                        d2['bits'] = nb
            else:
                s2['hostkeys'][t]['bits'] = nb
            out.append((s2, 'Host key (%s) sizes' % t, 'key-size:' + d['kind']))
        if d['kind'] in ('rsa-cert', 'ed25519-cert'):
            s2 = copy.deepcopy(spec)
            if d['ca'].startswith('rsa'):
                s2['hostkeys'][t]['ca'] = 'rsa4096' if d['ca'] != 'rsa4096' else 'rsa2048'
                out.append((s2, 'CA signature size', 'ca-size'))
                s3 = copy.deepcopy(spec)
                s3['hostkeys'][t]['ca'] = 'ed25519'
                out.append((s3, 'CA signature type', 'ca-type'))
            else:
                s2['hostkeys'][t]['ca'] = 'rsa4096'
                out.append((s2, 'CA signature type', 'ca-type'))
    if any('group-exchange' in k for k in spec['kex']):
        s2 = copy.deepcopy(spec)
        s2['moduli'] = [r.choice([m for m in (2048, 3072, 4096) if m not in spec['moduli']])]
        out.append((s2, 'Group exchange', 'modulus'))
        gexs = [k for k in spec['kex'] if 'group-exchange' in k]
        if len(gexs) == 2:
            # the drift touches the group of one algorithm only
            for victim in gexs:
                s3 = copy.deepcopy(spec)
                s3['moduli_by_alg'] = {k: (list(s2['moduli']) if k == victim else list(spec['moduli'])) for k in gexs}
                out.append((s3, 'Group exchange', 'modulus-one-algorithm'))
    for cat, fieldname in (('kex', 'Key exchanges'), ('key', 'Host keys'), ('enc', 'Ciphers'), ('mac', 'MACs')):
        extra = {'kex': 'ecdh-sha2-nistp256', 'key': 'ecdsa-sha2-nistp256', 'enc': 'aes192-ctr', 'mac': 'hmac-sha1'}[cat]
        s2 = copy.deepcopy(spec)
        s2[cat] = s2[cat] + [extra]
        if cat == 'key':
            s2['hostkeys'][extra] = {'kind': 'ecdsa'}
        out.append((s2, fieldname, 'list-added:' + cat))
        if len(spec[cat]) > 1:
            s3 = copy.deepcopy(spec)
            s3[cat] = s3[cat][1:] + s3[cat][:1]
            out.append((s3, fieldname, 'list-reordered:' + cat))
    return out


def _wa_judge(spec, drifted, field, fail, tmpdir, tag):
    """-M on spec, -P on spec (must pass, exit 0) and on the drifted server (must fail, exit 3, naming the field)"""
    pol = os.path.join(tmpdir, 'pol-%d.txt' % len(os.listdir(tmpdir)))
    code, out = _wa_run(['-M', pol], spec)
    inp = {'whole_audit': True, 'server': spec}
    if code != 0 or not os.path.exists(pol):
        fail('make_policy_failed', inp, {'exit': code, 'stdout': out[-300:]}, 'a policy file and exit 0')
        return
    code, out = _wa_run(['-P', pol], spec)
    if code != 0 or 'Passed' not in out:
        fail('made_policy_fails_on_own_target', inp, {'exit': code, 'stdout': out[-400:]}, 'passes (exit 0) on the server it was made from')
    def measured(sp):
        try:
            doc = json.loads(_wa_run(['-j'], sp)[1])
            return {e['algorithm']: e.get('keysize') for e in doc['kex'] if 'keysize' in e}
        except Exception:
            return None
    def stated(ms, openssh):
        # C12's statement for a moduli policy: the smallest modulus handed out over the fixed probe sequence; for OpenSSH ending at 2048 the follow-up probe
        ms = sorted(ms)

        def f(mn, pf, mx):
            ok = [m for m in ms if mn <= m <= mx]
            up = [m for m in ok if m >= pf]
            return (up[0] if up else ok[-1]) if ok else None
        ans = [f(512, 1024, 1536)] + [f(b, b, b) for b in (512, 768, 1024, 1536, 2048, 3072, 4096)]
        pos = [a for a in ans if a]
        m = min(pos) if pos else None
        return f(2048, 3072, 4096) if (m == 2048 and openssh) else m
    for d, f_, kind in drifted:
        if kind == 'modulus-one-algorithm':
            # independent of what the tool measures: the two servers differ in the group one algorithm is served from
            osh = 'OpenSSH' in spec['banner']
            if all(stated(d['moduli_by_alg'][a], osh) == stated(spec['moduli'], osh) for a in d['moduli_by_alg']):
                continue
        if kind == 'modulus':
            # only a modulus the standard audit measures on both servers, with different results, is a drift the policy can see
            m0, m1 = measured(spec), measured(d)
            if not m0 or not m1 or not any(k in m1 and m1[k] != v for k, v in m0.items()):
                continue
        code, out = _wa_run(['-P', pol], d)
        named = [l[4:].split(' did not match')[0] for l in out.split('\n') if l.startswith('  * ') and ' did not match' in l]
        if code != 3 or 'Failed' not in out or not any(n.startswith(f_) for n in named):
            fail('drift_not_detected', dict(inp, drifted=d, drift=kind), {'exit': code, 'fields_named': named, 'stdout': out[-200:]}, 'exit 3, Failed, naming %r' % f_)


def fleet_stage(ctx, fail, cov, specs, tmpdir):
    """The policy made from a server, used in one scan of a targets file that names that server between drifted copies of it (1 and 3 worker
    threads): every target gets the verdict and the errors it gets when it is scanned alone — the source passes with no error, a drifted copy
    names its own field only.  (Seed C05-12: the per-target policies of a targets-file scan shared one error list.)"""
    import fakenet as fn
    r = ctx.rng
    for spec in specs:
        pol = os.path.join(tmpdir, 'fleet-pol-%d.txt' % len(os.listdir(tmpdir)))
        code, out = _wa_run(['-M', pol], spec)
        if code != 0 or not os.path.exists(pol):
            continue        # reported by the whole-audit stage
        drifts = [d for d, f_, kind in _wa_drifts(r, spec) if kind not in ('modulus', 'modulus-one-algorithm')]
        if not drifts:
            continue
        members = [r.choice(drifts), spec, r.choice(drifts), spec]
        alone = []
        for m in members:
            try:
                doc = json.loads(_wa_run(['-P', pol, '-j'], m)[1])
                alone.append({'passed': doc.get('passed'), 'errors': doc.get('errors')})
            except Exception as e:
                alone.append({'unreadable': type(e).__name__})
        ips = ['10.5.1.%d' % (i + 1) for i in range(len(members))]
        tpath = os.path.join(tmpdir, 'fleet-targets.txt')
        with open(tpath, 'w') as f:
            f.write('\n'.join(ips) + '\n')
        for threads in (1, 3):
            net = fn.FakeNet({ip: _wa_server(m) for ip, m in zip(ips, members)})
            code, out = fn.run_main(['-n', '--skip-rate-test', '-P', pol, '-j', '-T', tpath, '--threads', str(threads)], net)
            cov.add(('fleet', json.dumps(spec, sort_keys=True), threads), True, tags=['fleet-policy-scan'])
            inp = {'fleet': True, 'server': spec, 'members': members, 'threads': threads}
            try:
                docs = json.loads(out)
            except Exception:
                fail('fleet_scan_unreadable', inp, out[-300:], 'a JSON array of %d reports' % len(members))
                continue
            by_host = {d_.get('host'): d_ for d_ in docs if isinstance(d_, dict)}
            for ip, ref in zip(ips, alone):
                d_ = by_host.get(ip)
                got = {'passed': d_.get('passed'), 'errors': d_.get('errors')} if d_ else None
                if 'unreadable' not in ref and got != ref:
                    fail('fleet_verdict_differs_from_single_scan', dict(inp, target=ip), got, ref)
                    break


def whole_audit_stage(ctx, fail, cov):
    import shutil
    import tempfile
    r = ctx.rng
    d = tempfile.mkdtemp(prefix='verif_c05_')
    try:
        fixed = {'kex': ['curve25519-sha256', 'diffie-hellman-group-exchange-sha256'], 'key': ['rsa-sha2-512-cert-v01@openssh.com', 'rsa-sha2-256-cert-v01@openssh.com', 'ssh-ed25519'],
                 'enc': ['aes256-ctr'], 'mac': ['hmac-sha2-256-etm@openssh.com'], 'banner': 'SSH-2.0-OpenSSH_9.6', 'moduli': [3072],
                 'hostkeys': {'ssh-ed25519': {'kind': 'ed25519'}, 'rsa-sha2-512-cert-v01@openssh.com': {'kind': 'rsa-cert', 'bits': 3072, 'ca': 'rsa4096'},
                              'rsa-sha2-256-cert-v01@openssh.com': {'kind': 'rsa-cert', 'bits': 4096, 'ca': 'rsa3072'}}}
        specs = [fixed] + [_wa_gen(r) for _ in range(ctx.scale(7, 120))]
        for spec in specs:
            drifts = _wa_drifts(r, spec)
            if ctx.tier != 'thorough' and len(drifts) > 7 and spec is not fixed:
                drifts = r.sample(drifts, 7)
            cov.add(('whole-audit', json.dumps(spec, sort_keys=True)), True, tags=['whole-audit-make-then-audit'] + ['drift:' + k for _, _, k in drifts])
            for _ in drifts:
                cov.add(('whole-audit-drift', json.dumps(_[0], sort_keys=True), _[2]), True, tags=['whole-audit-drift'])
            _wa_judge(spec, drifts, None, fail, d, None)
        fleet_stage(ctx, fail, cov, specs[:ctx.scale(3, 30)], d)
    finally:
        shutil.rmtree(d, ignore_errors=True)


def replay(obj):
    f = obj.get('failure', obj)
    if f['input'].get('whole_audit'):
        import shutil
        import tempfile
        fails = []
        d = tempfile.mkdtemp(prefix='verif_c05_')
        try:
            drifted = [(f['input']['drifted'], {'key-size': 'Host key', 'ca-size': 'CA signature size', 'ca-type': 'CA signature type', 'modulus': 'Group exchange'}.get(f['input']['drift'].split(':')[0],
                        {'kex': 'Key exchanges', 'key': 'Host keys', 'enc': 'Ciphers', 'mac': 'MACs'}.get(f['input']['drift'].split(':')[-1], '')), f['input']['drift'])] if 'drifted' in f['input'] else []
            _wa_judge(f['input']['server'], drifted, None, lambda k, i, o, e: fails.append((k, o, e)), d, None)
        finally:
            shutil.rmtree(d, ignore_errors=True)
        for k, o, e in fails:
            print('PROPERTY FAILS', k, 'observed', json.dumps(o)[:500], 'expected', e)
        if not fails:
            print('-M then -P: passes on its own target and fails, naming the field, on the drifted one')
        return 1 if fails else 0
    q = f['input'].get('peer')
    if q is None:
        print(json.dumps(f, indent=1)[:1500])
        return 0
    text, pol = impl_make_and_load(q)
    if isinstance(pol, Exception):
        print('the -M output does not load:', repr(pol))
        return 1
    if 'sequence' in f['input']:
        bad = False
        pol0 = copy.deepcopy(pol)
        for qq in f['input']['sequence']:
            passed, errs, _ = pol.evaluate(FakeBanner(qq['banner_str']), mk_kex(qq))
            fresh = eval_loaded(pol0, qq)
            print('re-used object: passed=%s; fresh object: passed=%s' % (passed, fresh['passed']))
            bad |= passed != fresh['passed']
        print('PROPERTY FAILS' if bad else 'property holds on this input')
        return 1 if bad else 0
    q2 = f['input'].get('perturbed_peer', q)
    res = eval_loaded(pol, q2)
    print(json.dumps(res)[:1200])
    if 'perturbed_peer' in f['input']:
        bad = res['passed'] or f['input']['attribute'] not in [e['mismatched_field'] for e in res['errors']]
    else:
        bad = (not res['passed']) or bool(res['errors'])
    print('PROPERTY FAILS' if bad else 'property holds on this input')
    return 1 if bad else 0
