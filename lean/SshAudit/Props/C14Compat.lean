/-
  C14 for the `(gen) compatibility:` and `(gen) software:` lines of the standard report (`Model/Compat.lean`).

  For EVERY rating database (the regenerated tables and arbitrary ones), every advertised name lists and both roles:
  * `compat_closed_form` — the line is `form p lower upper` for OpenSSH then Dropbear SSH, joined by ", ", where
    `lower` / `upper` are the slot rule folded over the "appeared in" / "removed in" versions (`sinces` / `tills`) the advertised
    names contribute for that product; nothing else of the time frame (insertion order of products, libssh, the other role's
    slots) reaches the line;
  * `lower_is_greatest` / `upper_is_smallest` — the lower bound is the greatest of the contributed versions and the upper
    bound the smallest, **in Python's `str` order** — that is what `timeframe.py` computes (`prev < ssh_version` on strings);
  * `lower_numeric` / `upper_numeric` / `bounds_numeric_of_safe_db` — on every set of versions whose string order is the
    numeric one (`C14.orderSafe`) the bounds are the numerically greatest / smallest by the model's `compareVersion`
    (`compareVersion_versions`: component-wise numeric, any digit count);
    `gen_bounds_numeric`, `gen_bounds_numeric_ssh1` — unconditionally so for the regenerated databases
    (`C14.db_versions_order_safe` + `gen_versions_wellformed`);
    `lower_bound_not_numeric_in_general` — the numeric statement is FALSE for arbitrary databases: with `9.9` and `10.0` in a
    database the line reads `OpenSSH 9.9+` (proved negation with the concrete witness; `lower_numeric` is its `_partial` form);
  * `compat_set_function` — the line is a function of the SET of version entries of the advertised names (also across two
    databases): `compat_perm` / `compat_perm_peer` (any permutation of the lists), `compat_repeat` / `compat_dedup` (repeated names),
    `compat_ignores_notes` (databases that differ in notes only), `compat_after_postprocess` (the Terrapin / fallback edits of
    `post_process_findings`); no output option enters (`lines_option_free`);
  * `bounds_monotone`, `add_name_monotone` — more advertised names can only raise a lower bound, lower an upper bound and
    keep a product that was shown;
  * `name_without_entry_keeps_product`, `unknown_name_ignored`, `empty_versions_ignored` — an algorithm that says nothing about
    a product leaves that product's part as it is;
  * `role_slots`, `role_slots_disjoint`, `server_skips_client_only`, `client_audit_prints_nothing`, `output_uses_server_frame`,
    `compat_printed_iff` — the role, and when the line is printed at all;
  * `form_*` — the five shapes (`X+`, `X`, `X-Y`, `X+ (some functionality from Y)`, omitted) exactly as coded;
  * `display_short`, `display_full` (closed form for every vendor / product / version / patch / os), `parse_openssh` / `parse_dropbear` /
    `parse_libssh` / `software_line_openssh` (`display ∘ parse` on the banner grammar), `display_not_parsable` (no `parse ∘ display`),
    `general_items_compat` / `software_of_audit` (where `output()` puts the two lines);
  * `parts_server_eq_ssh1`, `compat1_eq` — the SSH-1 report prints its line through the same loop.
-/
import SshAudit.Lemmas.Compat
import SshAudit.Props.C14
import SshAudit.Gen.KexDB
namespace SshAudit.C14Compat
open Version Text Compat
open SshAudit.Report (s kexC keyC encC macC autC)

/-! ### specification side -/

/-- the slot `get_from(product, for_server)` / `get_till(product, for_server)` read -/
def fromPos (forServer : Bool) : Nat := if forServer then 0 else 2
def tillPos (forServer : Bool) : Nat := if forServer then 1 else 3

/-- the "appeared in" versions the advertised names contribute for product `p` (in the order of the audit) -/
def sinces (db : DB) (items : List (Str × List Str)) (forServer : Bool) (p : Str) : List Str :=
  picks (allUpdates db items forServer) p (fromPos forServer)

/-- the "removed in" versions the advertised names contribute for product `p` -/
def tills (db : DB) (items : List (Str × List Str)) (forServer : Bool) (p : Str) : List Str :=
  picks (allUpdates db items forServer) p (tillPos forServer)

def lower (db : DB) (items : List (Str × List Str)) (forServer : Bool) (p : Str) : Option Str :=
  slotFold (fromPos forServer) (sinces db items forServer p)

def upper (db : DB) (items : List (Str × List Str)) (forServer : Bool) (p : Str) : Option Str :=
  slotFold (tillPos forServer) (tills db items forServer p)

/-- the text for one product, given its two bounds -/
def form (p : Str) (lo hi : Option Str) : Option Str :=
  match lo, hi with
  | none, _ => none
  | some a, none => some (p ++ s " " ++ a ++ s "+")
  | some a, some t =>
    if a = t then some (p ++ s " " ++ a)
    else if compareVersion ⟨none, p, a, none, none⟩ t > 0 then some (p ++ s " " ++ a ++ s "+ (some functionality from " ++ t ++ s ")")
    else some (p ++ s " " ++ a ++ s "-" ++ t)

/-- the version entries (`alg_desc[0]`) of the advertised names the database knows -/
def advertised (db : DB) (items : List (Str × List Str)) : List (List (Option Str)) :=
  items.flatMap (fun it => it.2.filterMap (fun n => (DBm.lookup db it.1 n).map DBm.versions))

/-! ### the time frame of an audit, slot by slot -/

theorem fromPos_lt (fs : Bool) : fromPos fs < 4 := by cases fs <;> decide
theorem tillPos_lt (fs : Bool) : tillPos fs < 4 := by cases fs <;> decide

theorem timeframe_slot (db : DB) (items : List (Str × List Str)) (fs : Bool) (p : Str) (pos : Nat) :
    slotAt (timeframe db items fs) p pos = slotFold pos (picks (allUpdates db items fs) p pos) := by
  unfold timeframe
  rw [sshTimeframe_eq, slotAt_applyAll [] wf_nil _ (allUpdates_pos db items fs), slotAt_nil]
  rfl

/-- `get_from(product, for_server)` of the audit's time frame -/
theorem timeframe_from (db : DB) (items : List (Str × List Str)) (fs : Bool) (p : Str) :
    tfGetFrom (timeframe db items fs) p fs = lower db items fs p := by
  have := timeframe_slot db items fs p (fromPos fs)
  cases fs <;> exact this

/-- `get_till(product, for_server)` of the audit's time frame -/
theorem timeframe_till (db : DB) (items : List (Str × List Str)) (fs : Bool) (p : Str) :
    tfGetTill (timeframe db items fs) p fs = upper db items fs p := by
  have := timeframe_slot db items fs p (tillPos fs)
  cases fs <;> exact this

/-- `product in timeframe`: some advertised name has some version entry of that product (in any slot of the role) -/
theorem timeframe_contains (db : DB) (items : List (Str × List Str)) (fs : Bool) (p : Str) :
    tfContains (timeframe db items fs) p = (allUpdates db items fs).any (fun u => decide (u.1 = p)) := by
  unfold timeframe
  rw [sshTimeframe_eq, contains_applyAll]
  rfl

/-- the membership test of the loop is redundant: a product outside the time frame has no lower bound -/
theorem partOf_eq_form (tf : Timeframe) (fs : Bool) (p : Str) :
    partOf tf fs p = form p (tfGetFrom tf p fs) (tfGetTill tf p fs) := by
  unfold partOf form
  by_cases hc : tfContains tf p = false
  · have h1 : tfGetFrom tf p fs = none := slotAt_not_contained tf p _ hc
    simp [hc, h1]
  · simp only [hc]
    cases tfGetFrom tf p fs with
    | none => rfl
    | some a =>
      cases tfGetTill tf p fs with
      | none => rfl
      | some t => rfl

/-- **(b) the closed form of the line.**  For every database, every advertised lists and both roles. -/
theorem compat_closed_form (db : DB) (items : List (Str × List Str)) (client fs : Bool) :
    compatText db items client fs =
      if client then none
      else
        let parts := shownProducts.filterMap (fun p => form p (lower db items fs p) (upper db items fs p))
        if parts.length > 0 then some (Text.join (s ", ") parts) else none := by
  unfold compatText partsFor
  have : (fun p => partOf (timeframe db items fs) fs p) = (fun p => form p (lower db items fs p) (upper db items fs p)) := by
    funext p
    rw [partOf_eq_form, timeframe_from, timeframe_till]
  simp only [this]

/-- the two products and their order -/
theorem compat_products (db : DB) (items : List (Str × List Str)) (fs : Bool) :
    partsFor (timeframe db items fs) fs =
      (form pOpenSSH (lower db items fs pOpenSSH) (upper db items fs pOpenSSH)).toList ++
      (form pDropbear (lower db items fs pDropbear) (upper db items fs pDropbear)).toList := by
  unfold partsFor shownProducts
  simp only [List.filterMap_cons, List.filterMap_nil, partOf_eq_form, timeframe_from, timeframe_till]
  cases form pOpenSSH (lower db items fs pOpenSSH) (upper db items fs pOpenSSH) <;>
    cases form pDropbear (lower db items fs pDropbear) (upper db items fs pDropbear) <;> rfl

/-! ### the five shapes, exactly as coded -/

theorem form_omitted (p : Str) (hi : Option Str) : form p none hi = none := by
  cases hi <;> rfl

theorem form_open (p a : Str) : form p (some a) none = some (p ++ s " " ++ a ++ s "+") := rfl

theorem form_single (p a : Str) : form p (some a) (some a) = some (p ++ s " " ++ a) := by simp [form]

theorem form_range (p a t : Str) (hne : a ≠ t) (h : compareVersion ⟨none, p, a, none, none⟩ t ≤ 0) :
    form p (some a) (some t) = some (p ++ s " " ++ a ++ s "-" ++ t) := by
  have : ¬ compareVersion ⟨none, p, a, none, none⟩ t > 0 := by omega
  simp [form, hne, this]

theorem form_inverted (p a t : Str) (hne : a ≠ t) (h : compareVersion ⟨none, p, a, none, none⟩ t > 0) :
    form p (some a) (some t) = some (p ++ s " " ++ a ++ s "+ (some functionality from " ++ t ++ s ")") := by
  simp [form, hne, h]

/-- a product is shown exactly when it has a lower bound -/
theorem form_shown_iff (p : Str) (lo hi : Option Str) : (form p lo hi).isSome = lo.isSome := by
  cases lo with
  | none => cases hi <;> rfl
  | some a =>
    cases hi with
    | none => rfl
    | some t =>
      simp only [form]
      split
      · rfl
      · split <;> rfl

/-- every shown part starts with the product and its lower bound -/
theorem form_prefix (p : Str) (a : Str) (hi : Option Str) : ∃ rest, form p (some a) hi = some (p ++ s " " ++ a ++ rest) := by
  cases hi with
  | none => exact ⟨s "+", rfl⟩
  | some t =>
    simp only [form]
    split
    · exact ⟨[], by simp⟩
    · split
      · exact ⟨s "+ (some functionality from " ++ t ++ s ")", by simp [List.append_assoc]⟩
      · exact ⟨s "-" ++ t, by simp [List.append_assoc]⟩

/-! ### (b) the bounds are the extremes of what the advertised names contribute -/

/-- **the lower bound is the greatest "appeared in" version** (Python `str` order, as `timeframe.py` compares): there is
    none exactly when no advertised name has one for the product; otherwise it is one of them and none is greater -/
theorem lower_is_greatest (db : DB) (items : List (Str × List Str)) (fs : Bool) (p : Str) :
    (lower db items fs p = none ↔ sinces db items fs p = []) ∧
    (∀ r, lower db items fs p = some r → r ∈ sinces db items fs p ∧ ∀ v ∈ sinces db items fs p, strLt r v = false) := by
  have h := slotFold_spec (fromPos fs) (sinces db items fs p)
  refine ⟨h.1, ?_⟩
  intro r hr
  obtain ⟨hm, ha⟩ := h.2 r hr
  refine ⟨hm, ?_⟩
  intro v hv
  have := ha v hv
  cases fs <;> simpa [beats, fromPos] using this

/-- **the upper bound is the smallest "removed in" version** -/
theorem upper_is_smallest (db : DB) (items : List (Str × List Str)) (fs : Bool) (p : Str) :
    (upper db items fs p = none ↔ tills db items fs p = []) ∧
    (∀ r, upper db items fs p = some r → r ∈ tills db items fs p ∧ ∀ v ∈ tills db items fs p, strLt v r = false) := by
  have h := slotFold_spec (tillPos fs) (tills db items fs p)
  refine ⟨h.1, ?_⟩
  intro r hr
  obtain ⟨hm, ha⟩ := h.2 r hr
  refine ⟨hm, ?_⟩
  intro v hv
  have := ha v hv
  cases fs <;> simpa [beats, tillPos] using this

/-- the bounds are determined by these two conditions (the extreme element of a strict total order is unique) -/
theorem lower_unique (db : DB) (items : List (Str × List Str)) (fs : Bool) (p r : Str)
    (hm : r ∈ sinces db items fs p) (ha : ∀ v ∈ sinces db items fs p, strLt r v = false) : lower db items fs p = some r := by
  obtain ⟨h1, h2⟩ := lower_is_greatest db items fs p
  cases hl : lower db items fs p with
  | none => rw [h1.mp hl] at hm; cases hm
  | some r' =>
    obtain ⟨hm', ha'⟩ := h2 r' hl
    rw [strLt_strictTotal.tri r r' (ha r' hm') (ha' r hm)]

theorem upper_unique (db : DB) (items : List (Str × List Str)) (fs : Bool) (p r : Str)
    (hm : r ∈ tills db items fs p) (ha : ∀ v ∈ tills db items fs p, strLt v r = false) : upper db items fs p = some r := by
  obtain ⟨h1, h2⟩ := upper_is_smallest db items fs p
  cases hl : upper db items fs p with
  | none => rw [h1.mp hl] at hm; cases hm
  | some r' =>
    obtain ⟨hm', ha'⟩ := h2 r' hl
    rw [strLt_strictTotal.tri r r' (ha' r hm) (ha r' hm')]

/-! ### which versions the advertised names contribute -/

theorem mem_allUpdates (db : DB) (items : List (Str × List Str)) (fs : Bool) (u : Upd) :
    u ∈ allUpdates db items fs ↔ ∃ vs ∈ advertised db items, u ∈ updatesOf vs fs := by
  simp only [allUpdates, advertised, List.mem_flatMap, List.mem_filterMap, nameUpdates]
  constructor
  · rintro ⟨it, hit, n, hn, h⟩
    cases hl : DBm.lookup db it.1 n with
    | none => rw [hl] at h; cases h
    | some e =>
      rw [hl] at h
      exact ⟨DBm.versions e, ⟨it, hit, n, hn, by simp [hl]⟩, h⟩
  · rintro ⟨vs, ⟨it, hit, n, hn, hv⟩, h⟩
    refine ⟨it, hit, n, hn, ?_⟩
    cases hl : DBm.lookup db it.1 n with
    | none => simp [hl] at hv
    | some e =>
      simp only [hl, Option.map_some, Option.some.injEq] at hv
      subst hv; exact h

/-- an "appeared in" version of product `p` is contributed exactly by an advertised, known name whose version entry makes
    `update()` assign it to the role's "from" slot -/
theorem mem_sinces (db : DB) (items : List (Str × List Str)) (fs : Bool) (p v : Str) :
    v ∈ sinces db items fs p ↔ ∃ vs ∈ advertised db items, (p, fromPos fs, v) ∈ updatesOf vs fs := by
  unfold sinces
  rw [mem_picks, mem_allUpdates]

theorem mem_tills (db : DB) (items : List (Str × List Str)) (fs : Bool) (p v : Str) :
    v ∈ tills db items fs p ↔ ∃ vs ∈ advertised db items, (p, tillPos fs, v) ∈ updatesOf vs fs := by
  unfold tills
  rw [mem_picks, mem_allUpdates]

/-! ### (a) the line is a function of the set of advertised version entries -/

/-- **(a)**  Two audits — even against two different databases — whose advertised names have the same SET of version
    entries print the same compatibility line: the order of the lists, repetitions, which category a name stands in, the
    names themselves and every other field of the database do not enter. -/
theorem compat_set_function (db db' : DB) (items items' : List (Str × List Str)) (client fs : Bool)
    (h : ∀ vs, vs ∈ advertised db items ↔ vs ∈ advertised db' items') :
    compatText db items client fs = compatText db' items' client fs := by
  have hs : ∀ p, lower db items fs p = lower db' items' fs p := by
    intro p
    apply slotFold_congr
    intro v
    rw [mem_sinces, mem_sinces]
    constructor <;> rintro ⟨vs, hv, hu⟩
    · exact ⟨vs, (h vs).mp hv, hu⟩
    · exact ⟨vs, (h vs).mpr hv, hu⟩
  have ht : ∀ p, upper db items fs p = upper db' items' fs p := by
    intro p
    apply slotFold_congr
    intro v
    rw [mem_tills, mem_tills]
    constructor <;> rintro ⟨vs, hv, hu⟩
    · exact ⟨vs, (h vs).mp hv, hu⟩
    · exact ⟨vs, (h vs).mpr hv, hu⟩
  rw [compat_closed_form, compat_closed_form]
  simp only [hs, ht]

theorem mem_advertised (db : DB) (items : List (Str × List Str)) (vs : List (Option Str)) :
    vs ∈ advertised db items ↔ ∃ it ∈ items, ∃ n ∈ it.2, ∃ e, DBm.lookup db it.1 n = some e ∧ DBm.versions e = vs := by
  simp only [advertised, List.mem_flatMap, List.mem_filterMap, Option.map_eq_some_iff]

/-- permuting each of the advertised lists does not change the line -/
theorem compat_perm (db : DB) (cats : List Str) (ls ls' : List (List Str)) (client fs : Bool)
    (hlen : ls.length = ls'.length) (hp : ∀ i (h : i < ls.length), (ls[i]).Perm (ls'[i]'(hlen ▸ h))) :
    compatText db (cats.zip ls) client fs = compatText db (cats.zip ls') client fs := by
  apply compat_set_function
  intro vs
  simp only [mem_advertised]
  have key : ∀ (a b : List (List Str)) (hl : a.length = b.length),
      (∀ i (h : i < a.length), (a[i]).Perm (b[i]'(hl ▸ h))) →
      ∀ it ∈ cats.zip a, ∀ n ∈ it.2, ∃ it' ∈ cats.zip b, it'.1 = it.1 ∧ n ∈ it'.2 := by
    intro a b hl hperm it hit n hn
    obtain ⟨i, hi, e⟩ := List.getElem_of_mem hit
    simp only [List.length_zip] at hi
    have hia : i < a.length := by omega
    have hib : i < b.length := by omega
    have hic : i < cats.length := by omega
    refine ⟨(cats[i], b[i]), ?_, ?_, ?_⟩
    · apply List.mem_iff_getElem.mpr
      exact ⟨i, by simp only [List.length_zip]; omega, by simp⟩
    · rw [← e]; simp
    · have := (hperm i hia).mem_iff (a := n)
      rw [← e] at hn
      simp only [List.getElem_zip] at hn
      exact this.mp hn
  constructor
  · rintro ⟨it, hit, n, hn, e, hl, hv⟩
    obtain ⟨it', hit', e1, hn'⟩ := key ls ls' hlen hp it hit n hn
    exact ⟨it', hit', n, hn', e, e1 ▸ hl, hv⟩
  · rintro ⟨it, hit, n, hn, e, hl, hv⟩
    obtain ⟨it', hit', e1, hn'⟩ := key ls' ls hlen.symm (fun i h => (hp i (hlen ▸ h)).symm) it hit n hn
    exact ⟨it', hit', n, hn', e, e1 ▸ hl, hv⟩

/-- the four SSH-2 lists, each permuted -/
theorem compat_perm_peer (db : DB) (peer peer' : Report.Peer) (client fs : Bool)
    (h1 : peer.kex.Perm peer'.kex) (h2 : peer.key.Perm peer'.key) (h3 : peer.encS.Perm peer'.encS) (h4 : peer.macS.Perm peer'.macS) :
    compatText db (items2 peer) client fs = compatText db (items2 peer') client fs := by
  have := compat_perm db [kexC, keyC, encC, macC] [peer.kex, peer.key, peer.encS, peer.macS]
    [peer'.kex, peer'.key, peer'.encS, peer'.macS] client fs rfl (by
      intro i h
      match i, h with
      | 0, _ => exact h1
      | 1, _ => exact h2
      | 2, _ => exact h3
      | 3, _ => exact h4)
  exact this

/-- repeating advertised names (anywhere, any number of times) does not change the line -/
theorem compat_repeat (db : DB) (items items' : List (Str × List Str)) (client fs : Bool)
    (h : ∀ c n, (∃ it ∈ items, it.1 = c ∧ n ∈ it.2) ↔ (∃ it ∈ items', it.1 = c ∧ n ∈ it.2)) :
    compatText db items client fs = compatText db items' client fs := by
  apply compat_set_function
  intro vs
  simp only [mem_advertised]
  constructor
  · rintro ⟨it, hit, n, hn, e, hl, hv⟩
    obtain ⟨it', hit', e1, hn'⟩ := (h it.1 n).mp ⟨it, hit, rfl, hn⟩
    exact ⟨it', hit', n, hn', e, e1 ▸ hl, hv⟩
  · rintro ⟨it, hit, n, hn, e, hl, hv⟩
    obtain ⟨it', hit', e1, hn'⟩ := (h it.1 n).mpr ⟨it, hit, rfl, hn⟩
    exact ⟨it', hit', n, hn', e, e1 ▸ hl, hv⟩

/-- in particular: a list with its duplicates removed -/
theorem compat_dedup (db : DB) (c : Str) (l : List Str) (rest : List (Str × List Str)) (client fs : Bool) :
    compatText db ((c, l) :: rest) client fs = compatText db ((c, l.eraseDups) :: rest) client fs := by
  apply compat_repeat
  intro c' n
  simp only [List.mem_cons, exists_eq_or_imp, List.mem_eraseDups]

/-- two databases that agree on the version entry of every name print the same line for the same lists: no note, no rating
    enters -/
theorem compat_ignores_notes (db db' : DB) (items : List (Str × List Str)) (client fs : Bool)
    (h : ∀ c n, (DBm.lookup db c n).map DBm.versions = (DBm.lookup db' c n).map DBm.versions) :
    compatText db items client fs = compatText db' items client fs := by
  apply compat_set_function
  intro vs
  simp only [advertised, h]

/-! ### (c) monotonicity -/

/-- **(c)**  When every version entry advertised in one audit is also advertised in another (more names, another order, even
    another database), then for every product: a lower bound stays and can only rise, an upper bound present afterwards is not
    above the one before, and an upper bound never disappears. -/
theorem bounds_monotone (db db' : DB) (items items' : List (Str × List Str)) (fs : Bool) (p : Str)
    (h : ∀ vs ∈ advertised db items, vs ∈ advertised db' items') :
    (∀ a, lower db items fs p = some a → ∃ a', lower db' items' fs p = some a' ∧ strLt a' a = false) ∧
    (∀ t, upper db items fs p = some t → ∃ t', upper db' items' fs p = some t' ∧ strLt t t' = false) := by
  constructor
  · intro a ha
    obtain ⟨hm, _⟩ := (lower_is_greatest db items fs p).2 a ha
    have hm' : a ∈ sinces db' items' fs p := by
      rw [mem_sinces] at hm ⊢
      obtain ⟨vs, hv, hu⟩ := hm
      exact ⟨vs, h vs hv, hu⟩
    obtain ⟨h1, h2⟩ := lower_is_greatest db' items' fs p
    cases hl : lower db' items' fs p with
    | none => rw [h1.mp hl] at hm'; cases hm'
    | some a' => exact ⟨a', rfl, (h2 a' hl).2 a hm'⟩
  · intro t ht
    obtain ⟨hm, _⟩ := (upper_is_smallest db items fs p).2 t ht
    have hm' : t ∈ tills db' items' fs p := by
      rw [mem_tills] at hm ⊢
      obtain ⟨vs, hv, hu⟩ := hm
      exact ⟨vs, h vs hv, hu⟩
    obtain ⟨h1, h2⟩ := upper_is_smallest db' items' fs p
    cases hl : upper db' items' fs p with
    | none => rw [h1.mp hl] at hm'; cases hm'
    | some t' => exact ⟨t', rfl, (h2 t' hl).2 t hm'⟩

theorem advertised_append (db : DB) (items more : List (Str × List Str)) :
    advertised db (items ++ more) = advertised db items ++ advertised db more := by
  simp [advertised]

/-- adding an algorithm (here: as a further list entry; by `compat_perm` its position does not matter) can only shrink a
    product's range, and a product that was shown stays shown -/
theorem add_name_monotone (db : DB) (items : List (Str × List Str)) (c n : Str) (fs : Bool) (p : Str) :
    (∀ a, lower db items fs p = some a → ∃ a', lower db (items ++ [(c, [n])]) fs p = some a' ∧ strLt a' a = false) ∧
    (∀ t, upper db items fs p = some t → ∃ t', upper db (items ++ [(c, [n])]) fs p = some t' ∧ strLt t t' = false) ∧
    ((form p (lower db items fs p) (upper db items fs p)).isSome = true →
      (form p (lower db (items ++ [(c, [n])]) fs p) (upper db (items ++ [(c, [n])]) fs p)).isSome = true) := by
  have hsub : ∀ vs ∈ advertised db items, vs ∈ advertised db (items ++ [(c, [n])]) := by
    intro vs hv; rw [advertised_append]; exact List.mem_append_left _ hv
  obtain ⟨h1, h2⟩ := bounds_monotone db db items (items ++ [(c, [n])]) fs p hsub
  refine ⟨h1, h2, ?_⟩
  rw [form_shown_iff, form_shown_iff]
  intro hs
  cases hl : lower db items fs p with
  | none => rw [hl] at hs; cases hs
  | some a =>
    obtain ⟨a', ha', _⟩ := h1 a hl
    rw [ha']; rfl

/-! ### (d) names that say nothing about a product -/

/-- **(d)**  An advertised algorithm whose version entry assigns nothing to product `p` (no descriptor of that product in the
    entries the role reads — e.g. an OpenSSH-only algorithm and `p` = Dropbear SSH) leaves the bounds of `p`, hence its part
    of the line, exactly as they were: the product is *kept*, not removed. -/
theorem name_without_entry_keeps_product (db : DB) (items : List (Str × List Str)) (c n : Str) (fs : Bool) (p : Str)
    (h : ∀ pos v, (p, pos, v) ∉ nameUpdates db fs c n) :
    lower db (items ++ [(c, [n])]) fs p = lower db items fs p ∧ upper db (items ++ [(c, [n])]) fs p = upper db items fs p := by
  unfold lower upper sinces tills
  rw [allUpdates_append, allUpdates_single, picks_append, picks_append,
    picks_eq_nil _ p _ (h _), picks_eq_nil _ p _ (h _), List.append_nil, List.append_nil]
  exact ⟨rfl, rfl⟩

/-- names the database does not know change nothing: the line of the lists with every unknown name removed is the line -/
theorem unknown_names_ignored (db : DB) (items : List (Str × List Str)) (client fs : Bool) :
    compatText db (items.map (fun it => (it.1, it.2.filter (fun n => (DBm.lookup db it.1 n).isSome)))) client fs
      = compatText db items client fs := by
  apply compat_set_function
  intro vs
  simp only [mem_advertised, List.mem_map]
  constructor
  · rintro ⟨it, ⟨it0, h0, e0⟩, n, hn, e, hl, hv⟩
    subst e0
    simp only [List.mem_filter] at hn
    exact ⟨it0, h0, n, hn.1, e, hl, hv⟩
  · rintro ⟨it, hit, n, hn, e, hl, hv⟩
    exact ⟨(it.1, it.2.filter (fun n => (DBm.lookup db it.1 n).isSome)), ⟨it, hit, rfl⟩, n,
      by simp [List.mem_filter, hn, hl], e, hl, hv⟩

theorem unknown_name_ignored (db : DB) (items : List (Str × List Str)) (c n : Str) (client fs : Bool)
    (h : DBm.lookup db c n = none) : compatText db (items ++ [(c, [n])]) client fs = compatText db items client fs := by
  unfold compatText timeframe
  rw [sshTimeframe_eq, sshTimeframe_eq, allUpdates_append, allUpdates_single]
  simp [nameUpdates, h]

/-- a known name with an empty version entry (`[[]]`, most of the database) changes nothing -/
theorem empty_versions_ignored (db : DB) (items : List (Str × List Str)) (c n : Str) (e : Entry) (client fs : Bool)
    (h : DBm.lookup db c n = some e) (hv : DBm.versions e = []) :
    compatText db (items ++ [(c, [n])]) client fs = compatText db items client fs := by
  unfold compatText timeframe
  rw [sshTimeframe_eq, sshTimeframe_eq, allUpdates_append, allUpdates_single]
  simp [nameUpdates, h, hv, updatesOf_nil]

/-! ### (e) the role -/

/-- **(e)**  `Timeframe.update(versions, for_server)` for a `bool` role, as the list of its assignments (`Lemmas.tfUpdate_eq`):
    a server frame reads `versions[0]` into the "from" slot 0 and `versions[1]` into the "till" slot 1; a client frame reads
    `versions[0]` into slot 2 and, into slot 3, `versions[1]` when there are exactly two entries and `versions[2]` when there
    are three or more; anything beyond the third entry is never read. -/
theorem role_slots (tf : Timeframe) (a b c : Option Str) (rest : List (Option Str)) :
    tfUpdate tf [] (some true) = tf ∧
    tfUpdate tf [a] (some true) = applyAll tf (upd1 a 0) ∧
    tfUpdate tf (a :: b :: rest) (some true) = applyAll tf (upd1 a 0 ++ upd1 b 1) ∧
    tfUpdate tf [] (some false) = tf ∧
    tfUpdate tf [a] (some false) = applyAll tf (upd1 a 2) ∧
    tfUpdate tf [a, b] (some false) = applyAll tf (upd1 a 2 ++ upd1 b 3) ∧
    tfUpdate tf (a :: b :: c :: rest) (some false) = applyAll tf (upd1 a 2 ++ upd1 c 3) :=
  ⟨tfUpdate_eq tf [] true, tfUpdate_eq tf [a] true, tfUpdate_eq tf (a :: b :: rest) true,
   tfUpdate_eq tf [] false, tfUpdate_eq tf [a] false, tfUpdate_eq tf [a, b] false, tfUpdate_eq tf (a :: b :: c :: rest) false⟩

/-- the slots a role writes are the slots the same role reads back: a server frame never touches slots 2 / 3 and a client frame
    never touches slots 0 / 1 -/
theorem role_slots_disjoint (vs : List (Option Str)) (fs : Bool) (u : Upd) (h : u ∈ updatesOf vs fs) :
    u.2.1 = fromPos fs ∨ u.2.1 = tillPos fs := by
  cases fs
  · match vs, h with
    | [], h => cases h
    | [a], h =>
      have h' : u ∈ upd1 a 2 := h
      exact Or.inl (upd1_pos _ _ u h')
    | [a, b], h =>
      have h' : u ∈ upd1 a 2 ++ upd1 b 3 := h
      rcases List.mem_append.mp h' with h' | h'
      · exact Or.inl (upd1_pos _ _ u h')
      · exact Or.inr (upd1_pos _ _ u h')
    | a :: b :: c :: rest, h =>
      have h' : u ∈ upd1 a 2 ++ upd1 c 3 := h
      rcases List.mem_append.mp h' with h' | h'
      · exact Or.inl (upd1_pos _ _ u h')
      · exact Or.inr (upd1_pos _ _ u h')
  · match vs, h with
    | [], h => cases h
    | [a], h =>
      have h' : u ∈ upd1 a 0 := h
      exact Or.inl (upd1_pos _ _ u h')
    | a :: b :: rest, h =>
      have h' : u ∈ upd1 a 0 ++ upd1 b 1 := h
      rcases List.mem_append.mp h' with h' | h'
      · exact Or.inl (upd1_pos _ _ u h')
      · exact Or.inr (upd1_pos _ _ u h')

/-- a client-only descriptor (`…C`) never contributes to a server slot, and a descriptor without a version never contributes
    at all: every contributed version is the version of an eligible descriptor of that product -/
theorem server_skips_client_only (v : Option Str) (pos : Nat) (hpos : pos < 2) (p ver : Str) (h : (p, ver) ∈ collectVersions v pos) :
    ∃ d ∈ splitOn ',' (v.getD []), getSshVersion d = (p, ver, false) ∧ ver ≠ [] := by
  obtain ⟨d, hd, ha, h1, h2⟩ := collect_sound v pos p ver h
  refine ⟨d, hd, ?_, ?_⟩
  · simp only [eligible, hpos, decide_true, Bool.and_true, Bool.not_eq_true', Bool.or_eq_false_iff, decide_eq_false_iff_not] at ha
    rw [← h1, ← h2]
    have : (getSshVersion d).2.2 = false := ha.2
    rw [← this]
  · simp only [eligible, Bool.not_eq_true', Bool.or_eq_false_iff, decide_eq_false_iff_not] at ha
    rw [← h2]; exact ha.1

/-- a client audit prints no compatibility line, whatever was advertised -/
theorem client_audit_prints_nothing (db : DB) (items : List (Str × List Str)) (fs : Bool) : compatText db items true fs = none := rfl

/-- `output()` asks for the server frame, for the four lists of `Algorithms.ssh2`, and passes `client_host is not None` -/
theorem output_uses_server_frame (db : DB) (peer : Report.Peer) (banner : Option Banner.Banner) (ch : Option Str) (inp : Output.Input) :
    (fill db peer banner ch inp).compat =
      compatText db [(kexC, peer.kex), (keyC, peer.key), (encC, peer.encS), (macC, peer.macS)] ch.isSome true := rfl

theorem output_client_audit_no_line (db : DB) (peer : Report.Peer) (banner : Option Banner.Banner) (ip : Str) (inp : Output.Input) :
    (fill db peer banner (some ip) inp).compat = none := rfl

/-- the line is printed exactly when the audit is not a client audit and one of the two products has a lower bound -/
theorem compat_printed_iff (db : DB) (items : List (Str × List Str)) (client fs : Bool) :
    (compatText db items client fs).isSome =
      (!client && ((lower db items fs pOpenSSH).isSome || (lower db items fs pDropbear).isSome)) := by
  cases client
  · unfold compatText
    simp only [Bool.false_eq_true, if_false, compat_products, Bool.not_false, Bool.true_and]
    rw [← form_shown_iff pOpenSSH (lower db items fs pOpenSSH) (upper db items fs pOpenSSH),
      ← form_shown_iff pDropbear (lower db items fs pDropbear) (upper db items fs pDropbear)]
    generalize form pOpenSSH (lower db items fs pOpenSSH) (upper db items fs pOpenSSH) = x
    generalize form pDropbear (lower db items fs pDropbear) (upper db items fs pDropbear) = y
    cases x <;> cases y <;> simp
  · rfl

/-- the compatibility line `output()` prints is the one of the unedited database: the Terrapin warnings and the 2048-bit
    fallback note that `post_process_findings` writes into the per-thread database before the line is computed touch no
    version entry -/
theorem compat_after_postprocess (db : DB) (peer : Report.Peer) (clientAudit : Bool) (sw : Option Str) (rate : Str)
    (items : List (Str × List Str)) (client fs : Bool) :
    compatText (Report.postProcess db peer clientAudit sw rate).db items client fs = compatText db items client fs :=
  compat_ignores_notes _ _ items client fs (postProcess_versions db peer clientAudit sw rate)

/-! ### (b) numerically: by the model's `compareVersion` -/

/-- a dot-separated decimal version: non-empty digit groups separated by single dots (any number of groups, any digit count) -/
def isVer (v : Str) : Bool := (splitOn '.' v).all (fun d => !d.isEmpty && d.all isDigit)

theorem isVer_render (v : Str) (h : isVer v = true) : ∃ ds, WfDs ds ∧ v = render ds := by
  refine ⟨splitOn '.' v, ⟨splitOn_ne_nil _ _, ?_⟩, (join_splitOn '.' v).symm⟩
  intro d hd
  simp only [isVer, List.all_eq_true, Bool.and_eq_true, Bool.not_eq_true'] at h
  have := h d hd
  exact ⟨by simpa [List.isEmpty_iff] using this.1, List.all_eq_true.mpr this.2⟩

/-- on two versions `compare_version` is the component-wise numeric comparison (`C14.compare_numeric` without a patch) -/
theorem compareVersion_versions (p : Str) (ds₁ ds₂ : List Str) (h₁ : WfDs ds₁) (h₂ : WfDs ds₂) :
    compareVersion ⟨none, p, render ds₁, none, none⟩ (render ds₂) = C14.numCmp (vals ds₁) (vals ds₂) := by
  have := C14.compare_numeric none none none p ds₁ ds₂ [] h₁ h₂ patchShape_nil
  rw [List.append_nil] at this
  rw [this, C14.expected]
  split
  · rfl
  · rename_i h
    have h0 : C14.numCmp (vals ds₁) (vals ds₂) = 0 := by simpa using h
    simp [C14.patchCmp_nil, h0]

theorem verLt_versions (ds₁ ds₂ : List Str) (h₁ : WfDs ds₁) (h₂ : WfDs ds₂) :
    C14.verLt (render ds₁) (render ds₂) = decide (C14.numCmp (vals ds₁) (vals ds₂) < 0) := by
  simp [C14.verLt, dotNum?_render _ h₁, dotNum?_render _ h₂]

/-- the members are versions, and Python's `str <` orders any two of them as their numbers are ordered -/
def NumSafe (vs : List Str) : Prop := ∀ a ∈ vs, ∀ b ∈ vs, C14.orderSafe a b = true ∧ isVer a = true

/-- **(b), numerically — the `_partial` form.**  Whenever the string order of the contributed "appeared in" versions is their
    numeric order, the printed lower bound is numerically the greatest of them by the model's `compareVersion`
    (component-wise numeric, any digit count). -/
theorem lower_numeric (db : DB) (items : List (Str × List Str)) (fs : Bool) (p : Str)
    (hs : NumSafe (sinces db items fs p)) (r : Str) (hr : lower db items fs p = some r) :
    ∀ v ∈ sinces db items fs p, compareVersion ⟨none, p, r, none, none⟩ v ≥ 0 := by
  obtain ⟨hm, ha⟩ := (lower_is_greatest db items fs p).2 r hr
  intro v hv
  obtain ⟨hsafe, hvr⟩ := hs r hm v hv
  obtain ⟨_, hvv⟩ := hs v hv r hm
  obtain ⟨ds₁, w₁, e₁⟩ := isVer_render r hvr
  obtain ⟨ds₂, w₂, e₂⟩ := isVer_render v hvv
  simp only [C14.orderSafe, Bool.and_eq_true, beq_iff_eq] at hsafe
  have hlt : C14.verLt r v = false := by rw [← hsafe.1.2]; exact ha v hv
  subst e₁; subst e₂
  rw [compareVersion_versions p ds₁ ds₂ w₁ w₂]
  rw [verLt_versions ds₁ ds₂ w₁ w₂] at hlt
  simpa using hlt

/-- … and the printed upper bound numerically the smallest "removed in" version -/
theorem upper_numeric (db : DB) (items : List (Str × List Str)) (fs : Bool) (p : Str)
    (hs : NumSafe (tills db items fs p)) (r : Str) (hr : upper db items fs p = some r) :
    ∀ v ∈ tills db items fs p, compareVersion ⟨none, p, r, none, none⟩ v ≤ 0 := by
  obtain ⟨hm, ha⟩ := (upper_is_smallest db items fs p).2 r hr
  intro v hv
  obtain ⟨hsafe, hvr⟩ := hs r hm v hv
  obtain ⟨_, hvv⟩ := hs v hv r hm
  obtain ⟨ds₁, w₁, e₁⟩ := isVer_render r hvr
  obtain ⟨ds₂, w₂, e₂⟩ := isVer_render v hvv
  simp only [C14.orderSafe, Bool.and_eq_true, beq_iff_eq] at hsafe
  have hlt : C14.verLt v r = false := by rw [← hsafe.2]; exact ha v hv
  subst e₁; subst e₂
  rw [compareVersion_versions p ds₁ ds₂ w₁ w₂]
  rw [verLt_versions ds₂ ds₁ w₂ w₁] at hlt
  have := C14.numCmp_antisymm (vals ds₁) (vals ds₂)
  have h0 : ¬ C14.numCmp (vals ds₂) (vals ds₁) < 0 := by simpa using hlt
  omega

/-- a database whose version strings are versions and, product by product, ordered by `str <` as by their numbers
    (`C14.db_versions_order_safe` is this statement for the regenerated tables) -/
def DbSafe (db : DB) : Prop :=
  ∀ p a b, (p, a) ∈ dbVersionsOf db → (p, b) ∈ dbVersionsOf db → C14.orderSafe a b = true ∧ isVer a = true

/-- every version that ever reaches a time frame is a version string of the database, filed under its product -/
theorem update_in_db (db : DB) (items : List (Str × List Str)) (fs : Bool) (p v : Str) (pos : Nat)
    (h : (p, pos, v) ∈ allUpdates db items fs) : (p, v) ∈ dbVersionsOf db := by
  obtain ⟨vs, hadv, hu⟩ := (mem_allUpdates db items fs _).mp h
  obtain ⟨it, _, n, _, e, hl, hv⟩ := (mem_advertised db items vs).mp hadv
  obtain ⟨a, ha, hu1⟩ := updatesOf_mem vs fs _ hu
  have hc := ((mem_upd1 a _ _).mp hu1).2
  obtain ⟨d, hd, hadm, h1, h2⟩ := collect_sound a _ p v hc
  have hne : (getSshVersion d).2.1 ≠ [] := by
    simp only [eligible, Bool.not_eq_true', Bool.or_eq_false_iff, decide_eq_false_iff_not] at hadm
    exact hadm.1
  obtain ⟨kv, hkv, hek⟩ := lookup_mem db _ _ e hl
  cases a with
  | none =>
    simp only [Option.getD_none, splitOn, List.mem_singleton] at hd
    subst hd
    exact absurd rfl hne
  | some str =>
    simp only [dbVersionsOf, List.mem_flatMap]
    refine ⟨kv, hkv, e, hek, some str, hv ▸ ha, ?_⟩
    simp only [List.mem_filterMap]
    refine ⟨d, hd, ?_⟩
    simp only [hne, if_false]
    rw [← h1, ← h2]

/-- **(b), numerically, for every database with numerically ordered version strings**: both bounds, every advertised
    lists, both roles, every product -/
theorem bounds_numeric_of_safe_db (db : DB) (hdb : DbSafe db) (items : List (Str × List Str)) (fs : Bool) (p : Str) :
    (∀ r, lower db items fs p = some r → ∀ v ∈ sinces db items fs p, compareVersion ⟨none, p, r, none, none⟩ v ≥ 0) ∧
    (∀ r, upper db items fs p = some r → ∀ v ∈ tills db items fs p, compareVersion ⟨none, p, r, none, none⟩ v ≤ 0) := by
  constructor
  · intro r hr
    apply lower_numeric db items fs p _ r hr
    intro a ha b hb
    exact hdb p a b (update_in_db db items fs p a _ ((mem_picks _ _ _ _).mp ha)) (update_in_db db items fs p b _ ((mem_picks _ _ _ _).mp hb))
  · intro r hr
    apply upper_numeric db items fs p _ r hr
    intro a ha b hb
    exact hdb p a b (update_in_db db items fs p a _ ((mem_picks _ _ _ _).mp ha)) (update_in_db db items fs p b _ ((mem_picks _ _ _ _).mp hb))

/-- table obligation (regenerated on every run): every version string of the two rating databases is a dot-separated
    decimal version -/
theorem gen_versions_wellformed : ∀ pv ∈ C14.dbVersions, isVer pv.2 = true := by
  decide +kernel

/-- the regenerated databases are safe: `C14.db_versions_order_safe` + `gen_versions_wellformed` -/
theorem gen_db_safe : DbSafe Gen.ssh2db ∧ DbSafe Gen.ssh1db := by
  constructor
  · intro p a b ha hb
    have ha' : (p, a) ∈ C14.dbVersions := List.mem_append_left _ ha
    have hb' : (p, b) ∈ C14.dbVersions := List.mem_append_left _ hb
    exact ⟨C14.db_versions_order_safe (a, b) (C14.mem_dbPairs p a b ha' hb'), gen_versions_wellformed (p, a) ha'⟩
  · intro p a b ha hb
    have ha' : (p, a) ∈ C14.dbVersions := List.mem_append_right _ ha
    have hb' : (p, b) ∈ C14.dbVersions := List.mem_append_right _ hb
    exact ⟨C14.db_versions_order_safe (a, b) (C14.mem_dbPairs p a b ha' hb'), gen_versions_wellformed (p, a) ha'⟩

/-- **(b) for the shipped tables, unconditionally**: in every SSH-2 audit (every advertised lists, both roles) the printed lower
    bound of a product is numerically at least — and the printed upper bound numerically at most — every version the
    advertised algorithms contribute for it, by the model's `compareVersion` -/
theorem gen_bounds_numeric (items : List (Str × List Str)) (fs : Bool) (p : Str) :
    (∀ r, lower Gen.ssh2db items fs p = some r → ∀ v ∈ sinces Gen.ssh2db items fs p, compareVersion ⟨none, p, r, none, none⟩ v ≥ 0) ∧
    (∀ r, upper Gen.ssh2db items fs p = some r → ∀ v ∈ tills Gen.ssh2db items fs p, compareVersion ⟨none, p, r, none, none⟩ v ≤ 0) :=
  bounds_numeric_of_safe_db Gen.ssh2db gen_db_safe.1 items fs p

/-- the same for the SSH-1 report -/
theorem gen_bounds_numeric_ssh1 (items : List (Str × List Str)) (fs : Bool) (p : Str) :
    (∀ r, lower Gen.ssh1db items fs p = some r → ∀ v ∈ sinces Gen.ssh1db items fs p, compareVersion ⟨none, p, r, none, none⟩ v ≥ 0) ∧
    (∀ r, upper Gen.ssh1db items fs p = some r → ∀ v ∈ tills Gen.ssh1db items fs p, compareVersion ⟨none, p, r, none, none⟩ v ≤ 0) :=
  bounds_numeric_of_safe_db Gen.ssh1db gen_db_safe.2 items fs p

/-- **(c), numerically**: over a database with numerically ordered version strings, one more advertised algorithm leaves a
    lower bound in place or raises it, and leaves an upper bound in place or lowers it — by `compareVersion` -/
theorem add_name_monotone_numeric (db : DB) (hdb : DbSafe db) (items : List (Str × List Str)) (c n : Str) (fs : Bool) (p : Str) :
    (∀ a, lower db items fs p = some a →
      ∃ a', lower db (items ++ [(c, [n])]) fs p = some a' ∧ compareVersion ⟨none, p, a', none, none⟩ a ≥ 0) ∧
    (∀ t, upper db items fs p = some t →
      ∃ t', upper db (items ++ [(c, [n])]) fs p = some t' ∧ compareVersion ⟨none, p, t', none, none⟩ t ≤ 0) := by
  have hsub : ∀ vs ∈ advertised db items, vs ∈ advertised db (items ++ [(c, [n])]) := by
    intro vs hv; rw [advertised_append]; exact List.mem_append_left _ hv
  obtain ⟨hnl, hnu⟩ := bounds_numeric_of_safe_db db hdb (items ++ [(c, [n])]) fs p
  obtain ⟨h1, h2⟩ := bounds_monotone db db items (items ++ [(c, [n])]) fs p hsub
  constructor
  · intro a ha
    obtain ⟨a', ha', _⟩ := h1 a ha
    refine ⟨a', ha', hnl a' ha' a ?_⟩
    have hm := ((lower_is_greatest db items fs p).2 a ha).1
    rw [mem_sinces] at hm ⊢
    obtain ⟨vs, hv, hu⟩ := hm
    exact ⟨vs, hsub vs hv, hu⟩
  · intro t ht
    obtain ⟨t', ht', _⟩ := h2 t ht
    refine ⟨t', ht', hnu t' ht' t ?_⟩
    have hm := ((upper_is_smallest db items fs p).2 t ht).1
    rw [mem_tills] at hm ⊢
    obtain ⟨vs, hv, hu⟩ := hm
    exact ⟨vs, hsub vs hv, hu⟩

/-- … in particular for the shipped SSH-2 tables -/
theorem gen_add_name_monotone (items : List (Str × List Str)) (c n : Str) (fs : Bool) (p : Str) :
    (∀ a, lower Gen.ssh2db items fs p = some a →
      ∃ a', lower Gen.ssh2db (items ++ [(c, [n])]) fs p = some a' ∧ compareVersion ⟨none, p, a', none, none⟩ a ≥ 0) ∧
    (∀ t, upper Gen.ssh2db items fs p = some t →
      ∃ t', upper Gen.ssh2db (items ++ [(c, [n])]) fs p = some t' ∧ compareVersion ⟨none, p, t', none, none⟩ t ≤ 0) :=
  add_name_monotone_numeric Gen.ssh2db gen_db_safe.1 items c n fs p

/-- a database in which one key exchange appeared in OpenSSH 9.9 and another in OpenSSH 10.0 -/
def witnessDb : DB := [(kexC, [{ name := s "a", desc := [[some (s "9.9")]] }, { name := s "b", desc := [[some (s "10.0")]] }])]

/-- **The numeric statement is false for arbitrary databases** (witness: `timeframe.py` compares version *strings*).
    A server advertising both algorithms of `witnessDb` gets `OpenSSH 9.9+` although the second algorithm only exists from
    10.0 on, and `compareVersion` itself says 10.0 is newer than 9.9. -/
theorem lower_bound_not_numeric_in_general :
    ¬ (∀ (db : DB) (items : List (Str × List Str)) (fs : Bool) (p r : Str), lower db items fs p = some r →
        ∀ v ∈ sinces db items fs p, compareVersion ⟨none, p, r, none, none⟩ v ≥ 0) := by
  intro h
  have := h witnessDb [(kexC, [s "a", s "b"])] true pOpenSSH (s "9.9") (by decide +kernel) (s "10.0") (by decide +kernel)
  revert this
  decide +kernel

/-- the witness in full: the line, the bound, the version it should have been, and the judgement of `compareVersion` -/
theorem witness_line :
    compatText witnessDb [(kexC, [s "a", s "b"])] false true = some (s "OpenSSH 9.9+") ∧
    sinces witnessDb [(kexC, [s "a", s "b"])] true pOpenSSH = [s "9.9", s "10.0"] ∧
    compareVersion ⟨none, pOpenSSH, s "10.0", none, none⟩ (s "9.9") = 1 ∧
    compareVersion ⟨none, pLibSSH, s "0.10.6", none, none⟩ (s "0.9.8") = 1 ∧
    strLt (s "10.0") (s "9.9") = true ∧ C14.orderSafe (s "9.9") (s "10.0") = false := by
  decide +kernel

/-! ### (f) `Software.display` -/

/-- `display(False)`: vendor (when non-empty), product, version (when non-empty) -/
def shortForm (sw : Software) : Str :=
  (match sw.vendor with | some v => if v ≠ [] then v ++ [' '] else [] | none => []) ++ sw.product ++
    (if sw.version ≠ [] then ' ' :: sw.version else [])

/-- what `display(True)` adds for the patch: an OpenSSH patch starting with `pN` has the `pN` glued to the version and the
    stripped remainder (when non-empty) in parentheses; every other non-empty patch goes into parentheses as it is -/
def patchPart (sw : Software) : Str :=
  let patch := sw.patch.getD []
  let paren (x : Str) : Str := if x ≠ [] then [' ', '('] ++ x ++ [')'] else []
  if sw.product = pOpenSSH then
    match pPatchSplit patch with
    | some (g1, g2) => g1 ++ paren (pyStrip g2)
    | none => paren patch
  else paren patch

/-- … and for the operating system -/
def osPart (sw : Software) : Str :=
  match sw.os with
  | some o => if o ≠ [] then [' ','r','u','n','n','i','n','g',' ','o','n',' '] ++ o else []
  | none => []

/-- **(f)**  `display(False)` for every vendor / product / version / patch / os -/
theorem display_short (sw : Software) : display sw false = shortForm sw := by
  obtain ⟨vendor, product, version, patch, os⟩ := sw
  cases vendor <;> by_cases hv : version = [] <;> simp [display, shortForm, hv]

/-- **(f)**  `display(True)` (= `str(software)`, the text of the `(gen) software:` line) for every vendor / product / version /
    patch / os: the short form, the patch part, the os part -/
theorem display_full (sw : Software) : display sw true = shortForm sw ++ patchPart sw ++ osPart sw := by
  obtain ⟨vendor, product, version, patch, os⟩ := sw
  have h0 : pPatchSplit ([] : Str) = none := rfl
  cases vendor <;> cases os <;> by_cases hv : version = [] <;> by_cases hp : product = pOpenSSH
  all_goals
    cases hps : pPatchSplit (patch.getD []) with
    | none =>
      by_cases hx : patch.getD [] = [] <;> simp [display, shortForm, patchPart, osPart, hv, hp, hps, hx, h0] <;>
        (try (repeat' split)) <;> (try simp_all)
    | some g =>
      obtain ⟨g1, g2⟩ := g
      by_cases hy : pyStrip g2 = [] <;> simp [display, shortForm, patchPart, osPart, hv, hp, hps, hy] <;>
        (try (repeat' split)) <;> (try simp_all)

/-- the short form is a prefix of the full one -/
theorem display_prefix (sw : Software) : ∃ rest, display sw true = display sw false ++ rest :=
  ⟨patchPart sw ++ osPart sw, by rw [display_full, display_short, List.append_assoc]⟩

/-- a portable OpenSSH release: `OpenSSH 7.4p1`; with a suffix after `pN`: `OpenSSH 7.4p1 (hpn14v1)` -/
theorem display_openssh_portable (v : Str) (d : Char) (hd : isDigit d = true) (rest : Str) (hr : '\n' ∉ rest) (os : Option Str) :
    display ⟨none, pOpenSSH, v, some ('p' :: d :: rest), os⟩ true =
      pOpenSSH ++ (if v ≠ [] then ' ' :: v else []) ++ ['p', d] ++
        (if pyStrip rest ≠ [] then [' ', '('] ++ pyStrip rest ++ [')'] else []) ++ osPart ⟨none, pOpenSSH, v, some ('p' :: d :: rest), os⟩ := by
  rw [display_full]
  simp only [shortForm, patchPart, Option.getD_some, pPatchSplit, hd, if_true, dotTail_noNl rest hr, Option.map_some,
    List.nil_append, List.append_assoc]

/-- products other than OpenSSH: the patch always goes into parentheses -/
theorem display_other_patch (vendor : Option Str) (prod v pa : Str) (hprod : prod ≠ pOpenSSH) (hpa : pa ≠ []) :
    display ⟨vendor, prod, v, some pa, none⟩ true = display ⟨vendor, prod, v, some pa, none⟩ false ++ [' ', '('] ++ pa ++ [')'] := by
  rw [display_full, display_short]
  simp [patchPart, osPart, hprod, hpa]

/-- nothing to add: no patch, no os -/
theorem display_plain (vendor : Option Str) (prod v : Str) :
    display ⟨vendor, prod, v, none, none⟩ true = display ⟨vendor, prod, v, none, none⟩ false := by
  rw [display_full, display_short]
  simp only [patchPart, osPart, Option.getD_none]
  have : pPatchSplit [] = none := rfl
  split <;> simp [this]

/-! ### the software line: from the banner to the text, and no way back -/

/-- a version of at least two characters (`7.4`, `10`, `2022.83` — not the bare `9`, which `[\d\.]+\d+` rejects) -/
def Ver2 (ds : List Str) : Prop := WfDs ds ∧ 2 ≤ (render ds).length

/-- **`SSH-2.0-OpenSSH_<version><patch>`**: recognised for every version of two or more characters and every patch suffix of
    the C14 grammar; software and software line as coded -/
theorem parse_openssh (ds : List Str) (h : Ver2 ds) (pa : Str) (hp : PatchShape pa) (comments : Option Str) :
    parse (some (['O','p','e','n','S','S','H','_'] ++ (render ds ++ pa))) comments =
      some ⟨none, pOpenSSH, render ds, fixPatch pa, extractOs comments⟩ := by
  obtain ⟨c0, rest0, e0, hc0⟩ := C14.render_first ds h.1
  have hsep : isPatchSep c0 = false := by
    cases hs : isPatchSep c0
    · rfl
    · simp only [isPatchSep, Bool.or_eq_true, decide_eq_true_eq] at hs
      rcases hs with (hs | hs) | hs <;> (subst hs; revert hc0; decide)
  have hov : opensshVer (['O','p','e','n','S','S','H','_'] ++ (render ds ++ pa)) = some (render ds, pa) := by
    unfold opensshVer
    have : (['O','p','e','n','S','S','H','_'] ++ (render ds ++ pa)) = pOpenSSH ++ ('_' :: (render ds ++ pa)) := rfl
    rw [this, stripPrefix?_append]
    have hseps : ('_' :: (render ds ++ pa)).takeWhile isPatchSep = ['_'] := by
      rw [e0]
      have h1 : isPatchSep '_' = true := by decide
      simp [h1, hsep]
    simp only [hseps, List.length_singleton, List.range_one, List.reverse_singleton, List.findSome?_cons, List.drop_succ_cons, List.drop_zero,
      verPrefix_render ds h.1 h.2 pa hp, Option.map_some, dotStar_noNl pa hp.noNl]
  unfold parse
  simp only [Option.getD_some, List.cons_append, List.nil_append]
  rw [nameVer_miss _ _ _ _ (by decide)]
  simp only [List.cons_append, List.nil_append] at hov
  simp only [hov]

/-- the software line of an OpenSSH banner: `OpenSSH <version>` + the patch part + the os part -/
theorem software_line_openssh (proto : Nat × Nat) (va : Bool) (ds : List Str) (h : Ver2 ds) (pa : Str) (hp : PatchShape pa) (comments : Option Str) :
    softwareLine (some ⟨proto, some (['O','p','e','n','S','S','H','_'] ++ (render ds ++ pa)), comments, va⟩) =
      some (s "(gen) software: " ++ display ⟨none, pOpenSSH, render ds, fixPatch pa, extractOs comments⟩ true) := by
  simp only [softwareLine, softwareText, softwareOf, parse_openssh ds h pa hp comments, Option.map_some]

/-- **`SSH-2.0-dropbear_<version><patch>`** -/
theorem parse_dropbear (ds : List Str) (h : Ver2 ds) (pa : Str) (hp : PatchShape pa) (comments : Option Str) :
    parse (some (['d','r','o','p','b','e','a','r','_'] ++ (render ds ++ pa))) comments =
      some ⟨none, pDropbear, render ds, fixPatch pa, none⟩ := by
  unfold parse
  simp only [Option.getD_some, nameVer_hit _ ds h.1 h.2 pa hp]

/-- **`SSH-2.0-libssh-<version><patch>`** and **`SSH-2.0-libssh_<version><patch>`** -/
theorem parse_libssh (sep : Char) (hsep : sep = '-' ∨ sep = '_') (ds : List Str) (h : Ver2 ds) (pa : Str) (hp : PatchShape pa) (comments : Option Str) :
    parse (some (['l','i','b','s','s','h', sep] ++ (render ds ++ pa))) comments =
      some ⟨none, pLibSSH, render ds, fixPatch pa, extractOs comments⟩ := by
  have hov : opensshVer (['l','i','b','s','s','h', sep] ++ (render ds ++ pa)) = none := by
    unfold opensshVer pOpenSSH
    simp only [List.cons_append]
    rw [stripPrefix?_head_ne _ _ _ _ (by decide)]
  unfold parse
  simp only [Option.getD_some, hov]
  rcases hsep with hs | hs
  · subst hs
    simp only [List.cons_append, List.nil_append]
    rw [nameVer_miss 'd' _ 'l' _ (by decide)]
    have := nameVer_hit ['l','i','b','s','s','h','-'] ds h.1 h.2 pa hp
    simp only [List.cons_append, List.nil_append] at this
    simp only [this]
  · subst hs
    have h1 : nameVer ['l','i','b','s','s','h','-'] (['l','i','b','s','s','h','_'] ++ (render ds ++ pa)) = none := by
      simp [nameVer, stripPrefix?]
    have := nameVer_hit ['l','i','b','s','s','h','_'] ds h.1 h.2 pa hp
    simp only [List.cons_append, List.nil_append] at this h1 ⊢
    rw [nameVer_miss 'd' _ 'l' _ (by decide)]
    simp only [h1, this]

/-- **No way back.**  `Software.parse` reads the *banner* spelling (`OpenSSH_7.4p1`), `display` writes the *report* spelling
    (`OpenSSH 7.4p1`): the text `display` produces for an OpenSSH, Dropbear SSH or libssh release — short or full, whatever
    the version, patch and os — is never recognised again by `parse`.  There is no `parse ∘ display` round trip; the supported
    direction is `display ∘ parse` (`software_line_openssh`, `parse_dropbear`, `parse_libssh`). -/
theorem display_not_parsable (prod v : Str) (patch os : Option Str) (full : Bool) (comments : Option Str)
    (hprod : prod = pOpenSSH ∨ prod = pDropbear ∨ prod = pLibSSH) :
    parse (some (display ⟨none, prod, v, patch, os⟩ full)) comments = none := by
  have hform : ∃ rest, display ⟨none, prod, v, patch, os⟩ full = prod ++ rest ∧ (rest = [] ∨ ∃ c cs, rest = c :: cs ∧ (c = ' ' ∨ (c = 'p' ∧ prod = pOpenSSH))) := by
    have hshort : ∃ r1, shortForm ⟨none, prod, v, patch, os⟩ = prod ++ r1 ∧ (r1 = [] ∨ ∃ cs, r1 = ' ' :: cs) := by
      simp only [shortForm, List.nil_append]
      by_cases hv : v = []
      · exact ⟨[], by simp [hv], Or.inl rfl⟩
      · exact ⟨' ' :: v, by simp [hv], Or.inr ⟨v, rfl⟩⟩
    cases full
    · rw [display_short]
      obtain ⟨r1, e1, h1⟩ := hshort
      refine ⟨r1, e1, ?_⟩
      rcases h1 with h1 | ⟨cs, h1⟩
      · exact Or.inl h1
      · exact Or.inr ⟨' ', cs, h1, Or.inl rfl⟩
    · rw [display_full]
      obtain ⟨r1, e1, h1⟩ := hshort
      rw [e1]
      refine ⟨r1 ++ patchPart ⟨none, prod, v, patch, os⟩ ++ osPart ⟨none, prod, v, patch, os⟩, by simp [List.append_assoc], ?_⟩
      rcases h1 with h1 | ⟨cs, h1⟩
      · subst h1
        simp only [List.nil_append]
        -- the patch part starts with `p` (OpenSSH, `pN…`) or ` (`, the os part with a space
        have hpp : patchPart ⟨none, prod, v, patch, os⟩ = [] ∨ ∃ c cs, patchPart ⟨none, prod, v, patch, os⟩ = c :: cs ∧ (c = ' ' ∨ (c = 'p' ∧ prod = pOpenSSH)) := by
          have paren : ∀ x : Str, (if x ≠ [] then [' ', '('] ++ x ++ [')'] else ([] : Str)) = [] ∨
              ∃ c cs, (if x ≠ [] then [' ', '('] ++ x ++ [')'] else ([] : Str)) = c :: cs ∧ (c = ' ' ∨ (c = 'p' ∧ prod = pOpenSSH)) := by
            intro x
            by_cases hx : x = []
            · left; simp [hx]
            · right; exact ⟨' ', '(' :: (x ++ [')']), by simp [hx], Or.inl rfl⟩
          simp only [patchPart]
          by_cases hp : prod = pOpenSSH
          · simp only [hp, if_true]
            cases hps : pPatchSplit (patch.getD []) with
            | none => simpa [hp] using paren (patch.getD [])
            | some g =>
              obtain ⟨g1, g2⟩ := g
              right
              have hg1 := pPatchSplit_g1 _ g1 g2 hps
              obtain ⟨d, hg1⟩ := hg1
              exact ⟨'p', d :: (if pyStrip g2 ≠ [] then [' ', '('] ++ pyStrip g2 ++ [')'] else []), by simp [hg1], by first | exact Or.inr ⟨rfl, trivial⟩ | exact Or.inr ⟨rfl, hp⟩⟩
          · simpa [hp] using paren (patch.getD [])
        rcases hpp with hpp | ⟨c, cs, hpp, hc⟩
        · rw [hpp, List.nil_append]
          simp only [osPart]
          cases os with
          | none => exact Or.inl rfl
          | some o =>
            by_cases ho : o = []
            · left; simp [ho]
            · right; exact ⟨' ', _, by simp [ho]; rfl, Or.inl rfl⟩
        · right
          exact ⟨c, cs ++ osPart ⟨none, prod, v, patch, os⟩, by rw [hpp]; rfl, hc⟩
      · right
        exact ⟨' ', cs ++ patchPart ⟨none, prod, v, patch, os⟩ ++ osPart ⟨none, prod, v, patch, os⟩, by rw [h1]; simp, Or.inl rfl⟩
  obtain ⟨rest, e, hrest⟩ := hform
  rw [e]
  unfold parse
  simp only [Option.getD_some]
  rcases hprod with hp | hp | hp
  · -- OpenSSH…: only the OpenSSH expression gets past the first character, and it needs a separator from `_.-`
    subst hp
    have hov : opensshVer (pOpenSSH ++ rest) = none := by
      unfold opensshVer
      rw [stripPrefix?_append]
      have : rest.takeWhile isPatchSep = [] := by
        rcases hrest with h | ⟨c, cs, h, hc⟩
        · subst h; rfl
        · subst h
          rcases hc with hc | ⟨hc, _⟩ <;> (subst hc; rfl)
      simp [this]
    simp only [hov]
    simp only [pOpenSSH, List.cons_append, nameVer_miss _ _ _ _ (show 'd' ≠ 'O' by decide), nameVer_miss _ _ _ _ (show 'l' ≠ 'O' by decide),
      nameVer_miss _ _ _ _ (show 'R' ≠ 'O' by decide), nameVer_miss _ _ _ _ (show 'm' ≠ 'O' by decide), nameVer_miss _ _ _ _ (show 'C' ≠ 'O' by decide),
      stripPrefix?_head_ne _ _ _ _ (show 't' ≠ 'O' by decide), stripPrefix?_head_ne _ _ _ _ (show 'P' ≠ 'O' by decide),
      stripPrefix?_head_ne _ _ _ _ (show 'l' ≠ 'O' by decide)]
  · subst hp
    have hov : opensshVer (pDropbear ++ rest) = none := by
      unfold opensshVer pOpenSSH pDropbear
      simp only [List.cons_append]
      rw [stripPrefix?_head_ne _ _ _ _ (by decide)]
    simp only [hov]
    simp only [pDropbear, List.cons_append, nameVer_miss _ _ _ _ (show 'd' ≠ 'D' by decide), nameVer_miss _ _ _ _ (show 'l' ≠ 'D' by decide),
      nameVer_miss _ _ _ _ (show 'R' ≠ 'D' by decide), nameVer_miss _ _ _ _ (show 'm' ≠ 'D' by decide), nameVer_miss _ _ _ _ (show 'C' ≠ 'D' by decide),
      stripPrefix?_head_ne _ _ _ _ (show 't' ≠ 'D' by decide), stripPrefix?_head_ne _ _ _ _ (show 'P' ≠ 'D' by decide),
      stripPrefix?_head_ne _ _ _ _ (show 'l' ≠ 'D' by decide)]
  · subst hp
    have hov : opensshVer (pLibSSH ++ rest) = none := by
      unfold opensshVer pOpenSSH pLibSSH
      simp only [List.cons_append]
      rw [stripPrefix?_head_ne _ _ _ _ (by decide)]
    -- `libssh` is followed by nothing or a space (never `p`: the product is not OpenSSH), so neither `libssh-` nor `libssh_` nor `lancom` fits
    have hsp : rest = [] ∨ ∃ cs, rest = ' ' :: cs := by
      rcases hrest with h | ⟨c, cs, h, hc⟩
      · exact Or.inl h
      · rcases hc with hc | ⟨_, hc⟩
        · subst hc; exact Or.inr ⟨cs, h⟩
        · exact absurd hc (by decide)
    have hl1 : nameVer ['l','i','b','s','s','h','-'] (pLibSSH ++ rest) = none := by
      rcases hsp with h | ⟨cs, h⟩ <;> subst h <;> simp [nameVer, stripPrefix?, pLibSSH]
    have hl2 : nameVer ['l','i','b','s','s','h','_'] (pLibSSH ++ rest) = none := by
      rcases hsp with h | ⟨cs, h⟩ <;> subst h <;> simp [nameVer, stripPrefix?, pLibSSH]
    have hl3 : stripPrefix? ['l','a','n','c','o','m'] (pLibSSH ++ rest) = none := by
      simp [stripPrefix?, pLibSSH]
    simp only [hov, hl1, hl2, hl3]
    simp only [pLibSSH, List.cons_append, nameVer_miss _ _ _ _ (show 'd' ≠ 'l' by decide),
      nameVer_miss _ _ _ _ (show 'R' ≠ 'l' by decide), nameVer_miss _ _ _ _ (show 'm' ≠ 'l' by decide), nameVer_miss _ _ _ _ (show 'C' ≠ 'l' by decide),
      stripPrefix?_head_ne _ _ _ _ (show 't' ≠ 'l' by decide), stripPrefix?_head_ne _ _ _ _ (show 'P' ≠ 'l' by decide)]

/-- the software line is printed exactly when `Software.parse` recognises the banner — in server and client audits alike -/
theorem software_line_iff (b : Option Banner.Banner) : (softwareLine b).isSome = (softwareOf b).isSome := by
  simp [softwareLine, softwareText]

theorem no_banner_no_software : softwareLine none = none := rfl

/-! ### the `# general` section of `output()` -/

/-- where the line stands: after the target / client IP / header / banner / software lines and before the compression line;
    it is one `out.good(…)` call without `always_print`, and nothing else of the section depends on it -/
theorem general_items_compat (inp : Output.Input) :
    Output.generalItems inp =
      Output.generalItems { inp with compat := none, hasKex := false } ++ compatItems inp.compat ++
      Output.generalItems { inp with target := none, clientIP := none, header := none, banner := none, compat := none } := by
  simp only [Output.generalItems, compatItems]
  cases inp.compat <;> cases inp.hasKex <;> simp

/-- the same for an audit: the compatibility item of `output()` is `compatItems` of the model's text for the server frame -/
theorem general_items_of_audit (db : DB) (peer : Report.Peer) (banner : Option Banner.Banner) (ch : Option Str) (inp : Output.Input) :
    Output.generalItems (fill db peer banner ch inp) =
      Output.generalItems { fill db peer banner ch inp with compat := none, hasKex := false } ++
      compatItems (compatText db (items2 peer) ch.isSome true) ++
      Output.generalItems { fill db peer banner ch inp with target := none, clientIP := none, header := none, banner := none, compat := none } :=
  general_items_compat (fill db peer banner ch inp)

/-- the software text `output()` shows is `display(True)` of the parsed banner; the recommendations title uses `display(False)` -/
theorem software_of_audit (db : DB) (peer : Report.Peer) (b : Banner.Banner) (ch : Option Str) (inp : Output.Input) :
    ((fill db peer (some b) ch inp).banner.bind (·.software)) = (parse b.software b.comments).map (fun sw => display sw true) ∧
    (fill db peer (some b) ch inp).swDisplay = (parse b.software b.comments).map (fun sw => display sw false) := ⟨rfl, rfl⟩

/-- no output option reaches either text: `fill` has no `Cfg` argument, and the items made from them are the same under every
    option set (the level filter, colours and batch mode act on the finished items — `C15`) -/
theorem lines_option_free (cfg cfg' : Output.Cfg) (db : DB) (peer : Report.Peer) (banner : Option Banner.Banner) (ch : Option Str) (inp : Output.Input) :
    (Output.sections cfg (fill db peer banner ch inp)).head?.map (·.items) = (Output.sections cfg' (fill db peer banner ch inp)).head?.map (·.items) := rfl

/-! ### the SSH-1 report uses the same loop -/

theorem parts_server_eq_ssh1 (tf : Timeframe) : partsFor tf true = Ssh1Report.compatParts tf := by
  unfold partsFor shownProducts Ssh1Report.compatParts
  congr 1

/-- so every theorem above holds for the compatibility line of an SSH-1 audit as well (items: `key ↦ [ssh-rsa1]`, the
    ciphers, the authentication types) -/
theorem compat1_eq (db1 : DB) (cs au : List Str) (client : Bool) :
    Ssh1Report.compat1 db1 cs au client = compatText db1 [(keyC, [Ssh1Report.rsa1]), (encC, cs), (autC, au)] client true := by
  unfold Ssh1Report.compat1 compatText timeframe Ssh1Report.timeframe1
  rw [parts_server_eq_ssh1]

/-! ### Non-vacuity: the regenerated SSH-2 database -/

def it4 (kex key enc mac : List String) : List (Str × List Str) :=
  [(kexC, kex.map s), (keyC, key.map s), (encC, enc.map s), (macC, mac.map s)]

-- a modern server: two products, open ranges
example : compatText Gen.ssh2db (it4 ["curve25519-sha256"] ["ssh-ed25519"] ["aes256-ctr"] ["hmac-sha2-256"]) false true
    = some (s "OpenSSH 7.4+, Dropbear SSH 2020.79+") := by decide +kernel
-- the same lists permuted and with a repeated and an unknown name: the same line
example : compatText Gen.ssh2db (it4 ["nonsense@example.com", "curve25519-sha256", "curve25519-sha256"] ["ssh-ed25519"] ["aes256-ctr"] ["hmac-sha2-256"]) false true
    = some (s "OpenSSH 7.4+, Dropbear SSH 2020.79+") := by decide +kernel
-- a client audit: nothing
example : compatText Gen.ssh2db (it4 ["curve25519-sha256"] ["ssh-ed25519"] ["aes256-ctr"] ["hmac-sha2-256"]) true true = none := by decide +kernel
-- X-Y for one product, X+ for the other
example : compatText Gen.ssh2db (it4 ["diffie-hellman-group1-sha1"] [] [] []) false true
    = some (s "OpenSSH 2.3.0-6.6, Dropbear SSH 0.28+") := by decide +kernel
-- lower bound above the upper bound
example : compatText Gen.ssh2db (it4 ["sntrup4591761x25519-sha512@tinyssh.org", "mlkem768x25519-sha256"] [] [] []) false true
    = some (s "OpenSSH 9.9+ (some functionality from 8.4)") := by decide +kernel
-- both bounds equal: the single version
example : compatText Gen.ssh2db (it4 [] [] ["blowfish-cbc", "3des-ctr"] []) false true
    = some (s "OpenSSH 1.2.2-6.6, Dropbear SSH 0.52") := by decide +kernel
-- server frame and client frame of the same list differ (`versions[1]` against `versions[2]`)
example : compatText Gen.ssh2db (it4 [] [] ["blowfish-cbc"] []) false true = some (s "OpenSSH 1.2.2-6.6, Dropbear SSH 0.28-0.52")
    ∧ compatText Gen.ssh2db (it4 [] [] ["blowfish-cbc"] []) false false = some (s "OpenSSH 1.2.2-7.1, Dropbear SSH 0.28-0.52") := by decide +kernel
-- one product only; the Dropbear-only and the OpenSSH-only algorithm do not remove each other's product
example : compatText Gen.ssh2db (it4 ["diffie-hellman-group18-sha512"] [] [] []) false true = some (s "OpenSSH 7.3+")
    ∧ compatText Gen.ssh2db (it4 ["kexguess2@matt.ucc.asn.au"] [] [] []) false true = some (s "Dropbear SSH 2013.57+")
    ∧ compatText Gen.ssh2db (it4 ["diffie-hellman-group18-sha512", "kexguess2@matt.ucc.asn.au"] [] [] []) false true
        = some (s "OpenSSH 7.3+, Dropbear SSH 2013.57+") := by decide +kernel
-- names without a version entry, unknown names, nothing: no line
example : compatText Gen.ssh2db (it4 ["curve448-sha512", "nonsense"] [] [] []) false true = none
    ∧ compatText Gen.ssh2db (it4 [] [] [] []) false true = none := by decide +kernel
-- the hypotheses of the theorems are inhabited
example : sinces Gen.ssh2db (it4 ["curve25519-sha256"] ["ssh-ed25519"] [] []) true pOpenSSH = [s "7.4", s "6.5"]
    ∧ lower Gen.ssh2db (it4 ["curve25519-sha256"] ["ssh-ed25519"] [] []) true pOpenSSH = some (s "7.4")
    ∧ tills Gen.ssh2db (it4 ["diffie-hellman-group1-sha1"] ["ssh-dss"] [] []) true pOpenSSH = [s "6.6", s "6.9"]
    ∧ upper Gen.ssh2db (it4 ["diffie-hellman-group1-sha1"] ["ssh-dss"] [] []) true pOpenSSH = some (s "6.6") := by decide +kernel
example : isVer (s "10.0") = true ∧ isVer (s "0.10.6") = true ∧ isVer (s "2022.83") = true ∧ isVer (s "7..4") = false ∧ isVer (s "7.4p1") = false ∧ isVer [] = false := by
  decide +kernel
-- an order-safe database with multi-digit components: there the bound is the numeric one
example : lower [(kexC, [{ name := s "a", desc := [[some (s "10.0")]] }, { name := s "b", desc := [[some (s "11.2")]] }])] [(kexC, [s "b", s "a"])] true pOpenSSH
    = some (s "11.2") ∧ C14.orderSafe (s "10.0") (s "11.2") = true := by decide +kernel
-- display
example : display ⟨none, pOpenSSH, s "7.4", some (s "p1"), none⟩ true = s "OpenSSH 7.4p1"
    ∧ display ⟨none, pOpenSSH, s "7.4", some (s "p1-hpn14v1"), some (s "FreeBSD (2017-09-02)")⟩ true = s "OpenSSH 7.4p1 (-hpn14v1) running on FreeBSD (2017-09-02)"
    ∧ display ⟨none, pDropbear, s "2022.83", none, none⟩ true = s "Dropbear SSH 2022.83"
    ∧ display ⟨some (s "Allegro Software"), s "RomSShell", s "5.40", some (s "x"), none⟩ true = s "Allegro Software RomSShell 5.40 (x)"
    ∧ display ⟨some (s "Allegro Software"), s "RomSShell", s "5.40", some (s "x"), none⟩ false = s "Allegro Software RomSShell 5.40" := by decide +kernel
example : softwareLine (some ⟨(2, 0), some (s "OpenSSH_10.0p2"), some (s "Debian-5"), true⟩) = some (s "(gen) software: OpenSSH 10.0p2")
    ∧ softwareLine (some ⟨(2, 0), some (s "libssh_0.10.6"), none, true⟩) = some (s "(gen) software: libssh 0.10.6")
    ∧ softwareLine (some ⟨(2, 0), some (s "Unknown_1.0"), none, true⟩) = none := by decide +kernel
example : Ver2 [s "10", s "0"] ∧ ¬ Ver2 [s "9"] := by
  refine ⟨⟨⟨by simp, ?_⟩, by decide⟩, ?_⟩
  · intro d hd; simp at hd; rcases hd with rfl | rfl <;> exact ⟨by decide, by decide⟩
  · rintro ⟨_, h⟩; revert h; decide

end SshAudit.C14Compat
