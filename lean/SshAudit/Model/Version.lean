/-
  Version model: `software.py` (Software.compare_version / _compare_version_numbers /
  between_versions / display / parse / _extract_os_version / _fix_patch / _fix_date),
  `algorithm.py` (Algorithm.get_ssh_version / get_since_text), `timeframe.py` (Timeframe),
  and the version filter of `Algorithms.get_recommendations` + `get_ssh_timeframe`
  (`algorithms.py`), mirrored branch by branch from the code as it is in /repo now
  (after commit "fix: compare software versions numerically, component by component").

  Regular expressions are modelled by what CPython's backtracking matcher returns for them
  (the derivation is written next to each function).  Only ASCII is interpreted: `\d` is
  `0-9` and `\s`/`str.strip()` are the ten ASCII characters for which `str.isspace()` holds
  (\t \n \v \f \r \x1c-\x1f and space); banner text reaches this code through
  `Utils.to_print_ascii`, database strings are ASCII literals.

  Import-free apart from the shared text/database primitives.
-/
import SshAudit.Model.Text
import SshAudit.Model.DB
namespace SshAudit
namespace Version
open Text

/-! ### Python sequence comparison -/

/-- Python `a < b` on two sequences of the same element type (`str`, `list` of `int`):
    the first differing position decides, a proper prefix is smaller. -/
def lexLt {α : Type} (lt : α → α → Bool) : List α → List α → Bool
  | [], [] => false
  | [], _ :: _ => true
  | _ :: _, [] => false
  | a :: as, b :: bs => if lt a b then true else if lt b a then false else lexLt lt as bs

def charLt (a b : Char) : Bool := decide (a < b)
def natLt (a b : Nat) : Bool := decide (a < b)

/-- `a < b` on `str` (code-point order). -/
def strLt (a b : Str) : Bool := lexLt charLt a b
/-- `a < b` on `List[int]`. -/
def natsLt (a b : List Nat) : Bool := lexLt natLt a b

/-- the `if x < y: return -1 / elif x > y: return 1 / return 0` ladder -/
def cmpOf {α : Type} (lt : α → α → Bool) (a b : α) : Int :=
  if lt a b then -1 else if lt b a then 1 else 0

/-! ### Regular-expression fragments -/

/-- `str.isspace()` / `\s` on ASCII. -/
def pySpace (c : Char) : Bool :=
  c = ' ' || (9 ≤ c.toNat && c.toNat ≤ 13) || (28 ≤ c.toNat && c.toNat ≤ 31)

def pyLstrip (s : Str) : Str := s.dropWhile pySpace
def pyRstrip (s : Str) : Str := (s.reverse.dropWhile pySpace).reverse
/-- `s.strip()` -/
def pyStrip (s : Str) : Str := pyRstrip (pyLstrip s)

def notNl (c : Char) : Bool := c != '\n'

/-- `(.*)$` matched against the whole remainder `r`: `.` does not match a newline and `$`
    matches at the very end or just before a final newline.  `none` = no match. -/
def dotTail (r : Str) : Option Str :=
  let rest := r.dropWhile notNl
  if rest = [] || rest = ['\n'] then some (r.takeWhile notNl) else none

/-- `(.*)` without anchor: everything up to the first newline. -/
def dotStar (r : Str) : Str := r.takeWhile notNl

/-- `[\d\.]` -/
def isVerChar (c : Char) : Bool := isDigit c || c = '.'

def stripDots (p : Str) : Str := (p.reverse.dropWhile (· = '.')).reverse

/-- `([\d\.]{n-1,}\d+)` at the start of `s` — `n = 2` is `([\d\.]+\d+)`, `n = 1` is
    `([\d\.]*\d+)` — when whatever follows it in the pattern accepts any remainder made of
    `[\d\.]` characters (true for `(.*)`, `(.*)$` and end of pattern): the greedy class backs off
    until `\d+` finds a digit, so the group is the maximal run of version characters with its
    trailing dots removed, and it needs `n` characters.  Returns the group and the text after it. -/
def verPrefixN (n : Nat) (s : Str) : Option (Str × Str) :=
  let g := stripDots (s.takeWhile isVerChar)
  if n ≤ g.length then some (g, s.drop g.length) else none

/-- `([\d\.]+\d+)`: the patterns of `Software.parse` (two characters at least) -/
def verPrefix (s : Str) : Option (Str × Str) := verPrefixN 2 s

/-- `s` minus the prefix `p` when `s.startswith(p)`. -/
def stripPrefix? : Str → Str → Option Str
  | [], s => some s
  | _ :: _, [] => none
  | p :: ps, c :: cs => if p = c then stripPrefix? ps cs else none

/-! ### Products -/

def pOpenSSH : Str := ['O','p','e','n','S','S','H']
def pDropbear : Str := ['D','r','o','p','b','e','a','r',' ','S','S','H']
def pLibSSH : Str := ['l','i','b','s','s','h']
def pTinySSH : Str := ['T','i','n','y','S','S','H']
def pPuTTY : Str := ['P','u','T','T','Y']

/-- `Software` (software.py). -/
structure Software where
  vendor : Option Str
  product : Str
  version : Str
  patch : Option Str
  os : Option Str
deriving Repr, DecidableEq

/-! ### Software._compare_version_numbers -/

/-- `re.match(r'^\d+(\.\d+)*$', s)` followed by `[int(x) for x in s.split('.')]`.
    `$` tolerates one final newline and `int()` ignores it. -/
def dotNum? (s : Str) : Option (List Nat) :=
  let s' := if s.getLast? = some '\n' then s.dropLast else s
  (splitOn '.' s').mapM parseNat?

def compareVersionNumbers (a b : Str) : Int :=
  match dotNum? a, dotNum? b with
  | some ka, some kb => cmpOf natsLt ka kb
  | _, _ => cmpOf strLt a b

/-! ### Software.compare_version -/

/-- `mx = re.match(r'^([\d\.]*\d+)(.*)$', other)` (one version character is enough, so that
    `9p1` is split too); `(group(1), group(2).strip())` or
    `(other, '')`.  Whether `(.*)$` accepts the remainder does not depend on where group 1
    ends (version characters are not newlines), so no shorter group 1 is ever chosen. -/
def splitOther (other : Str) : Str × Str :=
  match verPrefixN 1 other with
  | some (g, rest) =>
    match dotTail rest with
    | some t => (g, pyStrip t)
    | none => (other, [])
  | none => (other, [])

/-- `re.match(r'^test\d.*$', p)` -/
def isTestPatch : Str → Bool
  | 't' :: 'e' :: 's' :: 't' :: d :: rest => isDigit d && (dotTail rest).isSome
  | _ => false

/-- Dropbear: `'z' + patch` unless it is a `testN` pre-release. -/
def dropbearKey (p : Str) : Str := if isTestPatch p then p else 'z' :: p

/-- `re.match(r'^p(\d).*', p)` → group(1) -/
def pDigit : Str → Option Char
  | 'p' :: d :: _ => if isDigit d then some d else none
  | _ => none

/-- the OpenSSH branch: portable-patch normalisation, "" ≡ p1, then string order -/
def opensshPatchCmp (spatch opatch : Str) : Int :=
  let m1 := pDigit opatch
  let m2 := pDigit spatch
  let both := m1.isSome && m2.isSome
  let opatch' := if both then opatch else match m1 with | some d => [d] | none => opatch
  let spatch' := if both then spatch else match m2 with | some d => [d] | none => spatch
  if (spatch' = [] && opatch' = ['1']) || (spatch' = ['1'] && opatch' = []) then 0
  else cmpOf strLt spatch' opatch'

/-- what `compare_version` does once the version numbers are equal -/
def patchCmp (product spatch opatch : Str) : Int :=
  if product = pDropbear then cmpOf strLt (dropbearKey spatch) (dropbearKey opatch)
  else if product = pOpenSSH then opensshPatchCmp spatch opatch
  else cmpOf strLt spatch opatch

/-- `self.compare_version(other)` for a `str` argument. -/
def compareVersion (self : Software) (other : Str) : Int :=
  let ov := splitOther other
  let vcmp := compareVersionNumbers self.version ov.1
  if vcmp ≠ 0 then vcmp else patchCmp self.product (self.patch.getD []) ov.2

/-- the argument of `compare_version`: `None`, a `Software`, or a string -/
inductive Other where
  | none
  | soft (s : Software)
  | str (s : Str)

def compareVersionO (self : Software) : Other → Int
  | .none => 1
  | .soft o => compareVersion self (o.version ++ o.patch.getD [])
  | .str s => compareVersion self s

/-- `self.between_versions(vfrom, vtill)` -/
def betweenVersions (self : Software) (vfrom vtill : Str) : Bool :=
  if vfrom ≠ [] ∧ compareVersion self vfrom < 0 then false
  else if vtill ≠ [] ∧ compareVersion self vtill > 0 then false
  else true

/-! ### Software.display -/

/-- `re.match(r'^(p\d)(.*)$', patch)` -/
def pPatchSplit : Str → Option (Str × Str)
  | 'p' :: d :: rest =>
    if isDigit d then (dotTail rest).map (fun t => (['p', d], t)) else none
  | _ => none

def display (s : Software) (full : Bool) : Str :=
  let r0 : Str := match s.vendor with
    | some v => if v ≠ [] then v ++ [' '] else []
    | none => []
  let r1 := r0 ++ s.product
  let r2 := if s.version ≠ [] then r1 ++ ' ' :: s.version else r1
  if !full then r2 else
  let patch0 := s.patch.getD []
  let (r3, patch) :=
    if s.product = pOpenSSH then
      match pPatchSplit patch0 with
      | some (g1, g2) => (r2 ++ g1, pyStrip g2)
      | none => (r2, patch0)
    else (r2, patch0)
  let r4 := if patch ≠ [] then r3 ++ [' ', '('] ++ patch ++ [')'] else r3
  match s.os with
  | some o => if o ≠ [] then r4 ++ [' ','r','u','n','n','i','n','g',' ','o','n',' '] ++ o else r4
  | none => r4

/-! ### Software.parse and helpers -/

def isPatchSep (c : Char) : Bool := c = '-' || c = '_' || c = '.'

/-- `re.sub(r'^[-_\.]+', '', patch) or None` -/
def fixPatch (patch : Str) : Option Str :=
  let p := patch.dropWhile isPatchSep
  if p = [] then none else some p

/-- `_fix_date` -/
def fixDate : Option Str → Option Str
  | some d => if d.length = 8 then some (d.take 4 ++ '-' :: (d.drop 4).take 2 ++ '-' :: (d.drop 6).take 2) else none
  | none => none

def isWsDash (c : Char) : Bool := pySpace c || c = '-'

/-- `[\s-]+(\d{8})(.*)$` against the whole remainder: group 1. -/
def wsDate? (r : Str) : Option Str :=
  let w := r.takeWhile isWsDash
  if w = [] then none else
  let r2 := r.drop w.length
  let d := r2.take 8
  if d.length = 8 && d.all isDigit && (dotTail (r2.drop 8)).isSome then some d else none

def sNetBSD : Str := ['N','e','t','B','S','D']
def sFreeBSD : Str := ['F','r','e','e','B','S','D']
def sSecureShell : Str := ['_','S','e','c','u','r','e','_','S','h','e','l','l']
def sLocalisations : Str := ['l','o','c','a','l','i','s','a','t','i','o','n','s']
def sAtFreeBSD : Str := ['@','F','r','e','e','B','S','D','.','o','r','g']
def winSofts : List Str := [
  ['R','e','m','o','t','e','l','y','A','n','y','w','h','e','r','e'],
  ['D','e','s','k','t','o','p','A','u','t','h','o','r','i','t','y'],
  ['R','e','m','o','t','e','S','u','p','p','o','r','t','M','a','n','a','g','e','r']]

/-- `^NetBSD(?:_Secure_Shell)?(?:[\s-]+(\d{8})(.*))?$`: `some d?` when it matches.
    `_Secure_Shell` is taken whenever present (skipping it leaves `_`, which neither
    alternative accepts); the dated group is optional, without it `$` must hold at once. -/
def netbsdMatch (c : Str) : Option (Option Str) :=
  match stripPrefix? sNetBSD c with
  | none => none
  | some r =>
    let r' := (stripPrefix? sSecureShell r).getD r
    if r' = [] || r' = ['\n'] then some none
    else match wsDate? r' with
      | some d => some (some d)
      | none => none

/-- `^FreeBSD(?:\slocalisations)?[\s-]+(\d{8})(.*)$` -/
def freebsdMatch1 (c : Str) : Option Str :=
  match stripPrefix? sFreeBSD c with
  | none => none
  | some r =>
    let r' := match r with
      | w :: rest => if pySpace w then (stripPrefix? sLocalisations rest).getD r else r
      | [] => r
    wsDate? r'

/-- `^[^@]+@FreeBSD\.org[\s-]+(\d{8})(.*)$` -/
def freebsdMatch2 (c : Str) : Option Str :=
  let u := c.takeWhile (· != '@')
  if u = [] then none else
  match stripPrefix? sAtFreeBSD (c.drop u.length) with
  | none => none
  | some r => wsDate? r

/-- `^in <win> ([\d\.]+\d)$` -/
def winMatch (win c : Str) : Option Str :=
  match stripPrefix? (['i','n',' '] ++ win ++ [' ']) c with
  | none => none
  | some r =>
    let p := r.takeWhile isVerChar
    let rest := r.drop p.length
    if 2 ≤ p.length && (match p.getLast? with | some d => isDigit d | none => false)
       && (rest = [] || rest = ['\n']) then some p else none

def sMsWin : Str := ['M','i','c','r','o','s','o','f','t',' ','W','i','n','d','o','w','s',' ','(']

/-- `Software._extract_os_version` -/
def extractOs : Option Str → Option Str
  | none => none
  | some c =>
    match netbsdMatch c with
    | some d =>
      (match fixDate d with
       | none => some sNetBSD
       | some dd => some (sNetBSD ++ [' ', '('] ++ dd ++ [')']))
    | none =>
    match (freebsdMatch1 c).orElse (fun _ => freebsdMatch2 c) with
    | some d =>
      (match fixDate (some d) with
       | none => some sFreeBSD
       | some dd => some (sFreeBSD ++ [' ', '('] ++ dd ++ [')']))
    | none =>
    match winSofts.findSome? (fun w => (winMatch w c).map (fun ver => sMsWin ++ w ++ ' ' :: ver ++ [')'])) with
    | some r => some r
    | none =>
      [sNetBSD, sFreeBSD].find? (fun g => startsWith c g || endsWith c g)

/-- `^<name>([\d\.]+\d+)(.*)`: version and the raw `(.*)` group -/
def nameVer (name s : Str) : Option (Str × Str) :=
  match stripPrefix? name s with
  | none => none
  | some r => (verPrefix r).map (fun (g, rest) => (g, dotStar rest))

/-- `^OpenSSH[_\.-]+([\d\.]+\d+)(.*)`: the separator run `[_\.-]+` is greedy but shares `.`
    with the version class, so the matcher backs off one character at a time until a
    version fits (e.g. `OpenSSH_..5` → version `.5`). -/
def opensshVer (s : Str) : Option (Str × Str) :=
  match stripPrefix? pOpenSSH s with
  | none => none
  | some r =>
    let seps := r.takeWhile isPatchSep
    ((List.range seps.length).reverse.findSome? (fun k => verPrefix (r.drop (k + 1)))).map
      (fun (g, rest) => (g, dotStar rest))

/-- `Software.parse(banner)`, as a function of `banner.software` and `banner.comments`. -/
def parse (software : Option Str) (comments : Option Str) : Option Software :=
  let sw : Str := software.getD ['N','o','n','e']       -- str(None)
  match nameVer ['d','r','o','p','b','e','a','r','_'] sw with
  | some (v, p) => some ⟨none, pDropbear, v, fixPatch p, none⟩
  | none =>
  match opensshVer sw with
  | some (v, p) => some ⟨none, pOpenSSH, v, fixPatch p, extractOs comments⟩
  | none =>
  match nameVer ['l','i','b','s','s','h','-'] sw with
  | some (v, p) => some ⟨none, pLibSSH, v, fixPatch p, extractOs comments⟩
  | none =>
  match nameVer ['l','i','b','s','s','h','_'] sw with
  | some (v, p) => some ⟨none, pLibSSH, v, fixPatch p, extractOs comments⟩
  | none =>
  match nameVer ['R','o','m','S','S','h','e','l','l','_'] sw with
  | some (v, p) => some ⟨some ['A','l','l','e','g','r','o',' ','S','o','f','t','w','a','r','e'], ['R','o','m','S','S','h','e','l','l'], v, fixPatch p, none⟩
  | none =>
  match nameVer ['m','p','S','S','H','_'] sw with
  | some (v, _) => some ⟨some ['H','P'], ['i','L','O',' ','(','I','n','t','e','g','r','a','t','e','d',' ','L','i','g','h','t','s','-','O','u','t',')',' ','s','s','h','d'], v, none, none⟩
  | none =>
  match nameVer ['C','i','s','c','o','-'] sw with
  | some (v, _) => some ⟨some ['C','i','s','c','o'], ['I','O','S','/','P','I','X',' ','s','s','h','d'], v, none, none⟩
  | none =>
  match stripPrefix? ['t','i','n','y','s','s','h','_'] sw with
  | some r => some ⟨none, pTinySSH, dotStar r, none, none⟩
  | none =>
  match stripPrefix? ['P','u','T','T','Y','_','R','e','l','e','a','s','e','_'] sw with
  | some r => some ⟨none, pPuTTY, dotStar r, none, none⟩
  | none =>
  match stripPrefix? ['l','a','n','c','o','m'] sw with
  | some r => some ⟨some ['L','A','N','c','o','m'], ['L','C','O','S',' ','s','s','h','d'], dotStar r, none, none⟩
  | none => none

/-! ### Algorithm.get_ssh_version / get_since_text -/

/-- the prefix convention of the database descriptors: `d…` Dropbear, `l1…` libssh, else OpenSSH -/
def productOfDesc (d : Str) : Str × Str :=
  match d with
  | 'd' :: rest => (pDropbear, rest)
  | 'l' :: '1' :: rest => (pLibSSH, rest)
  | _ => (pOpenSSH, d)

/-- `Algorithm.get_ssh_version(version_desc)` → (product, version, is_client) -/
def getSshVersion (desc : Str) : Str × Str × Bool :=
  let isClient := desc.getLast? == some 'C'
  let d := if isClient then desc.dropLast else desc
  ((productOfDesc d).1, (productOfDesc d).2, isClient)

def isCommaSpace (c : Char) : Bool := c = ',' || c = ' '

/-- `Algorithm.get_since_text(versions)` -/
def getSinceText (versions : List (Option Str)) : Option Str :=
  match versions with
  | [] => none
  | none :: _ => none
  | some v0 :: _ =>
    let tv := (splitOn ',' v0).filterMap (fun v =>
      let (prod, ver, cli) := getSshVersion v
      if ver = [] then none
      else if prod = pLibSSH then none
      else
        let ver' := if cli then ver ++ [' ','(','c','l','i','e','n','t',' ','o','n','l','y',')'] else ver
        some (prod ++ ' ' :: ver'))
    if tv = [] then none
    else
      let joined := join [',', ' '] tv
      some (['a','v','a','i','l','a','b','l','e',' ','s','i','n','c','e',' '] ++ (joined.reverse.dropWhile isCommaSpace).reverse)

/-! ### Timeframe -/

/-- `Timeframe.__storage`: product ↦ four optional versions, in insertion order
    (0 server-from, 1 server-till, 2 client-from, 3 client-till). -/
abbrev Timeframe := List (Str × List (Option Str))

def none4 : List (Option Str) := [none, none, none, none]

/-- `self[product]` -/
def tfGet (tf : Timeframe) (product : Str) : List (Option Str) :=
  match tf.find? (·.1 = product) with
  | some (_, slots) => slots
  | none => none4

def tfContains (tf : Timeframe) (product : Str) : Bool := tf.any (·.1 = product)

def tfGetFrom (tf : Timeframe) (product : Str) (forServer : Bool) : Option Str :=
  ((tfGet tf product).getD (if forServer then 0 else 2) none)
def tfGetTill (tf : Timeframe) (product : Str) (forServer : Bool) : Option Str :=
  ((tfGet tf product).getD (if forServer then 1 else 3) none)

/-- dict assignment `d[k] = v` on an insertion-ordered association list -/
def dictSet {β : Type} (d : List (Str × β)) (k : Str) (v : β) : List (Str × β) :=
  if d.any (·.1 = k) then d.map (fun kv => if kv.1 = k then (kv.1, v) else kv) else d ++ [(k, v)]

/-- the first loop of `_update`: the per-product version named by one descriptor list -/
def collectVersions (versions : Option Str) (pos : Nat) : List (Str × Str) :=
  let forSrv := pos < 2
  let forCli := pos > 1
  (splitOn ',' (versions.getD [])).foldl (fun acc v =>
    let (prod, ver, cli) := getSshVersion v
    if ver = [] || (cli && forSrv) || (!cli && forCli && acc.any (·.1 = prod)) then acc
    else dictSet acc prod ver) []

/-- the slot rule of `_update`: even positions keep the string-maximum ("from"), odd
    positions the string-minimum ("till") -/
def slotStep (pos : Nat) (prev : Option Str) (ver : Str) : Option Str :=
  match prev with
  | none => some ver
  | some p =>
    if (strLt p ver && pos % 2 = 0) || (strLt ver p && pos % 2 = 1) then some ver else some p

/-- `Timeframe._update(versions, pos)` -/
def tfUpdate1 (tf : Timeframe) (versions : Option Str) (pos : Nat) : Timeframe :=
  (collectVersions versions pos).foldl (fun tf (pv : Str × Str) =>
    let tf' := if tfContains tf pv.1 then tf else tf ++ [(pv.1, none4)]
    let slots := tfGet tf' pv.1
    let new := slotStep pos (slots.getD pos none) pv.2
    dictSet tf' pv.1 (slots.set pos new)) tf

/-- `Timeframe.update(versions, for_server)`; `forServer = none` is Python's `None`. -/
def tfUpdate (tf : Timeframe) (versions : List (Option Str)) (forServer : Option Bool) : Timeframe :=
  let forCli := forServer = none || forServer = some false
  let forSrv := forServer = none || forServer = some true
  let vlen := versions.length
  (List.range (min 3 vlen)).foldl (fun tf i =>
    let v := versions.getD i none
    let tf1 := if forSrv && i < 2 then tfUpdate1 tf v i else tf
    if forCli && (i % 2 = 0 || vlen = 2) then tfUpdate1 tf1 v (if i = 0 then 2 else 3) else tf1) tf

/-- `Algorithms.get_ssh_timeframe(for_server)` over one database and the peer's lists
    (`items` = the `(alg_type, names)` pairs of an `Algorithms.Item`, in order). -/
def sshTimeframe (tf : Timeframe) (db : DB) (items : List (Str × List Str)) (forServer : Option Bool) : Timeframe :=
  items.foldl (fun tf (it : Str × List Str) =>
    it.2.foldl (fun tf name =>
      match DBm.lookup db it.1 name with
      | none => tf
      | some e => tfUpdate tf (DBm.versions e) forServer) tf) tf

/-! ### The version filter of `Algorithms.get_recommendations` -/

/-- one iteration of `for v in versions[0].split(',')`: does descriptor `v` make the
    algorithm count as available (`matches = True; break`)? -/
def admits (software : Option Software) (forServer : Bool) (v : Str) : Bool :=
  let (prod, ver, cli) := getSshVersion v
  if ver = [] then false
  else if (match software with | some s => decide (prod ≠ s.product) | none => false) then false
  else if cli && forServer then false
  else if (match software with | some s => decide (compareVersion s ver < 0) | none => false) then false
  else true

/-- the value of `matches` after the loop (`unknown` = `unknown_software`) -/
def versionFilter (software : Option Software) (unknown forServer : Bool) (v0 : Str) : Bool :=
  unknown || (splitOn ',' v0).any (admits software forServer)

/-! ### Every version string the rating databases mention -/

/-- `(product, version)` for each descriptor of each versions list of a database, in order
    of appearance (what `Timeframe` is ever fed from that database). -/
def dbVersionsOf (db : DB) : List (Str × Str) :=
  db.flatMap fun (_, es) => es.flatMap fun e => (DBm.versions e).flatMap fun o =>
    match o with
    | none => []
    | some v => (splitOn ',' v).filterMap fun d =>
        let (p, ver, _) := getSshVersion d
        if ver = [] then none else some (p, ver)

end Version
end SshAudit
