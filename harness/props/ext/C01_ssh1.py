"""C01 / C02 / C03 extension — the SSH-1 audit report (`output()` given an SSH-1 public-key message).

Theorems: SshAudit.Props.C01Ssh1 over the model SshAudit.Model.Ssh1Report (the `(key) ssh-rsa1`, `(enc)`, `(aut)` lines with the notes
of the SSH-1 database, the status fold, the `(gen)` / `(sec)` / `(fin)` lines, the recommendations, the JSON document of build_struct).
Tie: public-key message bytes (written by an encoder of this file, not by WriteBuf) -> real SSH1_PublicKeyMessage.parse -> real output()
in batch / plain / verbose text and JSON; the complete buffer of the three text modes, the per-line notes, the status, the recommendations and
the JSON document are compared with the model (`ssh1.report`).
Oracle (no model involved): names shown == names of the set bits in the order of SSH1.CIPHERS / SSH1.AUTHS (ssh1.py), once each;
exit status == 3 / 2 / 0 by the [fail] / [warn] tags actually printed and the same in every view; text names == JSON names;
the notes of a (category, name) are the same whatever the other bits, the key size, the banner and the view are.
"""
import json
import struct
import hashlib
import base64

from common import Coverage, tstr, tstrs, toptstr, tbool
from props import report_common as rc

ID = 'C01'
MODULE = 'SshAudit.Props.C01Ssh1'
NAMESPACE = 'SshAudit.C01Ssh1'
THEOREMS = ['key_line', 'enc_names_exact', 'aut_names_exact', 'enc_listed_iff_bit', 'aut_listed_iff_bit', 'names_table_order', 'no_size_suffix',
            'mem_lines', 'notes_function_of_name', 'notes_same_in_every_audit', 'report_ignores_key_material',
            'status_is_fold', 'status_iff', 'status_option_free', 'status_three_iff_names',
            'json_lists', 'json_names_eq_text', 'json_recs_eq_text',
            'recs_key_enc_only', 'recs_none_without_software', 'recs_removal_only_advertised', 'postprocess_agrees', 'recs_shared',
            'general_flags_ssh1', 'security_iff_protocol1', 'fingerprint_items',
            'gen_tables_printed', 'gen_names_exact', 'gen_all_known', 'gen_fail_names', 'gen_no_warnings', 'gen_status_three_iff', 'gen_status_three_iff_bits',
            'gen_status_zero_or_three', 'gen_clean_ssh1_exit_zero']

MODES = ('batch', 'plain', 'verbose')
CFG = {'batch': '100000:0', 'plain': '000000:0', 'verbose': '010000:0'}
HOW = 'harness/props/ext/C01_ssh1.py: pkm bytes -> SSH1_PublicKeyMessage.parse -> output() on the real code'

BANNERS = ['SSH-1.5-OpenSSH_3.9', 'SSH-1.99-OpenSSH_3.9p1', 'SSH-1.5-1.2.27', 'SSH-1.99-Cisco-1.25', 'SSH-1.5-dropbear_0.52', 'SSH-1.5-OpenSSH_1.2.2',
           'SSH-1.99-OpenSSH_2.3.0 FreeBSD localisations 20011202', 'SSH-1.5-PuTTY_Release_0.60']
ODD_BANNERS = [None, 'SSH-2.0-OpenSSH_8.0', 'SSH-1.5-', 'SSH-1.5', 'SSH-1.99-libssh-0.2', 'SSH-1.5-OpenéSSH_3.9']


# ---------------------------------------------------------------- inputs

def mp1(n):
    """SSH-1 multiple-precision integer (protocol-1.5 "Data Type Enc"): 16-bit bit count, then the magnitude, big-endian"""
    bits = n.bit_length()
    return struct.pack('>H', bits) + n.to_bytes((bits + 7) // 8, 'big')


def pkm_bytes(case):
    return (bytes(range(8)) + struct.pack('>I', 768) + mp1(65537) + mp1(case.get('sn', (1 << 767) | 12345)) + struct.pack('>I', case['hbits']) + mp1(case['he']) +
            mp1(int(case['hn'], 16)) + struct.pack('>III', case.get('pflags', 2), case['cmask'], case['amask']))


def fp_texts(case):
    """the two fingerprint texts of the SSH-1 host key, with hashlib / base64 only"""
    n, e = int(case['hn'], 16), case['he']
    data = n.to_bytes((n.bit_length() + 7) // 8, 'big') + e.to_bytes((e.bit_length() + 7) // 8, 'big')
    h = hashlib.md5(data).hexdigest()
    return ('SHA256:' + base64.b64encode(hashlib.sha256(data).digest()).decode().rstrip('='), 'MD5:' + ':'.join(h[i:i + 2] for i in range(0, 32, 2)), data)


def target_text(host, port):
    return host if port == 22 else '%s:%d' % (host, port)


def mk_case(cmask, amask, hbits=1024, he=65537, hn=None, banner='SSH-1.5-OpenSSH_3.9', client=False, rate_notes='', header=(), print_target=False, port=22):
    if hn is None:
        hn = (1 << (hbits - 1)) | 0x7654321
    return {'cmask': cmask, 'amask': amask, 'hbits': hbits, 'he': he, 'hn': '%x' % hn, 'banner': banner, 'client': client, 'rate_notes': rate_notes,
            'header': list(header), 'print_target': print_target, 'port': port}


def run_view(case, pkm, view, fresh=False):
    """The real output() on a recording buffer for one view ('batch' | 'plain' | 'verbose' | 'json'); returns (retval, buffer entries, records, banner)."""
    from ssh_audit import ssh_audit as sa
    from ssh_audit.auditconf import AuditConf
    from ssh_audit.banner import Banner
    import fakenet
    if fresh:
        fakenet.reset_dbs()
    out = rc.recording_buffer()
    out.batch, out.verbose, out.level, out.use_colors = (view == 'batch'), (view == 'verbose'), 'info', False
    aconf = AuditConf('h', case['port'])
    aconf.batch, aconf.verbose, aconf.level, aconf.colors = out.batch, out.verbose, 'info', False
    aconf.json = (view == 'json')
    banner = Banner.parse(case['banner']) if case['banner'] is not None else None
    ret = sa.output(out, aconf, banner, list(case['header']), client_host=('10.1.1.1' if case['client'] else None), pkm=pkm,
                    print_target=case['print_target'], dh_rate_test_notes=case['rate_notes'])
    out.flush_section()
    return ret, list(out.buffer), list(out.records), banner


def run_case(case):
    """all four views of one case on the real code, the first one on a fresh per-thread database"""
    from ssh_audit.ssh1_publickeymessage import SSH1_PublicKeyMessage
    pkm = SSH1_PublicKeyMessage.parse(pkm_bytes(case))
    res = {}
    for i, view in enumerate(MODES + ('json',)):
        ret, entries, records, banner = run_view(case, pkm, view, fresh=(i == 0))
        res[view] = {'ret': ret, 'entries': entries, 'records': records}
        res['banner'] = banner
    res['pkm'] = pkm
    return res


def alg_lines(records, verbose):
    """{cat: [[name, [[level, text]…]]…]} from the calls the real code made (column padding removed)"""
    algs = rc.parse_alg_records(records, verbose=verbose)
    return {c: [[x[0].rstrip(' '), [list(n) for n in x[1]]] for x in algs[c]] for c in ('key', 'enc', 'aut')}


def significant(notes, verbose):
    """the tagged notes of a line; the placeholder of a line with nothing to say is not a note"""
    return [n for n in notes if n != ['info', '']]


# ---------------------------------------------------------------- oracle (independent of the Lean model)

def oracle_case(case, res):
    """the properties evaluated on what the real code printed for one case; returns (failures, {(cat, name): notes})"""
    from ssh_audit.ssh1 import SSH1
    fails = []

    def fail(kind, observed, expected, **extra):
        fails.append({'sig': dict({'kind': kind}, **extra), 'input': dict(case), 'observed': observed, 'expected': expected, 'how': HOW})
    want = {'key': ['ssh-rsa1'],
            'enc': [SSH1.CIPHERS[i] for i in range(len(SSH1.CIPHERS)) if case['cmask'] >> i & 1],
            'aut': [SSH1.AUTHS[i] for i in range(1, len(SSH1.AUTHS)) if case['amask'] >> i & 1]}
    notes_seen = {}
    rets = {v: res[v]['ret'] for v in MODES + ('json',)}
    for mode in MODES:
        lines = alg_lines(res[mode]['records'], mode == 'verbose')
        for cat in ('key', 'enc', 'aut'):
            got = [l[0] for l in lines[cat]]
            if got != want[cat]:
                fail('ssh1_text_names', {'mode': mode, 'shown': got}, want[cat], category=cat)
            for name, notes in lines[cat]:
                sn = significant(notes, mode == 'verbose')
                prev = notes_seen.setdefault((cat, name), (sn, mode))
                if prev[0] != sn:
                    fail('ssh1_notes_differ_between_views', {prev[1]: prev[0], mode: sn}, 'the same notes in every view', category=cat)
        tags = [n[0] for cat in ('key', 'enc', 'aut') for _, notes in lines[cat] for n in notes]
        exp = 3 if 'fail' in tags else 2 if 'warn' in tags else 0
        if rets[mode] != exp:
            fail('ssh1_status', {'mode': mode, 'exit': rets[mode], 'tags': sorted(set(tags))}, exp)
    if len(set(rets.values())) != 1:
        fail('ssh1_status_depends_on_view', rets, 'one exit status')
    # JSON
    jentries = res['json']['entries']
    doc = None
    try:
        if len(jentries) != 1:
            raise ValueError('%d entries' % len(jentries))
        doc = json.loads(jentries[0])
    except ValueError as e:
        fail('ssh1_json_not_one_document', str(e)[:80], 'one JSON document')
    if doc is not None:
        for cat in ('key', 'enc', 'aut'):
            if doc.get(cat) != want[cat]:
                fail('ssh1_json_names', doc.get(cat), want[cat], category=cat)
    return fails, {k: v[0] for k, v in notes_seen.items()}, doc


# ---------------------------------------------------------------- correspondence with the model

def model_line(case, res):
    b = res['banner']
    btoks = '~' if b is None else '%d %d %s %s %s' % (b.protocol[0], b.protocol[1], toptstr(b.software), toptstr(b.comments), tbool(b.valid_ascii))
    sha, md5, _ = fp_texts(case)
    return 'ssh1.report %s %d %d %d %d %d %s %s %s %s %s %s %s %s' % (
        ','.join(CFG[m] for m in MODES), case['cmask'], case['amask'], case['hbits'], case['he'], int(case['hn'], 16),
        toptstr('10.1.1.1' if case['client'] else None), toptstr(target_text('h', case['port']) if case['print_target'] else None),
        tstrs(case['header']), tstr(case['rate_notes']), tstr('h:%d' % case['port']), tstr(sha), tstr(md5), btoks)


def canon_recs(recs):
    out = {}
    for lvl, acts in recs.items():
        for act, cats in acts.items():
            for cat, lst in cats.items():
                out['%s/%s/%s' % (lvl, act, cat)] = [[x['name'], x['notes']] for x in lst]
    return out


def canon_model_recs(recs):
    out = {}
    for lvl, act, cat, name in recs:
        out.setdefault('%s/%s/%s' % (lvl, act, cat), []).append([name, 'increase modulus size to 3072 bits or larger' if act == 'chg' else ''])
    return out


def compare(case, res, doc, m):
    """differences between the model's SSH-1 report and the implementation's (list of strings)"""
    if 'ok' not in m:
        return ['model error %r' % (m,)]
    k = m['ok']
    d = []
    for i, mode in enumerate(MODES):
        if k['entries'][i] != res[mode]['entries']:
            j = next((j for j, (a, b) in enumerate(zip(k['entries'][i], res[mode]['entries'])) if a != b), min(len(k['entries'][i]), len(res[mode]['entries'])))
            d.append('%s text differs at entry %d: model %r impl %r' % (mode, j, k['entries'][i][j:j + 1], res[mode]['entries'][j:j + 1]))
        if k['status'] != res[mode]['ret']:
            d.append('%s status: model %d impl %d' % (mode, k['status'], res[mode]['ret']))
    if k['status'] != res['json']['ret']:
        d.append('json status: model %d impl %d' % (k['status'], res['json']['ret']))
    lines = alg_lines(res['batch']['records'], False)
    for cat in ('key', 'enc', 'aut'):
        ml = [[l['shown'], l['notes']] for l in k[cat]]
        if ml != lines[cat]:
            d.append('%s lines: model %r impl %r' % (cat, ml[:3], lines[cat][:3]))
    if [k['ciphers'], k['auths']] != [res['pkm'].supported_ciphers, res['pkm'].supported_authentications]:
        d.append('mask lists: model %r impl %r' % ([k['ciphers'], k['auths']], [res['pkm'].supported_ciphers, res['pkm'].supported_authentications]))
    if k['fpdata'] != res['pkm'].host_key_fingerprint_data.hex():
        d.append('fingerprint data: model %s impl %s' % (k['fpdata'][:40], res['pkm'].host_key_fingerprint_data.hex()[:40]))
    if doc is None:
        d.append('no JSON document from the implementation')
        return d
    md = k['doc']
    exp_keys = {'additional_notes', 'aut', 'banner', 'cves', 'enc', 'fingerprints', 'key', 'recommendations', 'client_ip' if case['client'] else 'target'}
    if set(doc) != exp_keys:
        d.append('JSON keys: impl %r, model has %r' % (sorted(doc), sorted(exp_keys)))
    for key in ('banner', 'key', 'enc', 'aut', 'fingerprints'):
        if doc.get(key) != md[key]:
            d.append('JSON %s: model %r impl %r' % (key, md[key], doc.get(key)))
    if doc.get('client_ip') != md['client_ip'] or doc.get('target') != md['target']:
        d.append('JSON target: model %r impl %r' % ([md['client_ip'], md['target']], [doc.get('client_ip'), doc.get('target')]))
    if doc.get('cves') != []:
        d.append('JSON cves: %r' % (doc.get('cves'),))
    if doc.get('additional_notes') != md['notes']:
        d.append('JSON additional_notes: model %r impl %r' % (md['notes'], doc.get('additional_notes')))
    if canon_recs(doc.get('recommendations', {})) != canon_model_recs(md['recs']):
        d.append('JSON recommendations: model %r impl %r' % (canon_model_recs(md['recs']), canon_recs(doc.get('recommendations', {}))))
    return d


# ---------------------------------------------------------------- generators

def auth_masks_for(cmask, r, thorough):
    if thorough:
        return list(range(0, 128, 2)) + [1, 127, 1 << 7, (1 << 31) | 6]
    base = [(cmask * 4 + j) % 64 * 2 for j in range(4)]          # four of the 64 masks in rotation: every mask is met 8 times over the 128 cipher masks
    return sorted(set(base + [0, 126])) + ([r.choice([1, 127, 1 << 7, 0xffffff81])] if cmask % 16 == 3 else [])


def gen_cases(ctx):
    r = ctx.rng
    thorough = ctx.tier == 'thorough'
    cases = []
    sizes = [512, 768, 1024, 2048, 4096]
    i = 0
    for cmask in list(range(128)) + [1 << 7, 0xffffffff, (1 << 31) | 8, 0x80]:
        for amask in auth_masks_for(cmask % 128, r, thorough):
            hbits = sizes[i % len(sizes)]
            hn = (1 << (hbits - 1)) | r.getrandbits(hbits - 1) if i % 7 else r.getrandbits(r.randint(1, 64))
            banner = BANNERS[i % len(BANNERS)] if i % 23 else ODD_BANNERS[(i // 23) % len(ODD_BANNERS)]
            case = mk_case(cmask, amask, hbits=hbits if i % 11 else r.choice([0, 1, 31, 65535]), he=[65537, 35, 3][i % 3], hn=hn, banner=banner,
                           client=(i % 29 == 5), rate_notes=('rate test note' if i % 31 == 7 else ''), header=(['hello', 'world'] if i % 37 == 9 else []),
                           print_target=(i % 13 == 4), port=(22 if i % 17 else 2222))
            cases.append(case)
            i += 1
    return cases


CORPUS = [
    mk_case(8, 4),                                           # 3des + rsa: nothing tagged
    mk_case(0x7f, 0x7e),                                     # everything
    mk_case(0, 0),                                           # nothing
    mk_case(1, 2, banner='SSH-1.99-OpenSSH_3.9p1'),
    mk_case(8, 2, banner='SSH-1.5-1.2.27'),                  # the only failure is an authentication type
    mk_case(2, 8, banner=None),
    mk_case(4, 64, banner='SSH-1.5-OpenSSH_1.2.2', hbits=768),
]


def run(ctx):
    import fakenet
    cov = Coverage('SSH-1: one evaluation = one rendering (public-key message x banner x view) through the real SSH1_PublicKeyMessage.parse + output(); non-trivial = distinct '
                   '(cipher mask, auth mask, banner) with at least one bit set; all 128 cipher masks x a rotation through the 64 auth masks (all of them in the thorough tier) plus masks with bits '
                   'outside the tables, host keys of 512-4096 bits, banners SSH-1.5 / SSH-1.99 / SSH-2.0 / none with recognised and unrecognised software')
    failures, mismatches = [], []
    cases = CORPUS + gen_cases(ctx)
    lines, expect = [], []
    ref_notes = {}
    for case in cases:
        res = run_case(case)
        fails, notes, doc = oracle_case(case, res)
        failures.extend(fails)
        for key, nt in notes.items():
            prev = ref_notes.setdefault(key, (nt, case))
            if prev[0] != nt:
                failures.append({'sig': {'kind': 'ssh1_notes_depend_on_context', 'category': key[0]}, 'input': dict(case, other=prev[1]),
                                 'observed': {'name': key[1], 'here': nt, 'in the other audit': prev[0]}, 'expected': 'the same notes for a name whatever else is offered', 'how': HOW})
        for view in MODES + ('json',):
            cov.add(('ssh1', case['cmask'], case['amask'], case['banner'], view), (case['cmask'] & 0x7f) != 0 or (case['amask'] & 0x7e) != 0,
                    tags=['ssh1-' + view, 'ssh1-status-%d' % res[view]['ret']],
                    sample={'cmask': case['cmask'], 'amask': case['amask'], 'banner': case['banner'], 'view': view, 'exit': res[view]['ret']} if (case['cmask'], case['amask'], view) == (0x7f, 0x7e, 'batch') else None)
        lines.append(model_line(case, res))
        expect.append((case, res, doc))
    model = ctx.driver(lines) if ctx.driver_ok else []
    for line, m, (case, res, doc) in zip(lines, model, expect):
        d = compare(case, res, doc, m)
        if d:
            mismatches.append({'stream': 'ssh1.report', 'op': line[:300], 'model': d[:3], 'impl': {k: case[k] for k in ('cmask', 'amask', 'banner', 'client')}})
    # the note list of every table name straight from the database, against the report's lines
    nl, nexp = [], []
    for (cat, name), (nt, case) in sorted(ref_notes.items()):
        nl.append('ssh1.notes %s %s' % (tstr(cat), tstr(name)))
        nexp.append((cat, name, nt))
    mn = ctx.driver(nl) if ctx.driver_ok else []
    for line, m, (cat, name, nt) in zip(nl, mn, nexp):
        got = [n for n in ((m.get('ok') or {}).get('notes') or []) if n != ['info', '']]
        if got != nt:
            mismatches.append({'stream': 'ssh1.notes', 'op': line, 'model': got, 'impl': nt})
    fakenet.reset_dbs()
    return {'failures': failures, 'mismatches': mismatches, 'coverage': cov, 'corr_cases': len(model) + len(mn),
            'assumptions': ['SSH-1: the two fingerprint hashes and the JSON text are opaque in the model (the harness supplies hashlib values; the JSON document is compared as a value)',
                            'SSH-1: the banner and software are parsed by the real Banner.parse / the Version model (C14, C16); the report model takes the parsed banner'],
            'observations': ['SSH-1 JSON lists bare names: build_struct gives "enc" / "aut" as lists of strings without per-algorithm notes, so the JSON view of an SSH-1 audit carries no rating at all (only the recommendations)',
                             'D22 + D23 together: an SSH-1 server offering only 3des / blowfish / idea and rsa / password / rhosts_rsa / tis exits with status 0 although "(gen) protocol SSH1 enabled" and "(sec) SSH v1 enabled" are printed as failures (C01Ssh1.gen_clean_ssh1_exit_zero)']}


# ---------------------------------------------------------------- replay

def replay(obj):
    f = obj.get('failure', obj)
    inp = f.get('input') or {}
    if 'cmask' not in inp:
        print(json.dumps(f, indent=1)[:2000])
        import sys
        from common import rerun_for_signature
        return rerun_for_signature(sys.modules[__name__], f)
    case = {k: v for k, v in inp.items() if k != 'other'}
    res = run_case(case)
    fails, notes, doc = oracle_case(case, res)
    bad = 0
    for x in fails:
        print('PROPERTY FAILS (%s): observed %r, expected %r' % (json.dumps(x['sig'], sort_keys=True), x['observed'], x['expected']))
        bad = 1
    if 'other' in inp:
        res2 = run_case(inp['other'])
        fails2, notes2, _ = oracle_case(inp['other'], res2)
        for key in sorted(set(notes) & set(notes2)):
            if notes[key] != notes2[key]:
                print('PROPERTY FAILS (notes depend on the context): %s %s has %r in this audit and %r in the other one' % (key[0], key[1], notes[key], notes2[key]))
                bad = 1
    if not bad:
        lines = alg_lines(res['batch']['records'], False)
        print('SSH-1 report of cipher mask %d / auth mask %d: enc %r, aut %r, exit %d in every view, JSON lists the same names'
              % (case['cmask'], case['amask'], [l[0] for l in lines['enc']], [l[0] for l in lines['aut']], res['batch']['ret']))
    return bad
