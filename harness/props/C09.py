"""C09 — No peer can crash, hang or fool the auditor.

Theorems: SshAudit.Props.C09 (for every finite peer behaviour on the first connection: the read loops stop
at the first stall, the packet reader raises nothing but the framing exits, a bounded number of recv calls,
at most two stalls waited for on a connection; an unclassified-ok handshake ends with status 1 and no algorithm report; an ok
handshake really carried a KEXINIT whose lists are reported; probe exceptions of every class are contained).
Tie: (a) event-level: scripted recv sequences (data chunks of any segmentation / timeout / error / close) fed
to the real audit() through a scripted socket vs. the model's `session.handshake` — handshake class, number
of recv calls, number of stalls; (b) fault injection over valid transcript archetypes: truncation at every byte
offset of the banner and first packet, early close, stall, every length field set to 0 / len-1 / len+1 / huge,
wrong message type, duplicated and interleaved debug messages, extra pre-banner lines, 1-byte segmentation,
random byte flips, malformed host-key blobs and group-exchange groups in the probe phase.
Oracle: exit status in {0,1,2,3} and no traceback, ever; ok handshake => a complete algorithm report; broken
handshake => status 1 and no algorithm report; number of stalls waited for <= 2 x number of connections made.
"""
import io
import json
import socket as real_socket
import struct
import sys
import types

from common import Coverage
import fakenet as fn

ID = 'C09'
MODULE = 'SshAudit.Props.C09'
NAMESPACE = 'SshAudit.C09'
THEOREMS = ['recv_spec', 'ensureReadAux_spec', 'ensureRead_spec', 'readPacket_no_type_error', 'getBannerAux_spec', 'ensureRead_ok', 'ensureRead_fail',
            'readPacket_cost', 'handshake_cost', 'malformed_handshake_no_report', 'handshake_ok_sound', 'probe_misbehaviour_contained', 'probe_exception_is_none', 'readList_prefix', 'kexinit_prefix_rejected', 'readList_strict', 'kexParse_accepts_only_complete']
# functions / statement blocks of the code whose Lean definitions are regenerated from the source on every run (harness/translate_logic.py);
# `GenLogic.<name>_eq_model` (lean/SshAudit/Props/GenLogic*.lean) ties each to the hand-written model function the theorems above are about
GEN_LOGIC = ['read_packet_bad_block', 'read_packet_bad_length', 'read_packet2_lengths']

TECHNIQUE = 'Lean 4 theorems (induction over arbitrary finite receive-event lists: stall and recv-call bounds, exception taxonomy of the packet reader, handshake classification ⇒ exit status) + event-level and byte-level fault-injection correspondence with audit()/main()'
LEVEL_TEXT = ('The receive side of the socket class is modelled over arbitrary finite event lists (any bytes, any segmentation, stalls, resets, close) and it is proved by induction that every read loop stops at the first '
              'stall, that the handshake waits for at most two timeouts (one unless the identification line came without its line ending) and makes at most (#events + 2) recv calls, that the packet reader can only leave through the two framing exits, and that every handshake class but "ok" '
              'yields status 1 without an algorithm report. The same event scripts are replayed on the real audit() (class, recv count, stall count compared), and byte-level faults at every offset / length field / stage are injected into full audits.')
LEVEL_NOTE = ('PARTIAL: wall-clock time is not modelled — a stall is one event, so "time <= c * timeout * #connections" is proved as "stalls waited for <= 2 x #connections" and exercised with the fake clock; the EAGAIN busy-retry path is unreachable with blocking sockets. '
              'Probe-phase replies are modelled at the level of "any exception is contained" (D15 repair); their byte-level content is covered by C11/C12 and by the fault injection here. D16/D15 were repaired in /repo; D17 (segmented banner) is a C16 known finding and is modelled faithfully here.')


class ScriptSock:
    """first connection: delivers exactly the scripted recv events"""
    def __init__(self, events):
        self.events = list(events)
        self.last = None
        self.recvs = 0
        self.stalls = 0
        self.sent = b''
        self.closed = False

    def settimeout(self, t):
        pass

    def connect(self, addr):
        pass

    def send(self, d):
        self.sent += bytes(d)
        return len(d)

    def recv(self, n):
        self.recvs += 1
        if self.recvs > 20000:
            raise fn.HarnessHang('more than 20000 recv calls on one connection')
        if not self.events:
            if self.last == 't':          # a peer that went quiet stays quiet: every further read times out again
                self.stalls += 1
                raise real_socket.timeout('timed out')
            return b''
        ev = self.events.pop(0)
        self.last = ev
        if ev == 't':
            self.stalls += 1
            raise real_socket.timeout('timed out')
        if ev == 'e':
            self.stalls += 1
            raise real_socket.error(104, 'Connection reset by peer')
        return ev

    def shutdown(self, how):
        pass

    def close(self):
        self.closed = True


def run_scripted(events, extra_args=('-2',)):
    """Runs the real main() with the first connection scripted and every later connection refused."""
    import ssh_audit.ssh_socket as ss
    from ssh_audit import ssh_audit as sa, exitcodes
    import traceback
    fn.reset_dbs()
    first = ScriptSock(events)
    state = {'n': 0}
    m = types.ModuleType('scriptsocket')
    for k in dir(real_socket):
        if k.isupper() or k in ('error', 'timeout', 'gaierror', 'herror'):
            setattr(m, k, getattr(real_socket, k))

    class Refuse:
        def settimeout(self, t):
            pass

        def connect(self, addr):
            raise ConnectionRefusedError(111, 'Connection refused')

        def shutdown(self, how):
            raise OSError(107, 'not connected')

        def close(self):
            pass

    def mk(*a):
        state['n'] += 1
        return first if state['n'] == 1 else Refuse()
    m.socket = mk
    m.getaddrinfo = lambda host, port, family=0, stype=0, *a: [(real_socket.AF_INET, real_socket.SOCK_STREAM, 6, '', (host, port))]
    old = ss.socket
    ss.socket = m
    buf = fn.StrictStdout()     # a UTF-8 stdout: text that cannot be encoded raises, as on a terminal
    so, sa_argv = sys.stdout, sys.argv
    sys.stdout = buf
    sys.argv = ['ssh-audit.py', '-n', '--skip-rate-test'] + list(extra_args) + ['10.1.2.3']
    try:
        try:
            try:
                code = sa.main()
            except Exception:
                code = exitcodes.UNKNOWN_ERROR
                print(traceback.format_exc())
        except SystemExit as e:
            code = e.code
        except fn.HarnessHang as e:
            code = 'HANG'
            print('\nHARNESS: run aborted, the code under test does not terminate (%s)' % e)
    finally:
        sys.stdout, sys.argv = so, sa_argv
        ss.socket = old
    fn.reset_dbs()
    return code, buf.getvalue(), first


def strict_kexinit_ok(payload):
    """independent of the tool and of the model: is this payload a complete KEXINIT (type byte, cookie, ten name-lists that fit, flag, reserved word)?"""
    if not payload or payload[0] != 20:
        return False
    p = 17
    for _ in range(10):
        if p + 4 > len(payload):
            return False
        n = struct.unpack('>I', payload[p:p + 4])[0]
        if p + 4 + n > len(payload):
            return False
        p += 4 + n
    return p + 5 <= len(payload)


def first_payload(events):
    """the payload of the first binary packet the scripted peer sends after its identification line (None if it cannot be cut out)"""
    data = b''
    for ev in events:
        if isinstance(ev, str):
            break
        data += ev
    while True:
        i = data.find(b'\n')
        if i < 0:
            return None
        line, data = data[:i + 1], data[i + 1:]
        if line.startswith(b'SSH-'):
            break
    if len(data) < 5:
        return None
    plen, pad = struct.unpack('>IB', data[:5])
    if plen < pad + 1 or len(data) < 4 + plen:
        return None
    return data[5:4 + plen - pad]


def classify(code, out):
    if 'Traceback' in out and "Failed to parse server's kex" not in out:
        return 'TRACEBACK'
    if 'did not receive banner' in out:
        return 'noBanner'
    if 'invalid ssh packet' in out:
        return 'badFraming'
    if 'error reading packet' in out:
        return 'readError'
    if 'did not receive MSG_KEXINIT' in out:
        return 'wrongPacketType'
    if "Failed to parse server's kex" in out:
        return 'parseFailed'
    if any(l.startswith(('(kex) ', '(key) ', '(enc) ', '(mac) ')) for l in out.split('\n')):
        return 'ok'
    return 'other'


def ev_tokens(events):
    toks = []
    for e in events:
        if e in ('t', 'e'):
            toks.append(e)
        else:
            toks.append('d' + bytes(e).hex())
    return ','.join(toks) if toks else '_'


GOOD_KEX = None


def good_kex():
    global GOOD_KEX
    if GOOD_KEX is None:
        GOOD_KEX = fn.kexinit(['curve25519-sha256', 'diffie-hellman-group-exchange-sha256'], ['rsa-sha2-512', 'ssh-ed25519'], ['aes256-ctr', 'aes128-cbc'], ['hmac-sha2-256-etm@openssh.com', 'hmac-sha1'])
    return GOOD_KEX


def segment(r, data, mode):
    if mode == 'whole':
        return [data]
    if mode == 'bytewise':
        return [data[i:i + 1] for i in range(len(data))]
    cuts = sorted(set(r.randint(1, max(1, len(data) - 1)) for _ in range(r.randint(1, 6))))
    out, prev = [], 0
    for c in cuts + [len(data)]:
        if c > prev:
            out.append(data[prev:c])
            prev = c
    return out


def gen_event_scripts(ctx):
    r = ctx.rng
    banner = b'SSH-2.0-OpenSSH_8.0\r\n'
    pktb = fn.pkt(good_kex())
    scripts = []
    # corpus: D16 / D17 witnesses, truncation at every offset of the first packet (thorough: every offset; quick: every 3rd)
    scripts.append(([banner, struct.pack('>IB', 4, 255) + good_kex()], ['corpus-D16']))
    scripts.append(([banner, struct.pack('>IB', 12, 11) + b'\0' * 11], ['corpus-D16-empty']))
    scripts.append(([b'SSH-2.0-Open', b'SSH_8.0\r\n', pktb], ['corpus-D17']))
    # an identification line without its line ending is accepted once the peer has gone quiet (stall, error or close): up to two stalls
    scripts.append(([b'SSH-2.0-OpenSSH_8.0', 't', pktb], ['unterminated-banner']))
    scripts.append(([b'SSH-2.0-OpenSSH_8.0', 't', 't'], ['unterminated-banner', 'two-stalls']))
    scripts.append(([b'SSH-2.0-OpenSSH_8.0', 'e', pktb[:9], 't'], ['unterminated-banner', 'two-stalls']))
    scripts.append(([b'SSH-2.0-OpenSSH_8.0'], ['unterminated-banner']))
    scripts.append(([b'hello\r\nSSH-2.0-Open', b'SSH_8.0', b' c\r', b'\n' + pktb], ['segmented-banner']))
    scripts.append(([bytes([b]) for b in banner] + [pktb], ['segmented-banner', 'bytewise']))
    scripts.append(([b'hel', b'lo\n', b'\r\n', b'SSH-2.0-X\n', pktb], ['segmented-banner']))
    for k in range(1, len(banner)):
        scripts.append(([banner[:k], banner[k:] + pktb], ['segmented-banner']))
        scripts.append(([banner[:k], 't'], ['segmented-banner', 'unterminated-banner']))
    # the identification string is rated before the handshake breaks (SSH-1.x, non-printable characters): the status must still be 1
    for bv in (b'SSH-1.99-OpenSSH_3.9p1\r\n', b'SSH-1.5-Cisco-1.25\n', b'SSH-2.0-Open\xc3\xa9SSH_8.0\r\n', b'SSH-2.0-X\x07Y\r\n', b'SSH-1.99-\xff\xfe\r\n'):
        for tail in ([], ['t'], [pktb[:9]], [pktb[:9], 'e'], [fn.pkt(b'\x15' + good_kex()[1:])], [fn.pkt(good_kex()[:40])]):
            scripts.append(([bv] + tail, ['banner-variant']))
    # every name-list length field set to len+1 … len+5, 0, len-1, huge (the tail fields are where a lenient reader would be fooled)
    gk = good_kex()
    pos, offs = 17, []
    for _ in range(10):
        n_ = struct.unpack('>I', gk[pos:pos + 4])[0]
        offs.append((pos, n_))
        pos += 4 + n_
    for o_, n_ in offs:
        for v_ in (n_ + 1, n_ + 2, n_ + 3, n_ + 4, n_ + 5, 0, max(0, n_ - 1), 0xffffffff):
            pk = bytearray(gk)
            pk[o_:o_ + 4] = struct.pack('>I', v_)
            scripts.append(([banner, fn.pkt(bytes(pk))], ['lenfield-systematic']))
    step = 1 if ctx.tier == 'thorough' else 3
    for k in range(0, len(pktb), step):
        scripts.append(([banner, pktb[:k]] if k else [banner], ['truncate-packet']))
        scripts.append(([banner, pktb[:k], 't'], ['truncate-packet-stall']))
    for k in range(0, len(banner) + 1, 1):
        scripts.append(([banner[:k]] if k else [], ['truncate-banner']))
    whole = banner + pktb
    for _ in range(ctx.scale(250, 6000)):
        kind = r.choice(['valid', 'valid', 'prebanner', 'lenfield', 'wrongtype', 'flip', 'stall', 'error', 'garbage', 'debug', 'earlyclose'])
        data_b, data_p = banner, pktb
        tags = [kind]
        if kind == 'prebanner':
            lines = [r.choice([b'Welcome', b'  indented header', b'ssh-2.0-lowercase', b'\xff\xfe binary', b'', b'#' * 300]) + r.choice([b'\r\n', b'\n']) for _ in range(r.randint(1, 5))]
            data_b = b''.join(lines) + banner
        elif kind == 'lenfield':
            p = bytearray(good_kex())
            offs = [17]  # first name-list length
            pos = 17
            for _ in range(10):
                n = struct.unpack('>I', p[pos:pos + 4])[0]
                offs.append(pos)
                pos += 4 + n
            o = r.choice(offs)
            n = struct.unpack('>I', p[o:o + 4])[0]
            p[o:o + 4] = struct.pack('>I', r.choice([0, max(0, n - 1), n + 1, 0xffffffff, 0x7fffffff]))
            data_p = fn.pkt(bytes(p))
            if r.random() < 0.4:   # or the packet's own length / padding fields
                hdr = bytearray(data_p[:5])
                which = r.choice(['plen', 'pad'])
                if which == 'plen':
                    L = struct.unpack('>I', hdr[:4])[0]
                    hdr[:4] = struct.pack('>I', r.choice([0, 1, 4, L - 1, L + 1, L + 8, 0xffffffff, 12]))
                else:
                    hdr[4] = r.choice([0, 3, 255, hdr[4] + 8 & 255, hdr[4] - 1 & 255])
                data_p = bytes(hdr) + pktb[5:]
        elif kind == 'wrongtype':
            data_p = fn.pkt(bytes([r.choice([0, 1, 2, 4, 21, 30, 31, 255])]) + good_kex()[1:])
        elif kind == 'flip':
            b = bytearray(whole)
            for _ in range(r.randint(1, 3)):
                i = r.randrange(len(b))
                b[i] ^= 1 << r.randrange(8)
            data_b, data_p = bytes(b[:len(banner)]), bytes(b[len(banner):])
        elif kind == 'garbage':
            data_p = bytes(r.getrandbits(8) for _ in range(r.randint(0, 80)))
        elif kind == 'debug':
            data_p = fn.pkt(b'\x04\x01' + fn.sstr(b'dbg') + fn.sstr(b'')) * r.randint(1, 3) + pktb
        chunks = segment(r, data_b, r.choice(['whole', 'whole', 'random', 'bytewise'])) + segment(r, data_p, r.choice(['whole', 'whole', 'random', 'bytewise'])) if kind != 'earlyclose' else segment(r, (data_b + data_p)[:r.randint(0, len(whole))], 'random')
        chunks = [c for c in chunks if c]
        if kind == 'stall':
            chunks.insert(r.randint(0, len(chunks)), 't')
        if kind == 'error':
            chunks.insert(r.randint(0, len(chunks)), 'e')
        if r.random() < 0.1:
            chunks.append(r.choice(['t', 'e', b'']))
        if len(chunks) <= 400:
            scripts.append((chunks, tags))
    return scripts


def probe_fault_servers(ctx):
    """valid handshake, misbehaviour confined to the host-key and group-exchange probes"""
    r = ctx.rng
    kexp = good_kex()
    blobs = {
        'empty-exponent': fn.sstr('ssh-rsa') + fn.sstr(b'') + fn.mpint((1 << 2047) | 1),
        'truncated-blob': fn.rsa_blob(2048)[:17],
        'non-ascii-type': fn.sstr(b'ssh-\xff\xfe') + fn.mpint(65537) + fn.mpint((1 << 2047) | 1),
        'huge-length': fn.sstr('ssh-rsa') + struct.pack('>I', 0xffffffff) + b'abc',
        'zero-modulus': fn.sstr('ssh-rsa') + fn.mpint(65537) + fn.sstr(b''),
        'cert-garbage': fn.sstr('ssh-rsa-cert-v01@openssh.com') + bytes(r.getrandbits(8) for _ in range(60)),
        'random': bytes(r.getrandbits(8) for _ in range(r.randint(0, 120))),
    }
    out = []
    for name, blob in blobs.items():
        out.append(('hostkey:' + name, dict(hostkeys={'rsa-sha2-512': blob, 'ssh-ed25519': fn.ed25519_blob()}, gex=lambda a, b, c: 2048)))
    raws = {
        'bad-block': b'\x00\x00\x00\x0d\x04' + b'x' * 30, 'bad-length': b'\x00\x00\x00\x04\xff' + b'y' * 20, 'wrong-type': fn.pkt(b'\x63' + b'z' * 10),
        'short-reply': fn.pkt(bytes([31]) + b'\x00\x00'), 'close': None, 'stall': ('stall',), 'debug-flood': fn.pkt(b'\x04\x01' + fn.sstr(b'd') + fn.sstr(b'')) * 5,
    }
    for name, raw in raws.items():
        hk = None if raw is None else (raw if isinstance(raw, tuple) else ('raw', raw))
        out.append(('hostkey-raw:' + name, dict(hostkeys={'rsa-sha2-512': hk, 'ssh-ed25519': fn.ed25519_blob()}, gex=lambda a, b, c: 2048)))
        gx = None if raw is None else (raw if isinstance(raw, tuple) else ('raw', raw))
        out.append(('gex-raw:' + name, dict(hostkeys={'rsa-sha2-512': fn.rsa_blob(3072), 'ssh-ed25519': fn.ed25519_blob()}, gex=(lambda g: (lambda a, b, c: g))(gx))))
    for name, p in (('p-zero', 0), ('p-five', 5), ('p-one', 1)):
        out.append(('gex-group:' + name, dict(hostkeys={'rsa-sha2-512': fn.rsa_blob(3072), 'ssh-ed25519': fn.ed25519_blob()}, gex=(lambda pp: (lambda a, b, c: ('p', pp)))(p))))
    out.append(('gex-group:empty-p', dict(hostkeys={'ssh-ed25519': fn.ed25519_blob()}, gex=lambda a, b, c: ('raw', fn.pkt(bytes([31]) + fn.sstr(b'') + fn.mpint(2))))))
    out.append(('gex-hostkey-probe-wrong-type', dict(hostkeys={'rsa-sha2-512': fn.rsa_blob(3072)}, gex=lambda a, b, c: ('raw', fn.pkt(b'\x50abc')), kex_only_gex=True)))
    return out


PROBE_CONN_FAULTS = {
    'silent': dict(silent=True),
    'close-at-once': dict(close_on_connect=True),
    'banner-then-close': dict(kexinit_payload=None, close_after_send=True),
    'banner-then-stall': dict(kexinit_payload=None),
    'kexinit-bad-block': dict(raw_after_banner=b'\x00\x00\x00\x0d\x04' + b'\x14' + b'\x00' * 29),
    'kexinit-bad-length': dict(raw_after_banner=b'\x00\x00\x00\x04\xff' + b'\x14' + b'\x00' * 29),
    'kexinit-truncated': None,      # filled in below (needs the payload)
    'kexinit-wrong-type': None,
    'kexinit-garbage': dict(raw_after_banner=bytes(range(1, 90))),
    'not-ssh-banner': dict(banner=b'HTTP/1.1 400 Bad Request', kexinit_payload=None),
}


def run_probe_connection_fault(fault, k, extra=()):
    kexl = ['curve25519-sha256', 'diffie-hellman-group-exchange-sha256', 'diffie-hellman-group-exchange-sha1']
    payload = fn.kexinit(kexl, ['rsa-sha2-512', 'ssh-ed25519'], ['aes256-ctr'], ['hmac-sha2-256-etm@openssh.com'])
    good = fn.Server(banner=b'SSH-2.0-OpenSSH_8.0', kexinit_payload=payload, hostkeys={'rsa-sha2-512': fn.rsa_blob(3072), 'ssh-ed25519': fn.ed25519_blob()}, gex=lambda a, b, c: 3072 if c >= 3072 else None)
    kw = PROBE_CONN_FAULTS[fault]
    if fault == 'kexinit-truncated':
        kw = dict(raw_after_banner=fn.pkt(payload[:40]))
    elif fault == 'kexinit-wrong-type':
        kw = dict(raw_after_banner=fn.pkt(b'\x15' + payload[1:]))
    bad = fn.Server(**dict(dict(banner=b'SSH-2.0-OpenSSH_8.0', kexinit_payload=payload), **kw))
    srv = fn.StagedServer([good] * k + [bad] + [good] * 40)
    net = fn.FakeNet({'10.2.2.3': srv})
    code, out = fn.run_main(['-n', '--skip-rate-test'] + list(extra) + ['10.2.2.3'], net)
    return code, out, len(net.connects)


def probe_connection_faults(ctx):
    ks = (1, 2, 3, 5) if ctx.tier != 'thorough' else tuple(range(1, 12))
    return [(f, k, e) for f in PROBE_CONN_FAULTS for k in ks for e in ([], ['-j'])]


def run(ctx):
    r = ctx.rng
    cov = Coverage('one evaluation = one audit of a scripted misbehaving peer on the real code; non-trivial = distinct scripts that deliver at least one byte; event scripts: truncation at every (quick: every 3rd) byte offset of '
                   'banner and first packet, stalls/errors at random positions, length fields 0/len-1/len+1/huge, wrong types, debug floods, pre-banner lines, bytewise and random segmentation, bit flips, garbage; probe-phase faults: '
                   'malformed host-key blobs, framing errors, stalls, closes, tiny or empty GEX groups')
    failures, mismatches = [], []

    def fail(kind, inp, observed, expected):
        failures.append({'sig': {'kind': kind}, 'input': inp, 'observed': observed, 'expected': expected, 'how': 'harness/props/C09.py: real main() over a scripted socket / fakenet'})
    scripts = gen_event_scripts(ctx)
    lines, expect = [], []
    for events, tags in scripts:
        code, out, sock = run_scripted(events)
        cls = classify(code, out)
        delivered = any(isinstance(e, bytes) and e for e in events)
        cov.add(ev_tokens(events), delivered, tags=tags + ['class:' + cls],
                sample={'events': [e if isinstance(e, str) else e.hex()[:60] for e in events][:6], 'class': cls, 'exit': code, 'recvs': sock.recvs, 'stalls': sock.stalls} if len(cov.samples) < 4 and cls not in ('ok',) else None)
        inp = {'events': [e if isinstance(e, str) else e.hex() for e in events]}
        if cls == 'TRACEBACK' or code not in (0, 1, 2, 3):
            fail('internal_error', inp, {'exit': code, 'stdout': out[-400:]}, 'a documented status and no traceback')
        elif cls != 'ok' and (code != 1 or any(l.startswith(('(kex) ', '(key) ', '(enc) ', '(mac) ')) for l in out.split('\n'))):
            fail('malformed_handshake_reported', inp, {'exit': code, 'class': cls, 'stdout': out[:300]}, 'status 1 and no algorithm report')
        elif cls == 'ok' and code not in (0, 2, 3):
            fail('wellformed_handshake_no_report', inp, {'exit': code}, 'a report and status 0/2/3')
        if cls == 'ok':
            pl = first_payload(events)
            if pl is not None and not strict_kexinit_ok(pl):
                fail('malformed_kexinit_reported', inp, {'exit': code, 'class': cls, 'stdout': out[:300]}, 'the key-exchange-init packet is incomplete (a field overruns the payload): status 1 and no algorithm report')
        if sock.stalls > 2:
            fail('more_than_two_stalls_waited_for', inp, {'stalls': sock.stalls}, '<= 2 on one connection (one for an unterminated identification line, one for the packet after it)')
        # (a peer that went quiet stays quiet: the scripted socket keeps timing out after a final stall, the model gets the stall repeated)
        lines.append('session.handshake ' + ev_tokens(events + (['t'] * 3 if events and events[-1] == 't' else [])))
        expect.append(({'class': cls, 'recvs': sock.recvs, 'stalls': sock.stalls}, inp))
    model = ctx.driver(lines) if ctx.driver_ok else []
    for line, m, (want, inp) in zip(lines, model, expect):
        got = {k: m['ok'][k] for k in ('class', 'recvs', 'stalls')} if 'ok' in m else m
        if got != want:
            mismatches.append({'stream': 'session.handshake', 'op': line[:300], 'model': got, 'impl': want})
    # "Protocol major versions differ." on the first connection: the audit is repeated once as SSH-1 and ends, whatever the second connection brings
    from props.C19 import run_versions_differ
    for extra in ([], ['-2'], ['-1'], ['-j']):
        for second in ('same', 'pkm', 'silent', 'refuse', 'alternate'):
            code, out, log = run_versions_differ(extra, second)
            cov.add(('versions-differ', tuple(extra), second), True, tags=['versions-differ'])
            inp = {'versions_differ': True, 'args': extra, 'second_connection': second}
            if 'Traceback' in out or 'RecursionError' in out or code not in (0, 1, 2, 3):
                fail('internal_error', inp, {'exit': code, 'connections': len(log), 'stdout': out[-300:]}, 'a documented status and no traceback')
            if len(log) > 2:
                fail('unbounded_reconnects', inp, {'connections': len(log)}, 'at most one retry (as SSH-1): <= 2 connections')
    # probe-phase misbehaviour: the report of the completed handshake must survive
    for name, kw in probe_fault_servers(ctx):
        kex_only_gex = kw.pop('kex_only_gex', False)
        kexl = ['diffie-hellman-group-exchange-sha256'] if kex_only_gex else ['curve25519-sha256', 'diffie-hellman-group-exchange-sha256', 'diffie-hellman-group-exchange-sha1']
        payload = fn.kexinit(kexl, ['rsa-sha2-512', 'ssh-ed25519'], ['aes256-ctr'], ['hmac-sha2-256-etm@openssh.com'])
        for extra in ([], ['-j']):
            srv = fn.Server(banner=b'SSH-2.0-OpenSSH_8.0', kexinit_payload=payload, **kw)
            net = fn.FakeNet({'10.2.2.2': srv})
            code, out = fn.run_main(['-n', '--skip-rate-test'] + extra + ['10.2.2.2'], net)
            cov.add(('probe', name, tuple(extra)), True, tags=['probe-fault', name.split(':')[0]])
            inp = {'probe_fault': name, 'args': extra}
            if 'Traceback' in out or code not in (0, 2, 3):
                fail('probe_misbehaviour_lost_report', inp, {'exit': code, 'stdout': out[-300:]}, 'status 0/2/3 and the complete report')
            elif not extra and not all(any(l.startswith(p) for l in out.split('\n')) for p in ('(kex) ', '(key) ', '(enc) ', '(mac) ')):
                fail('probe_misbehaviour_lost_report', inp, {'exit': code, 'stdout': out[:300]}, 'all four algorithm sections')
            if net.timeouts > 2 * len(net.connects):
                fail('more_stalls_than_connections', inp, {'stalls': net.timeouts, 'connections': len(net.connects)}, 'stalls waited for <= 2 x connections made')
            if net.unclosed():
                fail('connection_left_open', inp, len(net.unclosed()), 0)
    # faults in the opening stages (banner, KEXINIT) of a probe connection: the k-th connection of the audit misbehaves, every other one is healthy
    for fault, k, extra in probe_connection_faults(ctx):
        code, out, nconn = run_probe_connection_fault(fault, k, extra)
        cov.add(('probe-conn', fault, k, tuple(extra)), True, tags=['probe-connection-fault', fault])
        inp = {'probe_connection_fault': fault, 'connection': k, 'args': extra}
        if 'Traceback' in out or code not in (0, 2, 3):
            fail('probe_misbehaviour_lost_report', inp, {'exit': code, 'connections': nconn, 'stdout': out[-300:]}, 'status 0/2/3 and the complete report')
        elif not extra and not all(any(l.startswith(p) for l in out.split('\n')) for p in ('(kex) ', '(key) ', '(enc) ', '(mac) ')):
            fail('probe_misbehaviour_lost_report', inp, {'exit': code, 'stdout': out[:300]}, 'all four algorithm sections')
    fn.reset_dbs()
    return {'failures': failures, 'mismatches': mismatches, 'coverage': cov, 'corr_cases': len(model),
            'assumptions': ['PARTIAL: a stall (timeout or socket error) is one event; real time per stall is the configured timeout', 'sockets are blocking (EAGAIN retry path unreachable)',
                            'later connections are refused in the event-level runs so that only the first connection\'s behaviour is observed'],
            'observations': ['with -j a probe-phase framing error prints "[exception] invalid ssh packet" ahead of the JSON document (same family as known findings D05/D34)']}


def replay(obj):
    f = obj.get('failure', obj)
    inp = f['input']
    if 'probe_connection_fault' in inp:
        code, out, nconn = run_probe_connection_fault(inp['probe_connection_fault'], inp['connection'], inp['args'])
        print('exit', code, 'connections', nconn)
        print(out[-500:])
        bad = 'Traceback' in out or code not in (0, 2, 3) or (not inp['args'] and not all(any(l.startswith(p) for l in out.split('\n')) for p in ('(kex) ', '(key) ', '(enc) ', '(mac) ')))
        return 1 if bad else 0
    if inp.get('versions_differ'):
        from props.C19 import run_versions_differ
        code, out, log = run_versions_differ(inp['args'], inp['second_connection'])
        print('exit', code, 'connections', len(log))
        print(out[-400:])
        return 1 if ('Traceback' in out or 'RecursionError' in out or code not in (0, 1, 2, 3) or len(log) > 2) else 0
    if 'events' in inp:
        events = [e if e in ('t', 'e') else bytes.fromhex(e) for e in inp['events']]
        code, out, sock = run_scripted(events)
        cls = classify(code, out)
        print('exit', code, 'class', cls, 'recv calls', sock.recvs, 'stalls', sock.stalls)
        print(out[-600:])
        bad = cls == 'TRACEBACK' or code not in (0, 1, 2, 3) or (cls != 'ok' and code != 1) or sock.stalls > 2
        pl = first_payload(events)
        bad = bad or (cls == 'ok' and pl is not None and not strict_kexinit_ok(pl))
        return 1 if bad else 0
    print(json.dumps(f, indent=1)[:1500])
    import sys
    from common import rerun_for_signature
    return rerun_for_signature(sys.modules[__name__], f)
