/-
  Rating-database access, mirroring how the Python code indexes `alg_db[cat][name]`.
-/
import SshAudit.Model.Text
namespace SshAudit
namespace DBm

/-- `db[cat]` as an entry list (empty when the category is absent). -/
def cat (db : DB) (c : Str) : List Entry :=
  match db.find? (·.1 = c) with
  | some (_, es) => es
  | none => []

/-- `name in db[cat]` / `db[cat][name]`. -/
def lookup (db : DB) (c name : Str) : Option Entry := (cat db c).find? (·.name = name)

def keys (db : DB) (c : Str) : List Str := (cat db c).map (·.name)

/-- `alg_desc[i]` if `len(alg_desc) > i`, else `[]`. -/
def slot (e : Entry) (i : Nat) : List (Option Str) := e.desc.getD i []

/-- notes of a slot with `None` skipped, as `output_algorithm` does. -/
def notes (e : Entry) (i : Nat) : List Str := (slot e i).filterMap id

def versions (e : Entry) : List (Option Str) := slot e 0
def fails (e : Entry) : List Str := notes e 1
def warns (e : Entry) : List Str := notes e 2
def infos (e : Entry) : List Str := notes e 3

end DBm
end SshAudit
