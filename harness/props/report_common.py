"""Adapters shared by the report properties (C01, C02, C03, C04, C13, C15): run the real output()
on a constructed peer, capture the report as records (through a recording OutputBuffer — levels are
observed from the method called, not from colours), parse the JSON document, and bring both to the
canonical structure the Lean driver's `report` op answers."""
import io
import json
import contextlib

from common import tstr, tstrs, toptstr, tbool

CATS = ('kex', 'key', 'enc', 'mac')


def mk_peer(kex, key, enc, mac, comp=('none',), enc_c=None, mac_c=None, host_keys=None, dh=None):
    return {'kex': list(kex), 'key': list(key), 'encC': list(enc if enc_c is None else enc_c), 'encS': list(enc),
            'macC': list(mac if mac_c is None else mac_c), 'macS': list(mac), 'comp': list(comp),
            'host_keys': dict(host_keys or {}), 'dh': dict(dh or {})}


def t_hk(d):
    if not d:
        return '_'
    return ';'.join('%s:%d:%s:%d' % (tstr(k), v['hostkey_size'], tstr(v.get('ca_key_type', '')), v.get('ca_key_size', 0)) for k, v in d.items())


def t_sizes(d):
    if not d:
        return '_'
    return ';'.join('%s:%d' % (tstr(k), v) for k, v in d.items())


def report_line(peer, client, banner, rate_notes=''):
    sw, cm = (banner.software, banner.comments) if banner is not None else (None, None)
    return 'report %s %s %s %s %s %s %s %s %s %s %s %s %s' % (
        tbool(client), toptstr(sw), toptstr(cm), tstr(rate_notes), tstrs(peer['kex']), tstrs(peer['key']), tstrs(peer['encC']), tstrs(peer['encS']),
        tstrs(peer['macC']), tstrs(peer['macS']), tstrs(peer['comp']), t_hk(peer['host_keys']), t_sizes(peer['dh']))


def mk_kex(peer):
    from ssh_audit.ssh2_kex import SSH2_Kex
    from ssh_audit.ssh2_kexparty import SSH2_KexParty
    from ssh_audit.outputbuffer import OutputBuffer
    cli = SSH2_KexParty(list(peer['encC']), list(peer['macC']), list(peer['comp']), [''])
    srv = SSH2_KexParty(list(peer['encS']), list(peer['macS']), list(peer['comp']), [''])
    kex = SSH2_Kex(OutputBuffer(), b'\0' * 16, list(peer['kex']), list(peer['key']), cli, srv, False, 0)
    for k, v in peer['host_keys'].items():
        kex.set_host_key(k, v.get('raw', b'blob-' + k.encode()), v['hostkey_size'], v.get('ca_key_type', ''), v.get('ca_key_size', 0))
    for k, v in peer['dh'].items():
        kex.set_dh_modulus_size(k, v)
    return kex


def recording_buffer():
    from ssh_audit.outputbuffer import OutputBuffer

    class Rec(OutputBuffer):
        def __init__(self):
            super().__init__()
            self.records = []

        def _print(self, level, s='', line_ended=True, always_print=False):
            self.records.append((level, s, always_print, self.in_section))
            return super()._print(level, s, line_ended, always_print)
    return Rec()


def parse_alg_records(records, verbose=False):
    """records of a batch-mode, no-colour run -> {cat: [[shown, [[level, text]…], [method used per line…]]…]}.
    Non-verbose: `(cat) shown[ -- [lvl] text]` starts an algorithm, `   `- [lvl] text` continues it.
    Verbose: every note repeats the full `(cat) shown -- [lvl] text` line; consecutive lines with the same shown name are merged."""
    out = {c: [] for c in CATS + ('aut',)}
    last = None
    for level, s, _, _ in records:
        if len(s) > 6 and s[0] == '(' and s[4] == ')' and s[1:4] in out and s[5] == ' ':
            cat = s[1:4]
            body = s[6:]
            i = body.find(' -- [')
            if i < 0:
                shown, note = body, ['info', '']
            else:
                j = body.find('] ', i)
                shown, note = body[:i], [body[i + 5:j], body[j + 2:]]
            if verbose and last is not None and last[0] == cat and last[1][0] == shown and i >= 0 and last[2]:
                last[1][1].append(note)
                last[1][2].append(level)
            else:
                entry = [shown, [note], [level]]
                out[cat].append(entry)
                last = [cat, entry, i >= 0]
        elif last is not None and s.lstrip(' ').startswith('`- [') and s[:1] == ' ':
            t = s.lstrip(' ')
            j = t.find('] ')
            last[1][1].append([t[4:j], t[j + 2:]])
            last[1][2].append(level)
        else:
            last = None
    return out


def run_output(peer, client=False, banner_line='SSH-2.0-OpenSSH_8.0', rate_notes='', batch=True, verbose=False, level='info', use_json=False,
               json_indent=False, colors=False, fresh=True, host='h', port=22):
    """Calls the real output(); returns (retval, recording buffer, stdout-text)."""
    from ssh_audit import ssh_audit as sa
    from ssh_audit.auditconf import AuditConf
    from ssh_audit.banner import Banner
    import fakenet
    if fresh:
        fakenet.reset_dbs()
    out = recording_buffer()
    out.batch, out.verbose, out.level, out.use_colors = batch, verbose, level, colors
    aconf = AuditConf(host, port)
    aconf.batch, aconf.verbose, aconf.level, aconf.colors = batch, verbose, level, colors
    aconf.json, aconf.json_print_indent = use_json, json_indent
    banner = Banner.parse(banner_line) if banner_line is not None else None
    kex = mk_kex(peer)
    ret = sa.output(out, aconf, banner, [], client_host=('10.1.1.1' if client else None), kex=kex, dh_rate_test_notes=rate_notes)
    text = out.get_buffer()
    return ret, out, text, banner


def impl_report(peer, client=False, banner_line='SSH-2.0-OpenSSH_8.0', rate_notes=''):
    """The canonical structure of the standard report of `peer`, from the real code (text run + JSON run, each on a fresh database)."""
    ret, out, text, banner = run_output(peer, client, banner_line, rate_notes, batch=True)
    algs = parse_alg_records(out.records)
    comp = None
    notes_text, unknown = [], []
    recs_text = []
    for level, s, _, _ in out.records:
        if s.startswith('(gen) compression: '):
            v = s[len('(gen) compression: '):]
            comp = [] if v == 'disabled' else v[len('enabled ('):-1].split(', ')
        elif s.startswith('(nfo) '):
            notes_text.append(s[6:])
        elif s.startswith('\n\n!!! WARNING: unknown algorithm(s) found!: '):
            unknown = s[len('\n\n!!! WARNING: unknown algorithm(s) found!: '):s.index('.  If this is the latest')].split(',')
        elif s.startswith('(rec) '):
            recs_text.append((level, s))
    jret, jout, jtext, _ = run_output(peer, client, banner_line, rate_notes, batch=False, use_json=True)
    doc = json.loads(jtext)
    recs = {}
    for lvl, acts in doc['recommendations'].items():
        for act, cats in acts.items():
            for cat, lst in cats.items():
                recs['%s/%s/%s' % (lvl, act, cat)] = [x['name'] for x in lst]
    jn = {c: [[e['algorithm'], {k: e['notes'].get(k) for k in ('fail', 'warn', 'info')}] for e in doc[c]] for c in CATS}
    return {'algs': algs, 'status': ret, 'json_status': jret, 'compression': comp, 'recs': recs, 'recs_text': recs_text, 'notes': doc['additional_notes'],
            'notes_text': notes_text, 'unknown': unknown, 'json': jn, 'doc': doc, 'text': text, 'banner': banner}


def canon_model(m):
    """driver `report` answer -> the same canonical structure"""
    r = m['ok']
    algs = {c: [[l['shown'], l['notes']] for l in r[c]] for c in CATS}
    recs = {}
    for lvl, act, cat, name in r['recs']:
        recs.setdefault('%s/%s/%s' % (lvl, act, cat), []).append(name)
    return {'algs': algs, 'status': r['status'], 'compression': r['compression'], 'recs': recs, 'notes': r['notes'], 'unknown': r['unknown'],
            'json': {c: [[n, jn] for n, jn in r['json'][c]] for c in CATS}, 'raw': r}


def compare(model, impl):
    """L1 differences between the model's report and the implementation's (list of strings)."""
    d = []
    for c in CATS:
        a = model['algs'][c]
        b = [[x[0], x[1]] for x in impl['algs'][c]]
        if a != b:
            d.append('%s lines differ: model %r impl %r' % (c, a[:3], b[:3]))
    for k in ('status', 'compression', 'recs', 'notes', 'unknown', 'json'):
        if model[k] != impl[k]:
            d.append('%s differs: model %r impl %r' % (k, str(model[k])[:300], str(impl[k])[:300]))
    return d
