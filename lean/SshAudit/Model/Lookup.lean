/-
  The `--lookup` mode: `algorithm_lookup(out, alg_names)` of `ssh_audit.py` and the part of `main()` /
  `process_commandline()` that dispatches to it.  Branch by branch:

  * `alg_names.split(",")`                      — `requested`: items verbatim (no strip, no case folding, empty items and repeats kept)
  * `algorithms_dict[cat] = {k for k in adb[cat] if k in algorithm_names}`
                                                 — `found`: the database keys of the category that were requested (exact string equality).
    It is a Python *set*; the order in which `list(set)` yields its elements is not specified (string hashes are
    randomised per process), so the model takes the iteration order as a parameter `SetOrder` and every theorem
    holds for every order that is a permutation (`SetOrder.ok`).
  * `for algorithm_name in algorithm_names: if algorithm_name.startswith('gss-') and ("%s-*" % name[0:name.rindex('-')]) in adb['kex']:
    algorithms_dict['kex'].add(algorithm_name)` — `gssKnown` / `gssExtra`: a requested `gss-<method>-<suffix>` name whose wildcard form is a
    key of `kex` joins the `kex` set (the D38 repair), so it is printed through `output_algorithm` and is not listed as not found
  * `padding = len(max(algorithm_names, key=len))`
  * per `alg_types` entry — in the order kex, key, **mac**, enc — `output_algorithms(...)` when the set is not empty: the
    audit's own `output_algorithm` (`Report.algLines` / `Output.algItems`) with no host keys and no modulus sizes,
    `is_json_output=False` passed literally
  * `algorithms_not_found`, `similar_algorithms` (`casefold()` + `in`), the two trailing blocks, `out.sep()` between them
  * the return value: the status fold of the printed lines, FAILURE when anything was not found (or suggested)
  * `main()`: `-m` wins; `--lookup ''` is not the lookup mode; otherwise `algorithm_lookup`, `out.write()`, `sys.exit(retval)`.
    `process_commandline` returns before `audit()` would copy `-b` / `-l` into the buffer, so only `-v`, `-d`, `-n`, `-j` reach it.

  `str.casefold()` is modelled on ASCII (`Text.lower`); other characters are left alone.  Core Lean only.
-/
import SshAudit.Model.Output
namespace SshAudit
namespace Lookup
open Report (s Level Note AlgLine kexC keyC encC macC)
open Output (Cfg Op Item Sec Meth Buf)

/-- the iteration order of a Python `set` of names: category ↦ (elements in database order ↦ the order `list(set)` yields) -/
abbrev SetOrder := Str → List Str → List Str

/-- what is known about that order: it yields every element exactly once -/
def SetOrder.ok (o : SetOrder) : Prop := ∀ c l, (o c l).Perm l

/-- one admissible order: database order -/
def dbOrder : SetOrder := fun _ l => l

/-- `alg_types` (a dict literal: this is its iteration order) -/
def algTypes : List (Str × Str) :=
  [(kexC, s "key exchange algorithms"), (keyC, s "host-key algorithms"),
   (macC, s "message authentication code algorithms"), (encC, s "encryption algorithms (ciphers)")]

/-- `alg_names.split(",")` -/
def requested (arg : Str) : List Str := Text.splitOn ',' arg

/-- the keys of `adb` -/
def cats (db : DB) : List Str := db.map (·.1)

/-- a Python set built by `add`: every element once (which occurrence survives is immaterial: the iteration order is a parameter) -/
def dedup : List Str → List Str
  | [] => []
  | x :: xs => if xs.contains x then dedup xs else x :: dedup xs

/-- `algorithm_name.startswith('gss-') and ("%s-*" % algorithm_name[0:algorithm_name.rindex('-')]) in adb['kex']`
    (the rewriting is `output_algorithm`'s own: `Report.gssNormalize`) -/
def gssKnown (db : DB) (n : Str) : Bool :=
  Text.startsWith n (s "gss-") && (DBm.keys db kexC).contains (Report.gssNormalize kexC n)

/-- the names `algorithms_dict['kex'].add(…)` really adds: requested gss names covered by a wildcard entry that are not already in the set -/
def gssExtra (db : DB) (names : List Str) : List Str :=
  dedup (names.filter (fun n => gssKnown db n && !(DBm.keys db kexC).contains n))

/-- `algorithms_dict[c]` after the gss loop: the requested keys of the category in database order, then (for `kex`) the added gss names -/
def found (db : DB) (names : List Str) (c : Str) : List Str :=
  (DBm.keys db c).filter (fun k => names.contains k) ++ (if c = kexC then gssExtra db names else [])

/-- `len(max(algorithm_names, key=len))` -/
def padding (names : List Str) : Nat := (names.map List.length).foldl max 0

/-- `output_algorithms(out, title, adb, c, list(algorithms_dict[c]), unknown_algorithms, False, retval, padding)`: the lines, as data -/
def sectionLines (o : SetOrder) (db : DB) (names : List Str) (c : Str) : List AlgLine :=
  Report.algLines [] db c (o c (found db names c)) [] []

structure Section where
  cat : Str
  title : Str
  lines : List AlgLine
deriving Repr, DecidableEq

/-- `for alg_type in alg_types: if len(algorithms_dict[alg_type]) > 0: …` -/
def sections (o : SetOrder) (db : DB) (names : List Str) : List Section :=
  algTypes.filterMap (fun ct =>
    if (found db names ct.1).length > 0 then some { cat := ct.1, title := s "# " ++ ct.2, lines := sectionLines o db names ct.1 } else none)

/-- `algorithms_dict_flattened` -/
def flattened (db : DB) (names : List Str) : List Str := (cats db).flatMap (found db names)

/-- `algorithms_not_found` -/
def notFound (db : DB) (names : List Str) : List Str :=
  let fl := flattened db names
  names.filter (fun n => !fl.contains n)

/-- `str.casefold()` (ASCII) -/
def casefold (t : Str) : Str := Text.lower t

/-- `alg_unknown.casefold() in alg_name.casefold()` -/
def similarTo (u k : Str) : Bool := Text.hasSub (casefold u) (casefold k)

structure Suggestion where
  unknown : Str
  cat : Str
  name : Str
deriving Repr, DecidableEq

/-- `alg_unknown + " --> (" + alg_type + ") " + alg_name` -/
def Suggestion.text (g : Suggestion) : Str := g.unknown ++ s " --> (" ++ g.cat ++ s ") " ++ g.name

/-- `similar_algorithms` -/
def similar (db : DB) (names : List Str) : List Suggestion :=
  (notFound db names).flatMap (fun u => (cats db).flatMap (fun c =>
    ((DBm.keys db c).filter (similarTo u)).map (fun k => { unknown := u, cat := c, name := k })))

/-- `retval` after the loop over `alg_types` -/
def statusOfSections (secs : List Section) : Nat := secs.foldl (fun st sc => Report.statusOfLines st sc.lines) 0

/-- the value `algorithm_lookup` returns (GOOD = 0, WARNING = 2, FAILURE = 3) -/
def status (o : SetOrder) (db : DB) (names : List Str) : Nat :=
  let st0 := statusOfSections (sections o db names)
  let st1 := if (notFound db names).length > 0 then 3 else st0
  if (similar db names).length > 0 then 3 else st1

def emptyReport : Report.Report :=
  { kex := [], key := [], enc := [], mac := [], status := 0, compression := [], recs := [], notes := [], unknown := [] }

/-- what `output_algorithm` is given besides the name: `alg_max_len = padding`, no host keys, no modulus sizes -/
def inputOf (pad : Nat) : Output.Input := { report := emptyReport, maxlen := pad }

def secOf (cfg : Cfg) (pad : Nat) (sc : Section) : Sec :=
  { title := sc.title, sort := false, items := Output.algItems cfg (inputOf pad) sc.lines }

def unknownTitle : Str := s "# unknown algorithms"
def similarTitle : Str := s "# suggested similar algorithms"

def failItem (n : Str) : Item := { meth := .fail, text := n }
def warnItem (g : Suggestion) : Item := { meth := .warn, text := g.text }

/-- the buffer calls of `algorithm_lookup`, in order -/
def ops (cfg : Cfg) (o : SetOrder) (db : DB) (names : List Str) : List Op :=
  (sections o db names).flatMap (fun sc => (secOf cfg (padding names) sc).ops) ++
  (if (notFound db names).length > 0 then Op.head unknownTitle true :: (notFound db names).map (fun n => (failItem n).op) else []) ++
  [Op.sep] ++
  (if (similar db names).length > 0 then Op.head similarTitle true :: (similar db names).map (fun g => (warnItem g).op) else [])

/-- `is_json_output=False` is passed literally: the section close never looks at `-j` -/
def textCfg (cfg : Cfg) : Cfg := { cfg with json := false }

structure Result where
  entries : List Str      -- the buffer after the call (what `out.write()` prints)
  status : Nat
deriving Repr, DecidableEq

/-- `algorithms_dict[alg_type]` / `alg_db[alg_type]` raise KeyError for a database without one of the four categories -/
def hasCats (db : DB) : Bool := algTypes.all (fun ct => (cats db).contains ct.1)

/-- `algorithm_lookup(out, alg_names)` on a fresh buffer with options `cfg` and database `db` -/
def run (cfg : Cfg) (o : SetOrder) (db : DB) (arg : Str) : Except Exn Result :=
  if hasCats db then
    .ok { entries := (Output.exec (textCfg cfg) (ops cfg o db (requested arg)) {}).entries, status := status o db (requested arg) }
  else .error .key

/-! ### `main()` -/

/-- the parsed command line, as far as the lookup path reads it -/
structure MainArgs where
  manual : Bool := false          -- `-m`
  verbose : Bool := false         -- `-v`
  debug : Bool := false           -- `-d`
  batch : Bool := false           -- `-b`  (stored in `aconf` only: `audit()` is never entered)
  level : Nat := 0                -- `-l`  (the same)
  noColors : Bool := false        -- `-n` / `--no-colors` among the arguments, or NO_COLOR in the environment
  json : Bool := false            -- `-j`: `main()` turns colours off
  lookup : Option Str := none     -- `--lookup VALUE`
deriving Repr, DecidableEq

inductive MainOutcome where
  | manual                                            -- `builtin_manual`
  | other                                             -- not the lookup mode: the program goes on (target handling, audit, …)
  | lookup (stdout : List (List Str)) (exit : Nat)    -- one `print` of the buffer, `sys.exit(retval)`
  | crash (e : Exn)
deriving Repr, DecidableEq

/-- the buffer options in force when `main()` calls `algorithm_lookup` -/
def mainCfg (a : MainArgs) : Cfg :=
  { batch := false, verbose := a.verbose, debug := a.debug, colors := !a.noColors && !a.json, level := 0, json := false }

def main (a : MainArgs) (o : SetOrder) (db : DB) : MainOutcome :=
  if a.manual then .manual
  else match a.lookup with
    | none => .other
    | some arg =>
      if arg = [] then .other       -- `aconf.lookup != ''` is false for `--lookup ''`
      else if hasCats db then
        .lookup (Output.exec (mainCfg a) (ops (mainCfg a) o db (requested arg) ++ [Op.write]) {}).out (status o db (requested arg))
      else .crash .key

/-! ### closed form of the text (equal to `run`: `Lemmas.Lookup.entries_eq_closed`) -/

def sepLine (cfg : Cfg) : List Str := if cfg.batch || !Output.passes cfg.level .info false then [] else [[]]
def headLine (cfg : Cfg) (t : Str) : List Str := if cfg.batch then [] else [Output.paint cfg.colors .head t]
def bodyOf (cfg : Cfg) (items : List Item) : List Str :=
  (items.filter (Output.keep cfg.level)).map (fun it => Output.paint cfg.colors it.meth it.text)

def closed (cfg : Cfg) (o : SetOrder) (db : DB) (names : List Str) : List Str :=
  (sections o db names).flatMap (fun sc => Output.renderSec (textCfg cfg) (secOf cfg (padding names) sc)) ++
  (if (notFound db names).length > 0 then headLine cfg unknownTitle ++ bodyOf cfg ((notFound db names).map failItem) else []) ++
  sepLine cfg ++
  (if (similar db names).length > 0 then headLine cfg similarTitle ++ bodyOf cfg ((similar db names).map warnItem) else [])

end Lookup
end SshAudit
