"""C11 — Host-key sizes, CA details and fingerprints are measured and rated correctly.

Theorems: SshAudit.Props.C11 (byte-level parse of RSA / Ed25519 / Ed448 blobs and of RSA / Ed25519
certificates signed by RSA / Ed25519 / ECDSA CAs, for every modulus, exponent and every key-id /
principals / options / extensions byte string; RSA size = bit length of the modulus;
thresholds and antitone rating; RSA-family fan-out for every host-key list and every
server state machine; fingerprint source / labels / text = JSON; fingerprint text format).
Tie: (1) KexDH.recv_reply on generated + mutated reply payloads vs `hk.parse`; (2) the thresholds of
HostKeyTest.perform_test (stub kex group reporting chosen sizes) vs `hk.comments` and the database
edit vs `hk.extend`; (3) HostKeyTest.run over fakenet servers, then the real output() in text, verbose
and JSON mode vs `hk.audit` (host-key records, probe connections, edited database entries, `(key)`
lines, JSON notes / keysize / casize, fingerprint lists); a sample again through main(); (4) the
Fingerprint formatting on arbitrary digests vs `hk.fpfmt`; (5) the spec-side encoders vs independently
written Python encoders.
Oracle (independent of the model): the generator knows the bit length of every modulus it presents
(Python int.bit_length), the CA kind, and the blob; sizes, CA details, ratings, fan-out and
fingerprints (hashlib + base64 / hex computed here) are checked on what the real code reports.
"""
import base64
import contextlib
import copy
import hashlib
import io
import json
import re
import struct

from common import Coverage, tstr, tstrs, tbytes, tbool
import fakenet as fn
from props import report_common as rc
from props.C10 import exn_name

ID = 'C11'
MODULE = 'SshAudit.Props.C11'
NAMESPACE = 'SshAudit.C11'
THEOREMS = ['rsa_size_general', 'bitLen_mono', 'ed25519_size', 'ed448_size', 'cert_sizes', 'ecdsa_ca_bits',
            'cert_wrong_type', 'rsa_thresholds', 'rsa_family_severity', 'rating_antitone', 'rating_antitone_keys', 'cert_thresholds', 'edcert_ca_thresholds',
            'ca_rating_antitone', 'table_facts', 'types_in_db', 'family_fanout', 'family_first_offered', 'family_not_offered', 'family_shown', 'edited_notes',
            'family_uniform_report', 'family_notes_by_size',
            'fingerprint_source', 'fingerprint_labels', 'fingerprint_complete', 'fingerprints_text_eq_json', 'run_fingerprints_agree', 'run_records',
            'fingerprints_differ_witness', 'fingerprint_lines_agree', 'sha256_format', 'md5_format', 'hexByte_digits', 'rating_by_true_bits', 'cert_rating_by_true_bits',
            'repaired_witness', 'ed448_rated_small']
# functions of the code whose Lean definitions are regenerated from the source on every run (harness/translate_logic.py); `GenLogic.<name>_eq_model`
# (lean/SshAudit/Props/GenLogic*.lean) ties each to the hand-written model function the theorems above are about
GEN_LOGIC = ['adjust_key_size', 'hostkey_comments']
TECHNIQUE = ('Lean 4 theorems (byte-level parser vs. independently written RFC encoders, arithmetic by omega, fold invariants for an arbitrary server state machine) '
             '+ differential correspondence with KexDH.recv_reply, HostKeyTest.perform_test/run over scripted servers and output() in text/verbose/JSON mode')
LEVEL_TEXT = ('Sizes: the byte-level parser of the model is proved against independently written RFC 4251/4253/8709/5656 and PROTOCOL.certkeys encoders for every exponent, modulus, '
              'key id, principals, options, extensions, nonce, serial and validity (only bound: the 32-bit length fields): recorded blob = presented blob, RSA size = bit length of the modulus (host keys and CA keys, every positive modulus), '
              'Ed25519 = 256, Ed448 = 448, certificate lines carry the certified key size and the CA type/size (RSA, Ed25519, ECDSA; P-521 = 528). Ratings: the threshold clauses are equalities about the notes added, '
              'stated for the true bit length of every modulus (rating_by_true_bits, cert_rating_by_true_bits) and antitone in the size and in the modulus. Fan-out: for every host-key list and every server state machine one probe connection serves the family, the three records are equal and the three '
              'entries receive the same notes. Fingerprints: hashed bytes = first string of the reply for every payload; labels (one ssh-rsa, no -cert-, no duplicates); text list = JSON list after every scan; '
              'SHA256: + unpadded base64 / MD5: + colon hex with the hash functions abstract. The model is compared with KexDH.recv_reply, HostKeyTest.perform_test/run and output() (text, -v, -j, and through main()).')
LEVEL_NOTE = ('Trusted: Lean kernel; the correspondence harness, fakenet and its generators; hashlib/base64 as the reference for "standard fingerprints" (hash functions are parameters of the model). '
              'C11-F1 (RSA sizes taken from the byte length of the encoding: 2040-2047 bits shown and rated as 2048, 3064-3071 as 3072) is repaired in /repo 8b8696d; its witnesses run first and the oracle compares the displayed size and the notes with the true bit length. '
              'Observations (D24, outside the RSA clauses): ssh-ed448 is rated "using small 448-bit modulus"; a P-521 CA is shown as 528-bit; '
              'the JSON has no keysize for rsa-sha2-*-cert-v01 types. fingerprints_differ_witness: text and JSON would disagree on a host-key map whose RSA-family records differ (unreachable: run_records).')

RSA = ['ssh-rsa', 'rsa-sha2-256', 'rsa-sha2-512']
RSA_CERT = 'ssh-rsa-cert-v01@openssh.com'
ED_CERT = 'ssh-ed25519-cert-v01@openssh.com'
TWO2K = '2048-bit modulus only provides 112-bits of symmetric strength'
HOW = 'harness/props/C11.py: HostKeyTest.run over a scripted fakenet server, then output() (text / -v / -j)'


# ---------------------------------------------------------------- independent encoders (RFC 4251 / 4253 / PROTOCOL.certkeys)

def sstr(b):
    return struct.pack('>I', len(b)) + b


def mpint(n):
    if n == 0:
        return sstr(b'')
    b = n.to_bytes((n.bit_length() + 7) // 8, 'big')
    if b[0] & 0x80:
        b = b'\x00' + b
    return sstr(b)


def rsa_blob(e, n, name=b'ssh-rsa'):
    return sstr(name) + mpint(e) + mpint(n)


def ed25519_blob(pk=b'\x42' * 32):
    return sstr(b'ssh-ed25519') + sstr(pk)


def ed448_blob(pk=b'\x43' * 57):
    return sstr(b'ssh-ed448') + sstr(pk)


CURVE_BYTES = {'nistp256': 32, 'nistp384': 48, 'nistp521': 66}
CURVE_BITS = {'nistp256': 256, 'nistp384': 384, 'nistp521': 521}


def ecdsa_blob(curve, x=None, y=None):
    c = CURVE_BYTES[curve]
    x = x if x is not None else b'\x07' * c
    y = y if y is not None else b'\x09' * c
    return sstr(b'ecdsa-sha2-' + curve.encode()) + sstr(curve.encode()) + sstr(b'\x04' + x + y)


def cert_blob(kind, pub, ca, f, cert_type=2):
    return (sstr(kind) + sstr(f['nonce']) + pub + struct.pack('>Q', f['serial']) + struct.pack('>I', cert_type) + sstr(f['key_id'])
            + sstr(f['principals']) + struct.pack('>Q', f['valid_after']) + struct.pack('>Q', f['valid_before']) + sstr(f['crit']) + sstr(f['ext'])
            + sstr(f['reserved']) + sstr(ca) + sstr(f['sig']))


def reply(blob, f=None, sig=b'sig'):
    return sstr(blob) + (f if f is not None else mpint(12345)) + sstr(sig)


def rsa_n(r, bits, pattern):
    if pattern == 'min':
        return (1 << (bits - 1)) | 1
    if pattern == 'max':
        return (1 << bits) - 1
    return (1 << (bits - 1)) | r.getrandbits(bits - 1) | 1


def rand_bytes(r, n):
    return bytes(r.getrandbits(8) for _ in range(n))


def cert_fields(r, plain=False):
    if plain:
        return {'nonce': b'N' * 32, 'serial': 1, 'key_id': b'host', 'principals': b'', 'valid_after': 0, 'valid_before': 2 ** 64 - 1, 'crit': b'', 'ext': b'',
                'reserved': b'', 'sig': b'signature'}
    return {'nonce': rand_bytes(r, r.choice([32, 32, 1, 16, 40])), 'serial': r.choice([0, 1, 2 ** 64 - 1, r.getrandbits(64)]),
            'key_id': rand_bytes(r, r.choice([0, 1, 4, 20, 200])), 'principals': b''.join(sstr(rand_bytes(r, r.randint(0, 12))) for _ in range(r.randint(0, 4))),
            'valid_after': r.getrandbits(64), 'valid_before': r.getrandbits(64), 'crit': rand_bytes(r, r.choice([0, 0, 7, 33])),
            'ext': rand_bytes(r, r.choice([0, 0, 5, 64, 300])), 'reserved': rand_bytes(r, r.choice([0, 0, 0, 3])), 'sig': rand_bytes(r, r.choice([0, 9, 83, 271]))}


def ca_of(r, kind, bits=None, pattern='min'):
    """(blob, meta) of a CA key"""
    if kind == 'rsa':
        n = rsa_n(r, bits, pattern)
        return rsa_blob(65537, n), {'kind': 'rsa', 'bits': n.bit_length()}
    if kind == 'ed25519':
        return ed25519_blob(rand_bytes(r, 32)), {'kind': 'ed25519'}
    return ecdsa_blob(kind), {'kind': 'ecdsa', 'curve': kind}


# ---------------------------------------------------------------- size grids

def rsa_grid(tier):
    g = list(range(512, 16384 + 1, 64))
    for c in (2048, 3072):
        g += list(range(c - 40, c + 41))
    g += [1032, 1040, 2040, 2047, 2049, 3064, 3071, 3073, 513, 520, 1023, 1025]
    if tier == 'thorough':
        g += list(range(512, 4200)) + list(range(4200, 16384, 8))
    return sorted(set(g))


# ---------------------------------------------------------------- stream 1: recv_reply on payloads

def real_parse(payload):
    from ssh_audit.kexdh import KexDH
    from ssh_audit.outputbuffer import OutputBuffer

    class S:
        def read_packet(self, sshv=2):
            return 31, payload
    kd = KexDH(OutputBuffer(), 'k', 'sha256', 0, 0)
    try:
        blob = kd.recv_reply(S())
    except BaseException as e:  # noqa
        return {'err': exn_name(e)}
    return {'ok': {'blob': blob.hex(), 'type': kd.get_hostkey_type(), 'size': kd.get_hostkey_size(), 'caType': kd.get_ca_type(), 'caSize': kd.get_ca_size()}}


def mutate(r, b):
    b = bytearray(b)
    k = r.choice(['trunc', 'trunc', 'flip', 'len', 'len', 'insert', 'delete', 'zero', 'hi'])
    if not b:
        return bytes(b)
    if k == 'trunc':
        return bytes(b[:r.randrange(len(b))])
    if k == 'flip':
        i = r.randrange(len(b))
        b[i] ^= 1 << r.randrange(8)
    elif k == 'len':
        # hit a plausible length field: any 4-byte window starting with two zero bytes
        cands = [i for i in range(len(b) - 3) if b[i] == 0 and b[i + 1] == 0]
        if cands:
            i = r.choice(cands)
            v = struct.unpack('>I', b[i:i + 4])[0]
            v2 = r.choice([0, 1, v + 1, max(0, v - 1), v + 2, 2 ** 32 - 1, len(b), 65536])
            b[i:i + 4] = struct.pack('>I', v2 & 0xffffffff)
    elif k == 'insert':
        i = r.randrange(len(b) + 1)
        b[i:i] = rand_bytes(r, r.choice([1, 4, 8]))
    elif k == 'delete':
        i = r.randrange(len(b))
        del b[i:i + r.choice([1, 4, 8])]
    elif k == 'zero':
        i = r.randrange(len(b))
        b[i:i + 4] = b'\x00' * len(b[i:i + 4])
    else:
        i = r.randrange(len(b))
        b[i] = r.choice([0x80, 0xff, 0xc3])
    return bytes(b)


def gen_blobs(ctx):
    """(tag, blob) pairs: every kind of host key the quantifier names, boundary sizes, odd encodings"""
    r = ctx.rng
    out = []
    grid = rsa_grid(ctx.tier)
    sizes = grid if ctx.tier == 'thorough' else sorted(set(r.sample(grid, 120) + [512, 1024, 2040, 2047, 2048, 2049, 3064, 3071, 3072, 4096, 16384, 1032]))
    for bits in sizes:
        out.append(('rsa', rsa_blob(r.choice([3, 17, 65537, 2 ** 32 + 1]), rsa_n(r, bits, r.choice(['min', 'max', 'rand'])), r.choice([b'ssh-rsa', b'ssh-rsa', b'rsa-sha2-256', b'rsa-sha2-512']))))
    for _ in range(ctx.scale(20, 100)):
        out.append(('ed25519', ed25519_blob(rand_bytes(r, r.choice([32, 32, 32, 0, 1, 31, 33, 64])))))
        out.append(('ed448', ed448_blob(rand_bytes(r, r.choice([57, 57, 57, 0, 1, 56, 58])))))
        out.append(('ecdsa', ecdsa_blob(r.choice(list(CURVE_BYTES)))))
        out.append(('dss', sstr(b'ssh-dss') + mpint(rsa_n(r, 1024, 'rand')) + mpint(rsa_n(r, 160, 'rand')) + mpint(5) + mpint(rsa_n(r, 1023, 'rand'))))
    # odd encodings of RSA numbers: extra leading zeros, missing sign byte, empty fields
    for bits in (1024, 2047, 2048, 3072):
        n = rsa_n(r, bits, 'rand')
        raw = n.to_bytes((bits + 7) // 8, 'big')
        for enc in (raw, b'\x00' + raw, b'\x00\x00' + raw, b'', b'\x00'):
            out.append(('rsa-odd', sstr(b'ssh-rsa') + mpint(65537) + sstr(enc)))
        out.append(('rsa-odd', sstr(b'ssh-rsa') + sstr(b'') + sstr(raw)))
    # certificates over the CA grid
    ca_sizes = [512, 1024, 2040, 2047, 2048, 2049, 3064, 3071, 3072, 4096, 8192] + r.sample(grid, ctx.scale(10, 120))
    for kind in (RSA_CERT, ED_CERT, 'rsa-sha2-256-cert-v01@openssh.com', 'ssh-rsa-cert-v00@openssh.com', 'ssh-ed25519-cert-v02', 'ssh-dss-cert-v01@openssh.com'):
        cas = [('rsa', b) for b in ca_sizes] + [('ed25519', None), ('nistp256', None), ('nistp384', None), ('nistp521', None)]
        if kind not in (RSA_CERT, ED_CERT):
            cas = r.sample(cas, 4)
        for ck, cb in cas:
            ca, _ = ca_of(r, ck, cb, r.choice(['min', 'max', 'rand']))
            f = cert_fields(r, plain=r.random() < 0.2)
            if kind.startswith('ssh-ed25519'):
                pub = sstr(rand_bytes(r, 32))
            else:
                pub = mpint(65537) + mpint(rsa_n(r, r.choice([1024, 2048, 3072, 4096, r.choice(grid)]), 'rand'))
            ct = r.choice([2, 2, 2, 2, 1, 0, 3, 2 ** 32 - 1])
            out.append(('cert', cert_blob(kind.encode(), pub, ca, f, ct)))
    # CA keys of other shapes inside a certificate
    for _ in range(ctx.scale(30, 200)):
        f = cert_fields(r)
        ca = r.choice([ed448_blob(), sstr(b'ssh-dss') + mpint(7) + mpint(9), sstr(b'ecdsa-sha2-nistp256') + sstr(b'nistp256') + sstr(b'\x02' + b'\x01' * 32),
                       sstr(b'ecdsa-sha2-nistp256') + sstr(b'nistp256') + sstr(b''), sstr(b'ecdsa-sha2-nistp999') + sstr(b'x') + struct.pack('>I', 9),
                       sstr(b'ssh-ed25519'), sstr(b'ssh-ed25519-x') + sstr(b'a') + sstr(b'b' * 33), sstr(b'ssh-rs\xe9') + sstr(b'a') + sstr(b'b'), b'', sstr(b'')])
        kind = r.choice([RSA_CERT, ED_CERT])
        pub = sstr(rand_bytes(r, 32)) if kind == ED_CERT else mpint(3) + mpint(rsa_n(r, 2048, 'rand'))
        out.append(('cert-odd-ca', cert_blob(kind.encode(), pub, ca, f)))
    # the branches of the bit-length measurement: zero moduli (fall back to the byte rule), prefixes of the type test, a CA modulus field that is declared but absent
    for body in (b'\x00', b'\x00\x00\x00', b'\x00' * 129, b'\x00\x01', b'\x00' * 100 + b'\x80' + b'\x00' * 28):
        out.append(('rsa-odd', sstr(b'ssh-rsa') + mpint(65537) + sstr(body)))
        out.append(('rsa-odd', sstr(b'ssh-rsa-x') + mpint(65537) + sstr(body)))
        out.append(('rsa-odd', sstr(b'rsa-sha2-256') + mpint(65537) + sstr(body)))
        for cat in (b'ssh-rsa', b'rsa-sha2-512', b'ssh-rsa-cert-v01@openssh.com'):
            out.append(('cert-odd-ca', cert_blob(RSA_CERT.encode(), mpint(3) + sstr(body), sstr(cat) + mpint(3) + sstr(body), cert_fields(r))))
            out.append(('cert-odd-ca', cert_blob(ED_CERT.encode(), sstr(b'k' * 32), sstr(cat) + mpint(3) + struct.pack('>I', 5), cert_fields(r))))
    for t in (b'', b'x', b'ssh-rsa\x00', b'ssh-\xff', b'SSH-RSA', b'ssh-ed25519 ', b'ssh-ed448', b'ssh-ed25519'):
        out.append(('odd-type', sstr(t) + sstr(b'ab') + sstr(b'cd' * 10)))
    return out


def stream_parse(ctx, cov, mismatches):
    r = ctx.rng
    blobs = gen_blobs(ctx)
    payloads = []
    for tag, b in blobs:
        payloads.append((tag, reply(b, r.choice([None, sstr(rand_bytes(r, 32))]), rand_bytes(r, r.choice([0, 3, 64])))))
    n_mut = ctx.scale(2500, 30000)
    for _ in range(n_mut):
        tag, b = r.choice(blobs)
        if r.random() < 0.6:
            payloads.append((tag + '/mut-blob', reply(mutate(r, b))))
        else:
            p = mutate(r, reply(b))
            if r.random() < 0.3:
                p = mutate(r, p)
            payloads.append((tag + '/mut-payload', p))
    for p in (b'', b'\x00', b'\x00\x00\x00\x00', sstr(b''), sstr(b'') + sstr(b''), sstr(b'') + sstr(b'') + sstr(b''), sstr(b'abc') + sstr(b'') + b'\x00\x00\x00'):
        payloads.append(('tiny', p))
    lines = ['hk.parse ' + tbytes(p) for _, p in payloads]
    model = ctx.driver(lines) if ctx.driver_ok else []
    n_ok = 0
    for (tag, p), line, m in zip(payloads, lines, model):
        imp = real_parse(p)
        mm = {'err': m['err']} if 'err' in m else {'ok': {k: m['ok'][k] for k in ('blob', 'type', 'size', 'caType', 'caSize')}}
        n_ok += 'ok' in imp
        cov.add(('parse', p), 'ok' in imp, tags=['parse:' + tag.split('/')[0], 'parse-result:' + ('ok' if 'ok' in imp else imp['err'])])
        if mm != imp:
            mismatches.append({'stream': 'hk.parse', 'op': line[:600], 'model': mm, 'impl': imp, 'tag': tag})
    return len(model)


# ---------------------------------------------------------------- stream 2: thresholds of perform_test (stub kex group)

def t_desc(d):
    return ';'.join('_' if not l else ','.join('~' if x is None else tstr(x) for x in l) for l in d)


def real_rate(name, cert, size, ca_type, ca_size):
    """HostKeyTest.perform_test with a kex group that reports the chosen measurements; returns the additions to the database"""
    from ssh_audit.hostkeytest import HostKeyTest
    from ssh_audit.ssh2_kex import SSH2_Kex
    from ssh_audit.ssh2_kexdb import SSH2_KexDB
    from ssh_audit.outputbuffer import OutputBuffer
    fn.reset_dbs()
    db = SSH2_KexDB.get_db()
    before = copy.deepcopy(db['key'])
    payload = fn.kexinit(['curve25519-sha256'], [name], ['aes256-ctr'], ['hmac-sha2-256'])

    class KG:
        def send_init(self, s):
            pass

        def recv_reply(self, s):
            return b'raw'

        def get_hostkey_size(self):
            return size

        def get_ca_type(self):
            return ca_type

        def get_ca_size(self):
            return ca_size

    class Sock:
        def __init__(self):
            self.c = False

        def is_connected(self):
            return self.c

        def connect(self):
            self.c = True
            return None

        def get_banner(self):
            return None, None, None

        def send_kexinit(self, **kw):
            pass

        def read_packet(self, sshv=2):
            return 20, payload[1:]

        def close(self):
            self.c = False
    out = OutputBuffer()
    kex = SSH2_Kex.parse(out, payload[1:])
    HostKeyTest.perform_test(out, Sock(), kex, 'curve25519-sha256', KG(), {name: {'cert': cert, 'variable_key_len': False}})
    targets = RSA if name in RSA else [name]
    res = {}
    for t in targets:
        b, a = before[t], db['key'][t]
        bf = b[1] if len(b) > 1 else []
        bw = b[2] if len(b) > 2 else []
        a1 = a[1] if len(a) > 1 else []      # (an entry the probe did not pad keeps its short form)
        a2 = a[2] if len(a) > 2 else []
        res[t] = {'fails': a1[len(bf):], 'warns': a2[len(bw):], 'prefix_kept': a1[:len(bf)] == bf and a2[:len(bw)] == bw and a[0] == b[0] and a[3:] == b[3:],
                  'before': b, 'after': copy.deepcopy(a)}
    untouched = all(db['key'][k] == before[k] for k in before if k not in targets)
    hk = {k: dict(v) for k, v in kex.host_keys().items()}
    fn.reset_dbs()
    return res, untouched, hk


def rate_oracle(name, cert, size, ca_type, ca_size, res):
    """the threshold clauses of the statement on the measured sizes (RSA-family host keys, RSA CA keys)"""
    bad = []
    for t, d in res.items():
        if name in RSA and not cert and size > 0:
            small = [x for x in d['fails'] if x.startswith('using small')]
            w2k = [x for x in d['warns'] if x == TWO2K]
            want = ((['using small %d-bit modulus' % size], []) if size < 2048 else (([], [TWO2K]) if size < 3072 else ([], [])))
            if (small, w2k) != want:
                bad.append(('rsa_hostkey_rating', t, {'fails': d['fails'], 'warns': d['warns']}, {'fails': want[0], 'warns': want[1]}))
        if cert and ca_type in RSA and ca_size > 0 and name in (RSA_CERT, 'rsa-sha2-256-cert-v01@openssh.com', 'rsa-sha2-512-cert-v01@openssh.com', ED_CERT):
            small = [x for x in d['fails'] if 'CA key modulus' in x]
            w2k = [x for x in d['warns'] if x == TWO2K]
            host_rsa = not name.startswith('ssh-ed25519')
            host_w = host_rsa and 2048 <= size < 3072
            if ca_size < 2048:
                ok = small == ['using small %d-bit CA key modulus' % ca_size] and len(w2k) == (1 if host_w else 0)
            elif ca_size < 3072:
                ok = not small and len(w2k) == 1
            else:
                ok = not small and len(w2k) == (1 if host_w else 0)
            if not ok:
                bad.append(('rsa_ca_rating', t, {'fails': d['fails'], 'warns': d['warns']}, 'CA < 2048: one failure; 2048 <= CA < 3072: the 2048-bit warning once; >= 3072: no CA size note'))
            if host_rsa and size > 0:
                hs = [x for x in d['fails'] if 'hostkey modulus' in x]
                if (hs == ['using small %d-bit hostkey modulus' % size]) != (size < 2048) or (hs and size >= 2048):
                    bad.append(('rsa_cert_hostkey_rating', t, {'fails': d['fails']}, 'certified RSA key < 2048: one failure, otherwise none'))
    return bad


def stream_rate(ctx, cov, mismatches, failures):
    from ssh_audit.hostkeytest import HostKeyTest
    r = ctx.rng
    names = list(HostKeyTest.HOST_KEY_TYPES)
    cases = []
    # RSA-family sizes: every multiple of 8 up to 16384 in the thorough tier, dense around the thresholds always
    sizes = sorted(set(list(range(0, 16385, ctx.scale(64, 8))) + list(range(2008, 2089)) + list(range(3032, 3113)) + [1, 7, 8, 16, 223, 224, 255, 256, 257]))
    for i, sz in enumerate(sizes):
        cases.append((RSA[i % 3], False, sz, '', 0))
    ca_types = ['', 'ssh-rsa', 'rsa-sha2-256', 'rsa-sha2-512', 'ssh-ed25519', 'ecdsa-sha2-nistp256', 'ecdsa-sha2-nistp521', 'ssh-dss', 'ssh-ed448', 'ssh-ed25519-cert-v01@openssh.com', 'x']
    bsizes = [0, 1, 223, 224, 225, 255, 256, 257, 384, 448, 512, 528, 1024, 2032, 2047, 2048, 2049, 3071, 3072, 3073, 4096, 16384]
    for i, sz in enumerate(sorted(set(sizes[::4] + bsizes))):
        for cert_name in (RSA_CERT, 'rsa-sha2-256-cert-v01@openssh.com', ED_CERT):
            cases.append((cert_name, True, r.choice([256, 1024, 2048, 3072, 4096]) if not cert_name.startswith('ssh-ed') else 256, RSA[i % 3], sz))
    for _ in range(ctx.scale(1500, 12000)):
        cases.append((r.choice(names), r.random() < 0.5, r.choice(bsizes + [r.randrange(0, 20000)]), r.choice(ca_types), r.choice(bsizes + [r.randrange(0, 20000)])))
    lines, keep = [], []
    for name, cert, sz, ct, cs in cases:
        res, untouched, hk = real_rate(name, cert, sz, ct, cs)
        first = res[name]
        same = all(d['fails'] == first['fails'] and d['warns'] == first['warns'] for d in res.values())
        inp = {'kind': 'rate', 'name': name, 'cert': cert, 'size': sz, 'ca_type': ct, 'ca_size': cs}
        cov.add(('rate', name, cert, sz, ct, cs), sz > 0 or cs > 0, tags=['rate:' + ('rsa-family' if name in RSA else ('cert' if cert else 'other'))])
        if not same or not untouched or not all(d['prefix_kept'] for d in res.values()):
            failures.append({'sig': {'kind': 'size_notes_not_uniform_or_misplaced'}, 'input': inp, 'observed': {t: {'fails': d['fails'], 'warns': d['warns'], 'kept': d['prefix_kept']} for t, d in res.items()},
                             'expected': 'the same added notes on every RSA-family entry, appended after the existing ones, nothing else touched', 'how': 'HostKeyTest.perform_test with a stub kex group'})
        if name in RSA and not cert and (set(hk) != set(RSA) or any(hk[t]['hostkey_size'] != sz for t in RSA)):
            failures.append({'sig': {'kind': 'rsa_family_record_missing'}, 'input': inp, 'observed': sorted(hk), 'expected': RSA, 'how': 'SSH2_Kex.host_keys() after perform_test'})
        for kind, t, obs, exp in rate_oracle(name, cert, sz, ct, cs, res):
            failures.append({'sig': {'kind': kind}, 'input': inp, 'observed': dict(obs, entry=t), 'expected': exp, 'how': 'HostKeyTest.perform_test with a stub kex group reporting the given sizes'})
        lines.append('hk.comments %s %s %d %s %d' % (tstr(name), tbool(cert), sz, tstr(ct), cs))
        keep.append(('comments', [first['fails'], first['warns']]))
        if r.random() < 0.25:
            t = r.choice(list(res))
            lines.append('hk.extend %s %s %s' % (t_desc(res[t]['before']), tstrs(first['fails']), tstrs(first['warns'])))
            keep.append(('extend', res[t]['after']))
    model = ctx.driver(lines) if ctx.driver_ok else []
    for line, m, (k, want) in zip(lines, model, keep):
        if m.get('ok') != want:
            mismatches.append({'stream': 'hk.' + k, 'op': line[:300], 'model': m, 'impl': want})
    return len(model)


# ---------------------------------------------------------------- stream 3: scripted servers, HostKeyTest.run, output()

def answer_bytes(a):
    k = a[0]
    if k == 'blob':
        return bytes.fromhex(a[1])
    if k == 'payload':
        return ('raw', fn.pkt(b'\x1f' + bytes.fromhex(a[1])))
    if k == 'close':
        return None
    if k == 'badtype':
        return ('raw', fn.pkt(bytes([99]) + b'xx'))
    if k == 'badblock':
        return ('raw', struct.pack('>IB', 5, 0) + b'\x1f\x00\x00\x00')
    if k == 'debug':
        return ('raw', fn.pkt(b'\x04\x00' + sstr(b'dbg') + sstr(b'')) + fn.pkt(b'\x1f' + reply(bytes.fromhex(a[1]))))
    raise ValueError(k)


def outcome_token(a):
    k = a[0]
    if k == 'blob' or k == 'debug':
        return 'r' + reply(bytes.fromhex(a[1])).hex()
    if k == 'payload':
        return 'r' + a[1]
    if k == 'close':
        return 'n'
    return 'x'


def fp_sha256(b):
    return 'SHA256:' + base64.b64encode(hashlib.sha256(b).digest()).decode().rstrip('=')


def fp_md5(b):
    h = hashlib.md5(b).hexdigest()
    return 'MD5:' + ':'.join(h[i:i + 2] for i in range(0, 32, 2))


FIN = re.compile(r'^\(fin\) ([^:]*): (SHA256:[^ ]*|MD5:[^ ]*)( -- .*)?$')


def fin_lines(records):
    out = []
    for _, s, _, _ in records:
        m = FIN.match(s)
        if m:
            out.append([m.group(1), m.group(2)])
    return out


def run_real(desc, via_main=False):
    """HostKeyTest.run against the scripted server, then the real output() three times (text, verbose text, JSON) on the same scan state."""
    from ssh_audit.ssh_socket import SSH_Socket
    from ssh_audit.ssh2_kex import SSH2_Kex
    from ssh_audit.hostkeytest import HostKeyTest
    from ssh_audit.outputbuffer import OutputBuffer
    from ssh_audit.ssh2_kexdb import SSH2_KexDB
    fn.reset_dbs()
    hostkeys = {t: answer_bytes(a) for t, a in desc['answers'].items()}
    payload = fn.kexinit(desc['kex'], desc['keys'], ['aes256-ctr'], ['hmac-sha2-256'])
    srv = fn.Server(banner=b'SSH-2.0-OpenSSH_8.0', kexinit_payload=payload, hostkeys=hostkeys)
    net = fn.FakeNet({'10.9.9.9': srv})
    ra = desc.get('refuse_after')
    if ra is not None:
        orig_route = net.route

        def route(addr):
            return None if len(net.connects) > ra else orig_route(addr)
        net.route = route
    out = OutputBuffer()
    res = {}
    try:
        with fn.patched(net), contextlib.redirect_stdout(io.StringIO()):
            s = SSH_Socket(out, '10.9.9.9', 22)
            kex = SSH2_Kex.parse(out, payload[1:])
            HostKeyTest.run(out, s, kex)
    except BaseException as e:  # noqa
        res['crash'] = exn_name(e)
        fn.reset_dbs()
        return res
    hk = kex.host_keys()
    res['hostKeys'] = [[k, v['raw_hostkey_bytes'].hex(), v['hostkey_size'], v['ca_key_type'], v['ca_key_size']] for k, v in hk.items()]
    res['probes'] = [c.client_kex.key_algorithms[0] if c.client_kex is not None and c.client_kex.key_algorithms else None for c in srv.log]
    res['connects'] = len(net.connects)
    res['unclosed'] = len(net.unclosed())
    db = SSH2_KexDB.get_db()['key']
    res['descs'] = [[t, copy.deepcopy(db[t])] for t in HostKeyTest.HOST_KEY_TYPES]
    peer = rc.mk_peer(desc['kex'], desc['keys'], ['aes256-ctr'], ['hmac-sha2-256'],
                      host_keys={k: {'raw': v['raw_hostkey_bytes'], 'hostkey_size': v['hostkey_size'], 'ca_key_type': v['ca_key_type'], 'ca_key_size': v['ca_key_size']} for k, v in hk.items()})
    ret, o1, text, _ = rc.run_output(peer, fresh=False)
    algs = rc.parse_alg_records(o1.records)
    res['keyLines'] = [[x[0], x[1]] for x in algs['key']]
    res['fin'] = fin_lines(o1.records)
    ret, o2, vtext, _ = rc.run_output(peer, fresh=False, verbose=True)
    res['finv'] = fin_lines(o2.records)
    ret, o3, jtext, _ = rc.run_output(peer, fresh=False, use_json=True, batch=False)
    doc = json.loads(jtext)
    res['jsonKey'] = doc['key']
    res['jsonFps'] = doc['fingerprints']
    fn.reset_dbs()
    return res


def run_main_views(desc):
    """the same server audited through main(): text and JSON (fresh process state each)"""
    out = {}
    for mode, args in (('text', ['-b', '-n']), ('json', ['-j'])):
        hostkeys = {t: answer_bytes(a) for t, a in desc['answers'].items()}
        payload = fn.kexinit(desc['kex'], desc['keys'], ['aes256-ctr'], ['hmac-sha2-256'])
        srv = fn.Server(banner=b'SSH-2.0-OpenSSH_8.0', kexinit_payload=payload, hostkeys=hostkeys)
        net = fn.FakeNet({'10.9.9.9': srv})
        code, text = fn.run_main(args + ['--skip-rate-test', '10.9.9.9'], net)
        if mode == 'text':
            recs = [(None, l, None, None) for l in text.split('\n')]
            out['keyLines'] = [[x[0], x[1]] for x in rc.parse_alg_records(recs)['key']]
            out['fin'] = fin_lines(recs)
            out['probes'] = [c.client_kex.key_algorithms[0] if c.client_kex is not None and c.client_kex.key_algorithms else None for c in srv.log[1:]]
        else:
            try:
                # a probe answered with a bad block size makes read_packet print '[exception] invalid ssh packet …' on stdout before the document (not a C11 matter)
                out['polluted'] = not text.lstrip().startswith('{')
                doc = json.loads(text[text.index('\n{') + 1:] if out['polluted'] and '\n{' in text else text)
                out['jsonKey'], out['jsonFps'] = doc['key'], doc['fingerprints']
            except ValueError:
                out['jsonKey'], out['jsonFps'] = 'unparsable: ' + text[:200], None
    fn.reset_dbs()
    return out


def canon_model_audit(m):
    r = m['ok']
    out = {'hostKeys': r['hostKeys'], 'descs': r['descs'], 'keyLines': [[l['shown'], l['notes']] for l in r['keyLines']]}
    out['fin'] = [[k, fp_sha256(bytes.fromhex(raw))] for k, raw in r['textShown']]
    finv = []
    for k, raw in r['textFps']:
        finv += [[k, fp_sha256(bytes.fromhex(raw))], [k, fp_md5(bytes.fromhex(raw))]]
    out['finv'] = finv
    jf = []
    for k, raw in r['jsonFps']:
        jf += [{'hostkey': k, 'hash_alg': 'SHA256', 'hash': fp_sha256(bytes.fromhex(raw))[7:]}, {'hostkey': k, 'hash_alg': 'MD5', 'hash': fp_md5(bytes.fromhex(raw))[4:]}]
    out['jsonFps'] = jf
    jk = []
    fields = {n: (ks, ca) for n, ks, ca in r['jsonFields']}
    for n, notes in r['jsonNotes']:
        e = {'algorithm': n, 'notes': {k: v for k, v in notes.items() if v is not None}}
        ks, ca = fields[n]
        if ks is not None:
            e['keysize'] = ks
        if ca is not None:
            e['ca_algorithm'], e['casize'] = ca
        jk.append(e)
    out['jsonKey'] = jk
    out['probes'] = r['probes']
    out['halt'] = r['halt']
    return out


def canon_json_key(entries):
    out = []
    for e in entries:
        d = {'algorithm': e['algorithm'], 'notes': {k: v for k, v in e['notes'].items() if v is not None}}
        for k in ('keysize', 'ca_algorithm', 'casize'):
            if k in e:
                d[k] = e[k]
        out.append(d)
    return out


def audit_line(desc):
    from ssh_audit.hostkeytest import HostKeyTest
    toks = []
    for t, a in desc['answers'].items():
        toks.append('%s=%s' % (tstr(t), outcome_token(a)))
    ra = desc.get('refuse_after')
    return 'hk.audit %s %s %s %s' % (tstrs(desc['kex']), tstrs(desc['keys']), ';'.join(toks) if toks else '_', '~' if ra is None else str(ra))


def compare_audit(model, impl):
    d = []
    if 'crash' in impl:
        return ['implementation crashed: ' + impl['crash']] if model['halt'] != 'keyError' else []
    for k in ('hostKeys', 'keyLines', 'fin', 'finv', 'jsonFps'):
        if model[k] != impl[k]:
            d.append('%s differs: model %r impl %r' % (k, str(model[k])[:400], str(impl[k])[:400]))
    if model['jsonKey'] != canon_json_key(impl['jsonKey']):
        d.append('jsonKey differs: model %r impl %r' % (str(model['jsonKey'])[:400], str(canon_json_key(impl['jsonKey']))[:400]))
    md = [[t, dsc] for t, dsc in model['descs']]
    if md != impl['descs']:
        bad = [(a, b) for a, b in zip(md, impl['descs']) if a != b]
        d.append('database entries differ: %r' % (bad[:2],))
    # connections: every attempted probe is a connect; the server saw all but a refused one
    if len(model['probes']) != impl['connects']:
        d.append('probe connections differ: model %r impl connects=%d seen=%r' % (model['probes'], impl['connects'], impl['probes']))
    seen = model['probes'][:-1] if model['halt'] == 'connFail' else model['probes']
    if seen != impl['probes']:
        d.append('probe order differs: model %r impl %r' % (seen, impl['probes']))
    return d


SIZE_RX = re.compile(r'^(.*) \((\d+)-bit\)$')
CERT_RX = re.compile(r'^(.*) \((\d+)-bit cert/(\d+)-bit (.*) CA\)$')


def size_ok(shown, bits):
    """the displayed size of an RSA key is the bit length of its modulus"""
    return shown == bits


def sev_expected(bits):
    return 2 if bits < 2048 else (1 if bits < 3072 else 0)


def cert_expect(host_rsa, hbits, hshown, cbits, cshown):
    """(host-key failure notes, CA failure notes, number of 2048-bit warnings) the statement asks for on a certificate line"""
    hf = ['using small %d-bit hostkey modulus' % hshown] if host_rsa and hbits < 2048 else []
    cf = ['using small %d-bit CA key modulus' % cshown] if cbits < 2048 else []
    w = 1 if ((host_rsa and 2048 <= hbits < 3072) or 2048 <= cbits < 3072) else 0
    return hf, cf, w


def audit_oracle(desc, res, observations, sevlog):
    """the statement on one audited server (only for servers whose answers are well-formed blobs described by desc['meta'])"""
    bad = []
    meta = desc.get('meta') or {}
    if 'crash' in res or desc.get('refuse_after') is not None or not meta:
        return bad
    from ssh_audit.hostkeytest import HostKeyTest
    hk = {e[0]: e for e in res['hostKeys']}
    lines = {}
    it = iter(res['keyLines'])
    for n in desc['keys']:
        if n.strip() == '':
            continue
        shown, notes = next(it)
        lines.setdefault(n, (shown, notes))
    jkey = {}
    for e in res['jsonKey']:
        jkey.setdefault(e['algorithm'], e)

    def f(kind, observed, expected, **extra):
        bad.append({'sig': dict({'kind': kind}, **extra), 'input': desc, 'observed': observed, 'expected': expected, 'how': HOW})
    fam = [t for t in RSA if t in desc['keys']]
    text_fp = {}
    for k, v in res['fin']:
        text_fp.setdefault(k, []).append(v)
    json_fp = {}
    for e in res['jsonFps']:
        json_fp.setdefault(e['hostkey'], {})[e['hash_alg']] = e['hash']
    verbose_fp = {}
    for k, v in res['finv']:
        verbose_fp.setdefault(k, []).append(v)
    # ---- RSA family (the scripted server presents one RSA key under every family name it advertises)
    if fam and all(t in meta for t in fam):
        m = meta[fam[0]]
        bits = m['bits']
        blob = bytes.fromhex(desc['answers'][fam[0]][1])
        fam_probes = [p for p in res['probes'] if p in RSA]
        if len(fam_probes) != 1:
            f('rsa_family_probe_count', fam_probes, 'exactly one probe connection for the RSA family')
        shown_sizes, size_notes = {}, {}
        for t in fam:
            shown, notes = lines[t]
            mm = SIZE_RX.match(shown)
            shown_sizes[t] = int(mm.group(2)) if mm and mm.group(1) == t else None
            size_notes[t] = sorted([l, x] for l, x in notes if x.startswith('using small') or x == TWO2K)
            js = jkey.get(t, {}).get('keysize')
            if js != shown_sizes[t]:
                f('json_keysize_differs_from_text', {'text': shown, 'json': js}, 'same size in both views')
        if len(set(shown_sizes.values())) != 1 or len(set(json.dumps(v) for v in size_notes.values())) != 1:
            f('rsa_family_members_differ', {'sizes': shown_sizes, 'notes': size_notes}, 'every advertised member shows the same size and size notes')
        for t in fam:
            je_ = jkey.get(t, {})
            if 'cert/' in lines[t][0] or 'casize' in je_ or je_.get('ca_algorithm') or any('CA key' in x for _, x in lines[t][1]):
                f('plain_key_reports_ca_details', {'type': t, 'shown': lines[t][0], 'json': {k: je_.get(k) for k in ('ca_algorithm', 'casize')}}, 'no CA type / size / CA notes on a host key that is not a certificate')
        sz = shown_sizes[fam[0]]
        if sz is None or not size_ok(sz, bits):
            f('rsa_size_wrong', {'modulus_bits': bits, 'shown': lines[fam[0]][0]}, '%d-bit' % bits)
        notes = size_notes[fam[0]]
        sev = 2 if any(l == 'fail' and x.startswith('using small') for l, x in notes) else (1 if any(l == 'warn' and x == TWO2K for l, x in notes) else 0)
        sevlog.append((bits, sev))
        okn = {2: [['fail', 'using small %d-bit modulus' % bits]], 1: [['warn', TWO2K]], 0: []}[sev_expected(bits)]
        if notes != okn:
            f('rsa_rating_wrong', {'modulus_bits': bits, 'shown': lines[fam[0]][0], 'size_notes': notes}, {'size_notes': okn})
        # fingerprints: one entry for the whole family, labelled ssh-rsa, of the presented blob
        for t in ('rsa-sha2-256', 'rsa-sha2-512'):
            if t in text_fp or t in json_fp or t in verbose_fp:
                f('rsa_family_fingerprint_duplicated', {'label': t}, 'one entry labelled ssh-rsa')
        if text_fp.get('ssh-rsa') != [fp_sha256(blob)]:
            f('fingerprint_wrong', {'label': 'ssh-rsa', 'text': text_fp.get('ssh-rsa')}, [fp_sha256(blob)])
        if verbose_fp.get('ssh-rsa') != [fp_sha256(blob), fp_md5(blob)]:
            f('fingerprint_wrong', {'label': 'ssh-rsa', 'verbose': verbose_fp.get('ssh-rsa')}, [fp_sha256(blob), fp_md5(blob)])
        if json_fp.get('ssh-rsa') != {'SHA256': fp_sha256(blob)[7:], 'MD5': fp_md5(blob)[4:]}:
            f('fingerprint_wrong', {'label': 'ssh-rsa', 'json': json_fp.get('ssh-rsa')}, {'SHA256': fp_sha256(blob)[7:], 'MD5': fp_md5(blob)[4:]})
    # ---- the other presented keys
    for t, m in meta.items():
        if t in RSA or t not in desc['keys'] or t not in HostKeyTest.HOST_KEY_TYPES:
            continue
        blob = bytes.fromhex(desc['answers'][t][1])
        rec = hk.get(t)
        shown, notes = lines[t]
        if rec is None:
            f('presented_key_not_recorded', {'type': t}, 'a record')
            continue
        if m['kind'] in ('ed25519', 'ed448'):
            want = 256 if m['kind'] == 'ed25519' else 448
            if rec[2] != want:
                f('fixed_size_key_wrong', {'type': t, 'size': rec[2]}, want)
            if m['kind'] == 'ed448' and any(x.startswith('using small') for _, x in notes):
                observations['ed448_rated_small_modulus (D24)'] = observations.get('ed448_rated_small_modulus (D24)', 0) + 1
        if m['kind'] in ('ed25519', 'ed448', 'ecdsa'):
            # a plain key has no signing CA: nothing of a certificate probed before it may stick to it (seed C03-7)
            je_ = jkey.get(t, {})
            if 'cert/' in shown or ' CA)' in shown or rec[3] not in ('', None) or rec[4] not in (0, None) or 'casize' in je_ or je_.get('ca_algorithm') or any('CA key' in x for _, x in notes):
                f('plain_key_reports_ca_details', {'type': t, 'shown': shown, 'record': rec[2:], 'json': {k: je_.get(k) for k in ('ca_algorithm', 'casize')},
                                                    'ca_notes': [x for _, x in notes if 'CA key' in x]}, 'no CA type / size / CA notes on a host key that is not a certificate')
            shown_fp = not t.startswith('ecdsa-')
            if (text_fp.get(t) != [fp_sha256(blob)]) if shown_fp else (t in text_fp):
                f('fingerprint_wrong', {'label': t, 'text': text_fp.get(t)}, [fp_sha256(blob)] if shown_fp else 'not shown without -v')
            if verbose_fp.get(t) != [fp_sha256(blob), fp_md5(blob)]:
                f('fingerprint_wrong', {'label': t, 'verbose': verbose_fp.get(t)}, [fp_sha256(blob), fp_md5(blob)])
            if json_fp.get(t) != {'SHA256': fp_sha256(blob)[7:], 'MD5': fp_md5(blob)[4:]}:
                f('fingerprint_wrong', {'label': t, 'json': json_fp.get(t)}, 'SHA-256 / MD5 of the presented blob')
        if m['kind'] in ('rsa-cert', 'ed25519-cert'):
            if t in text_fp or t in json_fp or t in verbose_fp:
                f('certificate_fingerprint_listed', {'label': t}, 'no fingerprint entry for certificate types')
            ca = m['ca']
            mm = CERT_RX.match(shown)
            host_bits = m['bits'] if m['kind'] == 'rsa-cert' else 256
            if not mm or mm.group(1) != t:
                f('certificate_details_missing', {'shown': shown}, 'name (N-bit cert/M-bit T CA)')
                continue
            hs, cs, ctype = int(mm.group(2)), int(mm.group(3)), mm.group(4)
            if not size_ok(hs, host_bits) or hs != rec[2]:
                f('certificate_hostkey_size_wrong', {'shown': shown}, host_bits)
            if ca['kind'] == 'rsa':
                want_ct, want_label, cbits = 'ssh-rsa', 'RSA', ca['bits']
                cok = size_ok(cs, cbits)
            elif ca['kind'] == 'ed25519':
                want_ct, want_label, cbits, cok = 'ssh-ed25519', 'ssh-ed25519', 256, cs == 256
            else:
                want_ct = want_label = 'ecdsa-sha2-' + ca['curve']
                cbits = CURVE_BITS[ca['curve']]
                cok = cs == cbits or (cbits == 521 and cs == 528)
                if cbits == 521 and cs == 528:
                    observations['p521_ca_shown_as_528 (D24)'] = observations.get('p521_ca_shown_as_528 (D24)', 0) + 1
            je = jkey.get(t, {})
            if not cok or ctype != want_label or rec[3] != want_ct or rec[4] != cs or je.get('casize') != cs or je.get('ca_algorithm') != want_ct:
                f('certificate_ca_details_wrong', {'shown': shown, 'record': rec[2:], 'json': {k: je.get(k) for k in ('ca_algorithm', 'casize')}}, {'ca_type': want_ct, 'ca_bits': cbits})
            if t.startswith('ssh-rsa-cert') and je.get('keysize') != hs:
                f('json_keysize_differs_from_text', {'text': shown, 'json': je.get('keysize')}, hs)
            if t.startswith('rsa-sha2-') and 'keysize' not in je:
                observations['json_has_no_keysize_for_rsa-sha2-*-cert'] = observations.get('json_has_no_keysize_for_rsa-sha2-*-cert', 0) + 1
            host_rsa = m['kind'] == 'rsa-cert'
            cb_eff = cbits if ca['kind'] == 'rsa' else 10 ** 6
            obs3 = ([x for l, x in notes if l == 'fail' and 'hostkey modulus' in x], [x for l, x in notes if l == 'fail' and 'CA key modulus' in x],
                    len([x for l, x in notes if l == 'warn' and x == TWO2K]))
            want3 = cert_expect(host_rsa, host_bits, host_bits, cb_eff, cbits)
            if obs3 != want3:
                f('rsa_cert_rating_wrong', {'hostkey_bits': host_bits, 'ca_modulus_bits': cbits, 'shown': shown, 'notes': notes},
                  {'hostkey_failures': want3[0], 'ca_failures': want3[1], 'warnings_2048': want3[2]})
    # text and JSON list the same fingerprint entries (ECDSA / DSS only with -v in the text report)
    tl = sorted(verbose_fp)
    jl = sorted(json_fp)
    if tl != jl or sorted(text_fp) != [k for k in jl if not (k.startswith('ecdsa-') or k == 'ssh-dss')]:
        f('fingerprint_lists_differ', {'text': sorted(text_fp), 'verbose': tl, 'json': jl}, 'the same entries')
    if res.get('unclosed'):
        f('probe_connection_left_open', res['unclosed'], 0)
    return bad


def key_answer(r, t, grid, tier_bits=None, pattern=None):
    """a well-formed answer + generator knowledge for host-key type t"""
    if t in RSA:
        bits = tier_bits or r.choice(grid)
        n = rsa_n(r, bits, pattern or r.choice(['min', 'max', 'rand']))
        return ['blob', rsa_blob(r.choice([3, 65537]), n).hex()], {'kind': 'rsa', 'bits': n.bit_length()}
    if t == 'ssh-ed25519':
        return ['blob', ed25519_blob(rand_bytes(r, 32)).hex()], {'kind': 'ed25519'}
    if t == 'ssh-ed448':
        return ['blob', ed448_blob(rand_bytes(r, 57)).hex()], {'kind': 'ed448'}
    if t.startswith('ecdsa-sha2-nistp') and '-cert-' not in t:
        return ['blob', ecdsa_blob(t[len('ecdsa-sha2-'):]).hex()], {'kind': 'ecdsa', 'curve': t[len('ecdsa-sha2-'):]}
    if t in (RSA_CERT, 'rsa-sha2-256-cert-v01@openssh.com', 'rsa-sha2-512-cert-v01@openssh.com', ED_CERT):
        ck = r.choice(['rsa', 'rsa', 'rsa', 'ed25519', 'nistp256', 'nistp384', 'nistp521'])
        ca, cm = ca_of(r, ck, tier_bits or r.choice(grid), pattern or r.choice(['min', 'max', 'rand']))
        f = cert_fields(r, plain=r.random() < 0.2)
        if t == ED_CERT:
            return ['blob', cert_blob(ED_CERT.encode(), sstr(rand_bytes(r, 32)), ca, f).hex()], {'kind': 'ed25519-cert', 'ca': cm}
        n = rsa_n(r, r.choice([1024, 2048, 3072, 4096, r.choice(grid)]), 'rand')
        return ['blob', cert_blob(RSA_CERT.encode(), mpint(65537) + mpint(n), ca, f).hex()], {'kind': 'rsa-cert', 'bits': n.bit_length(), 'ca': cm}
    return None, None


def ordered_subsets():
    import itertools
    out = []
    for k in (1, 2, 3):
        out += [list(p) for p in itertools.permutations(RSA, k)]
    return out


def gen_servers(ctx):
    from ssh_audit.hostkeytest import HostKeyTest
    r = ctx.rng
    grid = rsa_grid(ctx.tier)
    types = list(HostKeyTest.HOST_KEY_TYPES)
    subs = ordered_subsets()
    servers = []
    KEX = ['curve25519-sha256']

    # the probe runs over the first key exchange of the server's list that the tool can start: every such key exchange is used (one class per name in kexdh.py)
    KEX_POOL = [['curve25519-sha256'], ['curve25519-sha256@libssh.org'], ['ecdh-sha2-nistp256'], ['ecdh-sha2-nistp384'], ['ecdh-sha2-nistp521'], ['diffie-hellman-group14-sha256'],
                ['diffie-hellman-group14-sha1'], ['diffie-hellman-group16-sha512'], ['diffie-hellman-group18-sha512'], ['diffie-hellman-group1-sha1'],
                ['sntrup761x25519-sha512@openssh.com', 'ecdh-sha2-nistp384', 'curve25519-sha256'], ['mlkem768x25519-sha256', 'kex-strict-s-v00@openssh.com', 'ecdh-sha2-nistp521']]

    def mk(keys, answers, meta, kex=None, refuse_after=None, tag='x'):
        if kex is None and tag != 'corpus' and len(servers) % 3 == 2:
            kex = KEX_POOL[(len(servers) // 3) % len(KEX_POOL)]
        servers.append({'kex': kex or KEX, 'keys': keys, 'answers': answers, 'meta': meta, 'refuse_after': refuse_after, 'tag': tag})
    # corpus: the witnesses of the repaired defect C11-F1 (sizes that used to be rounded up across a threshold) first
    for bits in (2047, 2046, 2040, 3071, 3064, 1032, 2048, 3072, 1024):
        a, m = key_answer(r, 'ssh-rsa', grid, bits, 'min')
        mk(['ssh-rsa', 'rsa-sha2-512'], {'ssh-rsa': a, 'rsa-sha2-512': a}, {'ssh-rsa': m, 'rsa-sha2-512': m}, tag='corpus')
    # every RSA size of the grid, cycling through the 15 ordered non-empty subsets of the family, with other keys around
    sizes = grid if ctx.tier == 'thorough' else sorted(set(r.sample(grid, 150) + list(range(2030, 2060, 3)) + list(range(3060, 3080, 3)) + [512, 2040, 2047, 2048, 3071, 3072, 16384]))
    for i, bits in enumerate(sizes):
        fam = subs[i % len(subs)]
        a, m = key_answer(r, 'ssh-rsa', grid, bits, ['min', 'max', 'rand'][i % 3])
        keys = list(fam)
        answers = {t: a for t in fam}
        meta = {t: m for t in fam}
        for t in r.sample(['ssh-ed25519', 'ssh-ed448', 'ecdsa-sha2-nistp256', 'ecdsa-sha2-nistp521', ED_CERT, RSA_CERT], r.choice([0, 0, 1, 2])):
            a2, m2 = key_answer(r, t, grid)
            keys.insert(r.randrange(len(keys) + 1), t)
            answers[t], meta[t] = a2, m2
        if r.random() < 0.15:
            keys.insert(r.randrange(len(keys) + 1), r.choice(['foo-key@example.org', 'ssh-dss', 'sk-ssh-ed25519@openssh.com', ' ']))
        mk(keys, answers, meta, kex=r.choice([KEX, KEX, ['diffie-hellman-group14-sha256'], ['ecdh-sha2-nistp256', 'curve25519-sha256'], ['foo', 'diffie-hellman-group1-sha1']]), tag='rsa-grid')
    # every ordered subset x a few threshold sizes
    for fam in subs:
        for bits in (1024, 2048, 3072):
            a, m = key_answer(r, 'ssh-rsa', grid, bits, 'rand')
            mk(list(fam), {t: a for t in fam}, {t: m for t in fam}, tag='subsets')
    # certificates over the CA grid
    ca_sizes = sorted(set([1024, 2040, 2047, 2048, 2049, 3064, 3071, 3072, 4096] + r.sample(grid, ctx.scale(40, 300))))
    for i, cb in enumerate(ca_sizes):
        for t in (RSA_CERT, ED_CERT, r.choice(['rsa-sha2-256-cert-v01@openssh.com', 'rsa-sha2-512-cert-v01@openssh.com'])):
            ca, cm = ca_of(r, 'rsa', cb, ['min', 'max', 'rand'][i % 3])
            f = cert_fields(r)
            if t == ED_CERT:
                a, m = ['blob', cert_blob(ED_CERT.encode(), sstr(rand_bytes(r, 32)), ca, f).hex()], {'kind': 'ed25519-cert', 'ca': cm}
            else:
                n = rsa_n(r, r.choice([1024, 2048, 3072, 4096, r.choice(grid)]), 'rand')
                a, m = ['blob', cert_blob(RSA_CERT.encode(), mpint(65537) + mpint(n), ca, f).hex()], {'kind': 'rsa-cert', 'bits': n.bit_length(), 'ca': cm}
            mk([t], {t: a}, {t: m}, tag='cert-rsa-ca')
    for ck in ('ed25519', 'nistp256', 'nistp384', 'nistp521'):
        for t in (RSA_CERT, ED_CERT):
            for _ in range(ctx.scale(2, 10)):
                ca, cm = ca_of(r, ck)
                f = cert_fields(r)
                if t == ED_CERT:
                    a, m = ['blob', cert_blob(ED_CERT.encode(), sstr(rand_bytes(r, 32)), ca, f).hex()], {'kind': 'ed25519-cert', 'ca': cm}
                else:
                    n = rsa_n(r, r.choice([2048, 3072, 4096]), 'rand')
                    a, m = ['blob', cert_blob(RSA_CERT.encode(), mpint(65537) + mpint(n), ca, f).hex()], {'kind': 'rsa-cert', 'bits': n.bit_length(), 'ca': cm}
                mk([t, 'ssh-ed25519'], {t: a, 'ssh-ed25519': key_answer(r, 'ssh-ed25519', grid)[0]}, {t: m, 'ssh-ed25519': {'kind': 'ed25519'}}, tag='cert-ecc-ca')
    # random mixes of everything the table knows
    for _ in range(ctx.scale(150, 1500)):
        keys = r.sample(types, r.choice([1, 2, 3, 5, 8, len(types)]))
        answers, meta = {}, {}
        rsa_a = key_answer(r, 'ssh-rsa', grid)
        for t in keys:
            a, m = rsa_a if t in RSA else key_answer(r, t, grid)
            if a is not None:
                answers[t], meta[t] = a, m
        mk(keys, answers, meta, tag='mix')
    # correspondence-only servers (no meta => the oracle skips them): failures, closes, garbage, different blobs per family name, refusals
    for _ in range(ctx.scale(250, 2500)):
        keys = r.sample(types + ['foo@bar', ''], r.choice([1, 2, 3, 4, 6]))
        if r.random() < 0.5:
            keys = r.choice(subs) + keys
        if r.random() < 0.1:
            keys.append(r.choice(keys))
        answers = {}
        for t in set(keys):
            x = r.random()
            a, _ = key_answer(r, t, grid) if t in types else (None, None)
            if r.random() < 0.15:   # a key of another type than the one asked for
                a, _ = key_answer(r, r.choice(types), grid)
            if a is None:
                a = ['blob', ed25519_blob().hex()]
            if x < 0.45:
                answers[t] = a
            elif x < 0.6:
                answers[t] = ['payload', mutate(r, reply(bytes.fromhex(a[1]))).hex()]
            elif x < 0.7:
                answers[t] = ['blob', mutate(r, bytes.fromhex(a[1])).hex()]
            elif x < 0.78:
                answers[t] = ['close']
            elif x < 0.84:
                answers[t] = ['badtype']
            elif x < 0.88:
                answers[t] = ['badblock']
            elif x < 0.93:
                answers[t] = ['debug', a[1]]
            # else: not listed => the server closes the connection
        mk(keys, answers, None, kex=r.choice([KEX, KEX, KEX, ['none-we-know'], []]), refuse_after=r.choice([None, None, None, 0, 1, 2, 3]), tag='adversarial')
    return servers


def stream_audit(ctx, cov, mismatches, failures, observations):
    r = ctx.rng
    servers = gen_servers(ctx)
    lines = [audit_line(d) for d in servers]
    model = ctx.driver(lines) if ctx.driver_ok else [None] * len(lines)
    sevlog = []
    n_main = 0
    for desc, line, m in zip(servers, lines, model):
        res = run_real(desc)
        nontriv = bool(res.get('hostKeys'))
        cov.add(line, nontriv, tags=['server:' + desc['tag'], 'hostkeys:%d' % min(len(res.get('hostKeys', [])), 6)],
                sample={'keys': desc['keys'], 'meta': desc['meta'], 'key_lines': res.get('keyLines'), 'fin': res.get('fin')} if desc['tag'] in ('corpus', 'cert-ecc-ca') and len(cov.samples) < 4 else None)
        failures.extend(audit_oracle(desc, res, observations, sevlog))
        if m is not None:
            if 'ok' not in m:
                mismatches.append({'stream': 'hk.audit', 'op': line[:300], 'model': m, 'impl': 'n/a'})
                continue
            cm = canon_model_audit(m)
            d = compare_audit(cm, res)
            if d:
                mismatches.append({'stream': 'hk.audit', 'op': line[:300], 'model': d[:3], 'impl': {'keys': desc['keys'], 'tag': desc['tag']}})
            # a sample again through main(): the report of a whole audit shows the same lines
            if desc.get('refuse_after') is None and r.random() < ctx.scale(0.08, 0.05) and 'crash' not in res:
                n_main += 1
                mv = run_main_views(desc)
                if mv.get('polluted'):
                    observations['main_-j_output_preceded_by_exception_line (bad block size on a probe connection)'] = observations.get('main_-j_output_preceded_by_exception_line (bad block size on a probe connection)', 0) + 1
                for k in ('keyLines', 'fin', 'jsonFps'):
                    if mv[k] != res[k]:
                        mismatches.append({'stream': 'main-vs-output', 'op': line[:300], 'model': {k: str(cm[k])[:300]}, 'impl': {k: str(mv[k])[:300]}})
                if canon_json_key(mv['jsonKey']) != canon_json_key(res['jsonKey']) if isinstance(mv['jsonKey'], list) else True:
                    mismatches.append({'stream': 'main-vs-output', 'op': line[:300], 'model': {'jsonKey': str(cm['jsonKey'])[:300]}, 'impl': {'jsonKey': str(mv['jsonKey'])[:300]}})
                if mv['probes'] != res['probes']:
                    mismatches.append({'stream': 'main-vs-output', 'op': line[:300], 'model': {'probes': cm['probes']}, 'impl': {'probes': mv['probes']}})
    # the rating never gets worse as the key grows (over everything audited in this run)
    sevlog.sort()
    worst = None
    for bits, sev in sevlog:
        if worst is not None and sev > worst[1]:
            failures.append({'sig': {'kind': 'rating_not_antitone'}, 'input': {'kind': 'pair', 'smaller': worst[0], 'larger': bits}, 'observed': {'smaller': worst, 'larger': (bits, sev)},
                             'expected': 'severity(larger key) <= severity(smaller key)', 'how': HOW})
            break
        if worst is None or sev < worst[1]:
            worst = (bits, sev)
    observations['audits_also_run_through_main'] = n_main
    return sum(1 for m in model if m is not None)


# ---------------------------------------------------------------- stream 4: fingerprint formatting, stream 5: encoders

def stream_fmt(ctx, cov, mismatches, failures):
    import ssh_audit.fingerprint as fpm
    from ssh_audit.fingerprint import Fingerprint
    r = ctx.rng
    cases = [(rand_bytes(r, 32), rand_bytes(r, 16)) for _ in range(ctx.scale(300, 3000))]
    cases += [(rand_bytes(r, n), rand_bytes(r, r.randint(0, 20))) for n in range(0, 50)]
    cases += [(b'\x00' * 32, b'\x00' * 16), (b'\xff' * 32, b'\xff' * 16), (b'\xfb\xff' * 16, b'\x0a' * 16)]

    class H:
        def __init__(self, d):
            self.d = d

        def digest(self):
            return self.d

        def hexdigest(self):
            return self.d.hex()
    lines, want = [], []
    real = fpm.hashlib
    try:
        for a, b in cases:
            class FakeHashlib:
                sha256 = staticmethod(lambda x, a=a: H(a))
                md5 = staticmethod(lambda x, b=b: H(b))
            fpm.hashlib = FakeHashlib
            fp = Fingerprint(b'whatever')
            want.append([fp.sha256, fp.md5])
            lines.append('hk.fpfmt %s %s' % (tbytes(a), tbytes(b)))
            cov.add(('fmt', a, b), True, tags=['fpfmt'])
            # oracle: the standard formats
            exp = ['SHA256:' + base64.b64encode(a).decode().rstrip('='), 'MD5:' + ':'.join('%02x' % x for x in b)]
            if want[-1] != exp:
                failures.append({'sig': {'kind': 'fingerprint_format'}, 'input': {'kind': 'fmt', 'sha256_digest': a.hex(), 'md5_digest': b.hex()}, 'observed': want[-1], 'expected': exp, 'how': 'Fingerprint with hashlib replaced by fixed digests'})
    finally:
        fpm.hashlib = real
    # with the real hash functions: the standard fingerprints of the blob
    for _ in range(ctx.scale(100, 1000)):
        blob = rand_bytes(r, r.choice([0, 1, 51, 279, 535]))
        fp = Fingerprint(blob)
        cov.add(('fp', blob), True, tags=['fingerprint'])
        if [fp.sha256, fp.md5] != [fp_sha256(blob), fp_md5(blob)]:
            failures.append({'sig': {'kind': 'fingerprint_wrong'}, 'input': {'kind': 'fp', 'blob': blob.hex()}, 'observed': [fp.sha256, fp.md5], 'expected': [fp_sha256(blob), fp_md5(blob)], 'how': 'Fingerprint(blob)'})
    model = ctx.driver(lines) if ctx.driver_ok else []
    for line, m, w in zip(lines, model, want):
        if m.get('ok') != w:
            mismatches.append({'stream': 'hk.fpfmt', 'op': line, 'model': m, 'impl': w})
    return len(model)


def stream_enc(ctx, cov, mismatches):
    """the Lean spec-side encoders (what the theorems quantify over) produce the bytes the RFCs describe (independent Python encoders above + fakenet's)"""
    r = ctx.rng
    lines, want = [], []
    grid = rsa_grid(ctx.tier)
    for bits in r.sample(grid, ctx.scale(60, 400)) + [8, 9, 15, 16, 17, 1]:
        e = r.choice([1, 3, 65537, 2 ** 64 + 13, 127, 128, 255, 256])
        n = rsa_n(r, bits, r.choice(['min', 'max', 'rand']))
        lines.append('hk.enc.rsa %x %x' % (e, n))
        want.append(rsa_blob(e, n).hex())
        if e == 65537 and n == ((1 << (bits - 1)) | 1):
            assert fn.rsa_blob(bits) == rsa_blob(e, n)
    lines.append('hk.enc.rsa 0 0')
    want.append(rsa_blob(0, 0).hex())
    for n in (0, 1, 31, 32, 57, 100):
        pk = rand_bytes(r, n)
        lines += ['hk.enc.ed25519 ' + tbytes(pk), 'hk.enc.ed448 ' + tbytes(pk)]
        want += [ed25519_blob(pk).hex(), ed448_blob(pk).hex()]
    assert fn.ed25519_blob() == ed25519_blob() and fn.ed448_blob() == ed448_blob()
    for c, nb in CURVE_BYTES.items():
        x, y = rand_bytes(r, nb), rand_bytes(r, nb)
        lines.append('hk.enc.ecdsa %s %s %s' % (tstr(c), tbytes(x), tbytes(y)))
        want.append(ecdsa_blob(c, x, y).hex())
        assert fn.ecdsa_blob(c, 2 * nb + 1) == ecdsa_blob(c, b'\x07' * nb, b'\x07' * nb)
    for _ in range(ctx.scale(80, 600)):
        f = cert_fields(r, plain=r.random() < 0.1)
        ck = r.choice(['rsa', 'ed25519', 'nistp256', 'nistp384', 'nistp521'])
        ca, _ = ca_of(r, ck, r.choice(grid))
        ct = r.choice([2, 2, 1, 0, 7])
        nums = '%d,%d,%d' % (f['serial'], f['valid_after'], f['valid_before'])
        tail = '%s %s %s %s %s %s %s' % (tbytes(f['key_id']), tbytes(f['principals']), tbytes(f['crit']), tbytes(f['ext']), tbytes(f['reserved']), tbytes(f['sig']), tbytes(ca))
        if r.random() < 0.5:
            e, n = 65537, rsa_n(r, r.choice(grid), 'rand')
            lines.append('hk.enc.cert r %x,%x %d %s %s %s' % (e, n, ct, tbytes(f['nonce']), nums, tail))
            want.append(cert_blob(RSA_CERT.encode(), mpint(e) + mpint(n), ca, f, ct).hex())
            if f['nonce'] == b'N' * 32 and ct == 2:
                assert fn.cert_blob(RSA_CERT, mpint(e) + mpint(n), ca) == cert_blob(RSA_CERT.encode(), mpint(e) + mpint(n), ca, f)
        else:
            pk = rand_bytes(r, 32)
            lines.append('hk.enc.cert e %s %d %s %s %s' % (tbytes(pk), ct, tbytes(f['nonce']), nums, tail))
            want.append(cert_blob(ED_CERT.encode(), sstr(pk), ca, f, ct).hex())
    for _ in range(20):
        b, f_, sg = rand_bytes(r, r.randint(0, 60)), rand_bytes(r, r.randint(0, 40)), rand_bytes(r, r.randint(0, 10))
        lines.append('hk.enc.reply %s %s %s' % (tbytes(b), tbytes(f_), tbytes(sg)))
        want.append((sstr(b) + sstr(f_) + sstr(sg)).hex())
    model = ctx.driver(lines) if ctx.driver_ok else []
    for line, m, w in zip(lines, model, want):
        cov.add(('enc', line), True, tags=['spec-encoder'])
        if m.get('ok') != w:
            mismatches.append({'stream': line.split()[0], 'op': line[:300], 'model': str(m)[:300], 'impl': str(w)[:300]})
    return len(model)


def stream_bits(ctx, cov, failures):
    """oracle on KexDH.recv_reply alone: the size of an RSA host key / CA key is the bit length of its modulus, for every small k and a sample of large ones"""
    r = ctx.rng
    ks = list(range(1, ctx.scale(300, 4200))) + r.sample(range(300, 20000), ctx.scale(200, 2000))
    for k in ks:
        n = rsa_n(r, k, r.choice(['min', 'max', 'rand']))
        imp = real_parse(reply(rsa_blob(65537, n)))
        ca = real_parse(reply(cert_blob(ED_CERT.encode(), sstr(b'k' * 32), rsa_blob(3, n), cert_fields(r, plain=True))))
        cov.add(('bits', k), True, tags=['rsa-bit-length'])
        got = (imp.get('ok', {}).get('size'), ca.get('ok', {}).get('caSize'))
        if got != (n.bit_length(), n.bit_length()):
            failures.append({'sig': {'kind': 'rsa_size_wrong'}, 'input': {'kind': 'bits', 'modulus': '%x' % n}, 'observed': {'hostkey_size': got[0], 'ca_size': got[1]},
                             'expected': n.bit_length(), 'how': 'KexDH.recv_reply on a KEXDH_REPLY carrying ssh-rsa (e=65537, n) / an Ed25519 certificate signed by it'})


# ---------------------------------------------------------------- entry points

def run(ctx):
    cov = Coverage('one evaluation = one reply payload parsed by KexDH.recv_reply, one (type, cert, size, CA type, CA size) rated by HostKeyTest.perform_test, one scripted server audited by '
                   'HostKeyTest.run + output() in three modes, or one digest formatted by Fingerprint; non-trivial = the implementation produced a measurement (parse ok / size > 0 / at least one host key recorded). '
                   'RSA moduli 512..16384 step 64 plus every size within 40 of 2048 and 3072 (thorough: every size 512..4200, step 8 to 16384), three bit patterns; all 15 ordered non-empty subsets of the RSA family; '
                   'RSA/Ed25519 certificates over RSA (size grid) / Ed25519 / ECDSA P-256/384/521 CAs with random key-id, principals, options, extensions; mutated and truncated blobs and payloads')
    failures, mismatches = [], []
    observations = {}
    n = 0
    n += stream_parse(ctx, cov, mismatches)
    n += stream_rate(ctx, cov, mismatches, failures)
    n += stream_audit(ctx, cov, mismatches, failures, observations)
    n += stream_fmt(ctx, cov, mismatches, failures)
    stream_bits(ctx, cov, failures)
    n += stream_enc(ctx, cov, mismatches)
    fn.reset_dbs()
    obs = ['%s: %s' % (k, v) for k, v in sorted(observations.items())]
    return {'failures': failures, 'mismatches': mismatches, 'coverage': cov, 'corr_cases': n, 'exhaustive': False,
            'assumptions': ['scripted servers present the same RSA key under every RSA-family name they advertise when the oracle is applied (as real servers do); servers answering differently per name are compared with the model only',
                            'SHA-256, MD5, base64 of the Python standard library are the reference for "standard fingerprints"',
                            'packet-level behaviour of the probe connection (debug messages skipped, wrong message type, bad block size, close) is mapped to the model\'s Outcome by the harness'],
            'observations': obs}


def replay(obj):
    f = obj.get('failure', obj)
    inp = f['input']
    kind = inp.get('kind')
    if kind == 'rate':
        res, untouched, hk = real_rate(inp['name'], inp['cert'], inp['size'], inp['ca_type'], inp['ca_size'])
        print(json.dumps({t: {'fails': d['fails'], 'warns': d['warns']} for t, d in res.items()}))
        bad = rate_oracle(inp['name'], inp['cert'], inp['size'], inp['ca_type'], inp['ca_size'], res)
        first = res[inp['name']]
        if not all(d['fails'] == first['fails'] and d['warns'] == first['warns'] and d['prefix_kept'] for d in res.values()) or not untouched:
            bad.append('notes not uniform')
        print('PROPERTY FAILS: %r' % (bad[:2],) if bad else 'rated per the statement')
        return 1 if bad else 0
    if kind == 'bits':
        n = int(inp['modulus'], 16)
        imp = real_parse(reply(rsa_blob(65537, n)))
        print('modulus of %d bits: recv_reply reports %r' % (n.bit_length(), imp))
        return 0 if imp.get('ok', {}).get('size') == n.bit_length() else 1
    if kind == 'fmt':
        print('see the failure record (Fingerprint formatting of fixed digests)')
        print(json.dumps({k: f[k] for k in ('observed', 'expected')}))
        return 1
    if kind == 'fp':
        from ssh_audit.fingerprint import Fingerprint
        blob = bytes.fromhex(inp['blob'])
        fp = Fingerprint(blob)
        print(fp.sha256, fp.md5)
        return 0 if [fp.sha256, fp.md5] == [fp_sha256(blob), fp_md5(blob)] else 1
    if kind == 'pair':
        print(json.dumps({k: f[k] for k in ('observed', 'expected')}))
        return 1
    res = run_real(inp)
    print(json.dumps({k: res.get(k) for k in ('crash', 'hostKeys', 'probes', 'keyLines', 'fin', 'jsonFps') if k in res})[:3000])
    bad = audit_oracle(inp, res, {}, [])
    for b in bad[:5]:
        print('PROPERTY FAILS: %s observed %r expected %r' % (b['sig'], b['observed'], b['expected']))
    if not bad:
        print('sizes, CA details, ratings and fingerprints follow the statement on this server')
    return 1 if bad else 0
