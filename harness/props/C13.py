"""C13 — Recommendations are consistent with the ratings shown.

Theorems: SshAudit.Props.C13 (removal/change ⇒ advertised ∧ failure-or-warning in the very database
state shown; addition ⇒ not advertised ∧ clean ∧ not cert/sk/pseudo ∧ available in the identified
version ∧ not suppressed ∧ recognised software; nothing both ways; critical ⇔ failure (< 10
warnings); completeness for names that are database keys; no software ⇒ no recommendations).
Tie: banners of every recognised product at versions around every first-appeared version of the
database (and unrecognised products) x random / boundary peers, through the real output(); the
JSON `recommendations` value and the `(rec)` records are compared with the model's `report`.
Oracle: every clause re-derived from the notes and (rec) lines printed in the same report.
"""
import json
import re

from common import Coverage
from props import report_common as rc
from props import peergen as pg

ID = 'C13'
MODULE = 'SshAudit.Props.C13'
NAMESPACE = 'SshAudit.C13'
THEOREMS = ['mem_recommendations', 'recOf_del_chg', 'recOf_add', 'recOf_complete', 'del_chg_sound', 'add_sound', 'unknown_software_no_add',
            'no_software_no_recs', 'no_both_ways', 'categories_distinct', 'critical_iff_failure', 'del_chg_complete_partial']
TECHNIQUE = 'Lean 4 theorems (membership characterisation of the recommendation pass over an arbitrary database state; case analysis of the loop body) + banner-version-sweep correspondence through output()'
LEVEL_TEXT = ('Soundness of removals/changes and additions, no-both-ways, critical⇔failure, unknown-software⇒no-additions and completeness (for names that are database keys) are proved for an arbitrary database '
              'state, software and peer, so they hold in every reachable per-scan state. The pass is compared with the real code over banners at versions around every first-appeared version in the database.')
LEVEL_NOTE = ('Trusted: Lean kernel, harness; the version filter is the C14 model. gss-* key exchanges rated fail/warn are never recommended for removal (the pass compares the advertised gss-…-<base64> with the table key gss-…-*): '
              'recorded known finding D12. critical⇔failure assumes fewer than 10 warnings on one algorithm (≥ 10 duplicate ChaCha entries: observation D27).')

REC_RX = re.compile(r'^\(rec\) ([-+!])(.*?)-- (kex|key|enc|mac) algorithm to (remove|append|change)( \(.*\))? $')


def versions_around_db():
    """banner strings at versions around every first-appeared version in the database"""
    db = pg.master()
    from ssh_audit.algorithm import Algorithm
    vs = {'OpenSSH': set(), 'Dropbear SSH': set(), 'libssh': set()}
    for c in rc.CATS:
        for n, d in db[c].items():
            if d[0] and d[0][0]:
                for v in d[0][0].split(','):
                    prod, ver, cli = Algorithm.get_ssh_version(v)
                    if ver:
                        vs[prod].add(ver)
    out = []
    for prod, fmt in (('OpenSSH', 'SSH-2.0-OpenSSH_%s'), ('Dropbear SSH', 'SSH-2.0-dropbear_%s'), ('libssh', 'SSH-2.0-libssh-%s')):
        for v in sorted(vs[prod]):
            parts = v.split('.')
            out.append(fmt % v)
            try:
                last = int(parts[-1])
                for d in (-1, 1):
                    if last + d >= 0:
                        out.append(fmt % '.'.join(parts[:-1] + [str(last + d)]))
            except ValueError:
                pass
    out += ['SSH-2.0-OpenSSH_10.0', 'SSH-2.0-OpenSSH_10.1p1', 'SSH-2.0-libssh-0.10.6', 'SSH-2.0-libssh_0.11.1', 'SSH-2.0-tinyssh_noversion',
            'SSH-2.0-PuTTY_Release_0.78', 'SSH-2.0-FooServer_1.0', 'SSH-2.0-RomSShell_5.40', 'SSH-2.0-OpenSSH_7.4p1 Debian-10+deb9u7', 'SSH-2.0-dropbear_2020.81']
    return out


def evaluate_case(db, bl, peer, client):
    """One (banner, peer, role) report from the real output(), checked clause by clause: returns (report, recognised, software, failures)."""
    from ssh_audit.software import Software
    from ssh_audit.algorithm import Algorithm
    failures = []

    def fail(kind, inp, observed, expected):
        failures.append({'sig': {'kind': kind}, 'input': inp, 'observed': observed, 'expected': expected, 'how': 'harness/props/C13.py on the real output()'})
    imp = rc.impl_report(peer, client=client, banner_line=bl)
    sw = Software.parse(imp['banner'])
    recognised = sw is not None and sw.product in ('OpenSSH', 'Dropbear SSH', 'libssh', 'TinySSH')
    inp = {'banner': bl, 'peer': peer, 'client': client}
    adv = {'kex': peer['kex'], 'key': peer['key'], 'enc': peer['encS'], 'mac': peer['macS']}
    notes = {c: {x[0].split(' (')[0] if False else x[0]: x[1] for x in imp['algs'][c]} for c in rc.CATS}
    # map shown -> name: strip the size suffix
    byname = {c: {} for c in rc.CATS}
    for c in rc.CATS:
        shown_iter = iter(imp['algs'][c])
        for n in adv[c]:
            if n.strip() == '':
                continue
            shown, nts, _ = next(shown_iter)
            byname[c].setdefault(n, nts)
    recs = imp['recs']
    seen_add, seen_rm = set(), set()
    for key, names in recs.items():
        lvl, act, cat = key.split('/')
        for n in names:
            if act in ('del', 'chg'):
                seen_rm.add((cat, n))
                nts = byname[cat].get(n)
                if nts is None:
                    fail('removal_of_unadvertised', dict(inp, rec=key, name=n), 'not advertised', 'advertised in that category')
                    continue
                has_f = any(l == 'fail' for l, _ in nts)
                has_w = any(l == 'warn' for l, _ in nts)
                if not (has_f or has_w):
                    fail('removal_of_clean_algorithm', dict(inp, rec=key, name=n), nts, 'a failure or warning in the same report')
                nw = sum(1 for l, _ in nts if l == 'warn')
                if nw < 10 and (lvl == 'critical') != has_f:
                    fail('critical_vs_failure', dict(inp, rec=key, name=n), {'level': lvl, 'notes': nts}, 'critical exactly when the algorithm has a failure')
            else:
                seen_add.add((cat, n))
                if n in adv[cat]:
                    fail('addition_of_advertised', dict(inp, rec=key, name=n), 'advertised', 'not advertised')
                d = db[cat].get(n)
                if d is None:
                    fail('addition_of_unknown', dict(inp, rec=key, name=n), 'not in database', 'a database algorithm')
                    continue
                if (len(d) > 1 and d[1]) or (len(d) > 2 and d[2]):
                    fail('addition_with_fail_or_warn', dict(inp, rec=key, name=n), d[1:3], 'no failure or warning')
                if (cat == 'key' and ('-cert-' in n or n.startswith('sk-'))) or (cat == 'kex' and (n.startswith('ext-info-') or n.startswith('kex-strict-'))):
                    fail('addition_of_cert_sk_pseudo', dict(inp, rec=key, name=n), n, 'never recommended')
                if not recognised:
                    fail('addition_for_unknown_software', dict(inp, rec=key, name=n), bl, 'no additions')
                else:
                    avail = False
                    for v in (d[0][0] or '').split(',') if d[0] else []:
                        prod, ver, cli = Algorithm.get_ssh_version(v)
                        if ver and prod == sw.product and not cli and num_ge(sw.version, ver, sw, ver):
                            avail = True
                    if not avail:
                        fail('addition_not_available_in_version', dict(inp, rec=key, name=n), {'versions': d[0], 'software': str(sw)}, 'available in the identified version')
    both = seen_add & seen_rm
    if both:
        fail('recommended_both_ways', inp, sorted(both), 'never')
    # completeness
    if recognised:
        for c in rc.CATS:
            for n, nts in byname[c].items():
                if not any(l in ('fail', 'warn') for l, _ in nts):
                    continue
                is_gss = c == 'kex' and n.startswith('gss-')
                d = db[c].get(n)
                if d is None:
                    if is_gss and (c, n) not in seen_rm:
                        key_ = n[:n.rindex('-')] + '-*'
                        if key_ in db[c]:
                            fail('gss_not_recommended_for_removal', dict(inp, name=n), nts, 'recommended for removal or change')
                    continue
                if n in imp['raw_suppress'] if 'raw_suppress' in imp else False:
                    continue
                known_in_version = (not d[0]) or d[0][0] is None
                if not known_in_version:
                    for v in d[0][0].split(','):
                        prod, ver, cli = Algorithm.get_ssh_version(v)
                        if ver and prod == sw.product and not cli and num_ge(sw.version, ver, sw, ver):
                            known_in_version = True
                outside_control = (c == 'kex' and n == 'diffie-hellman-group-exchange-sha256' and any('A bug in OpenSSH causes it to fall back' in t for _, t in nts))
                if known_in_version and not outside_control and (c, n) not in seen_rm:
                    # D36: in a client audit the Terrapin pass builds its "not enabled" suppression list from the client-to-server lists while the
                    # report rates the server-to-client lists: a rated CBC / chacha20-poly1305 / -etm name that is missing from the other direction is suppressed
                    fam = (c == 'enc' and (n.startswith('chacha20-poly1305') or n.endswith(('-cbc', '-cbc@openssh.org', '-cbc@ssh.com')) or n == 'rijndael-cbc@lysator.liu.se')) or \
                          (c == 'mac' and n.endswith('-etm@openssh.com'))
                    other = peer['encC'] if c == 'enc' else peer['macC'] if c == 'mac' else None
                    if client and fam and other is not None and n not in other:
                        failures.append({'sig': {'kind': 'rated_algorithm_not_recommended', 'class': 'client_audit_other_direction'}, 'input': dict(inp, category=c, name=n), 'observed': nts,
                                         'expected': 'recommended for removal or change', 'how': 'harness/props/C13.py on the real output()'})
                    else:
                        fail('rated_algorithm_not_recommended', dict(inp, category=c, name=n), nts, 'recommended for removal or change')
    return imp, recognised, sw, failures


def run(ctx):
    from ssh_audit.software import Software
    from ssh_audit.algorithm import Algorithm
    r = ctx.rng
    db = pg.master()
    cov = Coverage('one evaluation = one (banner, peer) report from the real output(); non-trivial = distinct pairs with recognised software; banners: every recognised product at each database first-appeared version '
                   'and one step below/above in the last component, plus 10.0 / 0.10.x style and unrecognised products; peers: random and boundary lists over the database incl. gss, unknown, cert/sk names')
    failures, mismatches = [], []
    lines, expect = [], []

    def fail(kind, inp, observed, expected):
        failures.append({'sig': {'kind': kind}, 'input': inp, 'observed': observed, 'expected': expected, 'how': 'harness/props/C13.py on the real output()'})
    banners = versions_around_db()
    if ctx.tier != 'thorough':
        banners = r.sample(banners, 70) + banners[-10:]
    n_peers = ctx.scale(4, 30)
    # fixed cases first: every name the database lists under more than one category (`none` is a cipher and a MAC), advertised in all of
    # them at once, for every product — each occurrence is rated on its own and recommended on its own (seeds C13-2, C13-11)
    multi = sorted(n for n in set().union(*[set(db[c]) for c in rc.CATS]) if sum(n in db[c] for c in rc.CATS) >= 2)
    fixed = []
    for n in multi:
        for bl in ('SSH-2.0-OpenSSH_9.6', 'SSH-2.0-OpenSSH_6.0', 'SSH-2.0-dropbear_2022.83', 'SSH-2.0-dropbear_2013.56', 'SSH-2.0-dropbear_2012.55', 'SSH-2.0-libssh-0.10.6',
                   'SSH-2.0-PuTTY_Release_0.78', 'SSH-2.0-RomSShell_5.40', 'SSH-2.0-tinyssh_noversion'):
            peer = pg.gen_peer(r, sizes=True)
            peer['kex'], peer['key'] = ['curve25519-sha256'], ['ssh-ed25519']
            peer['encS'] = (['aes256-ctr', n] if n in db['enc'] else ['aes256-ctr'])
            peer['macS'] = ([n, 'hmac-sha2-256'] if n in db['mac'] else ['hmac-sha2-256'])
            if n in db['kex']:
                peer['kex'].append(n)
            if n in db['key']:
                peer['key'].append(n)
            peer['encC'], peer['macC'] = list(peer['encS']), list(peer['macS'])
            fixed.append((bl, peer))
    for bl, peer in fixed:
        imp, recognised, sw, fs = evaluate_case(db, bl, peer, False)
        failures.extend(fs)
        cov.add((bl, json.dumps(peer, sort_keys=True)), recognised, tags=['name-in-two-categories'])
        lines.append(rc.report_line(peer, False, imp['banner']))
        expect.append((imp, {'banner': bl, 'peer': peer, 'client': False}))
    for bl in banners:
        for _ in range(n_peers):
            peer = pg.gen_peer(r, sizes=True)
            if r.random() < 0.3:   # boundary: everything the database knows / almost nothing
                c = r.choice(rc.CATS)
                peer[{'kex': 'kex', 'key': 'key', 'enc': 'encS', 'mac': 'macS'}[c]] = r.sample(list(db[c]), r.choice([1, len(db[c]) // 2, len(db[c])]))
                peer['encC'], peer['macC'] = peer['encS'], peer['macS']
            # a quarter of the peers are clients, half of those with different lists per direction (the report shows the server-to-client lists)
            client = r.random() < 0.25
            if client and r.random() < 0.6:
                peer['encC'] = r.sample(list(db['enc']), r.randint(1, 6))
                peer['macC'] = r.sample(list(db['mac']), r.randint(1, 6))
            imp, recognised, sw, fs = evaluate_case(db, bl, peer, client)
            failures.extend(fs)
            inp = {'banner': bl, 'peer': peer, 'client': client}
            cov.add((bl, json.dumps(peer, sort_keys=True)), recognised, tags=['product:' + (sw.product if sw else 'none')],
                    sample={'banner': bl, 'recs': imp['recs']} if len(cov.samples) < 3 and imp['recs'] else None)
            lines.append(rc.report_line(peer, client, imp['banner']))
            expect.append((imp, inp))
    # the same banner and the same lists with different measured sizes, one after the other in one process: the recommendations follow the ratings of
    # each report, not those of an earlier one
    for k in range(ctx.scale(12, 150)):
        bl = r.choice(['SSH-2.0-OpenSSH_8.9p1', 'SSH-2.0-OpenSSH_7.4', 'SSH-2.0-dropbear_2020.81', 'SSH-2.0-libssh_0.9.6'])
        base = pg.gen_peer(r, sizes=False)
        base['key'] = r.sample(['rsa-sha2-512', 'rsa-sha2-256', 'ssh-rsa', 'ssh-ed25519'], r.randint(1, 3))
        if r.random() < 0.5:
            base['kex'] = ['diffie-hellman-group-exchange-sha256'] + base['kex'][:2]
        for bits in r.sample([1024, 2048, 3072, 4096], 3):
            peer = json.loads(json.dumps(base))
            peer['host_keys'] = {t: {'hostkey_size': bits, 'ca_key_type': '', 'ca_key_size': 0} for t in peer['key'] if 'rsa' in t}
            peer['dh'] = {t: bits for t in peer['kex'] if 'group-exchange' in t}
            imp, recognised, sw, fs = evaluate_case(db, bl, peer, False)
            for f_ in fs:
                f_['input']['history'] = 'same lists audited before with other key sizes'
            failures.extend(fs)
            cov.add(('history', bl, json.dumps(peer, sort_keys=True)), recognised, tags=['same-lists-other-sizes'])
    # … and through whole audits (the probes write the size findings): targets with the same banner and lists but RSA keys / moduli of different sizes, one
    # after the other in this process; in every JSON document the key and kex algorithms rated fail / warn are exactly the ones recommended for removal or change
    import fakenet as fn
    for order in ([1024, 4096, 2048], [4096, 1024], [3072, 2048, 1024, 4096]):
        for bl in (b'SSH-2.0-OpenSSH_8.9p1', b'SSH-2.0-OpenSSH_7.4'):
            for bits in order:
                srv = fn.simple_server(kex=('curve25519-sha256', 'diffie-hellman-group-exchange-sha256'), key=('rsa-sha2-512', 'rsa-sha2-256', 'ssh-ed25519'),
                                       enc=('aes256-ctr',), mac=('hmac-sha2-256-etm@openssh.com',), banner=bl,
                                       hostkeys={'rsa-sha2-512': fn.rsa_blob(bits), 'rsa-sha2-256': fn.rsa_blob(bits), 'ssh-ed25519': fn.ed25519_blob()},
                                       gex=(lambda b_: (lambda mn, pf, mx: b_ if mn <= b_ <= mx else (None if mx < b_ else b_)))(bits))
                code, out = fn.run_main(['-n', '--skip-rate-test', '-j', '10.13.0.1'], fn.FakeNet({'10.13.0.1': srv}), fresh=True)
                cov.add(('whole-audit-history', bl, tuple(order), bits), True, tags=['whole-audit-history'])
                try:
                    doc = json.loads(out)
                except ValueError:
                    fail('whole_audit_no_json', {'banner': bl.decode(), 'order': order, 'bits': bits}, out[:200], 'a JSON document')
                    continue
                rec_rm = set()
                for lvl, acts in doc['recommendations'].items():
                    for act, cats in acts.items():
                        if act in ('del', 'chg'):
                            for cat, lst in cats.items():
                                rec_rm |= {(cat, x['name']) for x in lst}
                for cat in ('key', 'kex'):
                    for e_ in doc[cat]:
                        rated = bool(e_['notes'].get('fail') or e_['notes'].get('warn'))
                        outside = any('A bug in OpenSSH causes it to fall back' in t for t in (e_['notes'].get('info') or []))
                        if e_['algorithm'] in ('rsa-sha2-512', 'rsa-sha2-256', 'diffie-hellman-group-exchange-sha256') and not outside and rated != ((cat, e_['algorithm']) in rec_rm):
                            fail('recommendation_differs_from_rating_after_other_audits', {'banner': bl.decode(), 'sizes_audited_in_order': order[:order.index(bits) + 1], 'algorithm': e_['algorithm']},
                                 {'notes': e_['notes'], 'recommended_for_removal': (cat, e_['algorithm']) in rec_rm}, 'recommended for removal or change exactly when rated fail / warn')
    fn.reset_dbs()
    model = ctx.driver(lines) if ctx.driver_ok else []
    for line, m, (imp, inp) in zip(lines, model, expect):
        d = rc.compare(rc.canon_model(m), imp) if 'ok' in m else ['model error']
        if d:
            mismatches.append({'stream': 'report', 'op': line[:300], 'model': d[:2], 'impl': {'banner': inp['banner']}})
    import fakenet
    fakenet.reset_dbs()
    return {'failures': failures, 'mismatches': mismatches, 'coverage': cov, 'corr_cases': len(model),
            'assumptions': ['"available in the identified version" is checked numerically (tuple-of-int comparison) by the oracle, independent of compare_version'],
            'observations': ['D27: ten or more warnings on one algorithm (e.g. ten duplicate ChaCha entries each adding a Terrapin note) would make a recommendation critical without a failure']}


def num_ge(a, b, sw, raw):
    """server version a >= first-appeared version b, numerically where both are dotted numbers; else defer to the tool's own compare"""
    try:
        return [int(x) for x in a.split('.')] >= [int(x) for x in b.split('.')]
    except ValueError:
        return sw.compare_version(raw) >= 0


def replay(obj):
    f = obj.get('failure', obj)
    inp = f['input']
    imp, recognised, sw, fs = evaluate_case(pg.master(), inp['banner'], inp['peer'], inp.get('client', False))
    print('recommendations:', json.dumps(imp['recs'])[:1500])
    if 'name' in inp:
        for c in rc.CATS:
            for shown, nts, _ in imp['algs'][c]:
                if shown.split(' (')[0] == inp['name']:
                    print('notes of', inp['name'], ':', nts)
    same = [x for x in fs if x['sig'] == f['sig'] and x['input'].get('name') == inp.get('name')]
    print('the recorded clause fails again: %s' % json.dumps({k: same[0][k] for k in ('sig', 'observed', 'expected')})[:800] if same else 'the recorded clause holds on this input')
    return 1 if same else 0
