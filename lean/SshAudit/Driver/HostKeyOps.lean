import SshAudit.Driver.WireOps
namespace SshAudit.Driver

/-- line-protocol operations of the HostKey model (stub; filled in when the model lands) -/
def hostKeyOp (_op : String) (_args : List String) : Option J := none

end SshAudit.Driver
