#!/venv/bin/python
"""seedtest.py <seeded/dir> [check ids…] — confirms a seeded change (applies it to /repo, runs the pinned
suite and the demonstration, runs our checks), ALWAYS reverts /repo afterwards, and records the outcome
in <dir>/meta.json under "confirmed" / "caught_by"."""
import json, os, subprocess, sys
d = os.path.abspath(sys.argv[1]); checks = sys.argv[2:]
meta = json.load(open(os.path.join(d, 'meta.json')))
def sh(cmd, **kw):
    p = subprocess.run(cmd, shell=True, stdout=subprocess.PIPE, stderr=subprocess.STDOUT, text=True, **kw); return p.returncode, p.stdout
patch = os.path.join(d, 'patch.diff')
touched = [l.split(' b/')[-1].strip() for l in open(patch) if l.startswith('diff --git ')]
dirty = [l for l in sh('git -C /repo status --short')[1].split('\n') if l.strip() and l[3:].strip() in touched]
assert not dirty, '/repo has local changes in files the patch touches: %r' % dirty
demo = os.path.join(d, 'demo.py')
rc0, out0 = sh('/venv/bin/python %s /repo' % demo)
rc, out = sh('git -C /repo apply %s' % os.path.join(d, 'patch.diff'))
res = {'demo_clean_rc': rc0, 'applies': rc == 0}
try:
    if rc == 0:
        rc, out = sh('cd /repo && /venv/bin/python -m pytest -q -p no:cacheprovider --timeout=900 2>&1 | tail -1')
        res['suite_with_patch'] = out.strip()
        rc1, out1 = sh('/venv/bin/python %s /repo' % demo)
        res['demo_patched_rc'] = rc1
        res['demo_patched_tail'] = out1.strip().split('\n')[-1][:300]
        caught = {}
        for c in checks:
            rcc, outc = sh('cd /verif && /venv/bin/python harness/check.py %s' % c)
            v = [l for l in outc.split('\n') if l.startswith('VIOLATION')]
            caught[c] = {'exit': rcc, 'violation_lines': v[:3], 'summary': outc.strip().split('\n')[-1][:300]}
        res['checks'] = caught
finally:
    # undo exactly the patch (other files of the working tree are left alone)
    if res.get('applies'):
        rcr, _ = sh('git -C /repo apply -R %s' % patch)
        if rcr != 0:
            sh('git -C /repo checkout -- ' + ' '.join(touched))
res['confirmed'] = bool(res.get('applies') and res['demo_clean_rc'] == 0 and res.get('demo_patched_rc', 0) != 0 and '129 passed' in res.get('suite_with_patch', ''))
meta['verification'] = res
meta['caught_by'] = sorted(c for c, r in res.get('checks', {}).items() if r['exit'] == 1 and r['violation_lines'])
json.dump(meta, open(os.path.join(d, 'meta.json'), 'w'), indent=1)
print(json.dumps(res, indent=1))
