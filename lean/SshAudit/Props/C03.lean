/-
  C03 — An algorithm's rating depends only on the algorithm, in every view.

  `Report.algTexts db cat name` is the note list `output_algorithm` shows; the theorems say the
  notes of a line are a function of (database state, category, name) only — the database state
  being the master table plus the documented measured attributes (sizes, Terrapin context) —
  that gss names rate as their wildcard entry, that unknown names are always flagged, and that
  the JSON notes carry the same texts per level.
-/
import SshAudit.Lemmas.Report
namespace SshAudit.C03
open SshAudit SshAudit.Report

/-- **Locality**: the line of a name placed anywhere in a list, among any neighbours, carries exactly `algTexts db cat n`. -/
theorem notes_local (rf : List Str) (db : DB) (cat : Str) (xs ys : List Str) (n : Str) (hk : List (Str × HostKeyInfo)) (dh : List (Str × Nat)) :
    algLines rf db cat (xs ++ n :: ys) hk dh =
      algLines rf db cat xs hk dh ++ algLines rf db cat [n] hk dh ++ algLines rf db cat ys hk dh := by
  rw [algLines_append, algLines_cons, List.append_assoc]

/-- …and that line's notes are `algTexts db cat n`: no position, neighbour, role or output option enters -/
theorem line_notes (rf : List Str) (db : DB) (cat n : Str) (hk : List (Str × HostKeyInfo)) (dh : List (Str × Nat)) :
    (algLines rf db cat [n] hk dh).map (fun l => (l.notes, l.unknown)) = (algTexts db cat n).toList := by
  rw [algLines_single]
  cases algTexts db cat n with
  | none => rfl
  | some v => obtain ⟨ts, unk⟩ := v; rfl

/-- the size maps only change the *shown name*, never the notes -/
theorem notes_independent_of_sizes (rf : List Str) (db : DB) (cat : Str) (ns : List Str)
    (hk hk' : List (Str × HostKeyInfo)) (dh dh' : List (Str × Nat)) :
    (algLines rf db cat ns hk dh).map (·.notes) = (algLines rf db cat ns hk' dh').map (·.notes) := by
  simp only [algLines, List.map_filterMap]
  congr 1
  funext n
  cases algTexts db cat n with
  | none => rfl
  | some v => obtain ⟨ts, unk⟩ := v; rfl

/-- **gss wildcard**: every `gss-<method>-<suffix>` key exchange (suffix of any length without `-`)
    is rated exactly as the database's `gss-<method>-*` entry. -/
theorem gss_wildcard (db : DB) (p sfx : Str) (h : '-' ∉ sfx) :
    algTexts db kexC (s "gss-" ++ p ++ '-' :: sfx) = algTexts db kexC (s "gss-" ++ p ++ s "-*") := by
  have hn : ∀ t : Str, '-' ∉ t → gssNormalize kexC (s "gss-" ++ p ++ '-' :: t) = s "gss-" ++ p ++ s "-*" := by
    intro t ht
    unfold gssNormalize
    have hsw : Text.startsWith (s "gss-" ++ p ++ '-' :: t) (s "gss-") = true := by
      simp [Text.startsWith, s, List.append_assoc]
    rw [if_pos ⟨rfl, hsw⟩, rindex_last '-' (s "gss-" ++ p) t ht]
    simp only
    rw [List.take_left' rfl]
  have h2 : '-' ∉ (['*'] : Str) := by decide
  unfold algTexts
  rw [hn sfx h]
  have : s "gss-" ++ p ++ s "-*" = s "gss-" ++ p ++ '-' :: ['*'] := by simp [s]
  rw [this, hn ['*'] h2]
  simp only [this]

/-- **Unknown names are always flagged** (text: a warning "unknown algorithm"; never an info-only line) -/
theorem unknown_flagged (db : DB) (cat n : Str) (hp : printed cat n = true) (hu : DBm.lookup db cat (gssNormalize cat n) = none) :
    algTexts db cat n = some ([unknownNote], true) := by
  unfold algTexts
  unfold printed at hp
  simp only
  have : (Text.stripU (gssNormalize cat n)).isEmpty = false := by simpa using hp
  rw [this, hu]; rfl

/-- JSON: an unknown name gets exactly the failure note "using unknown algorithm" -/
theorem unknown_flagged_json (db : DB) (fu : Str) (cat n : Str) (hu : DBm.lookup db cat (gssNormalize cat n) = none) :
    jsonNotes db fu cat n = { fail := some [some fu], warn := none, info := none } := by
  unfold jsonNotes; simp only; rw [hu]

/-- conversely a known name is never reported as unknown -/
theorem known_not_unknown (db : DB) (cat n : Str) (e : Entry) (hp : printed cat n = true) (hl : DBm.lookup db cat (gssNormalize cat n) = some e) :
    algTexts db cat n = some (entryTexts e, false) := by
  unfold algTexts
  unfold printed at hp
  simp only
  have : (Text.stripU (gssNormalize cat n)).isEmpty = false := by simpa using hp
  rw [this, hl]; rfl

/-! ### text and JSON agree per level (for names the database knows) -/

def textsAt (e : Entry) (lvl : Level) : List Str := ((entryTexts e).filter (·.level = lvl)).map (·.text)

theorem notesOf_filter_same (lvl : Level) (l : List (Option Str)) : (notesOf lvl l).filter (·.level = lvl) = notesOf lvl l := by
  unfold notesOf
  apply List.filter_eq_self.mpr
  intro a ha
  simp only [List.mem_map] at ha
  obtain ⟨t, _, rfl⟩ := ha
  simp

theorem notesOf_filter_other (lvl lvl' : Level) (h : lvl ≠ lvl') (l : List (Option Str)) : (notesOf lvl l).filter (·.level = lvl') = [] := by
  unfold notesOf
  apply List.filter_eq_nil_iff.mpr
  intro a ha
  simp only [List.mem_map] at ha
  obtain ⟨t, _, rfl⟩ := ha
  simpa using h

theorem sinceNote_filter_other (e : Entry) (lvl : Level) (h : lvl ≠ .info) : (sinceNote e).filter (·.level = lvl) = [] := by
  unfold sinceNote
  cases Version.getSinceText (DBm.versions e) with
  | none => rfl
  | some t =>
    simp only
    split
    · simp [List.filter_cons]; intro h'; exact absurd h'.symm h
    · rfl

theorem map_text_notesOf (lvl : Level) (l : List (Option Str)) : (notesOf lvl l).map (·.text) = l.filterMap id := by
  simp [notesOf, List.map_map, Function.comp_def]

theorem slot_json (e : Entry) (k : Nat) :
    ((if e.desc.length ≥ k + 1 ∧ (DBm.slot e k).length > 0 then some (DBm.slot e k) else none).getD []).filterMap id = (DBm.slot e k).filterMap id := by
  split
  · rfl
  · next hk =>
    by_cases hlen : e.desc.length ≥ k + 1
    · have h0 : (DBm.slot e k).length = 0 := by
        have := fun h => hk ⟨hlen, h⟩
        omega
      have : DBm.slot e k = [] := List.eq_nil_of_length_eq_zero h0
      simp [this]
    · have : DBm.slot e k = [] := by
        unfold DBm.slot
        simp [List.getD_eq_getElem?_getD, List.getElem?_eq_none_iff.mpr (by omega : e.desc.length ≤ k)]
      simp [this]

theorem textsAt_fail (e : Entry) : textsAt e .fail = (DBm.slot e 1).filterMap id := by
  unfold textsAt entryTexts
  split
  · next he =>
    have : rawTexts e = [] := by simpa using he
    unfold rawTexts at this
    simp only [List.append_eq_nil_iff] at this
    have h1 := this.1.1.1
    have : (notesOf Level.fail (DBm.slot e 1)).map (·.text) = [] := by rw [h1]; rfl
    rw [map_text_notesOf] at this
    rw [this]; rfl
  · unfold rawTexts
    simp only [List.filter_append, notesOf_filter_same, notesOf_filter_other .warn .fail (by decide), notesOf_filter_other .info .fail (by decide),
      sinceNote_filter_other e .fail (by decide), List.append_nil, map_text_notesOf]

theorem textsAt_warn (e : Entry) : textsAt e .warn = (DBm.slot e 2).filterMap id := by
  unfold textsAt entryTexts
  split
  · next he =>
    have : rawTexts e = [] := by simpa using he
    unfold rawTexts at this
    simp only [List.append_eq_nil_iff] at this
    have h1 := this.1.1.2
    have : (notesOf Level.warn (DBm.slot e 2)).map (·.text) = [] := by rw [h1]; rfl
    rw [map_text_notesOf] at this
    rw [this]; rfl
  · unfold rawTexts
    simp only [List.filter_append, notesOf_filter_same, notesOf_filter_other .fail .warn (by decide), notesOf_filter_other .info .warn (by decide),
      sinceNote_filter_other e .warn (by decide), List.append_nil, List.nil_append, map_text_notesOf]

/-- **JSON failure notes = text failure notes; JSON warning notes = text warning notes**, for every name the database knows
    (exact lists, in order; `null` entries skipped on both sides) -/
theorem json_eq_text_fail_warn (db : DB) (fu : Str) (cat n : Str) (e : Entry) (hl : DBm.lookup db cat (gssNormalize cat n) = some e) :
    ((jsonNotes db fu cat n).fail.getD []).filterMap id = textsAt e .fail ∧
    ((jsonNotes db fu cat n).warn.getD []).filterMap id = textsAt e .warn := by
  unfold jsonNotes
  simp only [hl]
  rw [textsAt_fail, textsAt_warn]
  exact ⟨slot_json e 1, slot_json e 2⟩

-- non-vacuity: the gss theorem applies to real names; unknown names exist
example : gssNormalize kexC (s "gss-group14-sha256-toWM5Slw5Ew8Mqkay+al2g==") = s "gss-group14-sha256-*" := by decide +kernel
example : gssNormalize encC (s "gss-x-y") = s "gss-x-y" := by decide +kernel

end SshAudit.C03
