import SshAudit.Driver.WireOps
import SshAudit.Model.Multi
import SshAudit.Model.Report
import SshAudit.Gen.KexDB
import SshAudit.Gen.Tables
namespace SshAudit.Driver
open SshAudit SshAudit.Multi

def multiProbeNames : List Str := ["aes128-ctr", "aes256-ctr", "3des-cbc", "chacha20-poly1305@openssh.com"].map String.toList
def multiProbeNotes : List Str := ["note-A", "note-B", "note-C"].map String.toList

/-- steps: `x<t>` thread_exit, `e<t>:<name#>:<note#>` append a warning note to an enc entry, `r<t>:<target>` render -/
def decStep (tok : String) : Option Step :=
  let body : String := String.ofList (tok.toList.drop 1)
  if tok.startsWith "x" then body.toNat?.map Step.threadExit
  else if tok.startsWith "e" then
    match body.splitOn ":" with
    | [t, n, k] => do
      let t ← String.toNat? t; let n ← String.toNat? n; let k ← String.toNat? k
      let name ← multiProbeNames[n]?; let note ← multiProbeNotes[k]?
      pure (Step.edit t (fun db => Report.updateEntry db Report.encC name (Report.appendAt 2 3 note)))
    | _ => none
  else if tok.startsWith "r" then
    match body.splitOn ":" with
    | [t, x] => do let t ← String.toNat? t; let x ← String.toNat? x; pure (Step.render t x)
    | _ => none
  else none

def observeDb (db : DB) : J :=
  .arr (multiProbeNames.map fun n => match DBm.lookup db Report.encC n with
    | some e => .arr ((DBm.slot e 2).map (J.ofOpt .str))
    | none => .null)

def decMultiOutcome (tok : String) : Option Outcome :=
  match tok.splitOn ":" with
  | ["r", st, txt] => do let st ← st.toInt?; let txt ← decStr txt; pure (.returned st txt)
  | ["x", msg] => do let m ← decStr msg; pure (.raised m)
  | ["e", c, txt] => do let c ← c.toInt?; let txt ← decStr txt; pure (.sysExit c txt)
  | _ => none

def multiOp (op : String) (args : List String) : Option J :=
  match op, args with
  | "multi.exec", [steps] => do
    let steps ← if steps = "_" then some [] else (steps.splitOn ",").mapM decStep
    let obs := exec Gen.ssh2db (fun _ => none) steps
    pure (jok (.arr (obs.map fun (t, x, db) => .arr [.nat t, .nat x, observeDb db])))
  | "multi.main", [json, outs] => do
    let json ← decBool json
    let outs ← if outs = "_" then some [] else (outs.splitOn ",").mapM decMultiOutcome
    let (out, code) := mainRun Gen.rankedReturnCodes json outs
    pure (jok (.obj [("stdout", .str out), ("exit", .num code)]))
  | _, _ => none

end SshAudit.Driver
