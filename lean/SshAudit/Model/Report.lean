/-
  The report core of `ssh_audit.py`: `output_algorithm` (rating lookup, note list, status fold,
  shown name), `post_process_findings` (Terrapin, OpenSSH 2048-bit fallback note, suppress
  list, advisory note), `Algorithms.get_recommendations` + `get_algorithm_recommendations`,
  `build_struct.fetch_notes` (JSON notes), SSH-1 mask decoding.  Import-free.

  The per-thread rating database is a value threaded through the functions (Python mutates it
  in place): `postProcess` returns the edited database the report is then rendered from.
-/
import SshAudit.Model.Version
namespace SshAudit
namespace Report

def s (x : String) : Str := x.toList

inductive Level where
  | fail | warn | info
deriving Repr, DecidableEq

structure Note where
  level : Level
  text : Str
deriving Repr, DecidableEq

structure HostKeyInfo where
  size : Nat
  caType : Str
  caSize : Nat
deriving Repr, DecidableEq

/-- what a scan knows about an SSH-2 peer when the report is rendered -/
structure Peer where
  kex : List Str
  key : List Str
  encC : List Str           -- client-to-server ciphers (`kex.client.encryption`)
  encS : List Str           -- server-to-client ciphers (`kex.server.encryption`) — the list the report shows
  macC : List Str
  macS : List Str
  compS : List Str
  hostKeys : List (Str × HostKeyInfo) := []
  dhSizes : List (Str × Nat) := []
deriving Repr, DecidableEq

def kexC : Str := s "kex"
def keyC : Str := s "key"
def encC : Str := s "enc"
def macC : Str := s "mac"
def autC : Str := s "aut"

/-! ### `output_algorithm` -/

/-- `gss-<method>-<base64>` ↦ `gss-<method>-*` for key exchanges -/
def gssNormalize (cat name : Str) : Str :=
  if cat = kexC ∧ Text.startsWith name (s "gss-") then
    match Text.rindex '-' name with
    | some i => name.take i ++ s "-*"
    | none => name
  else name

def notesOf (lvl : Level) (l : List (Option Str)) : List Note := (l.filterMap id).map (fun t => { level := lvl, text := t })

/-- the since-text note (`Algorithm.get_since_text(alg_desc[0])`, when non-empty) -/
def sinceNote (e : Entry) : List Note :=
  match Version.getSinceText (DBm.versions e) with
  | some t => if t.length > 0 then [{ level := Level.info, text := t }] else []
  | none => []

/-- failures, warnings, since-text, infos — in the order `output_algorithm` collects them -/
def rawTexts (e : Entry) : List Note :=
  notesOf .fail (DBm.slot e 1) ++ notesOf .warn (DBm.slot e 2) ++ sinceNote e ++ notesOf .info (DBm.slot e 3)

/-- the `texts` list of `output_algorithm` for a database entry (`[('info', '')]` when there is nothing to say) -/
def entryTexts (e : Entry) : List Note :=
  if (rawTexts e).isEmpty then [{ level := .info, text := [] }] else rawTexts e

def unknownNote : Note := { level := .warn, text := s "unknown algorithm" }

/-- `texts` for an advertised name; `none` = the name is blank and no line is printed.
    Second component: the name is unknown to the database (goes to `unknown_algs`). -/
def algTexts (db : DB) (cat name : Str) : Option (List Note × Bool) :=
  let n := gssNormalize cat name
  if (Text.stripU n).isEmpty then none
  else match DBm.lookup db cat n with
    | some e => some (entryTexts e, false)
    | none => some ([unknownNote], true)

/-- status fold of `output_algorithm`: FAILURE = 3, WARNING = 2, GOOD = 0 -/
def foldStatus (st : Nat) (notes : List Note) : Nat :=
  notes.foldl (fun st n => match n.level with
    | .fail => 3
    | .warn => if st ≠ 3 then 2 else st
    | .info => st) st

/-- `alg_name_with_size` -/
def shownName (rsaFamily : List Str) (cat name : Str) (hostKeys : List (Str × HostKeyInfo)) (dhSizes : List (Str × Nat)) : Str :=
  if cat = kexC then
    match (dhSizes.find? (·.1 = name)) with
    | some (_, n) => name ++ s " (" ++ Text.natToStr n ++ s "-bit)"
    | none => name
  else if cat = keyC then
    match (hostKeys.find? (·.1 = name)) with
    | some (_, hk) =>
      let caT := if rsaFamily.contains hk.caType then s "RSA" else hk.caType
      if caT.length > 0 ∧ hk.caSize > 0 then
        name ++ s " (" ++ Text.natToStr hk.size ++ s "-bit cert/" ++ Text.natToStr hk.caSize ++ s "-bit " ++ caT ++ s " CA)"
      else if rsaFamily.contains name then name ++ s " (" ++ Text.natToStr hk.size ++ s "-bit)"
      else name
    | none => name
  else name

structure AlgLine where
  cat : Str
  name : Str          -- as advertised
  shown : Str         -- name plus size suffix
  notes : List Note
  unknown : Bool
deriving Repr, DecidableEq

/-- `output_algorithms` for one category: one `AlgLine` per advertised non-blank name, in order -/
def algLines (rsaFamily : List Str) (db : DB) (cat : Str) (names : List Str)
    (hostKeys : List (Str × HostKeyInfo)) (dhSizes : List (Str × Nat)) : List AlgLine :=
  names.filterMap (fun n => (algTexts db cat n).map (fun (ts, unk) =>
    { cat := cat, name := n, shown := shownName rsaFamily cat n hostKeys dhSizes, notes := ts, unknown := unk }))

def statusOfLines (st : Nat) (ls : List AlgLine) : Nat := ls.foldl (fun st l => foldStatus st l.notes) st

/-! ### `post_process_findings` -/

def isChacha (n : Str) : Bool := Text.startsWith n (s "chacha20-poly1305")
def isCbc (n : Str) : Bool :=
  Text.endsWith n (s "-cbc") || Text.endsWith n (s "-cbc@openssh.org") || Text.endsWith n (s "-cbc@ssh.com") || n = s "rijndael-cbc@lysator.liu.se"
def isEtm (n : Str) : Bool := Text.endsWith n (s "-etm@openssh.com")

def terrapinText : Str := s "vulnerable to the Terrapin attack (CVE-2023-48795), allowing message prefix truncation"
def gexSha256 : Str := s "diffie-hellman-group-exchange-sha256"
def openssh2048Text : Str := s "A bug in OpenSSH causes it to fall back to a 2048-bit modulus regardless of server configuration (https://bugzilla.mindrot.org/show_bug.cgi?id=2793)"
def strictC : Str := s "kex-strict-c-v00@openssh.com"
def strictS : Str := s "kex-strict-s-v00@openssh.com"

/-- `while len(desc) < k: desc.append([])`, then `desc[i].append(text)` -/
def appendAt (i : Nat) (k : Nat) (t : Str) (d : List (List (Option Str))) : List (List (Option Str)) :=
  let d' := d ++ List.replicate (k - d.length) []
  d'.mapIdx (fun j l => if j = i then l ++ [some t] else l)

def updateEntry (db : DB) (cat name : Str) (f : List (List (Option Str)) → List (List (Option Str))) : DB :=
  db.map (fun (c, es) => if c = cat then (c, es.map (fun e => if e.name = name then { e with desc := f e.desc } else e)) else (c, es))

/-- `_add_terrapin_warning` (names not in the database are skipped — the D09 repair) -/
def addTerrapin (db : DB) (cat name : Str) : DB := updateEntry db cat name (appendAt 2 3 terrapinText)

structure PostResult where
  db : DB
  suppress : List Str
  notes : List Str              -- `additional_notes`
  marker : Bool
  vulnerable : List (Str × Str) -- (category, name) pairs that received the Terrapin warning
deriving Repr

def advisory (names : List Str) : Str :=
  s "Be aware that, while this target properly supports the strict key exchange method (via the kex-strict-?-v00@openssh.com marker) needed to protect against the Terrapin vulnerability (CVE-2023-48795), all peers must also support this feature as well, otherwise the vulnerability will still be present.  The following algorithms would allow an unpatched peer to create vulnerable SSH channels with this target: "
  ++ Text.join (s ", ") names ++ s ".  If any CBC ciphers are in this list, you may remove them while leaving the *-etm@openssh.com MACs in place; these MACs are fine while paired with non-CBC cipher types."

/-- the lists the detection reads: `kex.client.*` for a client audit, `kex.server.*` otherwise -/
def ciphersOf (peer : Peer) (client : Bool) : List Str := if client then peer.encC else peer.encS
def macsOf (peer : Peer) (client : Bool) : List Str := if client then peer.macC else peer.macS

/-- the strict-kex marker *for the audited role* -/
def markerFor (peer : Peer) (client : Bool) : Bool :=
  (client && peer.kex.contains strictC) || (!client && peer.kex.contains strictS)

/-- `len(cbc_ciphers_enabled) > 0 and len(etm_macs_enabled) > 0` -/
def both (peer : Peer) (client : Bool) : Bool :=
  !((ciphersOf peer client).filter isCbc).isEmpty && !((macsOf peer client).filter isEtm).isEmpty

/-- the ciphers / MACs the code treats as Terrapin-relevant, in the order it visits them -/
def Venc (peer : Peer) (client : Bool) : List Str :=
  (ciphersOf peer client).filter isChacha ++ (if both peer client then (ciphersOf peer client).filter isCbc else [])
def Vmac (peer : Peer) (client : Bool) : List Str :=
  if both peer client then (macsOf peer client).filter isEtm else []

/-- OpenSSH + group-exchange-sha256 measured at 2048 bits -/
def fallbackApplies (peer : Peer) (bannerSoftware : Option Str) : Bool :=
  peer.kex.contains gexSha256 && (peer.dhSizes.find? (·.1 = gexSha256)).map (·.2) == some 2048 &&
    (match bannerSoftware with | some sw => Text.hasSub (s "OpenSSH") sw | none => false)

def dbAfterFallback (db : DB) (peer : Peer) (bannerSoftware : Option Str) : DB :=
  if fallbackApplies peer bannerSoftware then updateEntry db kexC gexSha256 (appendAt 3 4 openssh2048Text) else db

def dbAfterTerrapin (db1 : DB) (peer : Peer) (client : Bool) : DB :=
  if markerFor peer client then db1
  else (Vmac peer client).foldl (fun d n => addTerrapin d macC n) ((Venc peer client).foldl (fun d n => addTerrapin d encC n) db1)

/-- `post_process_findings(banner, algs, client_audit, dh_rate_test_notes)` for an SSH-2 peer -/
def postProcess (db : DB) (peer : Peer) (clientAudit : Bool) (bannerSoftware : Option Str) (rateNotes : Str) : PostResult :=
  let db2 := dbAfterTerrapin (dbAfterFallback db peer bannerSoftware) peer clientAudit
  let marker := markerFor peer clientAudit
  let toNote := if marker then Venc peer clientAudit ++ Vmac peer clientAudit else []
  let notes := (if toNote.isEmpty then [] else [advisory toNote]) ++ (if rateNotes.length > 0 then [rateNotes] else [])
  let chacha := (ciphersOf peer clientAudit).filter isChacha
  let cbc := (ciphersOf peer clientAudit).filter isCbc
  let etm := (macsOf peer clientAudit).filter isEtm
  let encKeys := DBm.keys db2 encC
  let macKeys := DBm.keys db2 macC
  let suppress := (if fallbackApplies peer bannerSoftware then [gexSha256] else [])
      ++ encKeys.filter (fun c => isChacha c && !chacha.contains c) ++ encKeys.filter (fun c => isCbc c && !cbc.contains c)
      ++ macKeys.filter (fun m => isEtm m && !etm.contains m)
  { db := db2, suppress := suppress, notes := notes, marker := marker,
    vulnerable := if marker then [] else (Venc peer clientAudit).map (encC, ·) ++ (Vmac peer clientAudit).map (macC, ·) }

/-! ### recommendations -/

def chgList : List Str := [gexSha256, s "rsa-sha2-256", s "rsa-sha2-512", s "rsa-sha2-256-cert-v01@openssh.com", s "rsa-sha2-512-cert-v01@openssh.com"]
def vproducts : List Str := [Version.pOpenSSH, Version.pDropbear, Version.pLibSSH, Version.pTinySSH]

inductive Action where
  | del | add | chg
deriving Repr, DecidableEq

structure Rec where
  cat : Str
  action : Action
  name : Str
  points : Nat
deriving Repr, DecidableEq

/-- `faults` of `get_recommendations`: 10 per failure entry + 1 per warning entry -/
def faults (e : Entry) : Nat := 10 * (DBm.slot e 1).length + (DBm.slot e 2).length

def addExcluded (cat n : Str) : Bool :=
  (cat = keyC && (Text.hasSub (s "-cert-") n || Text.startsWith n (s "sk-"))) ||
  (cat = kexC && (Text.startsWith n (s "ext-info-") || Text.startsWith n (s "kex-strict-")))

/-- `len(versions) == 0 or versions[0] is None` -/
def emptyVersion (e : Entry) : Bool :=
  match DBm.versions e with
  | [] => true
  | none :: _ => true
  | some _ :: _ => false

/-- the entry survives the version filter (`empty_version`, or `matches` after the loop over `versions[0].split(',')`) -/
def versionOk (software : Version.Software) (unknownSoftware : Bool) (e : Entry) : Bool :=
  match DBm.versions e with
  | some v0 :: _ => Version.versionFilter (some software) unknownSoftware true v0
  | _ => true

/-- the loop body of `get_recommendations` for one database entry of one category -/
def recOf (software : Version.Software) (unknownSoftware : Bool) (cat : Str) (advertised : List Str) (e : Entry) : Option Rec :=
  if versionOk software unknownSoftware e = false then none
  else if advertised.contains e.name = false then
    if faults e > 0 ∨ addExcluded cat e.name = true ∨ emptyVersion e = true ∨ unknownSoftware = true then none
    else some { cat := cat, action := .add, name := e.name, points := 0 }
  else
    if faults e = 0 then none
    else if chgList.contains e.name = true then some { cat := cat, action := .chg, name := e.name, points := faults e }
    else some { cat := cat, action := .del, name := e.name, points := faults e }

/-- `get_algorithm_recommendations` before levelling: per category (kex, key, enc, mac), per action in the order del, add, chg,
    database order inside, the suppress list applied -/
def recommendations (db : DB) (software : Option Version.Software) (peer : Peer) (suppress : List Str) : List Rec :=
  match software with
  | none => []
  | some sw =>
    let unknown := !vproducts.contains sw.product
    let cats : List (Str × List Str) := [(kexC, peer.kex), (keyC, peer.key), (encC, peer.encS), (macC, peer.macS)]
    cats.flatMap (fun (c, adv) =>
      let rs := (DBm.cat db c).filterMap (recOf sw unknown c adv)
      let pick (a : Action) := rs.filter (fun r => r.action = a && !suppress.contains r.name)
      pick .del ++ pick .add ++ pick .chg)

/-- `critical` (≥ 10 points), `warning` (≥ 1), `informational` -/
def recLevel (r : Rec) : Nat := if r.points ≥ 10 then 2 else if r.points ≥ 1 then 1 else 0

/-! ### JSON notes (`build_struct.fetch_notes`, after the D06/D07 repairs) -/

structure JNotes where
  fail : Option (List (Option Str))
  warn : Option (List (Option Str))
  info : Option (List (Option Str))
deriving Repr, DecidableEq

def jsonNotes (db : DB) (failUnknown : Str) (cat name : Str) : JNotes :=
  let n := gssNormalize cat name
  match DBm.lookup db cat n with
  | some e =>
    let ld := e.desc.length
    let f := if ld ≥ 2 ∧ (DBm.slot e 1).length > 0 then some (DBm.slot e 1) else none
    let w := if ld ≥ 3 ∧ (DBm.slot e 2).length > 0 then some (DBm.slot e 2) else none
    let i := if ld ≥ 4 ∧ (DBm.slot e 3).length > 0 then some (DBm.slot e 3) else none
    let i' := match Version.getSinceText (DBm.versions e) with
      | some t => if t.length > 0 then some ((i.getD []) ++ [some t]) else i
      | none => i
    { fail := f, warn := w, info := i' }
  | none => { fail := some [some failUnknown], warn := none, info := none }

/-! ### SSH-1 masks (`SSH1_PublicKeyMessage.supported_*`) -/

/-- `for i in range(start, len(names)): if mask & (1 << i) != 0: out.append(names[i])` -/
def maskFrom (start mask : Nat) : Nat → List Str → List Str
  | _, [] => []
  | i, n :: ns => if i ≥ start && mask.testBit i then n :: maskFrom start mask (i + 1) ns else maskFrom start mask (i + 1) ns

def maskNames (names : List Str) (start : Nat) (mask : Nat) : List Str := maskFrom start mask 0 names

/-! ### the whole standard report of an SSH-2 peer (`output()`), as data -/

structure Report where
  kex : List AlgLine
  key : List AlgLine
  enc : List AlgLine
  mac : List AlgLine
  status : Nat
  compression : List Str          -- methods shown on the `(gen) compression:` line (empty = "disabled")
  recs : List Rec
  notes : List Str
  unknown : List Str
deriving Repr

def report (rsaFamily : List Str) (db0 : DB) (peer : Peer) (clientAudit : Bool) (bannerSoftware : Option Str)
    (software : Option Version.Software) (rateNotes : Str) : Report :=
  let pp := postProcess db0 peer clientAudit bannerSoftware rateNotes
  let k := algLines rsaFamily pp.db kexC peer.kex peer.hostKeys peer.dhSizes
  let h := algLines rsaFamily pp.db keyC peer.key peer.hostKeys peer.dhSizes
  let e := algLines rsaFamily pp.db encC peer.encS peer.hostKeys peer.dhSizes
  let m := algLines rsaFamily pp.db macC peer.macS peer.hostKeys peer.dhSizes
  let recs := recommendations pp.db software peer pp.suppress
  { kex := k, key := h, enc := e, mac := m,
    status := statusOfLines (statusOfLines (statusOfLines (statusOfLines 0 k) h) e) m,
    compression := peer.compS.filter (· ≠ s "none"),
    recs := recs, notes := pp.notes,
    unknown := (k ++ h ++ e ++ m).filterMap (fun l => if l.unknown then some (gssNormalize l.cat l.name) else none) }

end Report
end SshAudit
