/- Helper lemmas for the Target model (C18).  Core Lean only. -/
import SshAudit.Model.Target
namespace SshAudit.Target
open SshAudit SshAudit.Text

/-! ### lists -/

theorem dropWhile_none {α} (p : α → Bool) (l : List α) (h : ∀ x ∈ l, p x = false) : l.dropWhile p = l := by
  cases l with
  | nil => rfl
  | cons a r => simp [List.dropWhile, h a (by simp)]

theorem takeWhile_all {α} (p : α → Bool) (l : List α) (h : ∀ x ∈ l, p x = true) : l.takeWhile p = l := by
  induction l with
  | nil => rfl
  | cons a r ih =>
    simp only [List.takeWhile, h a (by simp)]
    rw [ih (fun x hx => h x (by simp [hx]))]

theorem dropWhile_all {α} (p : α → Bool) (l : List α) (h : ∀ x ∈ l, p x = true) : l.dropWhile p = [] := by
  induction l with
  | nil => rfl
  | cons a r ih =>
    simp only [List.dropWhile, h a (by simp)]
    exact ih (fun x hx => h x (by simp [hx]))

theorem takeWhile_append_stop {α} (p : α → Bool) (l r : List α) (x : α) (h : ∀ y ∈ l, p y = true) (hx : p x = false) :
    (l ++ x :: r).takeWhile p = l := by
  induction l with
  | nil => simp [hx]
  | cons a t ih =>
    simp only [List.cons_append, List.takeWhile, h a (by simp)]
    rw [ih (fun y hy => h y (by simp [hy]))]

theorem dropWhile_append_stop {α} (p : α → Bool) (l r : List α) (x : α) (h : ∀ y ∈ l, p y = true) (hx : p x = false) :
    (l ++ x :: r).dropWhile p = x :: r := by
  induction l with
  | nil => simp [hx]
  | cons a t ih =>
    simp only [List.cons_append, List.dropWhile, h a (by simp)]
    exact ih (fun y hy => h y (by simp [hy]))

/-! ### `split` -/

theorem splitOn_ne_nil (c : Char) (s : Str) : splitOn c s ≠ [] := by
  induction s with
  | nil => simp [splitOn]
  | cons x xs ih =>
    unfold splitOn
    split
    · simp
    · split <;> simp

theorem splitOn_no_sep (c : Char) (s : Str) (h : c ∉ s) : splitOn c s = [s] := by
  induction s with
  | nil => rfl
  | cons x xs ih =>
    have hx : x ≠ c := fun e => h (by simp [e])
    have hxs : c ∉ xs := fun e => h (by simp [e])
    unfold splitOn
    simp [hx, ih hxs]

theorem splitOn_append_sep (c : Char) (a b : Str) (h : c ∉ a) : splitOn c (a ++ c :: b) = a :: splitOn c b := by
  induction a with
  | nil => simp [splitOn]
  | cons x xs ih =>
    have hx : x ≠ c := fun e => h (by simp [e])
    have hxs : c ∉ xs := fun e => h (by simp [e])
    simp only [List.cons_append]
    rw [splitOn]
    simp [hx, ih hxs]

theorem splitOn_length (c : Char) (s : Str) : (splitOn c s).length = s.count c + 1 := by
  induction s with
  | nil => simp [splitOn]
  | cons x xs ih =>
    unfold splitOn
    by_cases hx : x = c
    · subst hx; simp [ih]
    · have hne : (x == c) = false := by simp [hx]
      simp only [hx, if_false]
      have hnn := splitOn_ne_nil c xs
      cases hs : splitOn c xs with
      | nil => exact absurd hs hnn
      | cons p ps =>
        rw [hs] at ih
        simp only [List.length_cons] at ih ⊢
        rw [List.count_cons, hne]
        simpa using ih

/-! ### decimal digits -/

theorem isDigit_digitChar (d : Nat) (h : d < 10) : isDigit (digitChar d) = true := by
  have : d = 0 ∨ d = 1 ∨ d = 2 ∨ d = 3 ∨ d = 4 ∨ d = 5 ∨ d = 6 ∨ d = 7 ∨ d = 8 ∨ d = 9 := by omega
  rcases this with h | h | h | h | h | h | h | h | h | h <;> subst h <;> decide

theorem digitVal_digitChar (d : Nat) (h : d < 10) : digitVal (digitChar d) = d := by
  have : d = 0 ∨ d = 1 ∨ d = 2 ∨ d = 3 ∨ d = 4 ∨ d = 5 ∨ d = 6 ∨ d = 7 ∨ d = 8 ∨ d = 9 := by omega
  rcases this with h | h | h | h | h | h | h | h | h | h <;> subst h <;> decide

theorem showNat_lt (n : Nat) (h : n < 10) : showNat n = [digitChar n] := by
  rw [showNat]; simp [h]

theorem showNat_ge (n : Nat) (h : ¬ n < 10) : showNat n = showNat (n / 10) ++ [digitChar (n % 10)] := by
  rw [showNat]; simp [h]

theorem showNat_digits (n : Nat) : ∀ c ∈ showNat n, isDigit c = true := by
  induction n using Nat.strongRecOn with
  | _ n ih =>
    by_cases h : n < 10
    · rw [showNat_lt n h]; intro c hc; simp at hc; subst hc; exact isDigit_digitChar n h
    · rw [showNat_ge n h]
      intro c hc
      simp only [List.mem_append, List.mem_singleton] at hc
      rcases hc with hc | hc
      · exact ih (n / 10) (by omega) c hc
      · subst hc; exact isDigit_digitChar _ (by omega)

theorem showNat_ne_nil (n : Nat) : showNat n ≠ [] := by
  by_cases h : n < 10
  · rw [showNat_lt n h]; simp
  · rw [showNat_ge n h]; simp

theorem decVal_append_single (ds : Str) (c : Char) : decVal (ds ++ [c]) = decVal ds * 10 + digitVal c := by
  simp [decVal, List.foldl_append]

theorem decVal_showNat (n : Nat) : decVal (showNat n) = n := by
  induction n using Nat.strongRecOn with
  | _ n ih =>
    by_cases h : n < 10
    · rw [showNat_lt n h]; simp [decVal, digitVal_digitChar n h]
    · rw [showNat_ge n h, decVal_append_single, ih (n / 10) (by omega), digitVal_digitChar _ (by omega)]
      omega

theorem showNat_length_le (k n : Nat) (h : n < 10 ^ (k + 1)) : (showNat n).length ≤ k + 1 := by
  induction k generalizing n with
  | zero => rw [showNat_lt n (by simpa using h)]; simp
  | succ k ih =>
    by_cases h10 : n < 10
    · rw [showNat_lt n h10]; simp
    · rw [showNat_ge n h10]
      have : n / 10 < 10 ^ (k + 1) := by
        rw [Nat.div_lt_iff_lt_mul (by decide)]
        rw [Nat.pow_succ] at h; exact h
      have := ih (n / 10) this
      simp; omega

/-! ### `int()` on a digit string -/

theorem isDigit_not_intSpace (c : Char) (h : isDigit c = true) : intSpace c = false := by
  have h1 : 48 ≤ c.toNat ∧ c.toNat ≤ 57 := by
    simp only [isDigit, Bool.and_eq_true, decide_eq_true_eq] at h
    exact ⟨h.1, h.2⟩
  simp only [intSpace, pySpace, Bool.and_eq_false_iff, Bool.or_eq_false_iff, Bool.and_eq_false_iff,
    decide_eq_false_iff_not, beq_eq_false_iff_ne, Bool.not_eq_false']
  left
  omega

theorem intStrip_digits (ds : Str) (h : ∀ c ∈ ds, isDigit c = true) : intStrip ds = ds := by
  unfold intStrip
  rw [dropWhile_none intSpace ds (fun c hc => isDigit_not_intSpace c (h c hc))]
  rw [dropWhile_none intSpace ds.reverse (fun c hc => isDigit_not_intSpace c (h c (by simpa using hc)))]
  simp

theorem groupedDigits_digits (ds : Str) (hne : ds ≠ []) (h : ∀ c ∈ ds, isDigit c = true) : groupedDigits ds = some ds := by
  induction ds with
  | nil => exact absurd rfl hne
  | cons c r ih =>
    cases r with
    | nil => simp [groupedDigits, h c (by simp)]
    | cons d r' =>
      have hd : isDigit d = true := h d (by simp)
      have hdu : d ≠ '_' := by intro e; subst e; exact absurd hd (by decide)
      rw [groupedDigits]
      simp only [h c (by simp), Bool.not_true, Bool.false_eq_true, if_false, hdu]
      rw [ih (by simp) (fun x hx => h x (by simp [hx]))]
      rfl

theorem signSplit_digit (c : Char) (r : Str) (hc : isDigit c = true) : signSplit (c :: r) = (false, c :: r) := by
  have h1 : c ≠ '-' := by intro e; subst e; exact absurd hc (by decide)
  have h2 : c ≠ '+' := by intro e; subst e; exact absurd hc (by decide)
  unfold signSplit
  split
  · next heq => simp at heq; exact absurd heq.1 h1
  · next heq => simp at heq; exact absurd heq.1 h2
  · rfl

theorem pyInt_digits (ds : Str) (hne : ds ≠ []) (h : ∀ c ∈ ds, isDigit c = true) (hl : ds.length ≤ maxStrDigits) :
    pyInt ds = some ((decVal ds : Nat) : Int) := by
  unfold pyInt
  simp only [intStrip_digits ds h]
  cases ds with
  | nil => exact absurd rfl hne
  | cons c r =>
    rw [signSplit_digit c r (h c (by simp))]
    simp only [groupedDigits_digits (c :: r) hne h]
    have hl' : r.length + 1 ≤ maxStrDigits := by simpa using hl
    simp [hl']

theorem bracketMatch_none (s : Str) (h : s.head? ≠ some '[') : bracketMatch s = none := by
  unfold bracketMatch
  split
  · next t => simp at h
  · rfl

theorem parse_default (s : Str) (d : Int) (hb : bracketMatch s = none) (hl : (splitOn ':' s).length ≠ 2) :
    parseHostPort s d = .ok (s, d) := by
  unfold parseHostPort
  rw [hb]
  simp only
  split
  · next h p heq => rw [heq] at hl; simp at hl
  · rfl

theorem digits_no_colon (ds : Str) (h : ∀ c ∈ ds, isDigit c = true) : ':' ∉ ds := by
  intro hc; exact absurd (h ':' hc) (by decide)

theorem bracketMatch_bracket (h r : Str) (hne : h ≠ []) (hb : ']' ∉ h) :
    bracketMatch ('[' :: h ++ ']' :: r) = afterBracket h r := by
  have hp : ∀ y ∈ h, (y != ']') = true := by
    intro y hy; simp; intro e; subst e; exact hb hy
  have hx : ((']' : Char) != ']') = false := by decide
  have hnE : h.isEmpty = false := by cases h with | nil => exact absurd rfl hne | cons _ _ => rfl
  simp only [bracketMatch, List.cons_append]
  rw [takeWhile_append_stop _ h r ']' hp hx, dropWhile_append_stop _ h r ']' hp hx]
  simp only [hnE, Bool.false_eq_true, if_false]

/-- a valid TCP port -/
def InRange (p : Int) : Prop := 1 ≤ p ∧ p ≤ 65535

theorem checkPort_ok (p : Int) (h : InRange p) : checkPort p = .ok p := by
  unfold checkPort; unfold InRange at h
  have : ¬ (p < 1 ∨ p > 65535) := by omega
  simp [this]

theorem checkPort_bad (p : Int) (h : ¬ InRange p) : checkPort p = .error .value := by
  unfold checkPort; unfold InRange at h
  have : (p < 1 ∨ p > 65535) := by omega
  simp [this]

/-- the flags written are `-4` / `-6` -/
def FlagsOK (flags : List Nat) : Prop := ∀ f ∈ flags, f = 4 ∨ f = 6

theorem mem_requestedOrder (flags : List Nat) (x : Nat) : x ∈ requestedOrder flags ↔ x ∈ flags := by
  induction flags with
  | nil => simp [requestedOrder]
  | cons f r ih =>
    simp only [requestedOrder, List.mem_cons, List.mem_filter, ih]
    constructor
    · rintro (h | ⟨h, _⟩)
      · exact Or.inl h
      · exact Or.inr h
    · intro h
      by_cases hx : x = f
      · exact Or.inl hx
      · rcases h with h | h
        · exact absurd h hx
        · exact Or.inr ⟨h, by simpa using hx⟩

theorem requestedOrder_filter (flags : List Nat) (hf : FlagsOK flags) (a b : Nat) (hab : (a = 4 ∧ b = 6) ∨ (a = 6 ∧ b = 4)) :
    (requestedOrder flags).filter (· != a) = if b ∈ flags then [b] else [] := by
  induction flags with
  | nil => simp [requestedOrder]
  | cons f r ih =>
    have hr : FlagsOK r := fun x hx => hf x (by simp [hx])
    have ih := ih hr
    have hf4 := hf f (by simp)
    simp only [requestedOrder]
    by_cases hfa : f = a
    · subst hfa
      have hne : b ≠ f := by rcases hab with ⟨h1, h2⟩ | ⟨h1, h2⟩ <;> omega
      simp only [List.filter_cons, bne_self_eq_false, Bool.false_eq_true, if_false, ih]
      simp [hne]
    · have hfb : f = b := by rcases hab with ⟨h1, h2⟩ | ⟨h1, h2⟩ <;> omega
      subst hfb
      have h1 : (f != a) = true := by simpa using hfa
      simp only [List.filter_cons, h1, if_true, List.filter_filter]
      have : (requestedOrder r).filter (fun x => x != a && x != f) = [] := by
        rw [List.filter_eq_nil_iff]
        intro x hx
        have := hr x ((mem_requestedOrder r x).1 hx)
        rcases hab with ⟨h1, h2⟩ | ⟨h1, h2⟩ <;> (subst h1 h2; rcases this with h | h <;> simp [h])
      simp [this]

theorem insBy_pass (le : Nat → Nat → Bool) (x : AddrInfo) (l1 l2 : List AddrInfo) (h : ∀ y ∈ l1, le x.af y.af = false) :
    insBy le x (l1 ++ l2) = l1 ++ insBy le x l2 := by
  induction l1 with
  | nil => rfl
  | cons y ys ih =>
    simp only [List.cons_append, insBy, h y (by simp), Bool.false_eq_true, if_false]
    rw [ih (fun z hz => h z (by simp [hz]))]

theorem insBy_stop (le : Nat → Nat → Bool) (x : AddrInfo) (l : List AddrInfo) (h : ∀ y ∈ l, le x.af y.af = true) :
    insBy le x l = x :: l := by
  cases l with
  | nil => rfl
  | cons y ys => simp [insBy, h y (by simp)]

/-- sorting a two-family answer: all addresses of the family that sorts first, then all of the other,
    each group in the resolver's order -/
theorem sortBy_two (rev : Bool) (l : List AddrInfo) (lo hi : Nat) (hlt : lo < hi) (h : ∀ a ∈ l, a.af = lo ∨ a.af = hi) :
    sortBy rev l = if rev then l.filter (·.af == hi) ++ l.filter (·.af == lo) else l.filter (·.af == lo) ++ l.filter (·.af == hi) := by
  induction l with
  | nil => cases rev <;> rfl
  | cons x xs ih =>
    have ih := ih (fun a ha => h a (by simp [ha]))
    have hx := h x (by simp)
    have hxs : ∀ a ∈ xs, a.af = lo ∨ a.af = hi := fun a ha => h a (by simp [ha])
    have step : sortBy rev (x :: xs) = insBy (fun a b => if rev then decide (b ≤ a) else decide (a ≤ b)) x (sortBy rev xs) := rfl
    rw [step, ih]
    cases rev with
    | false =>
      simp only [Bool.false_eq_true, if_false]
      rcases hx with hx | hx
      · have e1 : (x.af == lo) = true := by simp [hx]
        have e2 : (x.af == hi) = false := by simp [hx]; omega
        rw [List.filter_cons, List.filter_cons, e1, e2]
        simp only [if_true, Bool.false_eq_true, if_false, List.cons_append]
        apply insBy_stop
        intro y hy
        simp only [List.mem_append, List.mem_filter] at hy
        have := hxs y (by rcases hy with hy | hy <;> exact hy.1)
        simp; omega
      · have e1 : (x.af == lo) = false := by simp [hx]; omega
        have e2 : (x.af == hi) = true := by simp [hx]
        rw [List.filter_cons, List.filter_cons, e1, e2]
        simp only [if_true, Bool.false_eq_true, if_false]
        rw [insBy_pass]
        · congr 1
          apply insBy_stop
          intro y hy
          simp only [List.mem_filter, beq_iff_eq] at hy
          simp; omega
        · intro y hy
          simp only [List.mem_filter, beq_iff_eq] at hy
          simp; omega
    | true =>
      simp only [if_true]
      rcases hx with hx | hx
      · have e1 : (x.af == lo) = true := by simp [hx]
        have e2 : (x.af == hi) = false := by simp [hx]; omega
        rw [List.filter_cons, List.filter_cons, e1, e2]
        simp only [if_true, Bool.false_eq_true, if_false]
        rw [insBy_pass]
        · congr 1
          apply insBy_stop
          intro y hy
          simp only [List.mem_filter, beq_iff_eq] at hy
          simp; omega
        · intro y hy
          simp only [List.mem_filter, beq_iff_eq] at hy
          simp; omega
      · have e1 : (x.af == lo) = false := by simp [hx]; omega
        have e2 : (x.af == hi) = true := by simp [hx]
        rw [List.filter_cons, List.filter_cons, e1, e2]
        simp only [if_true, Bool.false_eq_true, if_false, List.cons_append]
        apply insBy_stop
        intro y hy
        simp only [List.mem_append, List.mem_filter] at hy
        have := hxs y (by rcases hy with hy | hy <;> exact hy.1)
        simp; omega

theorem insBy_perm (le : Nat → Nat → Bool) (x : AddrInfo) (l : List AddrInfo) : (insBy le x l).Perm (x :: l) := by
  induction l with
  | nil => exact List.Perm.refl _
  | cons y ys ih =>
    unfold insBy
    split
    · exact List.Perm.refl _
    · exact (List.Perm.cons y ih).trans (List.Perm.swap x y ys)

theorem sortBy_perm (rev : Bool) (l : List AddrInfo) : (sortBy rev l).Perm l := by
  induction l with
  | nil => exact List.Perm.refl _
  | cons x xs ih => exact (insBy_perm _ x _).trans (List.Perm.cons x ih)

theorem count_le_append_left (c : Char) (a b : Str) : a.count c ≤ (a ++ b).count c := by
  simp [List.count_append]

theorem isIPv6Addr_colons (a : Str) (h : isIPv6Addr a = true) : 2 ≤ a.count ':' := by
  by_cases hl : (splitOn ':' a).length < 3
  · simp [isIPv6Addr, hl] at h
  · rw [splitOn_length] at hl; omega

theorem splitOn_one (c : Char) (s a : Str) (h : splitOn c s = [a]) : s = a := by
  induction s generalizing a with
  | nil => simp [splitOn] at h; exact h.symm
  | cons x xs ih =>
    unfold splitOn at h
    split at h
    · have := splitOn_ne_nil c xs
      simp at h
      exact absurd h.2 this
    · split at h
      · next hs => exact absurd hs (splitOn_ne_nil c xs)
      · next p ps hs =>
        simp at h
        obtain ⟨h1, h2⟩ := h
        subst h2
        rw [ih p hs, h1]

theorem splitOn_two (c : Char) (s a b : Str) (h : splitOn c s = [a, b]) : s = a ++ c :: b := by
  induction s generalizing a with
  | nil => simp [splitOn] at h
  | cons x xs ih =>
    unfold splitOn at h
    split at h
    · next hx =>
      simp at h
      obtain ⟨h1, h2⟩ := h
      subst h1
      rw [splitOn_one c xs b h2, hx]; rfl
    · split at h
      · next hs => exact absurd hs (splitOn_ne_nil c xs)
      · next p ps hs =>
        simp at h
        obtain ⟨h1, h2⟩ := h
        subst h2
        rw [ih p hs, ← h1]; rfl

theorem dropWhile_append_all {α} (p : α → Bool) (a b : List α) (h : ∀ x ∈ a, p x = true) :
    (a ++ b).dropWhile p = b.dropWhile p := by
  induction a with
  | nil => rfl
  | cons x xs ih =>
    simp only [List.cons_append, List.dropWhile, h x (by simp)]
    exact ih (fun y hy => h y (by simp [hy]))

theorem dropWhile_head_false {α} (p : α → Bool) (l : List α) (c : α) (h : l.head? = some c) (hc : p c = false) :
    l.dropWhile p = l := by
  cases l with
  | nil => rfl
  | cons x xs => simp at h; subst h; simp [List.dropWhile, hc]

/-- what `dropWhile` leaves starts with an element that fails the test -/
theorem dropWhile_head (p : Char → Bool) (l : Str) : l.dropWhile p = [] ∨ ∃ c r, l.dropWhile p = c :: r ∧ p c = false := by
  induction l with
  | nil => exact Or.inl rfl
  | cons x xs ih =>
    by_cases hx : p x = true
    · simp only [List.dropWhile, hx]; exact ih
    · simp only [Bool.not_eq_true] at hx
      exact Or.inr ⟨x, xs, by simp [List.dropWhile, hx], hx⟩

theorem dropWhile_snoc (p : Char → Bool) (a : Str) (c : Char) (hc : p c = false) :
    (a ++ [c]).dropWhile p = a.dropWhile p ++ [c] := by
  induction a with
  | nil => simp [List.dropWhile, hc]
  | cons x xs ih =>
    by_cases hx : p x = true
    · simp only [List.cons_append, List.dropWhile, hx]; exact ih
    · simp only [Bool.not_eq_true] at hx
      simp [List.dropWhile, hx]

/-- a text without surrounding white space: what `strip()` leaves unchanged -/
def Trimmed (t : Str) : Prop :=
  (∃ c, t.head? = some c ∧ pySpace c = false) ∧ (∃ c, t.getLast? = some c ∧ pySpace c = false)

theorem strip_shape (l : Str) : pyStrip l = [] ∨ Trimmed (pyStrip l) := by
  unfold pyStrip
  rcases dropWhile_head pySpace l with h | ⟨c, r, h, hc⟩
  · rw [h]; exact Or.inl rfl
  · rw [h]
    have : (c :: r).reverse = r.reverse ++ [c] := by simp
    rw [this, dropWhile_snoc pySpace r.reverse c hc]
    right
    constructor
    · exact ⟨c, by simp, hc⟩
    · rcases dropWhile_head pySpace r.reverse with h2 | ⟨d, r2, h2, hd⟩
      · rw [h2]; exact ⟨c, by simp, hc⟩
      · rw [h2]; exact ⟨d, by rw [List.getLast?_reverse]; rfl, hd⟩

/-- white space around a trimmed text (or around nothing) is removed, the text itself is kept -/
theorem strip_decor (pre body post : Str) (hpre : ∀ c ∈ pre, pySpace c = true) (hpost : ∀ c ∈ post, pySpace c = true)
    (hb : body = [] ∨ Trimmed body) : pyStrip (pre ++ body ++ post) = body := by
  unfold pyStrip
  rw [List.append_assoc, dropWhile_append_all pySpace pre _ hpre]
  rcases hb with hb | ⟨⟨c, hc, hcs⟩, ⟨d, hd, hds⟩⟩
  · subst hb
    simp [dropWhile_all pySpace post hpost]
  · rw [dropWhile_head_false pySpace (body ++ post) c (by cases body with | nil => simp at hc | cons x xs => simpa using hc) hcs]
    rw [List.reverse_append, dropWhile_append_all pySpace post.reverse _ (fun x hx => hpost x (by simpa using hx))]
    rw [dropWhile_head_false pySpace body.reverse d (by rw [List.head?_reverse]; exact hd) hds]
    simp

theorem strip_trimmed (t : Str) (h : Trimmed t) : pyStrip t = t := by
  have := strip_decor [] t [] (by simp) (by simp) (Or.inr h)
  simpa using this

/-- the targets found in the rest of a file, given whether the previous character was a `\r` -/
def targetsFrom (prevCR : Bool) (s : Str) : List Str := cleanLines (splitKeep (univNl prevCR s))

theorem pyStrip_nl : pyStrip ['\n'] = [] := by decide

theorem cleanLines_cons (l : Str) (ls : List Str) :
    cleanLines (l :: ls) = (if pyStrip l != [] then [pyStrip l] else []) ++ cleanLines ls := by
  unfold cleanLines
  by_cases h : (pyStrip l != []) = true <;> simp [h]

/-- a `\n` right after a `\r` is swallowed; otherwise it is an empty line: no target either way -/
theorem targetsFrom_prev (s : Str) : targetsFrom true s = targetsFrom false s := by
  cases s with
  | nil => rfl
  | cons c r =>
    unfold targetsFrom
    by_cases h1 : c = '\r'
    · simp [univNl, h1]
    · by_cases h2 : c = '\n'
      · subst h2
        have : univNl false ('\n' :: r) = '\n' :: univNl false r := by simp [univNl]
        rw [this]
        have : univNl true ('\n' :: r) = univNl false r := by simp [univNl]
        rw [this]
        simp [splitKeep, cleanLines_cons, pyStrip_nl]
      · simp [univNl, h1, h2]

/-- no line break inside -/
def NoBreak (w : Str) : Prop := '\n' ∉ w ∧ '\r' ∉ w

theorem univNl_noBreak (w rest : Str) (b : Bool) (hw : NoBreak w) (hne : w ≠ []) :
    univNl b (w ++ rest) = w ++ univNl false rest := by
  induction w generalizing b with
  | nil => exact absurd rfl hne
  | cons c r ih =>
    have h1 : c ≠ '\r' := fun e => hw.2 (by simp [e])
    have h2 : c ≠ '\n' := fun e => hw.1 (by simp [e])
    have hr : NoBreak r := ⟨fun e => hw.1 (by simp [e]), fun e => hw.2 (by simp [e])⟩
    simp only [List.cons_append, univNl, h1, h2, if_false]
    cases r with
    | nil => rfl
    | cons d r' => rw [ih false hr (by simp)]

theorem univNl_noBreak' (w rest : Str) (hw : NoBreak w) : univNl false (w ++ rest) = w ++ univNl false rest := by
  cases w with
  | nil => rfl
  | cons c r => exact univNl_noBreak (c :: r) rest false hw (by simp)

theorem splitKeep_line (w Y : Str) (hw : '\n' ∉ w) : splitKeep (w ++ '\n' :: Y) = (w ++ ['\n']) :: splitKeep Y := by
  induction w with
  | nil => simp [splitKeep]
  | cons c r ih =>
    have h2 : c ≠ '\n' := fun e => hw (by simp [e])
    have hr : '\n' ∉ r := fun e => hw (by simp [e])
    simp only [List.cons_append, splitKeep, h2, if_false]
    rw [ih hr]

theorem splitKeep_last (w : Str) (hw : '\n' ∉ w) (hne : w ≠ []) : splitKeep w = [w] := by
  induction w with
  | nil => exact absurd rfl hne
  | cons c r ih =>
    have h2 : c ≠ '\n' := fun e => hw (by simp [e])
    have hr : '\n' ∉ r := fun e => hw (by simp [e])
    simp only [splitKeep, h2, if_false]
    cases r with
    | nil => rfl
    | cons d r' => rw [ih hr (by simp)]

/-- a line ending of a text file -/
def Eol (e : Str) : Prop := e = ['\n'] ∨ e = ['\r', '\n'] ∨ e = ['\r']

/-- indentation / trailing blanks: white space other than line breaks -/
def Blanks (w : Str) : Prop := ∀ c ∈ w, pySpace c = true ∧ c ≠ '\n' ∧ c ≠ '\r'

/-- one line of a targets file: optional indentation, a target text or nothing, optional trailing
    blanks, (for all but possibly the last line) a line ending -/
structure Line where
  pre : Str
  body : Str
  post : Str

def Line.ok (l : Line) : Prop := Blanks l.pre ∧ Blanks l.post ∧ (l.body = [] ∨ (Trimmed l.body ∧ NoBreak l.body))
def Line.text (l : Line) : Str := l.pre ++ l.body ++ l.post
def Line.targets (l : Line) : List Str := if l.body = [] then [] else [l.body]

theorem Line.noBreak (l : Line) (h : l.ok) : NoBreak l.text := by
  obtain ⟨h1, h2, h3⟩ := h
  have hb : NoBreak l.body := by
    rcases h3 with h3 | h3
    · rw [h3]; exact ⟨by simp, by simp⟩
    · exact h3.2
  unfold Line.text
  constructor
  · intro hc
    simp only [List.mem_append] at hc
    rcases hc with (hc | hc) | hc
    · exact (h1 _ hc).2.1 rfl
    · exact hb.1 hc
    · exact (h2 _ hc).2.1 rfl
  · intro hc
    simp only [List.mem_append] at hc
    rcases hc with (hc | hc) | hc
    · exact (h1 _ hc).2.2 rfl
    · exact hb.2 hc
    · exact (h2 _ hc).2.2 rfl

theorem Line.strip_text (l : Line) (h : l.ok) (tail : Str) (ht : ∀ c ∈ tail, pySpace c = true) :
    pyStrip (l.text ++ tail) = l.body := by
  obtain ⟨h1, h2, h3⟩ := h
  have := strip_decor l.pre l.body (l.post ++ tail) (fun c hc => (h1 c hc).1)
    (fun c hc => by
      simp only [List.mem_append] at hc
      rcases hc with hc | hc
      · exact (h2 c hc).1
      · exact ht c hc)
    (by rcases h3 with h3 | h3
        · exact Or.inl h3
        · exact Or.inr h3.1)
  simpa [Line.text, List.append_assoc] using this

theorem targetsFrom_line (l : Line) (e rest : Str) (h : l.ok) (he : Eol e) :
    targetsFrom false (l.text ++ e ++ rest) = l.targets ++ targetsFrom false rest := by
  have hnb := l.noBreak h
  have key : ∃ b, univNl false (l.text ++ e ++ rest) = l.text ++ '\n' :: univNl b rest := by
    rw [List.append_assoc, univNl_noBreak' l.text _ hnb]
    rcases he with he | he | he <;> subst he
    · exact ⟨false, by simp [univNl]⟩
    · exact ⟨false, by simp [univNl]⟩
    · exact ⟨true, by simp [univNl]⟩
  obtain ⟨b, hb⟩ := key
  have hb' : targetsFrom b rest = targetsFrom false rest := by
    cases b with
    | false => rfl
    | true => exact targetsFrom_prev rest
  unfold targetsFrom at hb' ⊢
  rw [hb, splitKeep_line _ _ hnb.1, cleanLines_cons, hb']
  have hs : pyStrip (l.text ++ ['\n']) = l.body := l.strip_text h ['\n'] (by intro c hc; simp at hc; subst hc; decide)
  rw [hs]
  unfold Line.targets
  by_cases hbody : l.body = [] <;> simp [hbody]

theorem targetsFrom_last (l : Line) (h : l.ok) : targetsFrom false l.text = l.targets := by
  have hnb := l.noBreak h
  unfold targetsFrom
  by_cases hne : l.text = []
  · have : l.body = [] := by
      unfold Line.text at hne
      simp only [List.append_eq_nil_iff] at hne
      exact hne.1.2
    rw [hne]; simp [univNl, splitKeep, cleanLines, Line.targets, this]
  · have h0 := univNl_noBreak' l.text [] hnb
    simp only [List.append_nil] at h0
    have h00 : univNl false [] = [] := rfl
    rw [h00, List.append_nil] at h0
    rw [h0, splitKeep_last _ hnb.1 hne, cleanLines_cons]
    have hs : pyStrip l.text = l.body := by
      have := l.strip_text h [] (by simp)
      simpa using this
    rw [hs]
    unfold Line.targets
    by_cases hbody : l.body = [] <;> simp [hbody, cleanLines]

/-- the text of a file: terminated lines, then a last line that may lack its line ending -/
def render : List (Line × Str) → Line → Str
  | [], last => last.text
  | (l, e) :: ls, last => l.text ++ e ++ render ls last

/-- the loop of `process_commandline` records first appearances, in order -/
theorem ipPref_fold (flags acc : List Nat) (hf : FlagsOK flags) :
    flags.foldl ipPrefStep acc = acc ++ (requestedOrder flags).filter (fun x => !acc.contains x) := by
  induction flags generalizing acc with
  | nil => simp [requestedOrder]
  | cons f r ih =>
    have hr : FlagsOK r := fun x hx => hf x (by simp [hx])
    have hf4 := hf f (by simp)
    simp only [List.foldl_cons, requestedOrder]
    by_cases hin : f ∈ acc
    · have hstep : ipPrefStep acc f = acc := by
        rcases hf4 with e | e <;> subst e <;> simp [ipPrefStep, hin]
      rw [hstep, ih acc hr]
      have hc : (!acc.contains f) = false := by simp [hin]
      rw [List.filter_cons, hc]
      simp only [Bool.false_eq_true, if_false, List.filter_filter]
      congr 1
      apply List.filter_congr
      intro x _
      by_cases hx : x = f
      · subst hx; simp [hin]
      · simp [hx]
    · have hstep : ipPrefStep acc f = acc ++ [f] := by
        rcases hf4 with e | e <;> subst e <;> simp [ipPrefStep, hin]
      rw [hstep, ih (acc ++ [f]) hr]
      have hc : (!acc.contains f) = true := by simp [hin]
      rw [List.filter_cons, hc]
      simp only [if_true, List.filter_filter, List.append_assoc, List.singleton_append]
      congr 2
      apply List.filter_congr
      intro x _
      by_cases hx : x = f
      · subst hx; simp
      · simp [hx]

/-! ### the characters of an IPv6 literal -/

theorem mem_splitOn_cover (sep : Char) (s : Str) (c : Char) (hc : c ∈ s) : c = sep ∨ ∃ p ∈ splitOn sep s, c ∈ p := by
  induction s with
  | nil => simp at hc
  | cons x xs ih =>
    unfold splitOn
    by_cases hx : x = sep
    · simp only [hx, if_true]
      simp only [List.mem_cons] at hc
      rcases hc with hc | hc
      · exact Or.inl (hc.trans hx)
      · rcases ih hc with h | ⟨p, hp, hcp⟩
        · exact Or.inl h
        · exact Or.inr ⟨p, by simp [hp], hcp⟩
    · simp only [hx, if_false]
      cases hs : splitOn sep xs with
      | nil => exact absurd hs (splitOn_ne_nil sep xs)
      | cons p ps =>
        simp only [List.mem_cons] at hc
        rcases hc with hc | hc
        · exact Or.inr ⟨x :: p, by simp, by simp [hc]⟩
        · rcases ih hc with h | ⟨q, hq, hcq⟩
          · exact Or.inl h
          · rw [hs] at hq
            simp only [List.mem_cons] at hq
            rcases hq with hq | hq
            · exact Or.inr ⟨x :: p, by simp, by simp [← hq, hcq]⟩
            · exact Or.inr ⟨q, by simp [hq], hcq⟩

/-- the characters an IPv6 literal is made of -/
def v6Char (c : Char) : Bool := isHexDigit c || c == ':' || c == '.'

theorem validHextet_chars (p : Str) (h : validHextet p = true) : ∀ c ∈ p, v6Char c = true := by
  intro c hc
  simp only [validHextet, Bool.and_eq_true, List.all_eq_true] at h
  simp [v6Char, h.1.1 c hc]

theorem isDigit_hex (c : Char) (h : isDigit c = true) : isHexDigit c = true := by simp [isHexDigit, h]

theorem isIPv4_chars (p : Str) (h : isIPv4 p = true) : ∀ c ∈ p, v6Char c = true := by
  intro c hc
  simp only [isIPv4, Bool.and_eq_true, List.all_eq_true] at h
  rcases mem_splitOn_cover '.' p c hc with h1 | ⟨o, ho, hco⟩
  · simp [v6Char, h1]
  · have := h.2 o ho
    simp only [validOctet, Bool.and_eq_true, List.all_eq_true] at this
    simp [v6Char, isDigit_hex c (this.1.1.1.2 c hco)]

theorem all_take {α} (f : α → Bool) (l : List α) (n : Nat) (h : (l.take n).all f = true) (i : Nat) (hi : i < l.length) (hin : i < n) :
    f l[i] = true := by
  rw [List.all_eq_true] at h
  apply h
  rw [List.mem_iff_getElem]
  exact ⟨i, by simp; omega, by simp⟩

theorem all_drop {α} (f : α → Bool) (l : List α) (n : Nat) (h : (l.drop n).all f = true) (i : Nat) (hi : i < l.length) (hin : n ≤ i) :
    f l[i] = true := by
  rw [List.all_eq_true] at h
  apply h
  rw [List.mem_iff_getElem]
  exact ⟨i - n, by simp; omega, by simp; congr 1; omega⟩

theorem innerEmpty_mem (parts : List Str) (k : Nat) (h : k ∈ innerEmpty parts) :
    1 ≤ k ∧ k + 1 < parts.length ∧ parts.getD k [] = [] := by
  simp only [innerEmpty, List.mem_filter, List.mem_range, Bool.and_eq_true, decide_eq_true_eq, List.isEmpty_iff] at h
  exact ⟨h.2.1.1, h.2.1.2, h.2.2⟩

theorem parts_ok (parts : List Str) (h : skipCheck parts = true) : ∀ p ∈ parts, p = [] ∨ validHextet p = true := by
  unfold skipCheck at h
  split at h
  · simp at h
  · next k hk =>
    have hmem : k ∈ innerEmpty parts := by rw [hk]; simp
    obtain ⟨hk1, hk2, hk3⟩ := innerEmpty_mem parts k hmem
    simp only at h
    intro p hp
    rw [List.mem_iff_getElem] at hp
    obtain ⟨i, hi, rfl⟩ := hp
    have hkk : parts[k]'(by omega) = [] := by
      have : parts.getD k [] = parts[k]'(by omega) := by simp [List.getD, List.getElem?_eq_getElem (show k < parts.length by omega)]
      rw [← this]; exact hk3
    have hhead : parts.headD [] = parts[0]'(by omega) := by
      cases parts with
      | nil => simp at hi
      | cons a r => rfl
    have hlast : parts.getLastD [] = parts[parts.length - 1]'(by omega) := by
      cases parts with
      | nil => simp at hi
      | cons a r => simp [List.getLastD, List.getLast_eq_getElem]
    by_cases hH : (parts.headD []).isEmpty = true <;> by_cases hL : (parts.getLastD []).isEmpty = true <;>
      simp only [hH, hL, if_true, if_false, Bool.true_and, Bool.false_and, Bool.false_eq_true] at h
    · -- head and last empty
      split at h
      · simp at h
      · next c1 =>
        split at h
        · simp at h
        · next c2 =>
          have e1 : k - 1 = 0 := by simpa using c1
          have e2 : parts.length - k - 1 - 1 = 0 := by simpa using c2
          have h0 : parts[0]'(by omega) = [] := by rw [← hhead]; simpa using hH
          have hl : parts[parts.length - 1]'(by omega) = [] := by rw [← hlast]; simpa using hL
          have : i = 0 ∨ i = k ∨ i = parts.length - 1 := by omega
          rcases this with e | e | e <;> subst e
          · exact Or.inl h0
          · exact Or.inl hkk
          · exact Or.inl hl
    · -- head empty
      split at h
      · simp at h
      · next c1 =>
        split at h
        · simp at h
        · have e1 : k - 1 = 0 := by simpa using c1
          have h0 : parts[0]'(by omega) = [] := by rw [← hhead]; simpa using hH
          rw [Bool.and_eq_true] at h
          by_cases hi2 : i ≤ k
          · have : i = 0 ∨ i = k := by omega
            rcases this with e | e <;> subst e
            · exact Or.inl h0
            · exact Or.inl hkk
          · exact Or.inr (all_drop _ parts _ h.2 i hi (by omega))
    · -- last empty
      split at h
      · simp at h
      · next c2 =>
        split at h
        · simp at h
        · have e2 : parts.length - k - 1 - 1 = 0 := by simpa using c2
          have hl : parts[parts.length - 1]'(by omega) = [] := by rw [← hlast]; simpa using hL
          rw [Bool.and_eq_true] at h
          by_cases hi2 : i < k
          · exact Or.inr (all_take _ parts _ h.1 i hi hi2)
          · have : i = k ∨ i = parts.length - 1 := by omega
            rcases this with e | e <;> subst e
            · exact Or.inl hkk
            · exact Or.inl hl
    · split at h
      · simp at h
      · rw [Bool.and_eq_true] at h
        by_cases hi2 : i < k
        · exact Or.inr (all_take _ parts _ h.1 i hi hi2)
        · by_cases hi3 : i = k
          · subst hi3; exact Or.inl hkk
          · exact Or.inr (all_drop _ parts _ h.2 i hi (by omega))
  · split at h
    · simp at h
    · intro p hp
      rw [List.all_eq_true] at h
      exact Or.inr (h p hp)

theorem isIPv6Addr_chars (a : Str) (h : isIPv6Addr a = true) : ∀ c ∈ a, v6Char c = true := by
  unfold isIPv6Addr at h
  by_cases h0 : a.isEmpty = true
  · simp [h0] at h
  · by_cases h1 : (splitOn ':' a).length < 3
    · simp [h0, h1] at h
    · simp only [h0, h1, if_false, Bool.false_eq_true] at h
      by_cases h2 : (!(!((splitOn ':' a).getLastD []).contains '.' || isIPv4 ((splitOn ':' a).getLastD []))) = true
      · simp only [h2, if_true] at h; simp at h
      · rw [if_neg h2] at h
        intro c hc
        have hcov := mem_splitOn_cover ':' a c hc
        by_cases hdot : ((splitOn ':' a).getLastD []).contains '.' = true
        · simp only [hdot, if_true] at h
          by_cases hlen : ((splitOn ':' a).dropLast ++ [['0'], ['0']]).length > 9
          · rw [if_pos hlen] at h; simp at h
          · rw [if_neg hlen] at h
            have hparts := parts_ok _ h
            rcases hcov with e | ⟨p, hp, hcp⟩
            · simp [v6Char, e]
            · have hne := splitOn_ne_nil ':' a
              have hsplit : splitOn ':' a = (splitOn ':' a).dropLast ++ [(splitOn ':' a).getLastD []] := by
                cases hs : splitOn ':' a with
                | nil => exact absurd hs hne
                | cons x xs =>
                  have : (x :: xs).getLastD [] = (x :: xs).getLast (List.cons_ne_nil x xs) := rfl
                  rw [this, List.dropLast_concat_getLast]
              rw [hsplit] at hp
              simp only [List.mem_append, List.mem_singleton] at hp
              rcases hp with hp | hp
              · rcases hparts p (by simp [hp]) with e | e
                · rw [e] at hcp; simp at hcp
                · exact validHextet_chars p e c hcp
              · have h4 : isIPv4 ((splitOn ':' a).getLastD []) = true := by
                  cases h4 : isIPv4 ((splitOn ':' a).getLastD []) with
                  | true => rfl
                  | false => exact absurd (by rw [hdot, h4]; rfl) h2
                rw [hp] at hcp
                exact isIPv4_chars _ h4 c hcp
        · simp only [hdot, if_false, Bool.false_eq_true] at h
          by_cases hlen : (splitOn ':' a).length > 9
          · rw [if_pos hlen] at h; simp at h
          · rw [if_neg hlen] at h
            have hparts := parts_ok _ h
            rcases hcov with e | ⟨p, hp, hcp⟩
            · simp [v6Char, e]
            · rcases hparts p hp with e | e
              · rw [e] at hcp; simp at hcp
              · exact validHextet_chars p e c hcp

end SshAudit.Target
