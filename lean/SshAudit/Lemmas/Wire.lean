/- Helper lemmas for the wire codecs (C10, C09, C11).  Core Lean only. -/
import SshAudit.Model.Wire
namespace SshAudit.Wire

/-! ### digits -/

theorem ofBE_append_single (bs : List Nat) (b : Nat) : ofBE (bs ++ [b]) = ofBE bs * 256 + b := by
  simp [ofBE, List.foldl_append]

theorem foldl_acc (a : Nat) (ds : List Nat) :
    ds.foldl (fun a b => a * 256 + b) a = a * 256 ^ ds.length + ds.foldl (fun a b => a * 256 + b) 0 := by
  induction ds generalizing a with
  | nil => simp
  | cons d ds ih =>
    simp only [List.foldl_cons, List.length_cons]
    rw [ih (a * 256 + d), ih (0 * 256 + d)]
    simp [Nat.pow_succ, Nat.add_mul, Nat.mul_assoc, Nat.mul_comm 256, Nat.add_assoc]

theorem ofBE_cons (b : Nat) (bs : List Nat) : ofBE (b :: bs) = b * 256 ^ bs.length + ofBE bs := by
  unfold ofBE
  simp only [List.foldl_cons]
  rw [foldl_acc]; simp

@[simp] theorem toBE_length (m L : Nat) : (toBE m L).length = L := by
  induction L generalizing m with
  | zero => simp [toBE]
  | succ L ih => simp [toBE, ih]

theorem ofBE_toBE (m L : Nat) : ofBE (toBE m L) = m % 256 ^ L := by
  induction L generalizing m with
  | zero => simp [toBE, ofBE, Nat.mod_one]
  | succ L ih =>
    simp only [toBE, ofBE_append_single, ih]
    rw [Nat.pow_succ, Nat.mul_comm (256 ^ L) 256, Nat.mod_mul]
    omega

theorem toBE_lt (m L : Nat) : ∀ b ∈ toBE m L, b < 256 := by
  induction L generalizing m with
  | zero => simp [toBE]
  | succ L ih =>
    intro b hb
    simp only [toBE, List.mem_append, List.mem_singleton] at hb
    rcases hb with hb | hb
    · exact ih _ b hb
    · omega

theorem toBE_head (m L : Nat) : (toBE m (L+1)).head? = some (m / 256 ^ L % 256) := by
  induction L generalizing m with
  | zero => simp [toBE]
  | succ L ih =>
    have h1 := ih (m / 256)
    rw [toBE, List.head?_append, h1]
    simp [Nat.div_div_eq_div_mul, Nat.pow_succ, Nat.mul_comm]

theorem natsOf_bytesOf (ds : List Nat) (h : ∀ d ∈ ds, d < 256) : natsOf (bytesOf ds) = ds := by
  induction ds with
  | nil => rfl
  | cons d ds ih =>
    have hd : d < 256 := h d (by simp)
    have : (UInt8.ofNat d).toNat = d := by
      rw [UInt8.toNat_ofNat']; exact Nat.mod_eq_of_lt hd
    simp only [natsOf, bytesOf, List.map_cons, List.map_map] at *
    rw [this]; congr 1
    exact ih (fun x hx => h x (by simp [hx]))

@[simp] theorem bytesOf_length (ds : List Nat) : (bytesOf ds).length = ds.length := by simp [bytesOf]
@[simp] theorem natsOf_length (bs : Bytes) : (natsOf bs).length = bs.length := by simp [natsOf]

theorem natsOf_lt (bs : Bytes) : ∀ d ∈ natsOf bs, d < 256 := by
  intro d hd
  simp only [natsOf, List.mem_map] at hd
  obtain ⟨b, _, rfl⟩ := hd
  exact UInt8.toNat_lt b

theorem natsOf_append (a b : Bytes) : natsOf (a ++ b) = natsOf a ++ natsOf b := by simp [natsOf]

/-! ### bit length -/

theorem lt_two_pow_bitLen (m : Nat) : m < 2 ^ bitLen m := by
  unfold bitLen
  by_cases h : m = 0
  · simp [h]
  · simp only [h, if_false]; exact Nat.lt_log2_self

theorem two_pow_le_of_bitLen (m : Nat) (h : m ≠ 0) : 2 ^ (bitLen m - 1) ≤ m := by
  unfold bitLen
  simp only [h, if_false, Nat.add_sub_cancel]
  exact Nat.log2_self_le h

/-! ### split / join on commas -/

theorem splitComma_append_sep (p : Bytes) (hp : comma ∉ p) (rest : Bytes) :
    splitComma (p ++ comma :: rest) = p :: splitComma rest := by
  induction p with
  | nil => simp [splitComma]
  | cons x xs ih =>
    have hx : x ≠ comma := by intro h; apply hp; simp [h]
    have hxs : comma ∉ xs := by intro h; apply hp; simp [h]
    simp [splitComma, hx, ih hxs]

theorem splitComma_no_sep (p : Bytes) (hp : comma ∉ p) : splitComma p = [p] := by
  induction p with
  | nil => simp [splitComma]
  | cons x xs ih =>
    have hx : x ≠ comma := by intro h; apply hp; simp [h]
    have hxs : comma ∉ xs := by intro h; apply hp; simp [h]
    simp [splitComma, hx, ih hxs]

theorem split_join (ps : List Bytes) (hne : ps ≠ []) (h : ∀ p ∈ ps, comma ∉ p) :
    splitComma (joinComma ps) = ps := by
  induction ps with
  | nil => exact absurd rfl hne
  | cons p qs ih =>
    cases qs with
    | nil => simpa [joinComma] using splitComma_no_sep p (h p (by simp))
    | cons q rs =>
      simp only [joinComma, List.append_assoc, List.singleton_append]
      rw [splitComma_append_sep p (h p (by simp))]
      rw [ih (by simp) (fun x hx => h x (by simp [hx]))]

theorem splitComma_ne_nil (l : Bytes) : splitComma l ≠ [] := by
  induction l with
  | nil => simp [splitComma]
  | cons x xs ih =>
    simp only [splitComma]; split
    · simp
    · split <;> simp

/-- `','.join(s.split(','))  == s` -/
theorem join_split (l : Bytes) : joinComma (splitComma l) = l := by
  induction l with
  | nil => simp [splitComma, joinComma]
  | cons x xs ih =>
    simp only [splitComma]
    split
    · next hx =>
      have hne := splitComma_ne_nil xs
      match hs : splitComma xs with
      | [] => exact absurd hs hne
      | q :: qs =>
        rw [hs] at ih
        simp [joinComma, ih, hx]
    · match hs : splitComma xs with
      | [] => exact absurd hs (splitComma_ne_nil xs)
      | [q] => rw [hs] at ih; simp [joinComma] at ih ⊢; exact ih
      | q :: q2 :: qs => rw [hs] at ih; simp [joinComma] at ih ⊢; exact ih

end SshAudit.Wire
