/-
  C11 — Host-key sizes, CA details and fingerprints are measured and rated correctly.

  Model: SshAudit.Model.HostKey (kexdh.py `recv_reply` / `__parse_ca_key` / `__adjust_key_size`,
  hostkeytest.py `perform_test` / `run`, ssh2_kex.py `set_host_key`, the fingerprint parts of
  ssh_audit.py and fingerprint.py), tied to /repo by correspondence (harness/props/C11.py).
  The encoders `Spec.*` are written from the RFCs / PROTOCOL.certkeys and are not used by the model.

  Every theorem quantifies over all numbers / byte strings / host-key lists / server state machines;
  the only bounds are the 32-bit length fields of the wire format itself.
-/
import SshAudit.Lemmas.HostKey
import SshAudit.Gen.Tables
import SshAudit.Gen.KexDB
namespace SshAudit.C11
open SshAudit SshAudit.Wire SshAudit.HostKey

/-- the tables of /repo (regenerated on every check) as the model's configuration -/
def cfg : Cfg :=
  { types := Gen.hostKeyTypes, rsaFamily := Gen.rsaFamily, two2k := Gen.two2kWarning, smallEcc := Gen.smallEccWarning,
    kexGroups := Gen.kexToDhgroupKeys }

/-- what the tool records when a probe connection is answered with this KEXDH_REPLY payload -/
def measured (payload : Bytes) : Option HKRec :=
  match probeResult (.reply payload) with
  | .got r => some r
  | _ => none

theorem measured_of_parse (blob f sig : Bytes) (p : Parsed) (hb : blob.length < 2 ^ 32) (hf : f.length < 2 ^ 32) (hs : sig.length < 2 ^ 32)
    (hp : parseHostKey blob = .ok p) :
    measured (Spec.kexReply blob f sig) =
      some { raw := blob, info := { size := adjustKeySize p.nLen, caType := p.caType, caSize := adjustKeySize p.caNLen } } := by
  unfold measured
  simp only [probeResult]
  rw [recvReply_kexReply blob f sig hb hf hs, hp]
  rfl

/-! ### sizes of plain host keys -/

/-- **RSA, every modulus and exponent**: the recorded blob is the presented blob and the size is `shownBits` of the modulus' bit length -/
theorem rsa_size_general (e n : Nat) (f sig : Bytes) (he : 0 < e) (hn : 0 < n)
    (hel : bitLen e / 8 + 1 < 2 ^ 32) (hnl : bitLen n / 8 + 1 < 2 ^ 32) (hb : (Spec.rsaBlob e n).length < 2 ^ 32)
    (hf : f.length < 2 ^ 32) (hs : sig.length < 2 ^ 32) :
    measured (Spec.kexReply (Spec.rsaBlob e n) f sig) =
      some { raw := Spec.rsaBlob e n, info := { size := Spec.shownBits (bitLen n), caType := [], caSize := 0 } } := by
  rw [measured_of_parse _ f sig _ hb hf hs (parse_rsa e n he hn hel hnl)]
  simp only [adjust_shownBits]
  rfl

/-- the displayed size: `8·⌊k/8⌋`, plus 8 when `⌊k/8⌋` is odd — always a multiple of 16, at most 8 away from `k` -/
theorem shownBits_near (k : Nat) : Spec.shownBits k % 16 = 0 ∧ Spec.shownBits k ≤ k + 8 ∧ k < Spec.shownBits k + 8 := by
  unfold Spec.shownBits
  split <;> omega

theorem shownBits_exact (k : Nat) (h : k % 16 = 0) : Spec.shownBits k = k := by
  unfold Spec.shownBits
  split <;> omega

theorem shownBits_exact_iff (k : Nat) : Spec.shownBits k = k ↔ k % 16 = 0 := by
  unfold Spec.shownBits
  split <;> omega

theorem shownBits_mono (k k' : Nat) (h : k ≤ k') : Spec.shownBits k ≤ Spec.shownBits k' := by
  unfold Spec.shownBits
  split <;> split <;> omega

/-- **RSA, bit length a multiple of 16** (every size of the quantifier's 64-bit grid): the reported size is the bit length -/
theorem rsa_size (e n : Nat) (f sig : Bytes) (he : 0 < e) (hn : 0 < n) (h16 : bitLen n % 16 = 0)
    (hel : bitLen e / 8 + 1 < 2 ^ 32) (hnl : bitLen n / 8 + 1 < 2 ^ 32) (hb : (Spec.rsaBlob e n).length < 2 ^ 32)
    (hf : f.length < 2 ^ 32) (hs : sig.length < 2 ^ 32) :
    measured (Spec.kexReply (Spec.rsaBlob e n) f sig) =
      some { raw := Spec.rsaBlob e n, info := { size := bitLen n, caType := [], caSize := 0 } } := by
  rw [rsa_size_general e n f sig he hn hel hnl hb hf hs, shownBits_exact _ h16]

theorem ed25519_size (pk f sig : Bytes) (hpk : pk.length = 32) (hf : f.length < 2 ^ 32) (hs : sig.length < 2 ^ 32) :
    measured (Spec.kexReply (Spec.ed25519Blob pk) f sig) =
      some { raw := Spec.ed25519Blob pk, info := { size := 256, caType := [], caSize := 0 } } := by
  have hne : pk ≠ [] := by intro h; rw [h] at hpk; simp at hpk
  have hb : (Spec.ed25519Blob pk).length < 2 ^ 32 := by simp [Spec.ed25519Blob, Spec.sstr, u32_length, Spec.ascii, hpk, s]
  rw [measured_of_parse _ f sig _ hb hf hs (parse_ed25519 pk hne (by omega))]
  rfl

theorem ed448_size (pk f sig : Bytes) (hpk : pk.length = 57) (hf : f.length < 2 ^ 32) (hs : sig.length < 2 ^ 32) :
    measured (Spec.kexReply (Spec.ed448Blob pk) f sig) =
      some { raw := Spec.ed448Blob pk, info := { size := 448, caType := [], caSize := 0 } } := by
  have hne : pk ≠ [] := by intro h; rw [h] at hpk; simp at hpk
  have hb : (Spec.ed448Blob pk).length < 2 ^ 32 := by simp [Spec.ed448Blob, Spec.sstr, u32_length, Spec.ascii, hpk, s]
  rw [measured_of_parse _ f sig _ hb hf hs (parse_ed448 pk hne (by omega))]
  rfl

/-! ### certificates: the certified key's size and the signing CA's type and size -/

/-- the certified public key of a host certificate -/
inductive HostPub where
  | rsa (e n : Nat)
  | ed25519 (pk : Bytes)

/-- the signing CA's public key -/
inductive CaKey where
  | rsa (e n : Nat)
  | ed25519 (pk : Bytes)
  | ecdsa (curve : Str) (x y : Bytes)

def HostPub.cert (h : HostPub) (certType : Nat) (f : Spec.CertFields) (ca : Bytes) : Bytes :=
  match h with
  | .rsa e n => Spec.rsaCert e n certType f ca
  | .ed25519 pk => Spec.edCert pk certType f ca

/-- well-formed: positive RSA numbers that fit the length fields / a 32-byte Ed25519 key -/
def HostPub.ok : HostPub → Prop
  | .rsa e n => 0 < e ∧ 0 < n ∧ bitLen e / 8 + 1 < 2 ^ 32 ∧ bitLen n / 8 + 1 < 2 ^ 32
  | .ed25519 pk => pk.length = 32

/-- the size the certificate line must show for the certified key -/
def HostPub.bits : HostPub → Nat
  | .rsa _ n => Spec.shownBits (bitLen n)
  | .ed25519 _ => 256

def CaKey.blob : CaKey → Bytes
  | .rsa e n => Spec.rsaBlob e n
  | .ed25519 pk => Spec.ed25519Blob pk
  | .ecdsa c x y => Spec.ecdsaBlob c x y

def CaKey.ok : CaKey → Prop
  | .rsa e n => 0 < e ∧ 0 < n ∧ bitLen e / 8 + 1 < 2 ^ 32 ∧ bitLen n / 8 + 1 < 2 ^ 32
  | .ed25519 _ => True
  | .ecdsa c x y => c ∈ curves ∧ 1 + (x.length + y.length) < 2 ^ 32

def CaKey.type : CaKey → Str
  | .rsa _ _ => tRsa
  | .ed25519 _ => tEd25519
  | .ecdsa c _ _ => s "ecdsa-sha2-" ++ c

/-- RSA: from the modulus; Ed25519: 256; ECDSA: eight times the coordinate length, made even (`__adjust_key_size`) -/
def CaKey.bits : CaKey → Nat
  | .rsa _ n => Spec.shownBits (bitLen n)
  | .ed25519 _ => 256
  | .ecdsa _ x y => adjustKeySize ((x.length + y.length) / 2)

theorem caInfo_of (c : CaKey) (hc : c.ok) : ∃ l, caInfo c.blob = .ok (c.type, l) ∧ adjustKeySize l = c.bits := by
  cases c with
  | rsa e n =>
    obtain ⟨he, hn, hel, hnl⟩ := hc
    exact ⟨_, caInfo_rsa e n he hn hel hnl, adjust_shownBits _⟩
  | ed25519 pk => exact ⟨32, caInfo_ed25519 pk, (by decide : adjustKeySize 32 = 256)⟩
  | ecdsa cv x y =>
    obtain ⟨h1, h2⟩ := hc
    exact ⟨_, caInfo_ecdsa cv h1 x y h2, rfl⟩

theorem parse_cert (h : HostPub) (c : CaKey) (f : Spec.CertFields) (hh : h.ok) (hc : c.ok) (hf : f.fits) (hnn : f.nonce ≠ [])
    (hcl : c.blob.length < 2 ^ 32) :
    ∃ p, parseHostKey (h.cert 2 f c.blob) = .ok p ∧ adjustKeySize p.nLen = h.bits ∧ p.caType = c.type ∧ adjustKeySize p.caNLen = c.bits := by
  obtain ⟨l, hl, hbits⟩ := caInfo_of c hc
  cases h with
  | rsa e n =>
    obtain ⟨he, hn, hel, hnl⟩ := hh
    refine ⟨{ keyType := Spec.rsaCertKind, nLen := bitLen n / 8 + 1, caType := c.type, caNLen := l }, ?_, ?_⟩
    · show parseHostKey (Spec.rsaCert e n 2 f c.blob) = _
      rw [parse_rsaCert e n 2 f c.blob he hn hel hnl hf.1, parseCaKey_tail f c.blob hf hcl, hl]
      rfl
    · exact ⟨adjust_shownBits _, rfl, hbits⟩
  | ed25519 pk =>
    have hpk : pk.length = 32 := hh
    have hne : pk ≠ [] := by intro h0; rw [h0] at hpk; simp at hpk
    refine ⟨{ keyType := Spec.edCertKind, nLen := pk.length, caType := c.type, caNLen := l }, ?_, ?_⟩
    · show parseHostKey (Spec.edCert pk 2 f c.blob) = _
      rw [parse_edCert pk 2 f c.blob hne (by omega) hnn hf.1, parseCaKey_tail f c.blob hf hcl, hl]
      rfl
    · refine ⟨?_, rfl, hbits⟩
      show adjustKeySize pk.length = 256
      rw [hpk]; decide

/-- **certificates**: for an RSA or Ed25519 host certificate (type 2) signed by an RSA, Ed25519 or ECDSA CA, the record holds the
    presented blob, the certified key's size, the CA's key type and the CA's size — whatever the nonce, serial, key id,
    principals, validity, critical options, extensions, reserved field and signature are -/
theorem cert_sizes (h : HostPub) (c : CaKey) (f : Spec.CertFields) (kf sig : Bytes) (hh : h.ok) (hc : c.ok) (hf : f.fits) (hnn : f.nonce ≠ [])
    (hcl : c.blob.length < 2 ^ 32) (hb : (h.cert 2 f c.blob).length < 2 ^ 32) (hkf : kf.length < 2 ^ 32) (hs : sig.length < 2 ^ 32) :
    measured (Spec.kexReply (h.cert 2 f c.blob) kf sig) =
      some { raw := h.cert 2 f c.blob, info := { size := h.bits, caType := c.type, caSize := c.bits } } := by
  obtain ⟨p, hp, h1, h2, h3⟩ := parse_cert h c f hh hc hf hnn hcl
  rw [measured_of_parse _ kf sig p hb hkf hs hp, h1, h2, h3]

/-- ECDSA CA sizes for the three NIST curves: 32-, 48- and 66-byte coordinates give 256, 384 and **528** (P-521; observation D24) -/
theorem ecdsa_ca_bits (cv : Str) (x y : Bytes) :
    (x.length = 32 → y.length = 32 → (CaKey.ecdsa cv x y).bits = 256) ∧
    (x.length = 48 → y.length = 48 → (CaKey.ecdsa cv x y).bits = 384) ∧
    (x.length = 66 → y.length = 66 → (CaKey.ecdsa cv x y).bits = 528) := by
  refine ⟨?_, ?_, ?_⟩ <;> intro hx hy <;> simp only [CaKey.bits, hx, hy] <;> decide

/-- a certificate of any other type (user certificates are type 1): no CA details are recorded -/
theorem cert_wrong_type (e n ct : Nat) (f : Spec.CertFields) (ca : Bytes) (he : 0 < e) (hn : 0 < n)
    (hel : bitLen e / 8 + 1 < 2 ^ 32) (hnl : bitLen n / 8 + 1 < 2 ^ 32) (hnonce : f.nonce.length < 2 ^ 32) (hct : ct ≠ 2) (hlt : ct < 2 ^ 32) :
    parseHostKey (Spec.rsaCert e n ct f ca) = .ok { keyType := Spec.rsaCertKind, nLen := bitLen n / 8 + 1, caType := [], caNLen := 0 } := by
  rw [parse_rsaCert e n ct f ca he hn hel hnl hnonce, parseCaKey_tail_other ct hct hlt]
  rfl

/-! ### rating thresholds -/

/-- severity of the notes one probe adds: 2 = a failure, 1 = a warning only, 0 = nothing -/
def sev (fw : List Str × List Str) : Nat := if fw.1 ≠ [] then 2 else if fw.2 ≠ [] then 1 else 0

theorem isEcc_nil : isEcc [] = false := by decide +kernel
theorem not_ecdsa_nil : Text.startsWith [] pEcdsa = false := by decide +kernel

/-- **plain (non-certificate) host keys with RSA limits** — in particular the RSA family: below 2048 one failure
    `using small N-bit modulus`; from 2048 up to but excluding 3072 the 2048-bit warning and no failure; from 3072 nothing -/
theorem rsa_thresholds (c : Cfg) (name : Str) (hecc : isEcc name = false) (hdss : name ≠ tDss) (size : Nat) (hpos : 0 < size) :
    comments c name false size [] 0 =
      if size < 2048 then ([smallText size], []) else if size < 3072 then ([], [c.two2k]) else ([], []) := by
  unfold comments limits
  simp only [hecc, isEcc_nil, not_ecdsa_nil, Bool.false_eq_true, if_false]
  have h0 : size > 0 ∨ 0 > 0 := Or.inl hpos
  rw [if_pos h0]
  by_cases h1 : size < 2048
  · have : size < 3072 := by omega
    simp [h1, this, hdss]
  · by_cases h2 : size < 3072
    · simp [h1, h2, hdss]
    · simp [h1, h2]

theorem rsa_family_limits : ∀ n ∈ cfg.rsaFamily, isEcc n = false ∧ n ≠ tDss := by decide +kernel

/-- the three clauses for the RSA family of /repo, as severities -/
theorem rsa_family_severity (name : Str) (hn : name ∈ cfg.rsaFamily) (size : Nat) (hpos : 0 < size) :
    sev (comments cfg name false size [] 0) = if size < 2048 then 2 else if size < 3072 then 1 else 0 := by
  obtain ⟨h1, h2⟩ := rsa_family_limits name hn
  rw [rsa_thresholds cfg name h1 h2 size hpos]
  by_cases a : size < 2048
  · simp [a, sev]
  · by_cases b : size < 3072
    · simp [a, b, sev]
    · simp [a, b, sev]

/-- **the rating never gets worse as a key grows** (measured sizes) -/
theorem rating_antitone (name : Str) (hn : name ∈ cfg.rsaFamily) (s₁ s₂ : Nat) (h1 : 0 < s₁) (h : s₁ ≤ s₂) :
    sev (comments cfg name false s₂ [] 0) ≤ sev (comments cfg name false s₁ [] 0) := by
  rw [rsa_family_severity name hn s₁ h1, rsa_family_severity name hn s₂ (by omega)]
  split <;> split <;> (try split) <;> (try split) <;> omega

/-- … and in terms of the true bit length of the presented modulus -/
theorem rating_antitone_bits (name : Str) (hn : name ∈ cfg.rsaFamily) (k₁ k₂ : Nat) (h1 : 8 ≤ k₁) (h : k₁ ≤ k₂) :
    sev (comments cfg name false (Spec.shownBits k₂) [] 0) ≤ sev (comments cfg name false (Spec.shownBits k₁) [] 0) := by
  have := shownBits_mono k₁ k₂ h
  have hp : 0 < Spec.shownBits k₁ := by have := shownBits_near k₁; omega
  exact rating_antitone name hn _ _ hp this

end SshAudit.C11
