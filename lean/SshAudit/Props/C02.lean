/-
  C02 — Exit status reflects the worst finding; incomplete audits never look clean.

  Part 1 (status fold): `Report.foldStatus` is `output_algorithm`'s update of `program_retval`
  ("fail ↦ 3; warn ↦ 2 unless already 3"), folded over every tagged note of the report.
  Part 2 (decision logic of `audit()`): which exit status each way of ending an audit yields.
-/
import SshAudit.Model.Report
import SshAudit.Model.Session
namespace SshAudit.C02
open SshAudit SshAudit.Report

/-! ### the status fold -/

theorem foldStatus_append (st : Nat) (a b : List Note) : foldStatus st (a ++ b) = foldStatus (foldStatus st a) b := by
  simp [foldStatus, List.foldl_append]

theorem foldStatus_three (N : List Note) : foldStatus 3 N = 3 := by
  induction N with
  | nil => rfl
  | cons n N ih =>
    have : foldStatus 3 (n :: N) = foldStatus (match n.level with | .fail => 3 | .warn => if (3:Nat) ≠ 3 then 2 else 3 | .info => 3) N := rfl
    rw [this]
    cases n.level <;> simpa using ih

theorem foldStatus_two (N : List Note) : foldStatus 2 N = if N.any (·.level = .fail) then 3 else 2 := by
  induction N with
  | nil => rfl
  | cons n N ih =>
    have : foldStatus 2 (n :: N) = foldStatus (match n.level with | .fail => 3 | .warn => if (2:Nat) ≠ 3 then 2 else 2 | .info => 2) N := rfl
    rw [this]
    cases h : n.level <;> simp [h, foldStatus_three, ih]

/-- closed form of the fold from a clean start -/
theorem foldStatus_zero (N : List Note) :
    foldStatus 0 N = if N.any (·.level = .fail) then 3 else if N.any (·.level = .warn) then 2 else 0 := by
  induction N with
  | nil => rfl
  | cons n N ih =>
    have : foldStatus 0 (n :: N) = foldStatus (match n.level with | .fail => 3 | .warn => if (0:Nat) ≠ 3 then 2 else 0 | .info => 0) N := rfl
    rw [this]
    cases h : n.level
    · simp [h, foldStatus_three]
    · simp [h, foldStatus_two]
    · simp [h, ih]

/-- **Status 3 iff some failure; 2 iff no failure but a warning; 0 iff neither.** -/
theorem status_iff (N : List Note) :
    (foldStatus 0 N = 3 ↔ ∃ n ∈ N, n.level = .fail) ∧
    (foldStatus 0 N = 2 ↔ (∀ n ∈ N, n.level ≠ .fail) ∧ ∃ n ∈ N, n.level = .warn) ∧
    (foldStatus 0 N = 0 ↔ ∀ n ∈ N, n.level = .info) := by
  rw [foldStatus_zero]
  by_cases hf : N.any (·.level = .fail) = true
  · have hf' : ∃ n ∈ N, n.level = .fail := by simpa using hf
    simp only [hf, if_true]
    refine ⟨by simp [hf'], ?_, ?_⟩
    · constructor
      · intro h; cases h
      · rintro ⟨h, _⟩; obtain ⟨n, hn, hl⟩ := hf'; exact absurd hl (h n hn)
    · constructor
      · intro h; cases h
      · intro h; obtain ⟨n, hn, hl⟩ := hf'; rw [h n hn] at hl; cases hl
  · have hf' : ∀ n ∈ N, n.level ≠ .fail := by simpa using hf
    simp only [hf, Bool.false_eq_true, if_false]
    by_cases hw : N.any (·.level = .warn) = true
    · have hw' : ∃ n ∈ N, n.level = .warn := by simpa using hw
      simp only [hw, if_true]
      refine ⟨?_, ⟨fun _ => ⟨hf', hw'⟩, fun _ => trivial⟩, ?_⟩
      · constructor
        · intro h; cases h
        · rintro ⟨n, hn, hl⟩; exact absurd hl (hf' n hn)
      · constructor
        · intro h; cases h
        · intro h; obtain ⟨n, hn, hl⟩ := hw'; rw [h n hn] at hl; cases hl
    · have hw' : ∀ n ∈ N, n.level ≠ .warn := by simpa using hw
      simp only [hw, Bool.false_eq_true, if_false]
      refine ⟨?_, ?_, ?_⟩
      · constructor
        · intro h; cases h
        · rintro ⟨n, hn, hl⟩; exact absurd hl (hf' n hn)
      · constructor
        · intro h; cases h
        · rintro ⟨_, n, hn, hl⟩; exact absurd hl (hw' n hn)
      · constructor
        · intro _ n hn
          cases hl : n.level
          · exact absurd hl (hf' n hn)
          · exact absurd hl (hw' n hn)
          · rfl
        · intro _; trivial

/-- the status only takes the documented values -/
theorem status_range (N : List Note) : foldStatus 0 N = 0 ∨ foldStatus 0 N = 2 ∨ foldStatus 0 N = 3 := by
  rw [foldStatus_zero]; split <;> (try split) <;> simp

/-- any reordering of the findings (any interleaving of categories, any list order) gives the same status -/
theorem status_perm (N M : List Note) (h : N.Perm M) : foldStatus 0 N = foldStatus 0 M := by
  rw [foldStatus_zero, foldStatus_zero]
  have e1 : N.any (·.level = .fail) = M.any (·.level = .fail) := by
    rw [Bool.eq_iff_iff]; simp only [List.any_eq_true]
    exact ⟨fun ⟨x, hx, hp⟩ => ⟨x, h.mem_iff.mp hx, hp⟩, fun ⟨x, hx, hp⟩ => ⟨x, h.mem_iff.mpr hx, hp⟩⟩
  have e2 : N.any (·.level = .warn) = M.any (·.level = .warn) := by
    rw [Bool.eq_iff_iff]; simp only [List.any_eq_true]
    exact ⟨fun ⟨x, hx, hp⟩ => ⟨x, h.mem_iff.mp hx, hp⟩, fun ⟨x, hx, hp⟩ => ⟨x, h.mem_iff.mpr hx, hp⟩⟩
  rw [e1, e2]

theorem statusOfLines_eq (st : Nat) (ls : List AlgLine) : statusOfLines st ls = foldStatus st (ls.flatMap (·.notes)) := by
  induction ls generalizing st with
  | nil => rfl
  | cons l ls ih =>
    show statusOfLines (foldStatus st l.notes) ls = _
    rw [ih, List.flatMap_cons, foldStatus_append]

/-- **The exit status of a standard report is the fold over every tagged note it shows**
    (all four categories), hence — by `status_iff` — 3 / 2 / 0 exactly as documented. It takes no
    output option as an argument: batch, verbose, colour, level and JSON cannot influence it. -/
theorem report_status (rf : List Str) (db : DB) (peer : Peer) (client : Bool) (bsw : Option Str) (sw : Option Version.Software) (rn : Str) :
    let r := report rf db peer client bsw sw rn
    r.status = foldStatus 0 ((r.kex ++ r.key ++ r.enc ++ r.mac).flatMap (·.notes)) := by
  simp only [report, statusOfLines_eq, List.flatMap_append, foldStatus_append]

/-! ### `audit()`: which status each ending yields -/

open Session in
/-- **An audit that could not obtain and parse the peer's algorithm lists exits 1 and prints no algorithm report.** -/
theorem incomplete_never_clean (cfg : AuditCfg) (h : Handshake) (hne : h ≠ .ok) (res : AuditResult) :
    (auditEnd cfg h res).status = 1 ∧ (auditEnd cfg h res).algReport = false := by
  cases h <;> simp_all [auditEnd, connectionError]

open Session in
/-- a completed standard audit ends with the report's status; a policy audit with 0 iff passed, 3 iff failed -/
theorem complete_status (cfg : AuditCfg) (res : AuditResult) :
    (auditEnd cfg .ok res).status =
      (match cfg.mode with
       | .standard => res.reportStatus
       | .policy => if res.policyPassed then 0 else 3
       | .makePolicy => 0) := by
  cases h : cfg.mode <;> simp [auditEnd, h]

open Session in
theorem policy_status (cfg : AuditCfg) (res : AuditResult) (hm : cfg.mode = .policy) :
    ((auditEnd cfg .ok res).status = 0 ↔ res.policyPassed = true) ∧ ((auditEnd cfg .ok res).status = 3 ↔ res.policyPassed = false) := by
  simp only [auditEnd, hm]
  cases res.policyPassed <;> simp

-- non-vacuity
example : foldStatus 0 [⟨.warn, []⟩, ⟨.fail, []⟩, ⟨.warn, []⟩, ⟨.info, []⟩] = 3 := by decide
example : foldStatus 0 [⟨.info, []⟩, ⟨.warn, []⟩] = 2 := by decide

end SshAudit.C02
