"""C18 — The tool connects to, and reports on, exactly the target that was named.

Theorems: SshAudit.Props.C18 over the model SshAudit.Model.Target (parse_host_and_port, the target /
-p / -4 / -6 / -T part of process_commandline, AuditConf port check, SSH_Socket._resolve/connect,
the three report labels).
Tie: correspondence of every Target model op with the real functions (Utils.parse_host_and_port,
int(), Utils.is_ipv6_address, process_commandline incl. the targets-file reader, output() labels)
and of whole runs (`target.run`) with the real main() on harness/fakenet (getaddrinfo log, connect
log, labels, exit status).
Search oracle (independent of the model): the generator knows which (host, port) each spelling
denotes; the real code must resolve exactly (host, port, requested family), dial exactly the first
address of the requested order, label the report with that target, and make no network call at all
for a port outside 1..65535.  IPv6 recognition on the oracle side is Python's `ipaddress`.
"""
import contextlib
import io
import ipaddress
import json
import os
import re
import socket
import tempfile

from common import Coverage, tstr, tstrs, toptstr, tbool, VERIF

ID = 'C18'
MODULE = 'SshAudit.Props.C18'
NAMESPACE = 'SshAudit.C18'
THEOREMS = ['portText_showNat', 'parse_name', 'parse_name_port', 'parse_bare_v6', 'parse_bracket', 'parse_bracket_port', 'parse_forms',
            'ipv6_two_colons', 'cmdline_port_default', 'cmdline_bad_target_port', 'cmdline_bad_option',
            'cmdline_family_order', 'family_single', 'run_family_order', 'prefer_v6_dials_v6',
            'family_order', 'family_order_single', 'resolveOrder_perm', 'first_only',
            'label_spelled', 'label_matches', 'label_verbose_matches', 'label_json_matches', 'json_label_v6_not_reparsed',
            'ipv6_no_brackets', 'label_matches_doc', 'spelled_ipv6',
            'named_target_dialled', 'port_range_target', 'port_range_option', 'port_range_worker', 'resolve_port_in_range',
            'file_targets_clean', 'file_targets_of_lines', 'targets_dialled']
# functions / statement blocks of the code whose Lean definitions are regenerated from the source on every run (harness/translate_logic.py);
# `GenLogic.<name>_eq_model` (lean/SshAudit/Props/GenLogic*.lean) ties each to the hand-written model function the theorems above are about
GEN_LOGIC = ['port_out_of_range']

TECHNIQUE = ('Lean 4 theorems (induction over strings/lists, omega) about a hand-written model of target parsing, command-line handling, '
             'address-family ordering, dialling and labelling + differential correspondence with the Python code, unit-wise and on whole '
             'main() runs over an in-process fake network')
LEVEL_TEXT = ('Proved for all strings, ports and resolver answers about the Lean model: every documented spelling (name, IPv4, bare IPv6, host:port, [IPv6], [IPv6]:port; '
              'ports as any decimal text) parses to the host and port it denotes; with or without -p the command line yields that host and (explicit port, else -p, else 22); '
              'a targets file written as indented/blank/CR-LF lines yields exactly its target texts; a run resolves exactly (host, port, family argument) and dials only the first '
              'address of the family-ordered answer; no resolution ever carries a port outside 1..65535; the text labels are documented spellings of exactly (host, port). '
              'The model is executed by a compiled driver and compared with the real functions unit-wise and with whole main() runs on an in-process fake network; an independent '
              'oracle (generator ground truth + ipaddress) checks the same on the real code.')
LEVEL_NOTE = ('Trusted: Lean kernel, the correspondence harness/generators/fakenet, the argv->argparse mapping, CPython built-ins (int, str.strip, re, readlines, ipaddress, sorted) '
              'which are modelled and differential-tested, not verified. cmdline_port_default, file_targets_clean and cmdline_family_order hold of the code after the D18/D19/D33 repairs (their old witnesses run first in every check). '
              'For IPv6 hosts with a scope id the label theorems assume the host text has no brackets (ipaddress accepts any scope text); scope-free literals need no assumption (ipv6_no_brackets). Observation D30: JSON target of an IPv6 host is not re-parseable.')

AF4, AF6 = int(socket.AF_INET), int(socket.AF_INET6)
ANSI = re.compile(r'\x1b\[[0-9;]*m')


# ---------------------------------------------------------------- small helpers

def exn_name(e):
    if isinstance(e, SystemExit):
        return 'sysexit(%s)' % e.code
    if isinstance(e, ValueError):
        return 'value'
    if isinstance(e, TypeError):
        return 'type'
    if isinstance(e, IndexError):
        return 'index'
    if isinstance(e, KeyError):
        return 'key'
    return 'other:' + type(e).__name__


def guard(f):
    try:
        return {'ok': f()}
    except BaseException as e:  # noqa
        return {'err': exn_name(e)}


@contextlib.contextmanager
def quiet():
    buf = io.StringIO()
    with contextlib.redirect_stdout(buf), contextlib.redirect_stderr(buf):
        yield buf


_tmpdir = None


def tmp_path(name):
    global _tmpdir
    if _tmpdir is None:
        _tmpdir = tempfile.mkdtemp(prefix='c18-')
        import atexit
        import shutil
        atexit.register(shutil.rmtree, _tmpdir, True)      # scratch of this run only; nothing a later command needs
    return os.path.join(_tmpdir, name)


def write_targets_file(text):
    p = tmp_path('targets.txt')
    with open(p, 'wb') as f:
        f.write(text.encode('utf-8'))
    return p


def flags_argv(flags, style):
    """the -4/-6 options in the order written; style: 'cluster' (-46), 'sep' (-4 -6), 'long' (--ipv4 --ipv6)"""
    if not flags:
        return []
    if style == 'cluster':
        return ['-' + flags]
    if style == 'long':
        return ['--ipv' + c for c in flags]
    return ['-' + c for c in flags]


def port_argv(oport, style='sep'):
    if oport is None:
        return []
    if oport < 0 or style == 'eq':
        return ['--port=%d' % oport]
    if style == 'long':
        return ['--port', str(oport)]
    return ['-p', str(oport)]


def uniq(xs):
    out = []
    for x in xs:
        if x not in out:
            out.append(x)
    return out


# ---------------------------------------------------------------- implementation adapters (unit ops)

_canned = {}


def canned_peer():
    """banner + KEXINIT used to drive output() for the label ops"""
    if not _canned:
        import fakenet
        from ssh_audit.banner import Banner
        from ssh_audit.ssh2_kex import SSH2_Kex
        from ssh_audit.outputbuffer import OutputBuffer
        payload = fakenet.kexinit(('curve25519-sha256',), ('ssh-ed25519',), ('aes256-ctr',), ('hmac-sha2-256',))
        _canned['banner'] = Banner.parse('SSH-2.0-OpenSSH_8.0')
        _canned['kex'] = SSH2_Kex.parse(OutputBuffer(), payload[1:])
    return _canned['banner'], _canned['kex']


def impl_labels(host, port):
    """[text label from output(print_target=True), JSON target from output() with aconf.json]"""
    from ssh_audit.ssh_audit import output
    from ssh_audit.auditconf import AuditConf
    from ssh_audit.outputbuffer import OutputBuffer
    import fakenet
    banner, kex = canned_peer()
    fakenet.reset_dbs()
    res = []
    for js in (False, True):
        aconf = AuditConf(host, port)
        aconf.json = js
        out = OutputBuffer()
        out.use_colors = False
        if js:
            out.json = True
        with quiet() as buf:
            output(out, aconf, banner, [], kex=kex, print_target=True)
            out.write()
        txt = buf.getvalue()
        if js:
            res.append(json.loads(txt)['target'])
        else:
            m = re.search(r'^\(gen\) target: (.*)$', txt, re.M)
            res.append(m.group(1) if m else None)
    return res


def impl_cmdline(host, oport, flags, client, targets_text, pstyle='sep', fstyle='cluster'):
    from ssh_audit.ssh_audit import process_commandline
    from ssh_audit.outputbuffer import OutputBuffer
    argv = ['-n'] + port_argv(oport, pstyle) + flags_argv(flags, fstyle)
    if client:
        argv.append('-c')
    if targets_text is not None:
        argv += ['-T', write_targets_file(targets_text)]
    if host != '':
        argv.append(host)

    def run():
        with quiet():
            a = process_commandline(OutputBuffer(), argv)
        return {'host': a.host, 'port': a.port, 'pref': list(a.ip_version_preference), 'client': a.client_audit, 'targets': list(a.target_list)}
    return guard(run)


def impl(op, arg):
    from ssh_audit.utils import Utils
    if op == 'target.parse':
        return guard(lambda: list(Utils.parse_host_and_port(arg[0], arg[1])))
    if op == 'target.int':
        return guard(lambda: str(int(arg)))
    if op == 'target.strip':
        return {'ok': arg.strip()}
    if op == 'target.isv6':
        return guard(lambda: Utils.is_ipv6_address(arg))
    if op == 'target.file':
        r = impl_cmdline('', None, '', False, arg)
        return {'ok': r['ok']['targets']} if 'ok' in r else r
    if op == 'target.label':
        return guard(lambda: impl_labels(arg[0], arg[1]))
    if op == 'target.pref':
        r = impl_cmdline('h', None, arg[0], False, None, fstyle=arg[1])
        if 'ok' not in r:
            return r
        pref = r['ok']['pref']
        fam = (AF4 if pref[0] == 4 else AF6) if len(pref) == 1 else 0
        return {'ok': [pref, fam]}
    if op == 'target.order':
        flags, rows = arg
        return guard(lambda: impl_order(flags, rows))
    if op == 'target.cmdline':
        return impl_cmdline(*arg)
    raise KeyError(op)


def impl_order(flags, rows):
    """SSH_Socket._resolve on a synthetic getaddrinfo answer"""
    import fakenet
    from ssh_audit.ssh_socket import SSH_Socket
    from ssh_audit.outputbuffer import OutputBuffer
    pref = [int(c) for c in flags]      # the ip_version_preference list itself (API level)
    net = fakenet.FakeNet({}, resolver=lambda host, port, family: [
        (af, st, 6, '', (ip, port) if af == AF4 else (ip, port, 0, 0)) for (_h, af, st, ip) in rows])
    with fakenet.patched(net):
        s = SSH_Socket(OutputBuffer(), 'h', 22, pref)
        return [[int(af), addr[0]] for af, addr in s._resolve()]


def line_of(op, arg):
    if op == 'target.parse':
        return '%s %s %d' % (op, tstr(arg[0]), arg[1])
    if op in ('target.int', 'target.strip', 'target.isv6', 'target.file'):
        return '%s %s' % (op, tstr(arg))
    if op == 'target.label':
        return '%s %s %d' % (op, tstr(arg[0]), arg[1])
    if op == 'target.pref':
        return '%s %s' % (op, arg[0] or '-')
    if op == 'target.order':
        return '%s %s %s' % (op, arg[0] or '-', rows_tok(arg[1]))
    if op == 'target.cmdline':
        host, oport, flags, client, targets = arg[:5]
        return '%s %s' % (op, args_tok(host, oport, flags, client, targets))
    raise KeyError(op)


def rows_tok(rows):
    return tstrs(['%s;%d;%d;%s' % (h, af, st, ip) for (h, af, st, ip) in rows])


def args_tok(host, oport, flags, client, targets):
    return '%s %s %s %s %s' % (tstr(host), '~' if oport is None else str(oport), flags or '-', tbool(client), toptstr(targets))


def canon_model(op, m):
    if 'ok' not in m:
        return m
    v = m['ok']
    if op == 'target.label':
        return {'ok': [v[0], v[2]]}
    return m


# ---------------------------------------------------------------- whole runs on fakenet

def run_argv(case):
    argv = ['--skip-rate-test']
    argv += {'text': ['-v', '-n'], 'json': ['-j'], 'policy': ['-n', '-P', policy_name()]}[case['out']]
    argv += port_argv(case['oport'], case.get('pstyle', 'sep'))
    argv += flags_argv(case['flags'], case.get('fstyle', 'cluster'))
    if case['mode'] == 'file':
        argv += ['--threads', '1', '-T', write_targets_file(case['file_text'])]
    else:
        argv.append(case['host_arg'])
    return argv


_policy = []


def policy_name():
    if not _policy:
        from ssh_audit.builtin_policies import BUILTIN_POLICIES
        _policy.append(sorted(k for k, v in BUILTIN_POLICIES.items() if v['server_policy'])[0])
    return _policy[0]


def observe(case):
    """Runs the real main() on a fake network; returns what was resolved, dialled and printed."""
    import fakenet
    rows = [tuple(r) for r in case['rows']]

    def resolver(host, port, family):
        sel = [r for r in rows if r[0] == host and (family == 0 or r[1] == family)]
        if not sel:
            raise socket.gaierror(-2, 'Name or service not known')
        return [(af, st, 6, '', (ip, port) if af == AF4 else (ip, port, 0, 0)) for (_h, af, st, ip) in sel]
    srv = fakenet.simple_server()
    net = fakenet.FakeNet({ip: srv for ip in case['ups']}, resolver=resolver)
    code, out = fakenet.run_main(run_argv(case), net)
    out = ANSI.sub('', out)
    connects = [[int(s.af), a[0], a[1]] for s, a in zip(net.open_socks, net.connects)]
    return {'code': code, 'out': out, 'resolves': [[h, p, int(f)] for (h, p, f) in net.resolves], 'connects': connects}


def labels_of(case, out):
    if case['out'] == 'json':
        return {'json': [json.loads('"%s"' % x) for x in re.findall(r'"target": "((?:[^"\\]|\\.)*)"', out)]}
    if case['out'] == 'policy':
        return {'text': re.findall(r'^Host:   (.*)$', out, re.M)}
    # the verbose progress lines are printed by the worker threads as they go (write_now): print() writes the text and the newline separately, so two
    # threads can put their texts on one line; a progress text that starts in the middle of a line is given its own line before the lines are read
    out = re.sub(r'(?<=.)(Starting audit of |Running against: )', r'\n\1', out)
    lab = {'verbose': re.findall(r'^Starting audit of (.*)\.\.\.$', out, re.M)}
    lab['text'] = re.findall(r'^\(gen\) target: (.*)$', out, re.M)
    return lab


def impl_status(case, obs):
    if obs['code'] == -1 and 'ValueError' in obs['out'] and 'Traceback' in obs['out']:
        return 'value'
    if obs['code'] in (0, 1, 2, 3) and 'Traceback' not in obs['out']:
        if case['mode'] == 'single' and obs['code'] == 1:
            return 'sysexit(1)'     # CONNECTION_ERROR: the only way a single-target run on the fake network ends with 1
        return 'ran'
    return 'sysexit(%s)' % obs['code']


def canon_impl_run(case, obs):
    st = impl_status(case, obs)
    res = {'status': st, 'resolves': uniq(obs['resolves']), 'connects': uniq(obs['connects'])}
    if st == 'ran':
        lab = labels_of(case, obs['out'])
        res['labels'] = {k: sorted(uniq(v)) for k, v in lab.items()}
    return res


def canon_model_run(case, m):
    evs = m['events']
    res = {'resolves': uniq([[e[1], e[2], e[3]] for e in evs if e[0] == 'r']),
           'connects': uniq([[e[1], e[2], e[3]] for e in evs if e[0] == 'c'])}
    r = m['result']
    if 'err' in r:
        res['status'] = r['err']
        return res
    reps = r['ok']
    if any('err' in x for x in reps):
        res['status'] = [x['err'] for x in reps if 'err' in x][0]
        return res
    res['status'] = 'ran'
    reps = [x['ok'] for x in reps]
    lab = {}
    if case['out'] == 'json':
        lab['json'] = [x['json'] for x in reps if x['err'] is None]
    elif case['out'] == 'policy':
        lab['text'] = [x['text'] for x in reps if x['err'] is None]
    else:
        lab['verbose'] = [x['verbose'] for x in reps]
        lab['text'] = [x['text'] for x in reps if x['err'] is None] if case['mode'] == 'file' else []
    res['labels'] = {k: sorted(uniq(v)) for k, v in lab.items()}
    return res


def run_line(case):
    if case['mode'] == 'file':
        a = args_tok('', case['oport'], case['flags'], False, case['file_text'])
    else:
        a = args_tok(case['host_arg'], case['oport'], case['flags'], False, None)
    return 'target.run %s %s %s' % (a, rows_tok(case['rows']), tstrs(case['ups']))


# ---------------------------------------------------------------- the oracle (independent of the model)

def is_v6_literal(h):
    try:
        ipaddress.IPv6Address(h)
        return True
    except ValueError:
        return False


def spec_label(h, p):
    """what a report on (h, p) is labelled with: h | h:p | [h6]:p  (port shown iff it is not 22)"""
    if p == 22:
        return h
    return ('[%s]:%d' if is_v6_literal(h) else '%s:%d') % (h, p)


def spec_reparse(label):
    """independent reader of the documented label forms -> (host, port)"""
    if label.startswith('['):
        h, _, rest = label[1:].partition(']')
        return h, (int(rest[1:]) if rest.startswith(':') else 22)
    if label.count(':') == 1:
        h, p = label.split(':')
        return h, int(p)
    return label, 22


def port_ok(p):
    return 1 <= p <= 65535


def expected_dial(rows, host, flags):
    """first address in the requested order, from the resolver's rows for `host` (independent of the code)"""
    fams = []
    for c in flags:
        f = AF4 if c == '4' else AF6
        if f not in fams:
            fams.append(f)
    mine = [r for r in rows if r[0] == host and r[2] == socket.SOCK_STREAM]
    if fams:
        mine = [r for r in mine if r[1] in fams]
    if not mine:
        return None
    if len(fams) == 2:
        pref = [r for r in mine if r[1] == fams[0]]
        return (pref or mine)[0]
    return mine[0]


def requested_family(flags):
    fams = uniq([AF4 if c == '4' else AF6 for c in flags])
    return fams[0] if len(fams) == 1 else 0


def oracle_run(case, obs, fail):
    """case['truth'] = [[host, explicit_port|None], ...] in file order (what the spellings denote)."""
    truth = case.get('truth')
    # invariant for every run, documented spelling or not: no network call with a port outside 1..65535
    for r in obs['resolves']:
        if not (isinstance(r[1], int) and port_ok(r[1])):
            fail('resolve_with_invalid_port', case, {'resolve': r}, 'no network call for a port outside 1..65535')
    for c in obs['connects']:
        if not port_ok(c[2]):
            fail('connect_with_invalid_port', case, {'connect': c}, 'no connection for a port outside 1..65535')
    if truth is None:
        return
    oport = case['oport']
    dflt = 22 if oport is None else oport
    targets = [(h, dflt if p is None else p) for h, p in truth]
    fam = requested_family(case['flags'])
    st = impl_status(case, obs)
    bad_option = oport is not None and not port_ok(oport)
    bad = [t for t in targets if not port_ok(t[1])]
    if bad_option or (bad and case['mode'] == 'single'):
        if obs['resolves'] or obs['connects'] or obs['code'] == 0:
            fail('invalid_port_not_rejected', case, {'code': obs['code'], 'resolves': obs['resolves'], 'connects': obs['connects']},
                 'rejected (non-zero exit) before any name resolution or connection')
        return
    if bad:
        # a targets file: the offending line must not be resolved/dialled, and the run must not report success
        for h, p in bad:
            if any(r[0] == h and r[1] == p for r in obs['resolves']) or any(c[2] == p for c in obs['connects']):
                fail('invalid_port_not_rejected', case, {'resolves': obs['resolves'], 'connects': obs['connects']}, 'no network call for %s port %d' % (h, p))
        if obs['code'] == 0:
            fail('invalid_port_not_rejected', case, {'code': 0}, 'non-zero exit status')
        targets = [t for t in targets if port_ok(t[1])]
        check_labels = False
    else:
        check_labels = True
    if not targets and case['mode'] == 'file':
        return
    # exactly the named host/port/family is resolved
    want_res = uniq([[h, p, fam] for h, p in targets])
    got_res = uniq(obs['resolves'])
    if sorted(map(json.dumps, got_res)) != sorted(map(json.dumps, want_res)):
        wrong_family = sorted(map(json.dumps, [r[:2] for r in got_res])) == sorted(map(json.dumps, [r[:2] for r in want_res]))
        fail('wrong_family_resolved' if wrong_family else 'wrong_target_resolved', case, {'resolves': got_res}, {'resolves': want_res})
        return
    # exactly the first address of the requested order is dialled, on the named port
    want_con = []
    for h, p in targets:
        r = expected_dial(case['rows'], h, case['flags'])
        if r is not None:
            want_con.append([r[1], r[3], p])
    want_con = uniq(want_con)
    got_con = uniq(obs['connects'])
    if sorted(map(json.dumps, got_con)) != sorted(map(json.dumps, want_con)):
        rows_by_ip = {r[3]: r for r in case['rows']}
        same_hosts = len(got_con) == len(want_con) and all(
            g[2] == w[2] and rows_by_ip.get(g[1], [None])[0] == rows_by_ip.get(w[1], [None])[0] for g, w in zip(got_con, want_con))
        both = len(uniq(case['flags'])) == 2
        if same_hosts and both and case['flags'][0] == '6':
            kind = 'ip_version_order_ignored'
        elif same_hosts:
            kind = 'wrong_address_dialled'
        else:
            kind = 'wrong_target_dialled'
        fail(kind, case, {'connects': got_con}, {'connects': want_con, 'note': 'first address of the requested family order'})
        return
    if not check_labels:
        return
    if st != 'ran':
        if all(expected_dial(case['rows'], h, case['flags']) is not None and expected_dial(case['rows'], h, case['flags'])[3] in case['ups'] for h, p in targets):
            fail('run_failed', case, {'code': obs['code'], 'tail': obs['out'][-300:]}, 'a report for every reachable target')
        return
    lab = labels_of(case, obs['out'])
    reach = [(h, p) for h, p in targets if (lambda r: r is not None and r[3] in case['ups'])(expected_dial(case['rows'], h, case['flags']))]
    if case['out'] == 'json':
        want = sorted(uniq(['%s:%d' % (h, p) for h, p in reach]))
        if sorted(uniq(lab['json'])) != want:
            fail('wrong_json_label', case, {'labels': lab['json']}, {'labels': want})
    else:
        if case['out'] == 'text':
            want_v = sorted(uniq([('[%s]:%d' if is_v6_literal(h) else '%s:%d') % (h, p) for h, p in targets]))
            if sorted(uniq(lab['verbose'])) != want_v:
                fail('wrong_verbose_label', case, {'labels': lab['verbose']}, {'labels': want_v})
        if case['mode'] == 'file' or case['out'] == 'policy':
            want_t = sorted(uniq([spec_label(h, p) for h, p in reach]))
            if sorted(uniq(lab['text'])) != want_t:
                fail('wrong_text_label', case, {'labels': lab['text']}, {'labels': want_t})
            for l in lab['text']:
                try:
                    hp = spec_reparse(l)
                except ValueError:
                    hp = None
                if hp not in reach:
                    fail('label_not_reparseable', case, {'label': l, 'reads_as': hp}, {'one of': reach})


def oracle_unit(kind, inp, fail):
    """unit-level oracles on the real functions; inp carries the ground truth"""
    from ssh_audit.utils import Utils
    if kind == 'parse':
        text, dflt, h, p = inp['text'], inp['default'], inp['host'], inp['port']
        want = [h, dflt if p is None else p]
        got = guard(lambda: list(Utils.parse_host_and_port(text, dflt)))
        if got != {'ok': want}:
            fail('parse_wrong', {'level': 'parse', **inp}, got, {'ok': want})
    elif kind == 'cmdline':
        got = impl_cmdline(inp['text'], inp['oport'], inp['flags'], False, None, inp.get('pstyle', 'sep'), inp.get('fstyle', 'cluster'))
        dflt = 22 if inp['oport'] is None else inp['oport']
        port = dflt if inp['port'] is None else inp['port']
        if not port_ok(port) or not port_ok(dflt):
            if 'ok' in got:
                fail('invalid_port_not_rejected', {'level': 'cmdline', **inp}, got, 'rejected')
            return
        if 'ok' not in got or got['ok']['host'] != inp['host'] or got['ok']['port'] != port:
            fail('cmdline_wrong_target', {'level': 'cmdline', **inp}, got, {'host': inp['host'], 'port': port})
            return
        want_pref = uniq([int(c) for c in inp['flags']])
        if got['ok']['pref'] != want_pref:
            kind2 = 'ip_version_order_ignored' if sorted(got['ok']['pref']) == sorted(want_pref) else 'ip_version_wrong'
            fail(kind2, {'level': 'cmdline', **inp}, {'ip_version_preference': got['ok']['pref']}, {'ip_version_preference': want_pref})
    elif kind == 'file':
        got = impl_cmdline('', inp['oport'], '', False, inp['file_text'])
        want = inp['targets']
        if 'ok' not in got or got['ok']['targets'] != want:
            fail('file_targets_wrong', {'level': 'file', **inp}, got.get('ok', got).get('targets', got) if 'ok' in got else got, want)
    elif kind == 'order':
        got = guard(lambda: impl_order(inp['pref'], inp['rows']))
        rows = [r for r in inp['rows'] if r[2] == socket.SOCK_STREAM]
        if len(inp['pref']) == 2:
            first = AF4 if inp['pref'][0] == '4' else AF6
            rows = [r for r in rows if r[1] == first] + [r for r in rows if r[1] != first]
        want = {'ok': [[r[1], r[3]] for r in rows]}
        if got != want:
            fail('wrong_address_order', {'level': 'order', **inp}, got, want)
    elif kind == 'label':
        h, p = inp['host'], inp['port']
        got = guard(lambda: impl_labels(h, p))
        want = [spec_label(h, p), '%s:%d' % (h, p)]
        if got != {'ok': want}:
            fail('wrong_text_label' if 'ok' in got and got['ok'][1] == want[1] else 'wrong_json_label', {'level': 'label', **inp}, got, want)
        elif spec_reparse(want[0]) != (h, p):
            fail('label_not_reparseable', {'level': 'label', **inp}, want[0], [h, p])


# ---------------------------------------------------------------- generators

LABEL_CH = 'abcdefghijklmnopqrstuvwxyz0123456789'


def gen_name(r):
    k = r.choice([1, 1, 2, 3, 4])
    labels = []
    for _ in range(k):
        n = r.choice([1, 2, 3, 8, r.randint(1, 20)])
        s = ''.join(r.choice(LABEL_CH + '-_') for _ in range(n))
        labels.append(s.strip('-') or 'x')
    s = '.'.join(labels)
    if r.random() < 0.1:
        s = s.upper()
    if r.random() < 0.05:
        s += '.'
    return s


def gen_ipv4(r):
    return '.'.join(str(r.choice([0, 1, 10, 127, 192, 255, r.randint(0, 255)])) for _ in range(4))


def gen_hextet(r):
    v = r.choice([0, 1, 0xdb8, 0xffff, 0xfe80, r.getrandbits(16), r.getrandbits(8)])
    s = '%x' % v
    if r.random() < 0.2:
        s = s.zfill(4)
    if r.random() < 0.15:
        s = s.upper()
    return s


def gen_ipv6(r):
    form = r.choice(['full', 'compressed', 'compressed', 'mapped', 'lit', 'auto', 'scoped'])
    if form == 'lit':
        return r.choice(['::1', '::', '2001:db8::1', 'fe80::1', '::ffff:192.0.2.1', '2001:db8:0:0:0:0:0:1', '1::', 'ff02::2', '::2:3:4:5:6:7:8', '1:2:3:4:5:6:7::'])
    if form == 'full':
        return ':'.join(gen_hextet(r) for _ in range(8))
    if form == 'auto':
        return str(ipaddress.IPv6Address(r.getrandbits(128) if r.random() < 0.5 else r.getrandbits(128) & ~(((1 << 64) - 1) << r.choice([0, 16, 32, 48]))))
    if form == 'mapped':
        pre = r.choice(['::ffff:', '::', '64:ff9b::', '1:2:3:4:5:6:'])
        return pre + gen_ipv4(r)
    if form == 'scoped':
        return r.choice(['fe80::1', 'fe80::' + gen_hextet(r)]) + '%' + r.choice(['eth0', '1', 'en0', 'lo'])
    n = r.randint(0, 6)
    k = r.randint(0, n)
    hs = [gen_hextet(r) for _ in range(n)]
    return ':'.join(hs[:k]) + '::' + ':'.join(hs[k:])


def gen_host(r):
    k = r.random()
    if k < 0.3:
        return gen_name(r), 'name'
    if k < 0.5:
        return gen_ipv4(r), 'ipv4'
    h = gen_ipv6(r)
    assert is_v6_literal(h), h
    return h, 'ipv6'


VALID_PORTS = [1, 2, 21, 22, 23, 80, 222, 2222, 8022, 22222, 65534, 65535]
INVALID_PORTS = [0, 65536, -1, 99999, 65537, 1 << 16, 1 << 31, 1 << 32, -22, 10 ** 9]


def gen_port(r, invalid=False, kind=None):
    if invalid:
        p = r.choice(INVALID_PORTS + [r.randint(65536, 200000), -r.randint(1, 70000)])
        return 65535 - p if (p < 0 and kind == 'ipv6') else p
    return r.choice(VALID_PORTS + [r.randint(1, 65535)] * 6)


def spell(r, h, kind, p):
    """a documented spelling of (h, p|None) -> text, spelling name ("[h6]:-1" is not one: the bracket form takes digits only)"""
    assert not (kind == 'ipv6' and p is not None and p < 0)
    pt = None if p is None else (str(p) if (p < 0 or r.random() < 0.9) else str(p).zfill(r.randint(1, 7)))
    if kind == 'ipv6':
        if p is None:
            return (h, 'v6-bare') if r.random() < 0.6 else ('[%s]' % h, 'v6-bracket')
        return '[%s]:%s' % (h, pt), 'v6-bracket-port'
    if p is None:
        return h, kind + '-bare'
    return '%s:%s' % (h, pt), kind + '-port'


def gen_rows(r, hosts):
    """resolver table: for every host some addresses of both families in random order; unique IPs"""
    rows, n = [], [0]

    def fresh(af):
        n[0] += 1
        return ('10.%d.%d.%d' % (r.randint(0, 255), n[0] // 250, n[0] % 250 + 1)) if af == AF4 else ('2001:db8:%x::%x' % (r.getrandbits(12), n[0]))
    for h in uniq(hosts):
        shape = r.choice(['4', '6', '46', '64', '446', '664', '4646', '6464', '6644', '', '44', '66', 'd46', '4d6', '6d4'])
        lit = None
        try:
            lit = ipaddress.ip_address(h.split('%')[0])
        except ValueError:
            pass
        if lit is not None and r.random() < 0.7:
            rows.append([h, AF4 if lit.version == 4 else AF6, 1, h])
            continue
        for c in shape:
            if c == 'd':
                rows.append([h, r.choice([AF4, AF6]), 2, fresh(AF4)])
            else:
                af = AF4 if c == '4' else AF6
                rows.append([h, af, 1, fresh(af)])
    return rows


FLAG_CHOICES = ['', '', '', '4', '6', '46', '64', '44', '66', '464', '646']
WS = [' ', '\t', '  ', ' \t ', '\x0b', '\x0c', '\x1c', '\x1f', '\x85', '\xa0', ' ', '　']
EOLS = ['\n', '\n', '\n', '\r\n', '\r\n', '\r']


def decorate_file(r, texts):
    """a targets file with the given target texts, indentation, trailing blanks, blank/whitespace-only lines, mixed EOLs"""
    out = []
    for i, t in enumerate(texts):
        while r.random() < 0.3:
            out.append(r.choice(['', '', ' ', '\t', '   ', '\x0c', ' \t ', '\xa0']) + r.choice(EOLS))
        pre = r.choice(WS) if r.random() < 0.3 else ''
        post = r.choice(WS) if r.random() < 0.3 else ''
        eol = r.choice(EOLS)
        if i == len(texts) - 1 and r.random() < 0.3:
            eol = ''
        out.append(pre + t + post + eol)
    while r.random() < 0.3:
        out.append(r.choice(['', ' ', '\t']) + r.choice(EOLS + ['']))
    return ''.join(out)


def gen_run_case(r, invalid=False, hostile=False):
    mode = r.choice(['single', 'single', 'file'])
    oport = None if r.random() < 0.5 else gen_port(r)
    flags = r.choice(FLAG_CHOICES)
    case = {'level': 'run', 'mode': mode, 'oport': oport, 'flags': flags, 'fstyle': r.choice(['cluster', 'sep', 'long']),
            'pstyle': r.choice(['sep', 'eq', 'long']), 'out': r.choice(['text', 'text', 'text', 'json', 'json', 'policy'])}
    n = 1 if mode == 'single' else r.choice([1, 2, 3, 5])
    truth, texts, tags = [], [], []
    kinds = []
    for _ in range(n):
        if truth and r.random() < 0.35:
            # the same host again (another port, or the same one): what one target did must not leak into the next (seed C18-7)
            j = r.randrange(len(truth))
            h, kind = truth[j][0], kinds[j]
            tags.append('host-repeated')
        else:
            h, kind = gen_host(r)
        kinds.append(kind)
        p = None if r.random() < 0.4 else gen_port(r)
        t, sp = spell(r, h, kind, p)
        truth.append([h, p])
        texts.append(t)
        tags.append(sp)
    if invalid:
        which = r.choice(['option', 'target', 'target'])
        if which == 'option':
            case['oport'] = gen_port(r, invalid=True)
        else:
            i = r.randrange(n)
            h, kind = gen_host(r)
            p = gen_port(r, invalid=True, kind=kind)
            texts[i], _ = spell(r, h, kind, p)
            truth[i] = [h, p]
        tags.append('invalid-port-' + which)
    if hostile:
        i = r.randrange(n)
        texts[i] = mutate_target(r, texts[i])
        truth = None
        tags.append('hostile-spelling')
    hosts = [h for h, _ in truth] if truth is not None else [x for t in texts for x in hostile_hosts(t)]
    case['rows'] = gen_rows(r, hosts)
    ips = uniq([row[3] for row in case['rows']])
    case['ups'] = [ip for ip in ips if r.random() < 0.85]
    if mode == 'single':
        case['host_arg'] = texts[0]
    else:
        case['file_text'] = decorate_file(r, texts) if not hostile else '\n'.join(texts) + '\n'
    case['truth'] = truth
    tags += ['mode-' + mode, 'out-' + case['out'], 'flags-' + (flags or 'none'), 'p-' + ('absent' if case['oport'] is None else 'present')]
    return case, tags


def grid_runs(r):
    """boundary grid: every boundary port (valid and invalid) x host kind x {command line, targets file} x {in the target, as -p}"""
    out = []
    hosts = [('example.com', 'name'), ('192.0.2.7', 'ipv4'), ('2001:db8::7', 'ipv6'), ('2001:0db8:0000:0000:0000:0000:0000:0007', 'ipv6'), ('::ffff:192.0.2.7', 'ipv6')]
    for p in [1, 21, 22, 23, 2222, 65535, 0, 65536, -1, 99999]:
        for h, kind in hosts:
            for mode in ('single', 'file'):
                for where in ('target', 'option'):
                    if p < 0 and kind == 'ipv6' and where == 'target':
                        continue
                    flags = r.choice(['', '4', '6', '46'])
                    case = {'level': 'run', 'mode': mode, 'flags': flags, 'fstyle': 'cluster', 'pstyle': 'sep', 'out': r.choice(['text', 'json'])}
                    if where == 'target':
                        text, sp = spell(r, h, kind, p)
                        case['oport'] = r.choice([None, 2222])
                        case['truth'] = [[h, p]]
                    else:
                        text, sp = spell(r, h, kind, None)
                        case['oport'] = p
                        case['truth'] = [[h, None]]
                    case['rows'] = gen_rows(r, [h])
                    case['ups'] = uniq([row[3] for row in case['rows']])
                    if mode == 'single':
                        case['host_arg'] = text
                    else:
                        case['file_text'] = decorate_file(r, [text])
                    out.append((case, ['grid', 'grid-port-%s' % ('valid' if port_ok(p) else 'invalid'), 'grid-' + where, 'mode-' + mode, sp]))
    return out


def hostile_hosts(t):
    """host strings a hostile spelling might resolve to (so that the resolver table has rows for them)"""
    from ssh_audit.utils import Utils
    out = [t, t.strip()]
    try:
        out.append(Utils.parse_host_and_port(t.strip(), 22)[0])
    except ValueError:
        pass
    return out


def mutate_target(r, t):
    k = r.choice(['colon', 'nobracket', 'emptyport', 'alpha', 'double', 'space', 'sign', 'unders', 'brk-empty', 'trail', 'lead-colon', 'emptyhost'])
    if k == 'colon':
        return t + ':'
    if k == 'nobracket':
        return t.replace(']', '', 1) if ']' in t else '[' + t
    if k == 'emptyport':
        return t.split(':')[0] + ':'
    if k == 'alpha':
        return t + r.choice([':ssh', ':22a', ':0x16', ':2 2'])
    if k == 'double':
        return t + ':22:23'
    if k == 'space':
        return t.replace(':', ': ', 1) if ':' in t else t + ': 22'
    if k == 'sign':
        return (t.rsplit(':', 1)[0] if ':' in t and '[' not in t and t.count(':') == 1 else 'h') + r.choice([':+22', ':-22', ':+0', ':-0'])
    if k == 'unders':
        return 'h:' + r.choice(['2_2', '2__2', '_22', '22_', '6_5_5_3_5', '6_5_5_3_6'])
    if k == 'brk-empty':
        return r.choice(['[]', '[]:22', '[h]:', '[h]x', '[h]:22x', '[[::1]]:22', '[::1]]:22', '[a]b]:22'])
    if k == 'trail':
        return t + r.choice(['x', ']', '['])
    if k == 'lead-colon':
        return ':' + t
    return r.choice([':22', ':', '::', '[', ']'])


PARSE_ALPH = list('[]::::..%/ _-+09a1f') + ['\n', '\t', '22', '::', ']:', '[', 'h', '\r', '\x1c', '\xa0']


def gen_parse_noise(r):
    n = r.choice([0, 1, 2, 3, 5, 8, r.randint(0, 14)])
    return ''.join(r.choice(PARSE_ALPH) for _ in range(n))


def gen_int_text(r):
    core = r.choice(['0', '22', '65535', '65536', '007', '1_0', '1__0', '_1', '1_', '', '+', '-', '+5', '-5', '--5', '+-5', '0x10', '1e3', '2 2',
                     str(r.randint(0, 10 ** r.choice([1, 5, 6, 12, 30]))), '9' * r.choice([1, 10, 100]), 'a', '1a', '1.0'])
    pre = r.choice(['', '', ' ', '\t', '\n', '\x0b', '\x1c', '\x1f', '\x85', '\xa0', ' ', ' \t'])
    post = r.choice(['', '', ' ', '\n', '\r\n', '\x1d', '\xa0', '　', '\x00'])
    return pre + core + post


def gen_v6_noise(r):
    base = gen_ipv6(r) if r.random() < 0.7 else r.choice([gen_ipv4(r), gen_name(r), '', ':', '::', ':::', '1::2::3', '1:2:3:4:5:6:7:8:9', '1:2:3:4:5:6:7', '::1.2.3', '::1.2.3.256',
                                                           '::01.2.3.4', '::1.2.3.4.5', '1:2:3:4:5:6:7:1.2.3.4', '1:2:3:4:5:6:1.2.3.4', '::g', '12345::', ':1::', '::1:', '1::%', '1::%a%b', '1::/64', '::%/'])
    k = r.choice(['none', 'none', 'del', 'ins', 'rep', 'dup'])
    if base and k != 'none':
        i = r.randrange(len(base))
        c = r.choice(':.%/0g1fF ')
        if k == 'del':
            base = base[:i] + base[i + 1:]
        elif k == 'ins':
            base = base[:i] + c + base[i:]
        elif k == 'rep':
            base = base[:i] + c + base[i + 1:]
        else:
            base = base[:i] + base[i] + base[i:]
    return base


def gen_file_noise(r):
    parts = []
    for _ in range(r.choice([0, 1, 2, 4, 8])):
        parts.append(r.choice(['', ' ', '\t', 'h', 'host:22', '[::1]:2222', '  h2  ', '\x0c', '\xa0', 'a b', '#c', '\x1c', 'x\x0by', ' ', 'é']))
        parts.append(r.choice(['\n', '\r\n', '\r', '\n\n', '\r\r\n', '\n\r', '', ' ']))
    return ''.join(parts)


def build_unit_cases(ctx):
    """(op, arg, tags, oracle-kind, oracle-input)"""
    r = ctx.rng
    cases = []
    # corpus first: the D18 / D19 / D33 witnesses (all repaired in /repo: must pass)
    cases.append(('target.cmdline', ('[::1]', 2222, '', False, None), ['corpus-D18'], 'cmdline', {'text': '[::1]', 'oport': 2222, 'flags': '', 'host': '::1', 'port': None}))
    cases.append(('target.cmdline', ('10.0.0.1:22', 2222, '', False, None), ['corpus-D18'], 'cmdline', {'text': '10.0.0.1:22', 'oport': 2222, 'flags': '', 'host': '10.0.0.1', 'port': 22}))
    cases.append(('target.file', 'a\n \t \nb\n', ['corpus-D19'], 'file', {'file_text': 'a\n \t \nb\n', 'oport': None, 'targets': ['a', 'b']}))
    cases.append(('target.cmdline', ('h', None, '64', False, None), ['corpus-D33'], 'cmdline', {'text': 'h', 'oport': None, 'flags': '64', 'host': 'h', 'port': None}))
    cdir = os.path.join(VERIF, 'corpus')
    for p in sorted(os.listdir(cdir)) if os.path.isdir(cdir) else []:
        if p.startswith('C18') and p.endswith('.json'):
            for c in json.load(open(os.path.join(cdir, p))):
                if c.get('op') == 'target.parse':
                    cases.append(('target.parse', (c['text'], c.get('default', 22)), ['corpus'], None, None))
    # documented spellings (ground truth known)
    for _ in range(ctx.scale(2500, 40000)):
        h, kind = gen_host(r)
        p = None if r.random() < 0.35 else gen_port(r, invalid=r.random() < 0.08, kind=kind)
        t, sp = spell(r, h, kind, p)
        d = r.choice([22, 22, 2222, gen_port(r)])
        cases.append(('target.parse', (t, d), ['parse', sp], 'parse', {'text': t, 'default': d, 'host': h, 'port': p}))
    for p in [1, 21, 22, 23, 2222, 65535, 0, 65536, -1, 99999]:
        for h, kind in (('example.com', 'name'), ('192.0.2.7', 'ipv4'), ('2001:db8::7', 'ipv6'), ('::1', 'ipv6'), ('2001:0db8:0000:0000:0000:0000:0000:0007', 'ipv6'), ('::ffff:192.0.2.7', 'ipv6')):
            if p < 0 and kind == 'ipv6':
                continue    # "[h6]:-1" is not a spelling of anything (the bracket form takes digits only)
            t = ('[%s]:%d' if kind == 'ipv6' else '%s:%d') % (h, p)
            cases.append(('target.parse', (t, 22), ['parse', 'boundary-port'], 'parse', {'text': t, 'default': 22, 'host': h, 'port': p}))
    # hostile / arbitrary strings (correspondence only)
    for _ in range(ctx.scale(1500, 30000)):
        t = gen_parse_noise(r) if r.random() < 0.5 else mutate_target(r, spell(r, *gen_host(r), gen_port(r))[0])
        cases.append(('target.parse', (t, r.choice([22, 2222, 0, -5])), ['parse-noise'], None, None))
    for _ in range(ctx.scale(800, 10000)):
        cases.append(('target.int', gen_int_text(r), ['int'], None, None))
    for n in (4299, 4300, 4301):
        cases.append(('target.int', '1' * n, ['int', 'max-str-digits'], None, None))
        cases.append(('target.parse', ('h:' + '0' * n, 22), ['parse-noise', 'max-str-digits'], None, None))
    for _ in range(ctx.scale(1500, 30000)):
        cases.append(('target.isv6', gen_v6_noise(r), ['isv6'], None, None))
    for _ in range(ctx.scale(300, 5000)):
        cases.append(('target.strip', r.choice(WS + ['']) + gen_parse_noise(r) + r.choice(WS + ['']), ['strip'], None, None))
    # the command line
    for _ in range(ctx.scale(700, 12000)):
        h, kind = gen_host(r)
        inv = r.random() < 0.1
        p = None if r.random() < 0.4 else gen_port(r, invalid=inv and r.random() < 0.5, kind=kind)
        t, sp = spell(r, h, kind, p)
        oport = None if r.random() < 0.45 else gen_port(r, invalid=inv and r.random() < 0.6)
        flags = r.choice(FLAG_CHOICES)
        ps, fs = r.choice(['sep', 'eq', 'long']), r.choice(['cluster', 'sep', 'long'])
        cases.append(('target.cmdline', (t, oport, flags, False, None, ps, fs), ['cmdline', sp, 'flags-' + (flags or 'none'), 'p-' + ('absent' if oport is None else 'present')],
                      'cmdline', {'text': t, 'oport': oport, 'flags': flags, 'host': h, 'port': p, 'pstyle': ps, 'fstyle': fs}))
    for _ in range(ctx.scale(150, 3000)):
        t = mutate_target(r, spell(r, *gen_host(r), gen_port(r))[0])
        if t.startswith('-') or t == '':
            continue
        oport = r.choice([None, None, 2222, 0, 65536])
        cases.append(('target.cmdline', (t, oport, r.choice(FLAG_CHOICES), r.random() < 0.15, None), ['cmdline-noise'], None, None))
    for oport in (None, 1, 2222, 65535, 0, 65536):
        cases.append(('target.cmdline', ('', oport, '', True, None), ['cmdline-client-audit'], None, None))
    for f in FLAG_CHOICES + ['4466', '6446']:
        for st in ('cluster', 'sep', 'long'):
            cases.append(('target.pref', (f, st), ['pref'], None, None))
    # targets files
    for _ in range(ctx.scale(300, 6000)):
        texts = []
        for _ in range(r.choice([0, 1, 2, 3, 6])):
            h, kind = gen_host(r)
            texts.append(spell(r, h, kind, None if r.random() < 0.4 else gen_port(r))[0])
        ft = decorate_file(r, texts)
        oport = r.choice([None, None, 2222])
        cases.append(('target.file', ft, ['file', 'lines-%d' % min(len(texts), 3)], 'file', {'file_text': ft, 'oport': oport, 'targets': texts}))
    for _ in range(ctx.scale(300, 6000)):
        cases.append(('target.file', gen_file_noise(r), ['file-noise'], None, None))
    # resolver answers and family preference
    for _ in range(ctx.scale(300, 6000)):
        rows = gen_rows(r, ['h'])
        if r.random() < 0.3:
            rows = rows + gen_rows(r, ['h'])
        pref = r.choice(['', '4', '6', '46', '64', '46', '64'])
        cases.append(('target.order', (pref, rows), ['order', 'pref-' + (pref or 'none')], 'order', {'pref': pref, 'rows': rows}))
    # labels
    for _ in range(ctx.scale(250, 5000)):
        h, kind = gen_host(r)
        if r.random() < 0.15:
            h = r.choice(['1::2::3', 'fe80::1%', '[::1]', 'a:b', ':', 'x y', '::1.2.3', '%', 'fe80::1%eth0%1', '12345::', '1:2:3:4:5:6:7:8:9'])
        p = gen_port(r)
        truth_ok = is_v6_literal(h) or (':' not in h and '[' not in h and ']' not in h)
        cases.append(('target.label', (h, p), ['label', kind], 'label' if truth_ok and ']' not in h and '[' not in h else None, {'host': h, 'port': p}))
    return cases


# ---------------------------------------------------------------- run / replay

def mk_failer(failures):
    def fail(kind, inp, observed, expected):
        failures.append({'sig': {'kind': kind}, 'input': inp, 'observed': observed, 'expected': expected,
                         'how': 'harness/props/C18.py: level=%s on the real code (main() over harness/fakenet for level "run")' % inp.get('level')})
    return fail


def run(ctx):
    import fakenet  # noqa: F401  (harness dir is on sys.path)
    r = ctx.rng
    cov = Coverage('one evaluation per generated input: a target text given to parse_host_and_port / a command line given to process_commandline / '
                   'a targets file / a label request / a whole main() run on the fake network; non-trivial = distinct inputs other than a bare host name with all defaults')
    failures, mismatches = [], []
    fail = mk_failer(failures)
    units = build_unit_cases(ctx)
    lines = [line_of(op, arg) for op, arg, _, _, _ in units]
    model = ctx.driver(lines) if ctx.driver_ok else [None] * len(lines)
    for (op, arg, tags, okind, oinp), line, m in zip(units, lines, model):
        res = impl(op, arg)
        trivial = op == 'target.parse' and ':' not in arg[0] and arg[1] == 22
        cov.add((op, arg), not trivial, tags=tags, sample={'op': line[:160], 'impl': json.dumps(res)[:200]} if cov.evaluations % 1499 == 0 else None)
        if m is not None and canon_model(op, m) != res:
            mismatches.append({'stream': 'unit', 'op': line[:600], 'model': canon_model(op, m), 'impl': res})
        if okind is not None:
            oracle_unit(okind, oinp, fail)
    # whole runs
    runs = []
    d33 = {'level': 'run', 'mode': 'single', 'oport': None, 'flags': '64', 'fstyle': 'cluster', 'out': 'text', 'host_arg': 'dual.example',
           'rows': [['dual.example', AF4, 1, '10.0.0.4'], ['dual.example', AF6, 1, '2001:db8::6']], 'ups': ['10.0.0.4', '2001:db8::6'], 'truth': [['dual.example', None]]}
    runs.append((d33, ['corpus-D33']))
    # the same name listed on two ports, the name having several addresses per family (seed C18-7: address remembered per name, port included)
    for fl in ('', '4', '64'):
        runs.append(({'level': 'run', 'mode': 'file', 'oport': None, 'flags': fl, 'fstyle': 'cluster', 'pstyle': 'sep', 'out': 'text',
                      'file_text': 'multi.example\nmulti.example:2222\nmulti.example:22\n',
                      'rows': [['multi.example', AF4, 1, '10.0.0.4'], ['multi.example', AF4, 1, '10.0.0.5'], ['multi.example', AF6, 1, '2001:db8::6'], ['multi.example', AF6, 1, '2001:db8::7']],
                      'ups': ['10.0.0.4', '10.0.0.5', '2001:db8::6', '2001:db8::7'], 'truth': [['multi.example', None], ['multi.example', 2222], ['multi.example', 22]]},
                     ['corpus-same-name-two-ports', 'host-repeated']))
    runs += grid_runs(r)
    n_runs = ctx.scale(1500, 30000)
    for i in range(n_runs):
        k = r.random()
        runs.append(gen_run_case(r, invalid=k < 0.12, hostile=0.12 <= k < 0.27))
    rlines = [run_line(c) for c, _ in runs]
    rmodel = ctx.driver(rlines) if ctx.driver_ok else [None] * len(rlines)
    for (case, tags), line, m in zip(runs, rlines, rmodel):
        obs = observe(case)
        cov.add(('run', line), True, tags=['run'] + tags,
                sample={'argv': run_argv(case)[:-1] + ['<target>'], 'target': case.get('host_arg', case.get('file_text')), 'resolves': obs['resolves'][:2], 'connects': obs['connects'][:2]}
                if cov.evaluations % 499 == 0 else None)
        if m is not None:
            cm, ci = canon_model_run(case, m), canon_impl_run(case, obs)
            if cm != ci:
                mismatches.append({'stream': 'run', 'op': line[:600], 'argv': run_argv(case), 'model': cm, 'impl': ci})
        oracle_run(case, obs, fail)
    return {'failures': failures, 'mismatches': mismatches, 'coverage': cov,
            'corr_cases': (len(units) + len(runs)) if ctx.driver_ok else 0,
            'assumptions': [
                'argparse (stdlib) turns the argument vector into host / -p value / -4,-6 flags / -T path; the model starts from these values, the harness maps argv to them',
                'non-ASCII decimal digits (Unicode Nd), which CPython\'s \\d and int() accept, are outside the model and never generated',
                'the model\'s trace is one SSH_Socket.connect() per target; the real audit reconnects (host-key and GEX probes) through the same SSH_Socket, so logs are compared after removing repeated entries',
                'whole runs use --threads 1 (deterministic submission order) and --skip-rate-test (the DHEat rate test in dheat.py resolves on its own and is outside this property\'s anchors)',
                'the name resolver and the network are parameters of the model; the harness instantiates them with a table-driven resolver and an up/down set'],
            'observations': [
                'D30: the JSON "target" of an IPv6 host is host + ":" + port (e.g. "::1:2222"), which parse_host_and_port reads as a bare IPv6 host (theorem json_label_v6_not_reparsed); the text label "[::1]:2222" re-parses',
                'a single-target text report carries no target label unless -v is given ("Starting audit of …"); the targets-file report and the policy report always do',
                'an out-of-range or non-numeric port inside a target (command line or targets file) is rejected by an uncaught ValueError (traceback, exit status 1 of the interpreter), not by a usage message; in a targets file it aborts the whole run after the other workers finished, and their reports are lost',
                'an empty (or all-blank) targets file falls through to a single-target audit of the empty host name ""']}


def replay(obj):
    f = obj.get('failure', obj)
    inp = f['input']
    level = inp.get('level')
    fs = []
    fail = mk_failer(fs)
    print('replaying level=%s' % level)
    if level == 'run':
        print('argv:', run_argv(inp)[:-1] + [inp.get('host_arg', '<targets file: %r>' % inp.get('file_text'))])
        obs = observe(inp)
        print('exit status:', obs['code'])
        print('getaddrinfo calls:', uniq(obs['resolves']))
        print('connect calls (af, ip, port):', uniq(obs['connects']))
        print('labels:', labels_of(inp, obs['out']))
        oracle_run(inp, obs, fail)
        for x in fs[:3]:
            print('observed:', json.dumps(x['observed'], default=str)[:400], ' expected:', json.dumps(x['expected'], default=str)[:400])
    elif level in ('parse', 'cmdline', 'file', 'label', 'order'):
        print('input:', json.dumps({k: v for k, v in inp.items() if k != 'level'})[:600])
        oracle_unit(level, inp, fail)
        for x in fs:
            print('implementation answers:', json.dumps(x['observed'], default=str)[:400], ' expected:', json.dumps(x['expected'], default=str)[:300])
    else:
        print('unknown replay level')
        return 2
    print('property holds on this input' if not fs else 'PROPERTY FAILS: %s' % fs[0]['sig']['kind'])
    return 1 if fs else 0
