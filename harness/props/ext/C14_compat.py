"""C14 extension — the `(gen) compatibility:` and `(gen) software:` lines of the standard report.

Theorems: SshAudit.Props.C14Compat over the model SshAudit.Model.Compat (output_compatibility + the part of output() that prints the two lines,
on top of Version.sshTimeframe / compareVersion / display / parse): closed form of the line for every database, lists and role; lower bound =
greatest "appeared in" version, upper bound = smallest "removed in" version (Python str order in general, numeric by compareVersion on every
order-safe set and unconditionally on the regenerated tables; the proved negation for arbitrary tables); set function (permutations, repeats,
notes, post-processing); monotonicity; names without an entry; the role; Software.display in closed form; display ∘ parse for the banner
families; no parse ∘ display.
Tie (correspondence with the model through `compat.line`, `compat.custom`, `compat.general`, `compat.software`):
  A  generated name lists over the real database -> the real output_compatibility(out, algs, client_audit, for_server) in both roles;
  B  the real output() (text) for peers with recognised / unrecognised / absent banners, server and client audits, lists that differ per direction:
     every call of the `# general` section and the title of the recommendations section;
  C  every banner family x versions x patches x comments -> the real Banner.parse + Software.parse + str() / display(False), and Software objects directly;
  D  private databases (multi-digit components, several descriptors of one product, client-only descriptors, None entries, 0-4 version entries)
     through the real Algorithms.get_ssh_timeframe + output_compatibility;
  E  whole audits through the real main() over fakenet (server audits; client audits with -c), text, and the JSON document.
Oracle (no model involved): the range is recomputed from the database entries of the advertised names with an independent comparison (tuples of
ints; max of the "appeared in" versions, min of the "removed in" versions per product; the five shapes) and compared with the printed line; a client
audit prints no line; the same multiset of names in another order / with repeats prints the same line; one more name never widens a range; the
software text is recomputed from the banner fields by a table of the families.
"""
import json
import re

from common import Coverage, tstr, tstrs, toptstr, tbool
from props import report_common as rc

ID = 'C14'
MODULE = 'SshAudit.Props.C14Compat'
NAMESPACE = 'SshAudit.C14Compat'
THEOREMS = ['timeframe_from', 'timeframe_till', 'timeframe_contains', 'partOf_eq_form', 'compat_closed_form', 'compat_products',
            'form_omitted', 'form_open', 'form_single', 'form_range', 'form_inverted', 'form_shown_iff', 'form_prefix',
            'lower_is_greatest', 'upper_is_smallest', 'lower_unique', 'upper_unique', 'mem_sinces', 'mem_tills',
            'compat_set_function', 'compat_perm', 'compat_perm_peer', 'compat_repeat', 'compat_dedup', 'compat_ignores_notes', 'compat_after_postprocess',
            'bounds_monotone', 'add_name_monotone', 'add_name_monotone_numeric', 'gen_add_name_monotone',
            'name_without_entry_keeps_product', 'unknown_names_ignored', 'unknown_name_ignored', 'empty_versions_ignored',
            'role_slots', 'role_slots_disjoint', 'server_skips_client_only', 'client_audit_prints_nothing', 'output_uses_server_frame',
            'output_client_audit_no_line', 'compat_printed_iff',
            'compareVersion_versions', 'lower_numeric', 'upper_numeric', 'update_in_db', 'bounds_numeric_of_safe_db', 'gen_versions_wellformed', 'gen_db_safe',
            'gen_bounds_numeric', 'gen_bounds_numeric_ssh1', 'lower_bound_not_numeric_in_general', 'witness_line',
            'display_short', 'display_full', 'display_prefix', 'display_openssh_portable', 'display_other_patch', 'display_plain',
            'parse_openssh', 'software_line_openssh', 'parse_dropbear', 'parse_libssh', 'display_not_parsable', 'software_line_iff', 'no_banner_no_software',
            'general_items_compat', 'general_items_of_audit', 'software_of_audit', 'lines_option_free', 'parts_server_eq_ssh1', 'compat1_eq']

HOW = 'harness/props/ext/C14_compat.py: real output_compatibility() / output() / main() / Software in-process'
OPENSSH, DROPBEAR, LIBSSH = 'OpenSSH', 'Dropbear SSH', 'libssh'
SHOWN = (OPENSSH, DROPBEAR)
CATS = rc.CATS
PREFIX = '(gen) compatibility: '
SWPREFIX = '(gen) software: '


# ---------------------------------------------------------------- independent specification (oracle side; no model, no timeframe.py)

def num(v):
    return tuple(int(x) for x in v.split('.'))


def is_version(v):
    return re.fullmatch(r'[0-9]+(\.[0-9]+)*', v) is not None


def desc_fields(d):
    """(product, version, client-only) of one database descriptor, by the documented prefix convention"""
    cli = d.endswith('C')
    if cli:
        d = d[:-1]
    if d.startswith('d'):
        return DROPBEAR, d[1:], cli
    if d.startswith('l1'):
        return LIBSSH, d[2:], cli
    return OPENSSH, d, cli


def role_entries(vs, for_server):
    """the two entries of a version list a role reads: (appeared in, removed in)"""
    vs = list(vs)
    since = vs[0] if len(vs) >= 1 else None
    if for_server:
        till = vs[1] if len(vs) >= 2 else None
    else:
        till = vs[2] if len(vs) >= 3 else (vs[1] if len(vs) == 2 else None)
    return since, till


def product_version(entry, product, for_server):
    """the version one descriptor list states for a product in a role; ('ambiguous',) when the list names the product more than once"""
    if entry is None:
        return None
    found = []
    for d in entry.split(','):
        p, v, cli = desc_fields(d)
        if p != product or v == '' or (cli and for_server):
            continue
        found.append(v)
    if not found:
        return None
    if len(found) > 1:
        return ('ambiguous',)
    return found[0]


def spec_bounds(version_lists, for_server):
    """{product: (lower, upper)} by numeric max / min over the advertised algorithms' entries; None when the inputs are outside the oracle's reach"""
    out = {}
    for p in SHOWN:
        los, his = [], []
        for vs in version_lists:
            since, till = role_entries(vs, for_server)
            a, b = product_version(since, p, for_server), product_version(till, p, for_server)
            if isinstance(a, tuple) or isinstance(b, tuple):
                return None
            if a is not None:
                los.append(a)
            if b is not None:
                his.append(b)
        if not all(is_version(v) for v in los + his):
            return None
        # numerically equal versions spelled differently (7.4 / 7.04) have no single expected spelling
        for grp in (los, his):
            if len({num(v) for v in grp}) != len(set(grp)):
                return None
        lo = max(los, key=num) if los else None
        hi = min(his, key=num) if his else None
        out[p] = (lo, hi)
    return out


def spec_line(version_lists, client, for_server):
    """the text after '(gen) compatibility: ' the property demands (None: no line); 'unreachable' when the oracle does not apply"""
    if client:
        return None
    b = spec_bounds(version_lists, for_server)
    if b is None:
        return 'unreachable'
    parts = []
    for p in SHOWN:
        lo, hi = b[p]
        if lo is None:
            continue
        if hi is None:
            parts.append('%s %s+' % (p, lo))
        elif lo == hi:
            parts.append('%s %s' % (p, lo))
        elif num(lo) == num(hi):
            return 'unreachable'
        elif num(lo) > num(hi):
            parts.append('%s %s+ (some functionality from %s)' % (p, lo, hi))
        else:
            parts.append('%s %s-%s' % (p, lo, hi))
    return ', '.join(parts) if parts else None


PART_RX = re.compile(r'^(OpenSSH|Dropbear SSH) ([0-9.]+)(?:(\+)|\+ \(some functionality from ([0-9.]+)\)|-([0-9.]+))?$')


def parse_line(text):
    """{product: (lower, upper | None)} from a printed line (None: not parsable)"""
    out = {}
    if text is None:
        return out
    for part in text.split(', '):
        m = PART_RX.match(part)
        if m is None:
            return None
        lo = m.group(2)
        hi = m.group(4) or m.group(5) or (None if m.group(3) else lo)
        out[m.group(1)] = (lo, hi)
    return out


def order_safe(version_lists, for_server):
    """within every slot the line reads — the "appeared in" versions of a product, and its "removed in" versions — any two versions are ordered by str < as by their
    numbers (what C14.db_versions_order_safe states of the real tables).  Lower against upper bound needs no such condition: that comparison is compare_version."""
    for p in SHOWN:
        los, his = [], []
        for vs in version_lists:
            since, till = role_entries(vs, for_server)
            for entry, acc in ((since, los), (till, his)):
                if entry is None:
                    continue
                for d in entry.split(','):
                    q, v, cli = desc_fields(d)
                    if q == p and v != '' and not (cli and for_server):
                        acc.append(v)
        for grp in (los, his):
            s = sorted(set(grp))
            if not all(is_version(v) for v in s):
                return False
            for a in s:
                for b in s:
                    if a != b and ((a < b) != (num(a) < num(b)) or num(a) == num(b)):
                        return False
    return True


def db_versions(cat, name):
    from ssh_audit.ssh2_kexdb import SSH2_KexDB
    d = SSH2_KexDB.MASTER_DB[cat].get(name)
    return None if d is None else list(d[0])


def lists_versions(lists):
    """version lists of the advertised names the real database knows (kex, key, enc, mac)"""
    out = []
    for cat, names in zip(CATS, lists):
        for n in names:
            vs = db_versions(cat, n)
            if vs is not None:
                out.append(vs)
    return out


# software text: a table of the families, written independently of software.py

FAMILIES = {
    'OpenSSH_': (None, 'OpenSSH', True), 'dropbear_': (None, 'Dropbear SSH', False), 'libssh-': (None, 'libssh', True), 'libssh_': (None, 'libssh', True),
    'RomSShell_': ('Allegro Software', 'RomSShell', False), 'mpSSH_': ('HP', 'iLO (Integrated Lights-Out) sshd', False),
    'Cisco-': ('Cisco', 'IOS/PIX sshd', False), 'tinyssh_': (None, 'TinySSH', False), 'PuTTY_Release_': (None, 'PuTTY', False), 'lancom': ('LANcom', 'LCOS sshd', False)}
NO_PATCH = ('mpSSH_', 'Cisco-', 'tinyssh_', 'PuTTY_Release_', 'lancom')
OS_OF = {None: None, 'Debian-5': None, 'Ubuntu-4ubuntu0.5': None, 'FreeBSD-20170902': 'FreeBSD (2017-09-02)', 'NetBSD_Secure_Shell-20080403': 'NetBSD (2008-04-03)',
         'FreeBSD': 'FreeBSD', 'NetBSD': 'NetBSD', 'in RemotelyAnywhere 5.21.422': 'Microsoft Windows (RemotelyAnywhere 5.21.422)'}


def spec_software(family, version, patch, comments, full=True):
    """the software text for a banner `<family><version><patch>` with the given comments, from the table above"""
    vendor, product, has_os = FAMILIES[family]
    r = (vendor + ' ' if vendor else '') + product + ' ' + (version + patch if family in ('tinyssh_', 'PuTTY_Release_', 'lancom') else version)
    if not full:
        return r
    if family not in NO_PATCH and patch:
        p = patch.lstrip('-_.')
        if product == 'OpenSSH' and len(p) >= 2 and p[0] == 'p' and p[1] in '0123456789':
            r += p[:2]
            p = p[2:].strip()
        if p:
            r += ' (%s)' % p
    if has_os and OS_OF[comments]:
        r += ' running on ' + OS_OF[comments]
    return r


def spec_display(vendor, product, version, patch, os_, full):
    """Software.display for explicit fields (oracle side, written without the regular expression)"""
    r = ''
    if vendor:
        r += vendor + ' '
    r += product
    if version:
        r += ' ' + version
    if not full:
        return r
    p = patch or ''
    if product == 'OpenSSH' and len(p) >= 2 and p[0] == 'p' and p[1] in '0123456789' and '\n' not in p[2:]:
        r += p[:2]
        p = p[2:].strip()
    if p:
        r += ' (%s)' % p
    if os_:
        r += ' running on ' + os_
    return r


# ---------------------------------------------------------------- the implementation

def impl_compat(lists, client, for_server, fresh=True):
    """the real output_compatibility on a recording buffer: the text after the prefix (None: nothing printed); anything else printed is returned as a list"""
    from ssh_audit import ssh_audit as sa
    from ssh_audit.algorithms import Algorithms
    import fakenet
    if fresh:
        fakenet.reset_dbs()
    peer = rc.mk_peer(*lists)
    out = rc.recording_buffer()
    sa.output_compatibility(out, Algorithms(None, rc.mk_kex(peer)), client, for_server)
    return records_line(out.records)


def records_line(records):
    lines = [r for r in records if r[1].startswith(PREFIX)]
    other = [r for r in records if not r[1].startswith(PREFIX)]
    if other or len(lines) > 1:
        return {'unexpected_calls': [list(map(str, r)) for r in records][:4]}
    if not lines:
        return None
    level, s, always, _ = lines[0]
    if level != 'good' or always:
        return {'unexpected_calls': [list(map(str, lines[0]))]}
    return s[len(PREFIX):]


def custom_algs(entries, names):
    """an Algorithms object over a private one-category database (the real get_ssh_timeframe walks it)"""
    from ssh_audit.algorithms import Algorithms

    class A(Algorithms):
        def __init__(self):
            Algorithms.__init__(self, None, None)

        @property
        def values(self):
            item = Algorithms.Item(2, {'kex': {n: [list(vs)] for n, vs in entries}})
            item.add('kex', list(names))
            yield item
    return A()


def impl_custom(entries, names, client, for_server):
    from ssh_audit import ssh_audit as sa
    out = rc.recording_buffer()
    sa.output_compatibility(out, custom_algs(entries, names), client, for_server)
    return records_line(out.records)


def general_records(out):
    """the calls of the `# general` section, in order: [level, text, always_print] (every one of them starts with '(gen) '; batch mode prints no section
    heading, so the section ends at the first call that is not such a line); and the title of the recommendations section (None when absent or in batch mode)"""
    items, title = [], None
    in_general = True
    for level, s, always, _ in out.records:
        if level == 'head':
            in_general = False
            if s.startswith('# algorithm recommendations'):
                title = s
        elif in_general and s.startswith('(gen) '):
            items.append([level, s, bool(always)])
        else:
            in_general = False
    return items, title


def impl_general(case):
    from ssh_audit import ssh_audit as sa
    from ssh_audit.auditconf import AuditConf
    from ssh_audit.banner import Banner
    import fakenet
    fakenet.reset_dbs()
    peer = rc.mk_peer(case['kex'], case['key'], case['enc'], case['mac'], comp=case['comp'], enc_c=case.get('enc_c'), mac_c=case.get('mac_c'))
    out = rc.recording_buffer()
    out.batch, out.verbose, out.level, out.use_colors = case.get('batch', True), False, 'info', False
    aconf = AuditConf('h', case.get('port', 22))
    aconf.batch, aconf.verbose, aconf.level, aconf.colors = out.batch, False, 'info', False
    banner = Banner.parse(case['banner']) if case['banner'] is not None else None
    sa.output(out, aconf, banner, list(case.get('header', [])), client_host=('10.1.1.1' if case['client'] else None), kex=rc.mk_kex(peer),
              print_target=case.get('print_target', False))
    items, title = general_records(out)
    return items, title, banner


def target_text(port):
    return 'h' if port == 22 else 'h:%d' % port


def impl_software(sw_token, comments):
    """(str(software) | None, display(False) | None) for a banner whose software / comments fields are given"""
    from ssh_audit.banner import Banner
    from ssh_audit.software import Software
    s = Software.parse(Banner((2, 0), sw_token, comments, True))
    return (None, None) if s is None else (str(s), s.display(False))


# ---------------------------------------------------------------- model lines

def line_compat(lists, client, for_server):
    return 'compat.line %s %s %s %s %s %s' % (tbool(client), tbool(for_server), tstrs(lists[0]), tstrs(lists[1]), tstrs(lists[2]), tstrs(lists[3]))


def t_entry(n, vs):
    return '%s=%s' % (tstr(n), '_' if len(vs) == 0 else ','.join(toptstr(v) for v in vs))


def line_custom(entries, names, client, for_server):
    return 'compat.custom %s %s %s %s' % (tbool(client), tbool(for_server), '_' if not entries else ';'.join(t_entry(n, vs) for n, vs in entries), tstrs(names))


def line_general(case, banner):
    btoks = '~' if banner is None else '%d %d %s %s %s' % (banner.protocol[0], banner.protocol[1], toptstr(banner.software), toptstr(banner.comments), tbool(banner.valid_ascii))
    return 'compat.general %s %s %s %s %s %s %s %s %s' % (
        toptstr('10.1.1.1' if case['client'] else None), toptstr(target_text(case.get('port', 22)) if case.get('print_target') else None), tstrs(case.get('header', [])),
        tstrs(case['kex']), tstrs(case['key']), tstrs(case['enc']), tstrs(case['mac']), tstrs(case['comp']), btoks)


# ---------------------------------------------------------------- oracle evaluation of one input (replayable)

def fail(kind, inp, observed, expected, **extra):
    return {'sig': dict({'kind': kind}, **extra), 'input': inp, 'observed': observed, 'expected': expected, 'how': HOW}


def check(inp):
    """evaluates the property's clauses on the real code for one input; returns the list of failures"""
    st = inp['stage']
    out = []
    if st == 'lists':
        lists, client, fs = inp['lists'], inp['client'], inp['for_server']
        got = impl_compat(lists, client, fs)
        want = spec_line(lists_versions(lists), client, fs)
        if client and got is not None:
            out.append(fail('compat_line_in_client_audit', inp, got, None, where='output_compatibility'))
        elif want != 'unreachable' and got != want:
            out.append(fail('compat_line_not_the_numeric_range', inp, got, want, where='output_compatibility'))
        for other in inp.get('same_set', []):
            g2 = impl_compat(other, client, fs)
            if g2 != got:
                out.append(fail('compat_line_depends_on_order_or_repeats', dict(inp, other=other), {'this': got, 'other': g2}, 'the same line', where='output_compatibility'))
        if inp.get('plus') and not client and isinstance(got, (str, type(None))):
            cat, name = inp['plus']
            more = [list(l) for l in lists]
            more[CATS.index(cat)] = more[CATS.index(cat)] + [name]
            g2 = impl_compat(more, client, fs)
            a, b = parse_line(got), parse_line(g2 if isinstance(g2, (str, type(None))) else None)
            if a is not None and b is not None:
                for p, (lo, hi) in a.items():
                    bad = None
                    if p not in b:
                        bad = 'the product disappeared'
                    else:
                        lo2, hi2 = b[p]
                        if num(lo2) < num(lo):
                            bad = 'the lower bound fell'
                        elif hi is not None and (hi2 is None or num(hi2) > num(hi)):
                            bad = 'the upper bound rose'
                    if bad:
                        out.append(fail('compat_range_widened_by_another_algorithm', dict(inp), {'before': got, 'after': g2, 'product': p, 'what': bad},
                                        'one more advertised algorithm can only shrink a range', where='output_compatibility'))
    elif st == 'custom':
        entries, names, client, fs = [(n, vs) for n, vs in inp['entries']], inp['names'], inp['client'], inp['for_server']
        got = impl_custom(entries, names, client, fs)
        known = dict(entries)
        vls = [known[n] for n in names if n in known]
        if client:
            if got is not None:
                out.append(fail('compat_line_in_client_audit', inp, got, None, where='private-database'))
        elif order_safe(vls, fs):
            want = spec_line(vls, client, fs)
            if want != 'unreachable' and got != want:
                out.append(fail('compat_line_not_the_numeric_range', inp, got, want, where='private-database'))
    elif st == 'output':
        items, title, banner = impl_general(inp)
        texts = [s for _, s, _ in items]
        comp = [s for s in texts if s.startswith(PREFIX)]
        lists = [inp['kex'], inp['key'], inp['enc'], inp['mac']]
        want = spec_line(lists_versions(lists), inp['client'], True)
        if inp['client'] and comp:
            out.append(fail('compat_line_in_client_audit', inp, comp, [], where='output'))
        elif want != 'unreachable' and comp != ([PREFIX + want] if want is not None else []):
            out.append(fail('compat_line_not_the_numeric_range', inp, comp, [PREFIX + want] if want is not None else [], where='output'))
        fam = inp.get('family')
        if fam is not None:
            sw = [s for s in texts if s.startswith(SWPREFIX)]
            wsw = [SWPREFIX + spec_software(fam[0], fam[1], fam[2], fam[3])]
            if sw != wsw:
                out.append(fail('software_line_wrong', inp, sw, wsw, where='output'))
    elif st == 'software':
        fam = inp['family']
        token = fam[0] + fam[1] + fam[2]
        got = impl_software(token, fam[3])
        want = (spec_software(fam[0], fam[1], fam[2], fam[3], True), spec_software(fam[0], fam[1], fam[2], fam[3], False))
        if tuple(got) != want:
            out.append(fail('software_text_wrong', inp, list(got), list(want), where='Software.parse+display'))
    elif st == 'display':
        from ssh_audit.software import Software
        v = inp['fields']
        for full in (True, False):
            got = Software(v[0], v[1], v[2], v[3], v[4]).display(full)
            want = spec_display(v[0], v[1], v[2], v[3], v[4], full)
            if got != want:
                out.append(fail('software_text_wrong', dict(inp, full=full), got, want, where='Software.display'))
    elif st == 'main':
        got, want, extra = run_main_case(inp)
        if got != want:
            out.append(fail('compat_line_in_client_audit' if inp['client'] and got['compat'] else 'whole_audit_general_lines_wrong', inp, got, want, where='main'))
    else:
        raise KeyError(st)
    return out


def shape_tags(inp):
    """coverage only: which shapes of the line the expected text of this input has, and whether the numeric oracle reached it"""
    st = inp['stage']
    if st == 'lists':
        w = spec_line(lists_versions(inp['lists']), inp['client'], inp['for_server'])
    elif st == 'custom':
        known = dict((n, vs) for n, vs in inp['entries'])
        vls = [known[n] for n in inp['names'] if n in known]
        if not inp['client'] and not order_safe(vls, inp['for_server']):
            return ['oracle:not-order-safe(model-only)']
        w = spec_line(vls, inp['client'], inp['for_server'])
    elif st in ('output', 'main'):
        w = spec_line(lists_versions([inp['kex'], inp['key'], inp['enc'], inp['mac']]), inp['client'], True)
    else:
        return []
    if w == 'unreachable':
        return ['oracle:unreachable(model-only)']
    if w is None:
        return ['line:client-audit' if inp['client'] else 'line:none']
    tags = ['line:%d-products' % (w.count(', ') + 1)]
    for part in w.split(', '):
        tags.append('shape:inverted' if 'some functionality' in part else 'shape:open' if part.endswith('+') else 'shape:range' if re.search(r'[0-9]-[0-9]', part) else 'shape:single')
    return tags


def run_main_case(inp):
    """a whole audit through the real main() over fakenet; returns ({'compat': [...], 'software': [...]}, the same expected, info)"""
    import fakenet
    lists = [inp['kex'], inp['key'], inp['enc'], inp['mac']]
    payload = fakenet.kexinit(inp['kex'], inp['key'], inp['enc'], inp['mac'], enc_c=inp.get('enc_c'), mac_c=inp.get('mac_c'))
    fam = inp['family']
    banner = ('SSH-2.0-' + fam[0] + fam[1] + fam[2] + (' ' + fam[3] if fam[3] else '')).encode()
    if inp['client']:
        net = fakenet.FakeNet({})
        net.clients = [(fakenet.Server(banner=banner, kexinit_payload=payload), ('192.0.2.50', 50001))]
        code, text = fakenet.run_main(['-c', '-n', '-p', '2222'] + inp.get('args', []), net)
    else:
        hostkeys = {}
        for k in inp['key']:
            if k == 'ssh-ed25519':
                hostkeys[k] = fakenet.ed25519_blob()
            elif k in ('ssh-rsa', 'rsa-sha2-256', 'rsa-sha2-512'):
                hostkeys[k] = fakenet.rsa_blob(3072)
        srv = fakenet.Server(banner=banner, kexinit_payload=payload, hostkeys=hostkeys, gex=lambda a, b_, c: 3072 if c >= 3072 else None)
        net = fakenet.FakeNet({'10.1.0.1': srv})
        code, text = fakenet.run_main(['-n', '--skip-rate-test'] + inp.get('args', []) + ['10.1.0.1'], net)
    fakenet.reset_dbs()
    lines = text.split('\n')
    got = {'compat': [l for l in lines if l.startswith(PREFIX)], 'software': [l for l in lines if l.startswith(SWPREFIX)]}
    w = spec_line(lists_versions(lists), inp['client'], True)
    want = {'compat': [PREFIX + w] if w is not None else [], 'software': [SWPREFIX + spec_software(fam[0], fam[1], fam[2], fam[3])]}
    if w == 'unreachable':
        want['compat'] = got['compat']
    return got, want, {'exit': code, 'text': text}


# ---------------------------------------------------------------- generators

def db_names():
    from ssh_audit.ssh2_kexdb import SSH2_KexDB
    db = SSH2_KexDB.MASTER_DB
    versioned = {c: [n for n, d in db[c].items() if len(d[0]) > 0] for c in CATS}
    plain = {c: [n for n, d in db[c].items() if len(d[0]) == 0] for c in CATS}
    return versioned, plain


UNKNOWN = ['nonsense@example.com', 'curve25519-sha256 ', 'CURVE25519-SHA256', '', 'aes256-ctr@openssh.com', 'ssh-ed25519,', 'x']

CORNER_LISTS = [
    [['curve25519-sha256'], ['ssh-ed25519'], ['aes256-ctr'], ['hmac-sha2-256']],                                 # two products, open ranges
    [['diffie-hellman-group1-sha1'], [], [], []],                                                                  # X-Y and X+
    [['sntrup4591761x25519-sha512@tinyssh.org', 'mlkem768x25519-sha256'], [], [], []],                             # lower bound above the upper bound
    [[], [], ['blowfish-cbc', '3des-ctr'], []],                                                                    # equal bounds
    [[], [], ['blowfish-cbc'], []],                                                                                # server / client frame differ
    [['diffie-hellman-group18-sha512'], [], [], []], [['kexguess2@matt.ucc.asn.au'], [], [], []],                  # one product only
    [['diffie-hellman-group18-sha512', 'kexguess2@matt.ucc.asn.au'], [], [], []],
    [['curve448-sha512', 'nonsense'], [], [], []], [[], [], [], []],                                               # no line
    [['curve25519-sha256@libssh.org'], ['ssh-rsa'], ['aes128-ctr', 'aes128-cbc'], ['hmac-sha1', 'hmac-md5']],
    [['mlkem768x25519-sha256', 'sntrup761x25519-sha512', 'curve25519-sha256'], ['rsa-sha2-512', 'ssh-ed25519'], ['chacha20-poly1305@openssh.com'], ['umac-128-etm@openssh.com']],
    [['gss-group14-sha256-toWM5Slw5Ew8Mqkay+al2g=='], ['ssh-dss'], ['arcfour'], ['hmac-ripemd160']],
]


def gen_lists(r, versioned, plain):
    lists = []
    style = r.choice(['mixed', 'mixed', 'versioned', 'sparse', 'one-cat', 'big'])
    for c in CATS:
        k = {'mixed': r.choice([0, 1, 2, 3, 5]), 'versioned': r.choice([1, 2, 4]), 'sparse': r.choice([0, 0, 1]), 'one-cat': 0, 'big': r.choice([4, 8, 12])}[style]
        l = []
        for _ in range(k):
            x = r.random()
            if x < 0.7 or style == 'versioned':
                l.append(r.choice(versioned[c]))
            elif x < 0.9:
                l.append(r.choice(plain[c]))
            else:
                l.append(r.choice(UNKNOWN))
        lists.append(l)
    if style == 'one-cat':
        c = r.randrange(4)
        lists[c] = [r.choice(versioned[CATS[c]]) for _ in range(r.choice([1, 2, 3]))]
    return lists


def shuffled_variant(r, lists):
    out = []
    for l in lists:
        l2 = list(l)
        r.shuffle(l2)
        if l2 and r.random() < 0.5:
            l2.insert(r.randrange(len(l2) + 1), r.choice(l2))
        out.append(l2)
    return out


VPOOL = {
    'plain': ['1.2.2', '2.3.0', '3.9', '5.7', '6.6', '7.4', '8.0', '9.9'],
    'wide': ['10.0', '10.1', '11.2', '12.0', '99.1'],
    'mixed': ['9.9', '10.0', '9.10', '10.1', '8.0', '100.0', '7.4', '7.10'],
    'years': ['0.28', '0.53', '2013.56', '2016.73', '2020.79', '2022.83', '2025.88'],
    'lib': ['0.2', '0.6.0', '0.7.0', '0.9.8', '0.10.6', '0.11.1'],
}
JUNKV = ['', '7.4p1', '7..4', '.7', '7.', 'x', '7.04', '07.4', ' 7.4', '7.4 ']


def gen_descriptor(r, pool, junk):
    v = r.choice(JUNKV) if junk and r.random() < 0.15 else r.choice(VPOOL[pool])
    p = r.choice(['', '', 'd', 'l1'])
    if pool == 'years' and r.random() < 0.7:
        p = 'd'
    if pool == 'lib' and r.random() < 0.7:
        p = 'l1'
    return p + v + ('C' if r.random() < 0.12 else '')


def gen_custom(r, junk):
    pool = r.choice(['plain', 'plain', 'wide', 'mixed', 'mixed', 'years', 'lib'])
    n = r.choice([1, 2, 3, 4, 6])
    entries = []
    for i in range(n):
        k = r.choice([0, 1, 1, 1, 2, 2, 3, 3, 4])
        vs = []
        for _ in range(k):
            if r.random() < 0.12:
                vs.append(None)
            else:
                m = r.choice([1, 1, 2, 3]) if junk else r.choice([1, 1, 2, 3])
                ds = []
                for _ in range(m):
                    d = gen_descriptor(r, pool if r.random() < 0.8 else r.choice(['plain', 'years']), junk)
                    if not junk and any(desc_fields(x)[0] == desc_fields(d)[0] for x in ds):
                        continue
                    ds.append(d)
                vs.append(','.join(ds))
        entries.append(('alg%d' % i, vs))
    names = [r.choice(entries)[0] for _ in range(r.choice([1, 2, 3, 5]))]
    if r.random() < 0.2:
        names.insert(r.randrange(len(names) + 1), 'unknown')
    return entries, names


CUSTOM_CORNERS = [
    ([('a', ['9.9']), ('b', ['10.0'])], ['a', 'b']),                       # the witness of lower_bound_not_numeric_in_general (not order-safe: correspondence only)
    ([('a', ['10.0']), ('b', ['11.2'])], ['b', 'a']),
    ([('a', ['0.10.6']), ('b', ['0.9.8'])], ['a', 'b']),
    ([('a', ['7.4,d2018.76', '8.0'])], ['a']), ([('a', ['7.4', '7.4'])], ['a']), ([('a', ['8.0', '7.4'])], ['a']),
    ([('a', ['7.4C,d0.52'])], ['a']), ([('a', ['7.4C'])], ['a']), ([('a', ['7.4,8.0'])], ['a']), ([('a', ['7.4,8.0C', '9.0', '9.5'])], ['a']),
    ([('a', ['7.4', '8.0', '9.0', '9.9'])], ['a']), ([('a', ['7.4', '8.0'])], ['a']), ([('a', ['7.4', None, '9.0'])], ['a']), ([('a', [None, '8.0'])], ['a']),
    ([('a', [])], ['a']), ([], ['a']), ([('a', ['l10.6.0'])], ['a']), ([('a', ['d0.28', 'd2014.66'])], ['a']), ([('a', [''])], ['a']), ([('a', ['C'])], ['a']),
    ([('a', ['d'])], ['a']), ([('a', ['7.4']), ('b', ['d2018.76'])], ['a', 'b']), ([('a', ['7.4', '9.0']), ('b', ['8.0', '8.5'])], ['a', 'b', 'a']),
]

SW_VERSIONS = ['7.4', '9.9', '10.0', '10.1', '0.10.6', '0.9.8', '2022.83', '2020.81', '0.52', '5.40', '1.25', '77', '10', '1.2.3.4']
SW_PATCHES = {'OpenSSH_': ['', 'p1', 'p2', 'p1-hpn14v1', '-hpn', '_p1', 'p1-Debian-5', 'rc1'], 'dropbear_': ['', 'test3', '_test1'], 'libssh-': [''], 'libssh_': ['', '-rc1']}
SW_COMMENTS = [None, None, 'Debian-5', 'Ubuntu-4ubuntu0.5', 'FreeBSD-20170902', 'NetBSD_Secure_Shell-20080403', 'FreeBSD', 'NetBSD']
ODD_BANNERS = [None, 'SSH-2.0-Go', 'SSH-2.0-', 'SSH-2.0-OpenSSH', 'SSH-2.0-OpenSSH_9', 'SSH-2.0-openssh_8.0', 'SSH-1.99-OpenSSH_3.9p1', 'SSH-2.0-OpenSSH_8.0 in RemotelyAnywhere 5.21.422',
               'SSH-2.0-ROSSSH', 'SSH-2.0-dropbear', 'SSH-2.0-OpénSSH_8.0', 'SSH-2.0-libssh', 'SSH-2.0-OpenSSH_for_Windows_8.1']


def gen_family(r):
    fam = r.choice(list(FAMILIES) + ['OpenSSH_', 'OpenSSH_', 'dropbear_', 'libssh-'])
    ver = r.choice(SW_VERSIONS)
    patch = r.choice(SW_PATCHES.get(fam, ['', '', 'x', '-1']))
    if fam in NO_PATCH and fam not in ('tinyssh_', 'PuTTY_Release_', 'lancom'):
        patch = r.choice(['', 'b2'])
    cm = r.choice(SW_COMMENTS)
    return [fam, ver, patch, cm]


def banner_of(fam):
    return 'SSH-2.0-' + fam[0] + fam[1] + fam[2] + (' ' + fam[3] if fam[3] else '')


DISPLAY_FIELDS = {
    'vendor': [None, '', 'HP', 'Allegro Software'], 'product': ['OpenSSH', 'Dropbear SSH', 'libssh', 'TinySSH', 'PuTTY', 'RomSShell', '', 'X'],
    'version': ['', '7.4', '10.0', '0.10.6', '2022.83'], 'patch': [None, '', 'p1', 'p2-hpn', 'p1 x', 'p1  x  ', 'p', 'px', 'test3', 'p1 \t', ' p1', 'P1', 'p10', '-hpn'],
    'os': [None, '', 'NetBSD', 'FreeBSD (2017-09-02)', 'Microsoft Windows (RemotelyAnywhere 5.21.422)']}


# ---------------------------------------------------------------- run

def run(ctx):
    import fakenet
    r = ctx.rng
    cov = Coverage('compatibility / software lines: one evaluation = one rendering on the real code (output_compatibility on name lists over the real database in a role, '
                   'output() general section, Software.parse/display of one banner, a private database, or a whole main() audit); non-trivial = at least one advertised name with '
                   'a version entry (lists), a recognised banner (software). Every name of the real database with a version entry is audited alone and in random company, in both roles')
    failures, mismatches = [], []
    inputs = []          # (oracle input, nontrivial, tags)
    corr = []            # (model line, comparison function of the model answer, stream)
    versioned, plain = db_names()

    def add(inp, nontrivial, tags):
        inputs.append((inp, nontrivial, tags))

    # ---- A: name lists over the real database
    for lists in CORNER_LISTS:
        for fs in (True, False):
            for client in (False, True):
                add({'stage': 'lists', 'lists': lists, 'client': client, 'for_server': fs}, True, ['lists-corner'])
    for c in CATS:                                   # every name with a version entry: alone, both roles
        for n in versioned[c]:
            for fs in (True, False):
                lists = [[], [], [], []]
                lists[CATS.index(c)] = [n]
                add({'stage': 'lists', 'lists': lists, 'client': False, 'for_server': fs}, True, ['lists-single-name'])
    allv = [(c, n) for c in CATS for n in versioned[c]]
    for i in range(ctx.scale(2400, 30000)):
        lists = gen_lists(r, versioned, plain)
        inp = {'stage': 'lists', 'lists': lists, 'client': r.random() < 0.08, 'for_server': r.random() < 0.7}
        if i % 3 == 0:
            inp['same_set'] = [shuffled_variant(r, lists)]
        if i % 2 == 0:
            inp['plus'] = list(r.choice(allv))
        add(inp, any(n in versioned[c] for c, l in zip(CATS, lists) for n in l), ['lists'])
    for fs in (True, False):
        add({'stage': 'lists', 'lists': [versioned[c] + plain[c][:5] for c in CATS], 'client': False, 'for_server': fs}, True, ['lists-whole-database'])

    # ---- D: private databases
    for entries, names in CUSTOM_CORNERS:
        for fs in (True, False):
            add({'stage': 'custom', 'entries': [[n, vs] for n, vs in entries], 'names': names, 'client': False, 'for_server': fs}, True, ['custom-corner'])
    for i in range(ctx.scale(4000, 60000)):
        entries, names = gen_custom(r, junk=(i % 4 == 3))
        add({'stage': 'custom', 'entries': [[n, vs] for n, vs in entries], 'names': names, 'client': r.random() < 0.05, 'for_server': r.random() < 0.6},
            True, ['custom-junk' if i % 4 == 3 else 'custom'])

    # ---- B: output()
    out_cases = []
    for i in range(ctx.scale(700, 8000)):
        lists = CORNER_LISTS[i] if i < len(CORNER_LISTS) else gen_lists(r, versioned, plain)
        case = {'stage': 'output', 'kex': lists[0], 'key': lists[1], 'enc': lists[2], 'mac': lists[3], 'comp': r.choice([['none'], ['none', 'zlib@openssh.com'], ['zlib'], []]),
                'client': r.random() < 0.3, 'batch': r.random() < 0.5, 'print_target': r.random() < 0.2, 'port': r.choice([22, 22, 2222]),
                'header': r.choice([[], [], ['hello', 'world']])}
        if r.random() < 0.35:
            case['enc_c'] = gen_lists(r, versioned, plain)[2]
            case['mac_c'] = gen_lists(r, versioned, plain)[3]
        if r.random() < 0.8:
            fam = gen_family(r)
            case['family'] = fam
            case['banner'] = banner_of(fam)
        else:
            case['banner'] = r.choice(ODD_BANNERS)
        out_cases.append(case)
        add(case, True, ['output', 'output-client' if case['client'] else 'output-server'])

    # ---- C: software
    for fam0 in FAMILIES:
        for ver in SW_VERSIONS[:6]:
            for patch in (SW_PATCHES.get(fam0, ['', 'x']) if fam0 not in NO_PATCH or fam0 in ('tinyssh_', 'PuTTY_Release_', 'lancom') else ['', 'b2']):
                for cm in (None, 'FreeBSD-20170902', 'NetBSD_Secure_Shell-20080403'):
                    add({'stage': 'software', 'family': [fam0, ver, patch, cm]}, True, ['software-family', 'software:' + fam0])
    for _ in range(ctx.scale(400, 6000)):
        add({'stage': 'software', 'family': gen_family(r)}, True, ['software'])
    for _ in range(ctx.scale(600, 8000)):
        add({'stage': 'display', 'fields': [r.choice(DISPLAY_FIELDS[k]) for k in ('vendor', 'product', 'version', 'patch', 'os')]}, True, ['display'])

    # ---- E: whole audits through main()
    for i in range(ctx.scale(72, 800)):
        lists = CORNER_LISTS[i % len(CORNER_LISTS)] if i < 2 * len(CORNER_LISTS) else gen_lists(r, versioned, plain)
        lists = [[n for n in l if n and ',' not in n and n == n.strip()] for l in lists]     # names as they can stand in a name-list
        if not lists[0]:
            lists[0] = ['curve25519-sha256']
        if not lists[1]:
            lists[1] = ['ssh-ed25519']
        if not lists[2]:
            lists[2] = ['aes256-ctr']
        if not lists[3]:
            lists[3] = ['hmac-sha2-256']
        fam = gen_family(r)
        if fam[3] is not None and ' ' in fam[3]:
            fam[3] = None
        case = {'stage': 'main', 'kex': lists[0], 'key': lists[1], 'enc': lists[2], 'mac': lists[3], 'client': i % 3 == 2, 'family': fam}
        if i % 4 == 1:
            case['enc_c'] = ['aes128-cbc', '3des-cbc']
            case['mac_c'] = ['hmac-md5']
        add(case, True, ['main', 'main-client' if case['client'] else 'main-server'])

    # ---- oracle
    seen_unsafe = None
    for inp, nontrivial, tags in inputs:
        res = check(inp)
        tags = list(tags) + shape_tags(inp)
        cov.add(json.dumps(inp, sort_keys=True, default=str), nontrivial, tags=tags,
                sample={'input': inp, 'failures': len(res)} if cov.evaluations % 1499 == 0 else None)
        failures.extend(res)
        if inp['stage'] == 'custom' and not inp['client'] and seen_unsafe is None:
            known = dict((n, vs) for n, vs in inp['entries'])
            vls = [known[n] for n in inp['names'] if n in known]
            if not order_safe(vls, inp['for_server']):
                w = spec_line(vls, False, inp['for_server'])
                g = impl_custom([(n, vs) for n, vs in inp['entries']], inp['names'], False, inp['for_server'])
                if w not in ('unreachable', g):
                    seen_unsafe = {'entries': inp['entries'], 'names': inp['names'], 'for_server': inp['for_server'], 'printed': g, 'numeric': w}
    failures.sort(key=lambda f: len(json.dumps(f['input'], default=str)))

    # ---- correspondence with the model
    lines, expect = [], []
    for inp, _, _ in inputs:
        st = inp['stage']
        if st == 'lists':
            variants = [inp['lists']] + inp.get('same_set', [])
            for l in variants:
                lines.append(line_compat(l, inp['client'], inp['for_server']))
                expect.append(('compat.line', impl_compat(l, inp['client'], inp['for_server'])))
        elif st == 'custom':
            entries = [(n, vs) for n, vs in inp['entries']]
            lines.append(line_custom(entries, inp['names'], inp['client'], inp['for_server']))
            expect.append(('compat.custom', impl_custom(entries, inp['names'], inp['client'], inp['for_server'])))
        elif st == 'output':
            items, title, banner = impl_general(inp)
            lines.append(line_general(inp, banner))
            expect.append(('compat.general', (items, title)))
        elif st == 'software':
            fam = inp['family']
            lines.append('compat.software %s %s' % (toptstr(fam[0] + fam[1] + fam[2]), toptstr(fam[3])))
            expect.append(('compat.software', impl_software(fam[0] + fam[1] + fam[2], fam[3])))
    for sw in [None, '', 'OpenSSH', 'OpenSSH_9', 'OpenSSH 7.4', 'OpenSSH 7.4p1', 'Dropbear SSH 2022.83', 'libssh 0.10.6', 'libssh', 'OpenSSHp1', 'OpenSSH_7.4p1\n', 'OpenSSH_..5']:
        for cm in (None, 'FreeBSD-20170902'):
            lines.append('compat.software %s %s' % (toptstr(sw), toptstr(cm)))
            expect.append(('compat.software', impl_software(sw, cm)))
    model = ctx.driver(lines) if ctx.driver_ok else []
    hist = {}
    for line, m, (stream, im) in zip(lines, model, expect):
        hist[stream] = hist.get(stream, 0) + 1
        k = m.get('ok') if isinstance(m, dict) else None
        if k is None:
            d = 'model error %r' % (m,)
        elif stream in ('compat.line', 'compat.custom'):
            d = None if k['text'] == im else 'text: model %r impl %r' % (k['text'], im)
        elif stream == 'compat.general':
            items, title = im
            d = None
            if k['items'] != items:
                j = next((j for j, (a, b) in enumerate(zip(k['items'], items)) if a != b), min(len(k['items']), len(items)))
                d = 'general item %d: model %r impl %r' % (j, k['items'][j:j + 1], items[j:j + 1])
            elif title is not None and k['title'] != title:
                d = 'recommendations title: model %r impl %r' % (k['title'], title)
        else:
            d = None if (k['full'], k['short']) == tuple(im) and k['line'] == (None if im[0] is None else SWPREFIX + im[0]) else 'software: model %r impl %r' % (k, im)
        if d and len(mismatches) < 40:
            mismatches.append({'stream': stream, 'op': line[:400], 'model': d, 'impl': str(im)[:300]})
    for k_, v_ in sorted(hist.items()):
        cov.hist['corr:' + k_] = v_
    # the JSON document of the same audits: it carries neither text today (banner.software is the token as sent); should it ever do, the tie has to be extended
    for lists in CORNER_LISTS[:3]:
        srv = fakenet.simple_server(kex=lists[0] or ['curve25519-sha256'], key=['ssh-ed25519'], enc=lists[2] or ['aes256-ctr'], mac=lists[3] or ['hmac-sha2-256'],
                                    banner=b'SSH-2.0-OpenSSH_10.0p2 Debian-5')
        code, text = fakenet.run_main(['-n', '--skip-rate-test', '-j', '10.1.0.1'], fakenet.FakeNet({'10.1.0.1': srv}))
        cov.add(('json', json.dumps(lists)), True, tags=['main-json'])
        try:
            doc = json.loads(text)
            bad = 'compatib' in text or 'OpenSSH 10.0p2' in text or doc['banner']['software'] != 'OpenSSH_10.0p2'
        except Exception:
            bad = True
        if bad:
            mismatches.append({'stream': 'json-document', 'op': 'main -j on %s' % json.dumps(lists), 'model': 'no compatibility / software text in the JSON document; banner.software as sent',
                               'impl': text[:300]})
    fakenet.reset_dbs()
    obs = ['the JSON document (-j) carries neither the compatibility ranges nor the software text (only banner.software as sent): there is nothing to compare there',
           'libssh entries enter the time frame but output_compatibility only ever asks for OpenSSH and Dropbear SSH',
           'an algorithm without an entry for a product (e.g. OpenSSH-only) leaves that product\'s range in the line as it was (theorem name_without_entry_keeps_product): the line says '
           '"Dropbear SSH 2020.79+" for a server that also offers algorithms Dropbear never had']
    if seen_unsafe is not None:
        obs.append('LATENT (outside the property\'s quantifier: needs a database entry that does not exist today): Timeframe._update orders version STRINGS, so with a private database '
                   '%s and names %s the real output_compatibility prints %r where the numeric range is %r (Lean: C14Compat.lower_bound_not_numeric_in_general / witness_line; '
                   'guarded for the shipped tables by C14.db_versions_order_safe + C14Compat.gen_bounds_numeric)'
                   % (json.dumps(seen_unsafe['entries']), json.dumps(seen_unsafe['names']), seen_unsafe['printed'], seen_unsafe['numeric']))
    return {'failures': failures, 'mismatches': mismatches, 'coverage': cov, 'corr_cases': len(model),
            'assumptions': ['compatibility line: the numeric oracle applies where each descriptor list names a product at most once and the versions are plain dot-separated decimals without '
                            'numerically equal spellings (true of the whole real database); private databases outside that are compared with the model only',
                            'private databases are presented to the real get_ssh_timeframe through a subclass of Algorithms whose `values` yields one Item over the private table'],
            'observations': obs}


# ---------------------------------------------------------------- replay

def replay(obj):
    f = obj.get('failure', obj)
    inp = f.get('input') or {}
    if 'stage' not in inp:
        print(json.dumps(f, indent=1, default=str)[:2000])
        import sys
        from common import rerun_for_signature
        return rerun_for_signature(sys.modules[__name__], f)
    inp = {k: v for k, v in inp.items() if k not in ('other', 'full')}
    print('replaying', json.dumps(inp, default=str)[:1500])
    res = check(inp)
    for x in res:
        print('  PROPERTY FAILS (%s)' % json.dumps(x['sig'], sort_keys=True))
        print('    observed:', json.dumps(x['observed'], default=str)[:700])
        print('    expected:', json.dumps(x['expected'], default=str)[:700])
    if not res:
        print('property holds on this input')
    return 1 if res else 0
