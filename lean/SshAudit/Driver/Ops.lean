import SshAudit.Driver.Tables
namespace SshAudit.Driver

def badOp : J := .obj [("err", .str "bad-op".toList)]

def dispatch (op : String) (args : List String) : J :=
  match op, args with
  | "dump-tables", [] => dumpTables
  | _, _ => badOp

end SshAudit.Driver
