/-
  `policy.py`: `Policy.evaluate` (branch by branch, including the error bookkeeping), the
  policy-file line parser, and `Policy.create` (the lines that are not comments).
  Import-free.
-/
import SshAudit.Model.Text
namespace SshAudit
namespace Pol

/-- host-key size record (`hostkey_size`, `ca_key_type`, `ca_key_size`) after normalisation -/
structure HKS where
  size : Nat
  caType : Str
  caSize : Nat
deriving Repr, DecidableEq

structure Policy where
  banner : Option Str := none
  compressions : Option (List Str) := none
  hostKeys : Option (List Str) := none
  optionalHostKeys : Option (List Str) := none
  kex : Option (List Str) := none
  ciphers : Option (List Str) := none
  macs : Option (List Str) := none
  hostkeySizes : Option (List (Str × HKS)) := none     -- a dict: keys unique
  dhSizes : Option (List (Str × Nat)) := none           -- a dict: keys unique
  allowSubset : Bool := false
  allowLarger : Bool := false
deriving Repr, DecidableEq

/-- what `evaluate(banner, kex)` reads from the peer -/
structure Peer where
  bannerStr : Str              -- `str(banner)`
  hasKex : Bool := true        -- `kex is not None`
  comp : List Str := []
  key : List Str := []
  kex : List Str := []
  enc : List Str := []
  mac : List Str := []
  hostKeys : List (Str × HKS) := []
  dhSizes : List (Str × Nat) := []
deriving Repr, DecidableEq

/-- one entry of `self._errors` -/
structure PErr where
  field : Str
  expectedRequired : List Str
  expectedOptional : List Str
  actual : List Str
deriving Repr, DecidableEq

def s (x : String) : Str := x.toList

def strictS : Str := s "kex-strict-s-v00@openssh.com"
def strictC : Str := s "kex-strict-c-v00@openssh.com"

/-- evaluation state: (`ret`, `self._errors`) -/
abbrev St := Bool × List PErr

/-- `ret = False; self._append_error(field, required, optional, actual)` -/
def failWith (st : St) (field : Str) (req : List Str) (opt : Option (List Str)) (act : List Str) : St :=
  (false, st.2 ++ [{ field := field, expectedRequired := req, expectedOptional := opt.getD [[]], actual := act }])

def lookup {α} (l : List (Str × α)) (k : Str) : Option α := (l.find? (·.1 = k)).map (·.2)

/-- insertion sort by code-point order (`list.sort()` on `str` keys) -/
def insertSorted (k : Str) : List Str → List Str
  | [] => [k]
  | x :: xs => if Text.ltStr x k then x :: insertSorted k xs else k :: x :: xs
def sortStrs (l : List Str) : List Str := l.foldr insertSorted []

/-- size comparison shared by host keys, CA keys and moduli -/
def sizeBad (allowLarger : Bool) (actual expected : Nat) : Bool :=
  (allowLarger && actual < expected) || (!allowLarger && actual != expected)

/-- `if bad: ret = False; self._append_error(...)` -/
def stepIf (bad : Bool) (st : St) (field : Str) (req : List Str) (opt : Option (List Str)) (act : List Str) : St :=
  if bad then failWith st field req opt act else st

/-- does the list check of `evaluate` fail?  (`compared` is the pruned list for host keys) -/
def listBad (allowSubset : Bool) (pol actual compared : List Str) : Bool :=
  if allowSubset then actual.any (fun x => !pol.contains x) else compared != pol

/-- the strict-kex exception of subset mode -/
def markerBad (k peerKex : List Str) : Bool :=
  (k.contains strictS && !peerKex.contains strictS) || (k.contains strictC && !peerKex.contains strictC)

def hostKeySizeStep (p : Policy) (peer : Peer) (sizes : List (Str × HKS)) (st : St) (t : Str) : St :=
  match lookup sizes t, lookup peer.hostKeys t with
  | some exp, some act =>
    let st1 := stepIf (sizeBad p.allowLarger act.size exp.size) st
      (s "Host key (" ++ t ++ s ") sizes") [Text.natToStr exp.size] none [Text.natToStr act.size]
    if exp.caType.length > 0 && exp.caSize > 0 then
      if act.caType != exp.caType then failWith st1 (s "CA signature type") [exp.caType] none [act.caType]
      else stepIf (sizeBad p.allowLarger act.caSize exp.caSize) st1
        (s "CA signature size (" ++ act.caType ++ s ")") [Text.natToStr exp.caSize] none [Text.natToStr act.caSize]
    else st1
  | _, _ => st

def dhSizeStep (p : Policy) (peer : Peer) (sizes : List (Str × Nat)) (st : St) (t : Str) : St :=
  match lookup sizes t, lookup peer.dhSizes t with
  | some exp, some act =>
    stepIf (sizeBad p.allowLarger act exp) st
      (s "Group exchange (" ++ t ++ s ") modulus sizes") [Text.natToStr exp] none [Text.natToStr act]
  | _, _ => st

def prunedKeys (p : Policy) (peer : Peer) : List Str :=
  match p.optionalHostKeys with
  | some o => peer.key.filter (fun x => !o.contains x)
  | none => peer.key

/-! The eight checks of `evaluate`, in source order; each maps the (ret, errors) state. -/
def stBanner (p : Policy) (peer : Peer) (st : St) : St :=
  match p.banner with
  | some b => stepIf (peer.bannerStr != b) st (s "Banner") [b] none [peer.bannerStr]
  | none => st
def stComp (p : Policy) (peer : Peer) (st : St) : St :=
  match p.compressions with
  | some c => stepIf (peer.comp != c) st (s "Compression") c none peer.comp
  | none => st
def stHostKeys (p : Policy) (peer : Peer) (st : St) : St :=
  match p.hostKeys with
  | some hk => stepIf (listBad p.allowSubset hk peer.key (prunedKeys p peer)) st (s "Host keys") hk p.optionalHostKeys peer.key
  | none => st
def stHostKeySizes (p : Policy) (peer : Peer) (st : St) : St :=
  match p.hostkeySizes with
  | some sizes => (sortStrs (sizes.map (·.1))).foldl (hostKeySizeStep p peer sizes) st
  | none => st
def stKex (p : Policy) (peer : Peer) (st : St) : St :=
  match p.kex with
  | some k =>
    let st1 := stepIf (listBad p.allowSubset k peer.kex peer.kex) st (s "Key exchanges") k none peer.kex
    stepIf (p.allowSubset && markerBad k peer.kex) st1 (s "Key exchanges") k none peer.kex
  | none => st
def stCiphers (p : Policy) (peer : Peer) (st : St) : St :=
  match p.ciphers with
  | some c => stepIf (listBad p.allowSubset c peer.enc peer.enc) st (s "Ciphers") c none peer.enc
  | none => st
def stMacs (p : Policy) (peer : Peer) (st : St) : St :=
  match p.macs with
  | some m => stepIf (listBad p.allowSubset m peer.mac peer.mac) st (s "MACs") m none peer.mac
  | none => st
def stDh (p : Policy) (peer : Peer) (st : St) : St :=
  match p.dhSizes with
  | some sizes => (sortStrs (sizes.map (·.1))).foldl (dhSizeStep p peer sizes) st
  | none => st

/-- `Policy.evaluate`; `errs0` is the content of `self._errors` before the call
    (`[]` on a fresh object — D29: the list is never cleared). -/
def evaluate (p : Policy) (peer : Peer) (errs0 : List PErr := []) : St :=
  let st := stBanner p peer (true, errs0)
  if !peer.hasKex then st else
  stDh p peer (stMacs p peer (stCiphers p peer (stKex p peer (stHostKeySizes p peer (stHostKeys p peer (stComp p peer st))))))

/-! ### Declarative specification (from the README wording) -/

def sizeOk (allowLarger : Bool) (actual expected : Nat) : Prop :=
  if allowLarger then expected ≤ actual else actual = expected

def listOk (allowSubset : Bool) (pol actual compared : List Str) : Prop :=
  if allowSubset then ∀ x ∈ actual, x ∈ pol else compared = pol

/-- "every field the policy specifies is satisfied" -/
def Satisfied (p : Policy) (peer : Peer) : Prop :=
  (∀ b, p.banner = some b → peer.bannerStr = b) ∧
  (peer.hasKex = true →
    (∀ c, p.compressions = some c → peer.comp = c) ∧
    (∀ hk, p.hostKeys = some hk → listOk p.allowSubset hk peer.key (prunedKeys p peer)) ∧
    (∀ sizes, p.hostkeySizes = some sizes → ∀ t exp act, lookup sizes t = some exp → lookup peer.hostKeys t = some act →
        sizeOk p.allowLarger act.size exp.size ∧
        ((exp.caType ≠ [] ∧ 0 < exp.caSize) → act.caType = exp.caType ∧ sizeOk p.allowLarger act.caSize exp.caSize)) ∧
    (∀ k, p.kex = some k → listOk p.allowSubset k peer.kex peer.kex ∧
        (p.allowSubset = true → (strictS ∈ k → strictS ∈ peer.kex) ∧ (strictC ∈ k → strictC ∈ peer.kex))) ∧
    (∀ c, p.ciphers = some c → listOk p.allowSubset c peer.enc peer.enc) ∧
    (∀ m, p.macs = some m → listOk p.allowSubset m peer.mac peer.mac) ∧
    (∀ sizes, p.dhSizes = some sizes → ∀ t exp act, lookup sizes t = some exp → lookup peer.dhSizes t = some act →
        sizeOk p.allowLarger act exp))

/-! ### Policy-file lines: `Policy.__init__` parser and `Policy.create` -/

/-- `line.split('=', 1)`: `none` when there is no `=` (ValueError "could not parse line") -/
def splitEq1 : Str → Option (Str × Str)
  | [] => none
  | c :: cs => if c = '=' then some ([], cs) else (splitEq1 cs).map (fun (k, v) => (c :: k, v))

/-- algorithm-list value: `[alg.strip() for alg in val.split(',')]` -/
def parseAlgs (val : Str) : List Str := (Text.splitOn ',' val).map Text.strip

/-- the four list-valued lines `Policy.create` writes: `key = a, b, c` -/
def renderList (key : Str) (names : List Str) : Str := key ++ s " = " ++ Text.join (s ", ") names

/-- parse one such line back: (stripped key, parsed list) -/
def parseListLine (line : Str) : Option (Str × List Str) :=
  (splitEq1 (Text.strip line)).map (fun (k, v) => (Text.strip k, parseAlgs (Text.strip v)))

/-! ### what `-M` followed by the parser yields -/

/-- CA fields survive the `-M` file only when both are non-empty (else trimmed, then normalised to `''`/0) -/
def normHKS (h : HKS) : HKS := if h.caType = [] ∨ h.caSize = 0 then { h with caType := [], caSize := 0 } else h

/-- the policy `-M` writes for a peer, as the parser reads it back -/
def policyOf (peer : Peer) : Policy :=
  { hostKeys := some peer.key, kex := some peer.kex, ciphers := some peer.enc, macs := some peer.mac,
    hostkeySizes := if peer.hostKeys = [] then none else some (peer.hostKeys.map (fun kv => (kv.1, normHKS kv.2))),
    dhSizes := if peer.dhSizes = [] then none else some peer.dhSizes }

end Pol
end SshAudit
