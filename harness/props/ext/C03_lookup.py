"""C03 extension — the `--lookup` view: `algorithm_lookup(out, alg_names)` and the way `main()` reaches it.

Theorems: SshAudit.Props.C03Lookup over the model SshAudit.Model.Lookup (split of the argument, per-category sets, the sections printed through the
audit's own output_algorithm, the not-found list, the similar-name suggestions, the return value, main()'s dispatch; every statement for every
database, every request and every iteration order of the Python sets).
Tie: the real algorithm_lookup on a recording buffer in batch / plain / verbose / coloured modes and the real main(['--lookup', …]) captured
in-process, against the model (`lookup.run`, `lookup.main`): every buffer entry, the return value, the sets, the not-found list and the suggestions.
Oracle (no model involved), on what the real code printed:
  (a) the names in the section of category c == the requested names that are keys of c — for kex also the requested gss-<method>-<suffix> names whose
      gss-<method>-* form is a key (the audit's rule; D38, repaired) — nothing merged, dropped or invented;
  (b) cross-view: the notes lookup prints for (c, name) == the notes the real output() prints for that name in a real audit rendering (random position, random
      neighbours), and a name lookup calls unknown is called unknown by the audit too;
  (c) the requested names that are in no category (and are not such gss names) == the names listed (with out.fail) as not found; none of them has an algorithm line;
  (d) the suggestions == {unknown --> (c) key : unknown.casefold() in key.casefold()};
  (e) return value 3 / 2 / 0 by what was printed (an unknown name or a [fail] note: 3; else a [warn] note: 2), and main() exits with it and prints the same text.
"""
import json
import os
import re

from common import Coverage, tstr, tstrs, toptstr
from props import report_common as rc
from props import peergen as pg

ID = 'C03'
MODULE = 'SshAudit.Props.C03Lookup'
NAMESPACE = 'SshAudit.C03Lookup'
THEOREMS = ['sections_categories', 'section_content', 'printed_iff', 'in_every_category', 'printed_once', 'line_shape',
            'notes_are_algTexts', 'notes_eq_audit', 'notes_eq_audit_unmeasured', 'notes_request_free', 'unknown_line_only_gss', 'known_in_audit',
            'audit_known_covers', 'audit_known_is_found', 'audit_known_iff_lookup_known', 'audit_known_iff_found', 'gss_instance_line',
            'not_found_iff', 'not_found_list', 'unknown_never_printed', 'known_never_listed', 'requested_accounted', 'unknown_flagged_fail',
            'similar_iff', 'similar_rule', 'similar_only_unknown', 'similar_text', 'similar_implies_not_found',
            'status_values', 'status_three_iff', 'status_two_iff', 'status_zero_iff', 'status_unknown', 'status_is_fold', 'status_order_free',
            'requested_join', 'requested_nonempty', 'empty_item_unknown', 'empty_item_suggests_all', 'case_variant_unknown_suggested', 'repeats_kept', 'found_depends_on_set',
            'entries_eq_closed', 'run_ok_iff', 'json_flag_ignored', 'main_dispatch', 'main_stdout', 'main_ignores_batch_level',
            'gen_has_cats', 'gen_no_blank_keys', 'gen_keys_nodup', 'gen_keys_normal', 'gen_never_unknown_line', 'gen_multi_category', 'gen_not_found_iff_audit_unknown', 'gen_gss_instance_known']

HOW = 'harness/props/ext/C03_lookup.py: real algorithm_lookup() / main() / output() in-process'
CATS = rc.CATS
VIEWS = {'batch': (True, False, False), 'plain': (False, False, False), 'verbose': (False, True, False), 'colors': (False, False, True), 'vcolors': (False, True, True)}
UNKNOWN_NOTES = [['warn', 'unknown algorithm']]


def cfg_token(view):
    b, v, c = VIEWS[view]
    return '%d%d0%d00:0' % (b, v, c)


# ---------------------------------------------------------------- the implementation

def impl_lookup(arg, view):
    """real algorithm_lookup on a fresh database and a recording buffer: (retval, buffer entries, records)"""
    from ssh_audit import ssh_audit as sa
    import fakenet
    fakenet.reset_dbs()
    out = rc.recording_buffer()
    out.batch, out.verbose, out.use_colors = VIEWS[view]
    out.level = 'info'
    ret = sa.algorithm_lookup(out, arg)
    out.flush_section()
    return ret, list(out.buffer), list(out.records)


def parse_lookup(records):
    """batch-mode records -> per-category lines [[name, notes, methods]], the names printed with out.fail outside a section, the texts printed with out.warn outside a section"""
    algs = rc.parse_alg_records([r for r in records if r[3]])
    stray = [r for r in records if r[3] and not (len(r[1]) > 6 and r[1][0] == '(' and r[1][4:6] == ') ' and r[1][1:4] in CATS) and not r[1].lstrip(' ').startswith('`- [')]
    nf = [s for lvl, s, _, insec in records if not insec and lvl == 'fail']
    sg = [s for lvl, s, _, insec in records if not insec and lvl == 'warn']
    rest = [(lvl, s) for lvl, s, _, insec in records if not insec and lvl not in ('fail', 'warn')]
    return {'algs': {c: algs[c] for c in CATS}, 'nf': nf, 'sg': sg, 'rest': rest, 'stray': [r[1] for r in stray]}


def run_case(arg, extra_views=()):
    res = {}
    for view in ('batch', 'plain') + tuple(extra_views):
        ret, entries, records = impl_lookup(arg, view)
        res[view] = {'ret': ret, 'entries': entries, 'records': records}
    res['parsed'] = parse_lookup(res['batch']['records'])
    return res


def main_argv(arg, flags):
    """argv for main(): flags is a subset of 'mvdbnj' plus optional level"""
    argv = []
    for f in flags.get('opts', ''):
        argv.append('-' + f)
    if flags.get('level'):
        argv += ['-l', flags['level']]
    if arg is not None:
        if flags.get('eq') or arg.startswith('-') or arg == '':
            argv.append('--lookup=' + arg)
        else:
            argv += ['--lookup', arg]
    argv += flags.get('tail', [])
    return argv


def impl_main(argv):
    import fakenet
    saved = os.environ.pop('NO_COLOR', None)
    try:
        code, text = fakenet.run_main(argv, fakenet.FakeNet({}))
    finally:
        if saved is not None:
            os.environ['NO_COLOR'] = saved
    return code, text


def quiet_peer(c, lst):
    base = {'kex': ['curve25519-sha256'], 'key': ['ssh-ed25519'], 'enc': ['aes256-ctr'], 'mac': ['hmac-sha2-256']}
    base[c] = list(lst)
    base['kex'] = base['kex'] + [pg.STRICT_S, pg.STRICT_C]
    return rc.mk_peer(base['kex'], base['key'], base['enc'], base['mac'])


def gss_covered(db, name):
    """the audit's rule for key exchanges (output_algorithm): gss-<method>-<suffix> is rated from the entry gss-<method>-*"""
    return name.startswith('gss-') and (name[:name.rindex('-')] + '-*') in db['kex']


def gss_key(cat, name):
    if cat == 'kex' and name.startswith('gss-'):
        return name[:name.rindex('-')] + '-*'
    return name


def audit_notes(r, c, name):
    """the notes the real output() shows for `name` advertised in category c of a real audit rendering (random position among random neighbours, fresh database):
    (list of note lists, one per occurrence; the advertised list)"""
    neigh = [x for x in pg.gen_list(r, c, length=r.choice([0, 1, 4]), allow_empty_name=False, p_dup=0) if x != name and gss_key(c, x) != gss_key(c, name)]
    pos = r.randint(0, len(neigh))
    lst = neigh[:pos] + [name] + neigh[pos:]
    _, out, _, _ = rc.run_output(quiet_peer(c, lst), fresh=True)
    algs = rc.parse_alg_records(out.records)
    return [x[1] for x in algs[c] if x[0] == name], lst


# ---------------------------------------------------------------- oracle (independent of the Lean model)

def status_expected(parsed, unknown_names):
    tags = [n[0] for c in CATS for x in parsed['algs'][c] for n in x[1]]
    return 3 if (unknown_names or 'fail' in tags) else 2 if 'warn' in tags else 0


def oracle_case(arg, res, db, r, audits, reverse_budget=3):
    """the clauses of the property on what the real code printed for `--lookup arg`; returns failures"""
    fails = []

    def fail(kind, observed, expected, **extra):
        fails.append({'sig': dict({'kind': kind}, **extra), 'input': {'arg': arg}, 'observed': observed, 'expected': expected, 'how': HOW})
    names = arg.split(',')
    parsed = res['parsed']
    # (a) sections
    for c in CATS:
        want = sorted(set(n for n in names if n in db[c] or (c == 'kex' and gss_covered(db, n))))
        got = sorted(set(x[0] for x in parsed['algs'][c]))
        if got != want:
            fail('lookup_section_names', {'category': c, 'shown': got[:12]}, want[:12], category=c)
    if parsed['stray']:
        fail('lookup_stray_section_line', parsed['stray'][:3], 'only "(kex|key|enc|mac) name …" lines inside a section')
    # (c) not found
    known = set()
    for c in CATS:
        known |= set(db[c])
    want_nf = [n for n in names if n not in known and not gss_covered(db, n)]
    if sorted(set(parsed['nf'])) != sorted(set(want_nf)):
        fail('lookup_not_found_list', {'listed': sorted(set(parsed['nf']))[:12]}, sorted(set(want_nf))[:12])
    # (d) suggestions
    want_sg = sorted(set('%s --> (%s) %s' % (u, c, k) for u in set(want_nf) for c in db for k in db[c] if u.casefold() in k.casefold()))
    got_sg = sorted(set(parsed['sg']))
    if got_sg != want_sg:
        diff = sorted(set(got_sg) ^ set(want_sg))
        fail('lookup_suggestions', {'count': len(got_sg), 'differing': diff[:6]}, {'count': len(want_sg)})
    # (e) status, the same in every mode
    exp = status_expected(parsed, want_nf)
    rets = {v: res[v]['ret'] for v in res if v in VIEWS}
    if any(x != exp for x in rets.values()):
        fail('lookup_status', rets, exp, unknown=bool(want_nf))
    # the text of the other modes names the same algorithms with the same notes
    for view in res:
        if view in VIEWS and view != 'batch':
            other = rc.parse_alg_records([(lvl, re.sub('\x1b\\[0(;[0-9][0-9])?m', '', s_), a, i) for lvl, s_, a, i in res[view]['records'] if i], verbose=VIEWS[view][1])
            for c in CATS:
                a = sorted([x[0].rstrip(' '), x[1]] for x in other[c])
                b = sorted([x[0].rstrip(' '), x[1]] for x in parsed['algs'][c])     # the column padding cannot be told from blanks at the end of a name
                if a != b:
                    fail('lookup_notes_differ_between_modes', {'mode': view, 'category': c, 'lines': a[:2]}, b[:2], category=c)
    # (b) cross-view with a real audit rendering
    for c in CATS:
        for name, notes, _ in parsed['algs'][c]:
            if (c, name) not in audits:
                audits[(c, name)] = audit_notes(r, c, name)
            got, lst = audits[(c, name)]
            if not got or any(g != notes for g in got):
                fail('lookup_notes_differ_from_audit', {'category': c, 'name': name, 'lookup': notes, 'audit': got, 'audit_list': lst}, 'the same notes in both views', category=c)
    seen = 0
    for u in dict.fromkeys(parsed['nf']):            # what the implementation itself lists as unknown must be unknown to the audit as well (D38)
        if seen >= reverse_budget or u.strip() == '' or len(u) > 400:
            continue
        seen += 1
        for c in ['kex', r.choice(['key', 'enc', 'mac'])]:
            if (c, u) not in audits:
                audits[(c, u)] = audit_notes(r, c, u)
            got, lst = audits[(c, u)]
            if got != [UNKNOWN_NOTES]:
                fail('lookup_unknown_audit_known', {'category': c, 'name': u, 'lookup': 'listed under "# unknown algorithms", exit %d' % res['batch']['ret'], 'audit': got, 'audit_list': lst},
                     'a name the audit rates is found by --lookup with the same notes', category=c, gss=bool(c == 'kex' and u.startswith('gss-')))
    return fails


def oracle_main(arg, flags, code, text, db):
    """main(['--lookup', arg]) against algorithm_lookup called directly with the options main() leaves in force (implementation against implementation)"""
    fails = []
    argv = main_argv(arg, flags)

    def fail(kind, observed, expected, **extra):
        fails.append({'sig': dict({'kind': kind}, **extra), 'input': {'arg': arg, 'argv': argv, 'flags': flags}, 'observed': observed, 'expected': expected, 'how': HOW})
    opts = flags.get('opts', '')
    if 'm' in opts:
        if '# unknown algorithms' in text or re.search(r'\((kex|key|enc|mac)\) ', text):
            fail('main_manual_ran_lookup', text[:200], 'the -m path')
        return fails
    if arg is None or arg == '':
        if '# unknown algorithms' in text or '# suggested similar' in text:
            fail('main_lookup_without_value', {'exit': code, 'stdout': text[:200]}, 'no lookup output')
        return fails
    colors = 'n' not in opts and 'j' not in opts
    view = {(False, False): 'plain', (True, False): 'verbose', (False, True): 'colors', (True, True): 'vcolors'}[('v' in opts, colors)]
    ret, entries, _ = impl_lookup(arg, view)
    want = '\n'.join(entries) + '\n'
    if canon_text(text) != canon_text(want) or code != ret:
        fail('main_lookup_differs', {'exit': code, 'stdout': text[:300]}, {'exit': ret, 'stdout': want[:300]})
    return fails


def canon_text(t):
    return t


# ---------------------------------------------------------------- correspondence with the model

def orders(parsed):
    return ' '.join(tstrs([x[0] for x in parsed['algs'][c]]) for c in ('kex', 'key', 'mac', 'enc'))


def model_lines(arg, res):
    return ['lookup.run %s %s %s' % (cfg_token(v), tstr(arg), orders(res['parsed'])) for v in res if v in VIEWS]


def compare(arg, res, ms):
    d = []
    views = [v for v in res if v in VIEWS]
    parsed = res['parsed']
    for v, m in zip(views, ms):
        if 'ok' not in m:
            d.append('%s: model error %r' % (v, m))
            continue
        k = m['ok']
        if k['entries'] != res[v]['entries']:
            a, b = k['entries'], res[v]['entries']
            j = next((j for j, (x, y) in enumerate(zip(a, b)) if x != y), min(len(a), len(b)))
            d.append('%s text differs at entry %d of %d/%d: model %r impl %r' % (v, j, len(a), len(b), a[j:j + 1], b[j:j + 1]))
        if k['closed'] != k['entries']:
            d.append('%s: closed form differs from the executed buffer in the model' % v)
        if k['retval'] != res[v]['ret']:
            d.append('%s return value: model %d impl %d' % (v, k['retval'], res[v]['ret']))
        if v == 'batch':
            for c in CATS:
                if sorted(k['found'][c]) != sorted(x[0] for x in parsed['algs'][c]):
                    d.append('set of %s: model %r impl %r' % (c, sorted(k['found'][c])[:5], sorted(x[0] for x in parsed['algs'][c])[:5]))
            ml = {sc['cat']: [[l['shown'], l['notes']] for l in sc['lines']] for sc in k['sections']}
            il = {c: [[x[0], x[1]] for x in parsed['algs'][c]] for c in CATS if parsed['algs'][c]}
            if ml != il:
                d.append('section lines: model %r impl %r' % (str(ml)[:200], str(il)[:200]))
            if k['notFound'] != parsed['nf']:
                d.append('not found: model %r impl %r' % (k['notFound'][:5], parsed['nf'][:5]))
            if ['%s --> (%s) %s' % tuple(g) for g in k['similar']] != parsed['sg']:
                d.append('suggestions: model %d impl %d entries' % (len(k['similar']), len(parsed['sg'])))
            if k['requested'] != arg.split(','):
                d.append('split: model %r impl %r' % (k['requested'][:5], arg.split(',')[:5]))
    return d


def main_model_line(arg, flags, parsed):
    opts = flags.get('opts', '')
    lv = {'info': 0, 'warn': 1, 'fail': 2}[flags.get('level') or 'info']
    tok = ''.join('1' if f in opts else '0' for f in 'mvdbnj') + ':%d' % lv
    return 'lookup.main %s %s %s' % (tok, toptstr(arg), orders(parsed))


# ---------------------------------------------------------------- generators

def look_alike(r, db):
    """an unknown name close to a known one"""
    c = r.choice(CATS)
    k = r.choice(list(db[c]))
    how = r.choice(['sub', 'super', 'case', 'upper', 'space', 'prefix', 'suffix', 'mid', 'gss', 'tab'])
    if how == 'sub' and len(k) > 3:
        i = r.randrange(0, len(k) - 2)
        return k[i:r.randrange(i + 2, len(k) + 1)]
    if how == 'super':
        return r.choice(['x', 'a-', '@']) + k if r.random() < 0.5 else k + r.choice(['x', '-v2', '@example.org', '='])
    if how == 'case':
        return ''.join(ch.upper() if r.random() < 0.4 else ch.lower() for ch in k)
    if how == 'upper':
        return k.upper()
    if how == 'space':
        return r.choice([' ' + k, k + ' ', ' ' + k + ' '])
    if how == 'tab':
        return k + '\t'
    if how == 'prefix':
        return k[:max(1, len(k) // 2)]
    if how == 'suffix':
        return k[len(k) // 2:]
    if how == 'gss':
        return pg.gss_name(r)
    return k[:len(k) // 2] + '_' + k[len(k) // 2:]


def gen_item(r, db, multi, prev):
    x = r.random()
    if prev and x < 0.10:
        return r.choice(prev)
    if x < 0.50:
        return r.choice(list(db[r.choice(CATS)]))
    if x < 0.58:
        return r.choice(multi)
    if x < 0.64:
        return r.choice(pg.gss_wildcards())
    if x < 0.70:
        return pg.gss_name(r)
    if x < 0.88:
        return look_alike(r, db)
    if x < 0.93:
        return pg.unknown_name(r, r.choice(['plain', 'at', 'long', 'eq', 'gssunk'])).replace(',', '.')
    if x < 0.96:
        return r.choice(['', '', ' ', '\t'])
    return r.choice(['é', 'ssh-rsaü', '日本', '*', '-', '@', 'gss-', '-*', 'sha', '=='])


def gen_args(ctx, db, multi):
    r = ctx.rng
    out = []
    for _ in range(ctx.scale(110, 1500)):
        n = r.choice([1, 2, 2, 3, 3, 5, 8, 13, 30])
        items = []
        for _ in range(n):
            items.append(gen_item(r, db, multi, items))
        out.append(','.join(items))
    # very long lists
    allnames = [k for c in CATS for k in db[c]]
    for _ in range(ctx.scale(2, 10)):
        big = [gen_item(r, db, multi, []) for _ in range(r.choice([200, 600, 1500]))]
        big = [b for b in big if b != '']          # an empty item alone multiplies the output by the size of the database
        out.append(','.join(big))
    sh = list(allnames)
    r.shuffle(sh)
    out.append(','.join(sh))
    return out


def corpus(db, multi):
    allnames = [k for c in CATS for k in db[c]]
    return [
        'gss-group14-sha256-toWM5Slw5Ew8Mqkay+al2g==',            # D38 (repaired): the audit rates it from gss-group14-sha256-*, --lookup called it unknown
        'gss-gex-sha1-vz8J1E9PzLr8b1K+0remTg==', 'gss-group1-sha1-a/b+c/d==', 'gss-nistp256-sha256-+/+/=', 'gss-curve25519-sha256-=', 'gss-group16-sha512-',
        'gss-group14-sha256-*', 'gss-group14-sha256-*,gss-group14-sha256-x,gss-group14-sha256-x,gss-group14-sha256-y', 'gss-', 'gss-x', 'gss-*', 'gss', 'gss-group14-sha256',
        'gss-group14-sha256-a-b', 'GSS-group14-sha256-x', ' gss-group14-sha256-x', 'gss-group14-sha256-x ', 'gss-13.3.132.0.10-sha256-Zz09+/==,nosuch,ssh-rsa',
        'ssh-rsa', 'none', 'aes128-gcm,aes256-gcm', ','.join(multi), 'ssh-ed25519,curve25519-sha256,aes256-ctr,hmac-sha2-256',
        'gss-group14-sha256-*', 'gss-group14-sha256-toWM5Slw5Ew8Mqkay+al2g==', 'gss-group14-sha256-*,gss-group14-sha256-toWM5Slw5Ew8Mqkay+al2g==', 'gss-', 'gss-group14',
        ',', 'ssh-rsa,', ',ssh-rsa', 'ssh-rsa,,ssh-dss', ' ', ' ssh-rsa', 'ssh-rsa ', 'ssh-rsa, ssh-dss', 'ssh-rsa\t',
        'SSH-RSA', 'Ssh-Rsa,ssh-rsa', 'curve25519sha256', 'CURVE25519SHA256', 'aead_aes_128_gcm', 'AEAD_AES_128_GCM',
        'ssh-rsa,ssh-rsa', 'nosuch,nosuch', 'nosuch,ssh-rsa,nosuch', 'none,none,none',
        'ssh', 'sha2', 'ssh-rsa-x', 'xssh-rsa', 'rsa', 'a', '-', '*', '@openssh.com', 'zzzz-not-an-algorithm',
        'hmac-md5,nosuch', 'diffie-hellman-group1-sha1', 'diffie-hellman-group-exchange-sha256', 'ssh-rsa-cert-v01@openssh.com',
        'x' * 300, 'ssh-rsa,' + 'y' * 120, 'é', 'ssh-rsaü,ssh-rsa',
        ','.join(allnames), ','.join(allnames + allnames[::-1]),
    ]


MAIN_FLAGS = [{'opts': ''}, {'opts': 'n'}, {'opts': 'v'}, {'opts': 'vn'}, {'opts': 'b'}, {'opts': 'bn'}, {'opts': 'n', 'level': 'warn'}, {'opts': 'n', 'level': 'fail'},
              {'opts': 'j'}, {'opts': 'jn'}, {'opts': 'd'}, {'opts': 'dn'}, {'opts': 'm'}, {'opts': 'mn'}, {'opts': 'n', 'eq': True}, {'opts': 'bvn', 'level': 'warn'},
              {'opts': 'n', 'tail': ['some.host.example']}, {'opts': 'n', 'tail': ['-L']}, {'opts': 'n', 'tail': ['-T', '/nonexistent/targets']},
              {'opts': 'n', 'tail': ['-P', 'no such policy']}]


def run(ctx):
    import fakenet
    r = ctx.rng
    db = pg.master()
    counts = {}
    for c in CATS:
        for k in db[c]:
            counts[k] = counts.get(k, 0) + 1
    multi = sorted(k for k, n in counts.items() if n > 1)
    cov = Coverage('--lookup: one evaluation = one (argument, mode) run of the real algorithm_lookup / main(); non-trivial = distinct argument naming at least one database key; '
                   'every database name alone, names of several categories, gss wildcards and gss-<method>-<base64> instances, unknown look-alikes (sub- and superstrings, other case, '
                   'blanks around, prefixes), empty and blank items, repeats, lists of 1-1500 items; each printed (category, name) is cross-checked against a real audit rendering')
    failures, mismatches = [], []
    audits = {}
    lines, expect = [], []
    singles = [k for c in CATS for k in db[c]]
    args = corpus(db, multi) + list(dict.fromkeys(singles)) + gen_args(ctx, db, multi)
    rot = ['verbose', 'colors', 'vcolors']
    for i, arg in enumerate(args):
        big = len(arg) > 3000
        res = run_case(arg, extra_views=() if big and i % 2 else (rot[i % 3],))
        failures.extend(oracle_case(arg, res, db, r, audits))
        names = arg.split(',')
        nk = sum(1 for n in set(names) if n in counts)
        for v in res:
            if v in VIEWS:
                tags = ['lookup-' + v, 'lookup-exit-%d' % res[v]['ret'], 'lookup-items-' + ('1' if len(names) == 1 else '2-9' if len(names) < 10 else '10-99' if len(names) < 100 else '100+')]
                if v == 'batch':
                    tags += (['lookup-multi-category'] if any(n in multi for n in names) else []) + (['lookup-empty-item'] if '' in names else []) + \
                            (['lookup-repeat'] if len(set(names)) < len(names) else []) + (['lookup-unknown'] if res['parsed']['nf'] else []) + \
                            (['lookup-suggestions'] if res['parsed']['sg'] else []) + (['lookup-gss'] if any(n.startswith('gss-') for n in names) else [])
                cov.add(('lookup', arg, v), nk > 0, tags=tags,
                        sample={'arg': arg, 'mode': v, 'exit': res[v]['ret'], 'not_found': res['parsed']['nf'][:3], 'suggestions': len(res['parsed']['sg'])} if arg == 'Ssh-Rsa,ssh-rsa' and v == 'batch' else None)
        ls = model_lines(arg, res)
        lines.extend(ls)
        expect.append((arg, res, len(ls)))
    model = ctx.driver(lines) if ctx.driver_ok else []
    pos = 0
    for arg, res, n in expect:
        if pos + n > len(model):
            break
        d = compare(arg, res, model[pos:pos + n])
        pos += n
        if d:
            mismatches.append({'stream': 'lookup.run', 'op': 'lookup.run … %r' % arg[:120], 'model': d[:3], 'impl': {'arg': arg[:200]}})
    # main()
    mlines, mexpect = [], []
    margs = corpus(db, multi)[:62] + [None, ''] + r.sample(singles, ctx.scale(12, 80)) + r.sample(args[-ctx.scale(110, 1500):], ctx.scale(30, 300))
    for i, arg in enumerate(margs):
        for flags in ([MAIN_FLAGS[i % len(MAIN_FLAGS)]] + ([MAIN_FLAGS[(i * 7 + 3) % len(MAIN_FLAGS)]] if i % 3 == 0 else [])):
            if arg is None and not flags.get('tail'):
                flags = dict(flags, tail=['-L'])
            argv = main_argv(arg, flags)
            code, text = impl_main(argv)
            failures.extend(oracle_main(arg, flags, code, text, db))
            cov.add(('main', json.dumps(argv)), arg not in (None, ''), tags=['main-lookup', 'main-opts-' + (flags.get('opts') or 'none')])
            parsed = parse_lookup(impl_lookup(arg, 'batch')[2]) if arg else {'algs': {c: [] for c in CATS}}
            mlines.append(main_model_line(arg, flags, parsed))
            mexpect.append((argv, arg, flags, code, text))
    mm = ctx.driver(mlines) if ctx.driver_ok else []
    for line, m, (argv, arg, flags, code, text) in zip(mlines, mm, mexpect):
        k = m.get('ok')
        if k is None:
            mismatches.append({'stream': 'lookup.main', 'op': line[:200], 'model': m, 'impl': {'argv': argv}})
            continue
        if k['kind'] == 'lookup':
            if k['stdout'] != text or k['exit'] != code:
                mismatches.append({'stream': 'lookup.main', 'op': line[:200], 'model': {'exit': k['exit'], 'stdout': k['stdout'][:200]}, 'impl': {'argv': argv, 'exit': code, 'stdout': text[:200]}})
        else:
            is_lookup = '# unknown algorithms' in text or bool(re.search(r'\((kex|key|enc|mac)\) ', text))
            manual = text.startswith("\x1b[0;31mThe '-m'") or text.startswith("The '-m'")
            if is_lookup or (k['kind'] == 'manual') != manual:
                mismatches.append({'stream': 'lookup.main', 'op': line[:200], 'model': k, 'impl': {'argv': argv, 'exit': code, 'stdout': text[:200]}})
    fakenet.reset_dbs()
    return {'failures': failures, 'mismatches': mismatches, 'coverage': cov, 'corr_cases': len(model) + len(mm),
            'assumptions': ['--lookup: str.casefold() is modelled on ASCII (the database is ASCII); requested names with characters whose case folding is not the identity outside ASCII are not generated',
                            '--lookup: the iteration order of the per-category Python sets is taken from the run (it depends on the hash seed) and must be a permutation of the model\'s set; the theorems hold for every order',
                            '--lookup: argparse itself is not modelled; the model of main() starts from the parsed options'],
            'observations': ['--lookup iterates Python sets: the order of the lines inside a section of `--lookup a,b,c` varies with PYTHONHASHSEED (not a C03 matter; the notes per name do not)',
                             '--lookup with an empty item (`--lookup a,,b`, a trailing comma) lists an empty unknown name and suggests every name of the database (the empty string is a substring of all of them)',
                             'main(): -b and -l have no effect on --lookup (the buffer options are only copied in audit()), -j prints the text report with colours off']}


# ---------------------------------------------------------------- replay

def replay(obj):
    import random
    f = obj.get('failure', obj)
    inp = f.get('input') or {}
    if 'arg' not in inp:
        print(json.dumps(f, indent=1)[:2000])
        import sys
        from common import rerun_for_signature
        return rerun_for_signature(sys.modules[__name__], f)
    import common
    common.repo_src()
    db = pg.master()
    arg = inp['arg']
    bad = 0
    if 'argv' in inp:
        code, text = impl_main(inp['argv'])
        print('main(%r): exit %r\n%s' % (inp['argv'], code, text[:1500]))
        fails = oracle_main(arg, inp.get('flags') or {}, code, text, db)
    else:
        res = run_case(arg, extra_views=('verbose', 'colors'))
        print('--lookup %r: return value %d, sections %r, not found %r, %d suggestions' % (
            arg[:200], res['batch']['ret'], {c: [[x[0], x[1]] for x in res['parsed']['algs'][c]][:4] for c in CATS if res['parsed']['algs'][c]}, res['parsed']['nf'][:8], len(res['parsed']['sg'])))
        fails = oracle_case(arg, res, db, random.Random(0), {}, reverse_budget=50)
    for x in fails:
        print('PROPERTY FAILS (%s): observed %r, expected %r' % (json.dumps(x['sig'], sort_keys=True), x['observed'], x['expected']))
        bad = 1
    if not bad:
        print('the lookup view agrees with the database and with the audit view on this input')
    return bad
