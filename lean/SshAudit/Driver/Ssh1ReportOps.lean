import SshAudit.Driver.WireOps
import SshAudit.Driver.ReportOps
import SshAudit.Driver.OutputOps
import SshAudit.Model.Ssh1Report
import SshAudit.Gen.KexDB
import SshAudit.Gen.Tables
namespace SshAudit.Driver
open SshAudit

def ssh1Tables : Ssh1Report.Tables := { ciphers := Gen.ssh1Ciphers, auths := Gen.ssh1Auths }

/-- banner tokens: `~` (no banner) or `<major> <minor> <software|~> <comments|~> <valid_ascii>` -/
def decBanner1 : List String → Option (Option Banner.Banner)
  | ["~"] => some none
  | [ma, mi, sw, cm, va] => do
    let ma ← decNat ma; let mi ← decNat mi; let sw ← decOptStr sw; let cm ← decOptStr cm; let va ← decBool va
    pure (some { protocol := (ma, mi), software := sw, comments := cm, validAscii := va })
  | _ => none

def jostr1 (o : Option Str) : J := J.ofOpt .str o

def jdoc1 (d : Ssh1Report.Doc) : J := .obj [
  ("banner", .obj [("raw", .str d.bannerRaw), ("protocol", jostr1 d.bannerProtocol), ("software", jostr1 d.bannerSoftware), ("comments", jostr1 d.bannerComments)]),
  ("client_ip", jostr1 d.clientIp), ("target", jostr1 d.target),
  ("key", J.ofStrs d.key), ("enc", J.ofOpt J.ofStrs d.enc), ("aut", J.ofOpt J.ofStrs d.aut),
  ("fingerprints", .arr [.obj [("type", .str d.fpType), ("fp", jostr1 d.fp)]]),
  ("recs", .arr (d.recs.map jrec)), ("notes", J.ofStrs d.notes)]

/-- `ssh1.report <cfg,cfg,…> <cmask> <amask> <hkBits> <hkE> <hkN> <client|~> <target|~> <header strs> <rate> <host:port> <sha256 text> <md5 text> <banner tokens…>`:
    the SSH-1 report of the generated tables (lines per category with notes, status, recommendations, JSON document) and the rendered
    buffer entries for every listed option set.
    `ssh1.notes <cat> <name>`: the note list of one name in the SSH-1 database. -/
def ssh1ReportOp (op : String) (args : List String) : Option J :=
  match op with
  | "ssh1.report" =>
    match args with
    | cfgs :: cm :: am :: hb :: he :: hn :: cl :: tg :: hd :: rn :: hp :: sha :: md5 :: btoks => do
      let cfgs ← (cfgs.splitOn ",").mapM decCfg
      let cm ← decNat cm; let am ← decNat am; let hb ← decNat hb; let he ← decNat he; let hn ← decNat hn
      let cl ← decOptStr cl; let tg ← decOptStr tg; let hd ← decStrs hd; let rn ← decStr rn; let hp ← decStr hp
      let sha ← decStr sha; let md5 ← decStr md5
      let b ← decBanner1 btoks
      let pkm : Wire.Pkm := { cookie := [], skBits := 0, skE := 0, skN := 0, hkBits := hb, hkE := he, hkN := hn, pflags := 0, cmask := cm, amask := am }
      let x : Ssh1Report.Input := { pkm := pkm, banner := b, clientHost := cl, target := tg, header := hd, rateNotes := rn, hostPort := hp }
      let h : Ssh1Report.Hashes := { sha256 := fun _ => sha, md5 := fun _ => md5 }
      let r := Ssh1Report.report ssh1Tables Gen.ssh1db Gen.ssh2db x
      let d := Ssh1Report.doc ssh1Tables h Gen.ssh1db Gen.ssh2db x
      pure (jok (.obj [
        ("ciphers", J.ofStrs r.ciphers), ("auths", J.ofStrs r.auths),
        ("key", .arr (r.key.map jline)), ("enc", .arr (r.enc.map jline)), ("aut", .arr (r.aut.map jline)),
        ("status", .nat r.status), ("unknown", J.ofStrs r.unknown), ("recs", .arr (r.recs.map jrec)), ("notes", J.ofStrs r.notes),
        ("suppress", J.ofStrs r.suppress), ("maxlen", .nat r.maxlen), ("compat", jostr1 r.compat),
        ("software", jostr1 (r.software.map (fun sw => Version.display sw true))),
        ("fpdata", J.ofBytes (Ssh1Report.fpData pkm)),
        ("doc", jdoc1 d),
        ("entries", .arr (cfgs.map fun cfg => J.ofStrs (Ssh1Report.render cfg h x r [])))]))
    | _ => none
  | "ssh1.notes" =>
    match args with
    | [cat, n] => do
      let cat ← decStr cat; let n ← decStr n
      pure (jok (match Report.algTexts Gen.ssh1db cat n with
        | some (ts, unk) => .obj [("notes", .arr (ts.map jnote)), ("unknown", .bool unk)]
        | none => .null))
    | _ => none
  | _ => none

end SshAudit.Driver
