/-
  Regenerated logic against the hand-written model, unit `LogicCrc` (C10): the two functions of `ssh1_crc32.py`
  (`SshAudit.Gen.Logic.ssh1_crc32_table`, `ssh1_crc32_calc`, written to `Gen/LogicCrc.lean` by `harness/translate_logic.py`) against
  `Wire.crcTable`, `Wire.crcCalc`.  Kept apart from `Props/GenLogic.lean` because the table is evaluated by the kernel (2048 list
  updates, about 40 s): this file is re-checked only when `Gen/LogicCrc.lean` changes.
-/
import SshAudit.Gen.LogicCrc
import SshAudit.Lemmas.Py
import SshAudit.Model.Wire
set_option linter.unusedSimpArgs false
namespace SshAudit.GenLogic
open SshAudit

/-- `SSH1_CRC32.__init__` never raises and leaves exactly the model's table in `self._table`: by evaluation (closed term), so the
    proof does not depend on how the Python loop is written -/
theorem ssh1_crc32_table_eq_model : Gen.Logic.ssh1_crc32_table = some (Wire.crcTable.map Int.ofNat) := by
  decide +kernel

theorem crcTable_length : Wire.crcTable.length = 256 := by decide +kernel

theorem table_get (n : Nat) (h : n < 256) : Py.getItem (Wire.crcTable.map Int.ofNat) (n : Int) = some ((Wire.crcTable.getD n 0 : Nat) : Int) := by
  rw [Py.getItem_of_nonneg (by omega)]
  have h2 : n < Wire.crcTable.length := by rw [crcTable_length]; exact h
  simp [List.getD, h2]

theorem table_get' (n : Nat) : Py.getItem (Wire.crcTable.map Int.ofNat) (n : Int) = if n < 256 then some ((Wire.crcTable.getD n 0 : Nat) : Int) else none := by
  split
  · exact table_get n ‹_›
  · rw [Py.getItem_of_nonneg (by omega)]
    have : Wire.crcTable.length ≤ n := by rw [crcTable_length]; omega
    simp [this]


/-- `SSH1_CRC32.calc` never raises (the table index stays below 256) and computes the model's `crcCalc`.  The idiom
    `for i in range(len(v)): ord(v[i:i + 1])` is turned into a loop over the bytes by `Py.foldlOpt_range_bytes`; the loop body — whatever
    the translator produced for it — only has to map a non-negative `crc` and a byte to the model's next `crc`: that is shown by pulling the
    casts out of `& ^ >> % //` and normalising (`& 255` = `% 256`, `>> 8` = `// 256`, `^` commutative), not by matching its text. -/
theorem ssh1_crc32_calc_eq_model (v : Bytes) : Gen.Logic.ssh1_crc32_calc v = some ((Wire.crcCalc v : Nat) : Int) := by
  unfold Gen.Logic.ssh1_crc32_calc
  rw [ssh1_crc32_table_eq_model]
  simp only [Option.bind_some, Py.foldlOpt_range_bytes]
  suffices h : ∀ F : Int → UInt8 → Option Int,
      (∀ (c : Nat) (x : UInt8), F (c : Int) x = some (((c >>> 8) ^^^ Wire.crcTable.getD (x.toNat ^^^ (c % 256)) 0 : Nat) : Int)) →
      (Py.foldlOpt F ((0 : Nat) : Int) v).bind some = some ((Wire.crcCalc v : Nat) : Int) by
    apply h
    intro c x
    have hx : x.toNat < 256 := x.toNat_lt
    simp only [Int.ofNat_eq_natCast, Py.band_lit_r, Py.band_lit_l, Py.bxor_lit_r, Py.bxor_lit_l, Py.mod_lit, Py.div_lit, Py.band_natCast, Py.bxor_natCast,
      Py.shiftRight_natCast, Py.and_255, Py.and_255', table_get']
    have hlt : ∀ a b : Nat, a < 256 → b < 256 → a ^^^ b < 256 := fun a b ha hb => Nat.xor_lt_two_pow (n := 8) ha hb
    have hm : c % 256 < 256 := Nat.mod_lt _ (by decide)
    simp only [hlt, hx, hm, if_true, Option.bind_some, Py.bxor_natCast, Nat.xor_comm (c % 256), Py.shr8] <;> grind
  intro F hF
  rw [Py.foldlOpt_nat_sim F _ hF]
  rfl

end SshAudit.GenLogic
