import SshAudit.Driver.Ssh1ReportOps
import SshAudit.Driver.VersionOps
import SshAudit.Model.Compat
namespace SshAudit.Driver
open SshAudit SshAudit.Version

def compatProducts : List Str := [pOpenSSH, pDropbear, pLibSSH]

/-- the time frame as the line sees it: per product `[in, from, till]` for the role asked -/
def jframe (tf : Timeframe) (fs : Bool) : J :=
  .arr (compatProducts.map fun p => .arr [.bool (tfContains tf p), jostr1 (tfGetFrom tf p fs), jostr1 (tfGetTill tf p fs)])

def jcompat (db : DB) (items : List (Str × List Str)) (client fs : Bool) : J :=
  .obj [("text", jostr1 (Compat.compatText db items client fs)),
        ("line", jostr1 (Compat.compatLine db items client fs)),
        ("parts", J.ofStrs (Compat.partsFor (Compat.timeframe db items fs) fs)),
        ("frame", jframe (Compat.timeframe db items fs) fs)]

/-- one entry of a private database: `<name>=<optstr>,<optstr>,…` (`_` for an empty version list) -/
def decEntry (tok : String) : Option Entry :=
  match tok.splitOn "=" with
  | [n, vs] => do
    let n ← decStr n
    let vs ← if vs = "_" then some [] else (vs.splitOn ",").mapM decOptStr
    pure { name := n, desc := [vs] }
  | _ => none

def jitem (it : Output.Item) : J := .arr [.str (methName it.meth).toList, .str it.text, .bool it.always]

def emptyReport (comp : List Str) : Report.Report :=
  { kex := [], key := [], enc := [], mac := [], status := 0, compression := comp.filter (· ≠ Report.s "none"), recs := [], notes := [], unknown := [] }

/-- `compat.line <client> <for_server> <kex> <key> <enc> <mac>`: `output_compatibility` over the regenerated SSH-2 database.
    `compat.custom <client> <for_server> <entries ; separated | _> <names>`: the same over a private one-category database.
    `compat.general <client ip|~> <target|~> <header strs> <kex> <key> <enc> <mac> <compression> <banner tokens…>`: the `# general`
    items of `output()` for an SSH-2 peer, software and compatibility derived by the model.
    `compat.software <software|~> <comments|~>`: the software line, `display(True)` and `display(False)` of the parsed banner. -/
def compatOp (op : String) (args : List String) : Option J :=
  match op, args with
  | "compat.line", [cl, fs, a, b, c, d] => do
      let cl ← decBool cl; let fs ← decBool fs
      let a ← decStrs a; let b ← decStrs b; let c ← decStrs c; let d ← decStrs d
      pure (jok (jcompat Gen.ssh2db (db2Items a b c d) cl fs))
  | "compat.custom", [cl, fs, es, names] => do
      let cl ← decBool cl; let fs ← decBool fs
      let es ← if es = "_" then some [] else (es.splitOn ";").mapM decEntry
      let names ← decStrs names
      pure (jok (jcompat [(Report.kexC, es)] [(Report.kexC, names)] cl fs))
  | "compat.general", ch :: tg :: hd :: a :: b :: c :: d :: comp :: btoks => do
      let ch ← decOptStr ch; let tg ← decOptStr tg; let hd ← decStrs hd
      let a ← decStrs a; let b ← decStrs b; let c ← decStrs c; let d ← decStrs d; let comp ← decStrs comp
      let bn ← decBanner1 btoks
      let peer : Report.Peer := { kex := a, key := b, encC := c, encS := c, macC := d, macS := d, compS := comp }
      let inp : Output.Input := { report := emptyReport comp, hasKex := true, target := tg,
                                  header := if hd.length > 0 then some (Text.join (Report.s "\n") hd) else none }
      let inp := Compat.fill Gen.ssh2db peer bn ch inp
      pure (jok (.obj [("items", .arr ((Output.generalItems inp).map jitem)),
                       ("title", .str (Output.recTitle inp)),
                       ("compat", jostr1 inp.compat)]))
  | "compat.software", [sw, cm] => do
      let sw ← decOptStr sw; let cm ← decOptStr cm
      let b : Banner.Banner := { protocol := (2, 0), software := sw, comments := cm, validAscii := true }
      pure (jok (.obj [("line", jostr1 (Compat.softwareLine (some b))),
                       ("full", jostr1 ((Compat.softwareOf (some b)).map fun x => display x true)),
                       ("short", jostr1 ((Compat.softwareOf (some b)).map fun x => display x false))]))
  | _, _ => none

end SshAudit.Driver
