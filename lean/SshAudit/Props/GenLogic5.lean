/-
  Regenerated logic against the hand-written model, fifth unit (round 15): the SSH-2 multiple-precision integer reader (C10).

  `Gen.Logic.parse_mpint` is `ReadBuf._parse_mpint` and `Gen.Logic.mpint2_pad_fmt` the choice of padding byte and first-word format in
  `ReadBuf.read_mpint2`, as `harness/translate_logic.py` reads them from the source on every run (`struct.unpack` of one field is
  `Py.unpack1`, the `for i in range(0, len(v), 4)` loop a fold that can raise).  `read_mpint2_eq_model` says that together they compute the
  two's-complement value of the byte string — `Wire.signedBE`, the function the round-trip theorems of C10 are about — for every non-empty
  byte string.  (The defect D01 lived here: every 32-bit word was unpacked as signed.)
-/
import SshAudit.Gen.Logic5
import SshAudit.Lemmas.Py
import SshAudit.Model.Wire
import SshAudit.Lemmas.Wire
import SshAudit.Props.C10
set_option linter.unusedSimpArgs false
namespace SshAudit.GenLogic
open SshAudit

/-! ### `(r << 32) | t` is `r * 2^32 + t` for a 32-bit `t` -/

/-- a number whose low 32 bits are all ones, xor-ed with its own and with a 32-bit `t`, loses exactly `t` -/
theorem xor_and_low (h t : Nat) (ht : t < 4294967296) :
    (4294967296 * h + 4294967295) ^^^ ((4294967296 * h + 4294967295) &&& t) = 4294967296 * h + (4294967295 - t) := by
  have p32 : (4294967296 : Nat) = 2 ^ 32 := by decide
  have ht' : t < 2 ^ 32 := by omega
  have hones : (4294967295 : Nat) = 2 ^ 32 - 1 := by decide
  have hlo : 4294967295 - t = 2 ^ 32 - (t + 1) := by omega
  have hlo' : 2 ^ 32 - (t + 1) < 2 ^ 32 := by omega
  have hones' : 2 ^ 32 - 1 < 2 ^ 32 := by omega
  rw [hlo, hones, p32]
  apply Nat.eq_of_testBit_eq
  intro j
  rw [Nat.testBit_xor, Nat.testBit_and, Nat.testBit_two_pow_mul_add h hones', Nat.testBit_two_pow_mul_add h hlo']
  by_cases hj : j < 32
  · simp only [hj, if_true, Nat.testBit_two_pow_sub_one, decide_true, Bool.true_and, Nat.testBit_two_pow_sub_succ ht']
    cases t.testBit j <;> rfl
  · have : t.testBit j = false := Nat.testBit_lt_two_pow (Nat.lt_of_lt_of_le ht' (Nat.pow_le_pow_right (by decide) (by omega)))
    simp [hj, this]

theorem bor_negSucc_natCast (k t : Nat) : Py.bor (Int.negSucc k) (t : Int) = Int.negSucc (k ^^^ (k &&& t)) := rfl

theorem negSucc_mul_pow (m : Nat) : (Int.negSucc m) * 4294967296 = Int.negSucc (4294967296 * m + 4294967295) := by
  rw [Int.negSucc_eq, Int.negSucc_eq]
  omega

/-- `(r << 32) | t` for any integer `r` and a 32-bit `t` -/
theorem bor_shl (r : Int) (t : Nat) (ht : t < 4294967296) : Py.bor (r <<< (32 : Nat)) (t : Int) = r * 4294967296 + t := by
  have p32 : (2 : Int) ^ 32 = 4294967296 := by decide
  rw [Int.shiftLeft_eq, p32]
  cases r with
  | ofNat m =>
    have e : (Int.ofNat m) * 4294967296 = ((m * 4294967296 : Nat) : Int) := by simp
    rw [e, Py.bor_natCast]
    have q32 : (4294967296 : Nat) = 2 ^ 32 := by decide
    have := Nat.shiftLeft_add_eq_or_of_lt (i := 32) (by omega : t < 2 ^ 32) m
    rw [Nat.shiftLeft_eq, ← q32] at this
    rw [← this]
    simp
  | negSucc m =>
    rw [negSucc_mul_pow, bor_negSucc_natCast, xor_and_low m t ht, Int.negSucc_eq, Int.negSucc_eq]
    omega

/-! ### the loop over 32-bit words -/

/-- one pass of `for i in range(0, len(v), 4)` -/
def wordStep (f : Str) (v : Bytes) (r : Int) (i : Int) : Option Int :=
  (Py.unpack1 (if (i == 0) then f else ['>', 'I']) (Py.slice v i (i + 4))).bind fun t => some (Py.bor (r <<< (32 : Nat)) t)

/-- the same loop on the bytes that are left, four at a time -/
def wordsFold (f : Str) : Bool → Int → Bytes → Option Int
  | _, r, [] => some r
  | first, r, a :: b :: c :: d :: rest =>
    (Py.unpack1 (if first then f else ['>', 'I']) [a, b, c, d]).bind fun t => wordsFold f false (Py.bor (r <<< (32 : Nat)) t) rest
  | _, _, _ => none

theorem range3_words (j m : Nat) :
    Py.range3 (4 * (j : Int)) (4 * ((j + m : Nat) : Int)) 4 = (List.range m).map (fun (i : Nat) => 4 * (j : Int) + 4 * (i : Int)) := by
  unfold Py.range3
  have h1 : ¬ ((4 : Int) ≤ 0) := by omega
  have h2 : ((4 * ((j + m : Nat) : Int) - 4 * (j : Int) + 4 - 1) / 4).toNat = m := by omega
  simp only [h1, if_false, h2]

theorem words_loop (f : Str) (v : Bytes) (m : Nat) : ∀ (j : Nat) (r : Int), v.length = 4 * (j + m) →
    Py.foldlOpt (wordStep f v) r ((List.range m).map (fun (i : Nat) => 4 * (j : Int) + 4 * (i : Int))) =
      wordsFold f (j == 0) r (v.drop (4 * j)) := by
  induction m with
  | zero =>
    intro j r hl
    have : v.drop (4 * j) = [] := List.drop_eq_nil_of_le (by omega)
    simp [this, wordsFold]
  | succ m ih =>
    intro j r hl
    rw [List.range_succ_eq_map, List.map_cons, List.map_map, Py.foldlOpt_cons]
    -- the four bytes at offset 4j
    obtain ⟨a, b, c, d, rest, hdrop⟩ : ∃ a b c d rest, v.drop (4 * j) = a :: b :: c :: d :: rest := by
      have hlen : (v.drop (4 * j)).length = 4 * (m + 1) := by simp; omega
      match hv : v.drop (4 * j), hlen with
      | a :: b :: c :: d :: rest, _ => exact ⟨a, b, c, d, rest, rfl⟩
      | [], h => simp at h
      | [_], h => simp at h; omega
      | [_, _], h => simp at h; omega
      | [_, _, _], h => simp at h; omega
    have hslice : Py.slice v (4 * (j : Int) + 4 * ((0 : Nat) : Int)) (4 * (j : Int) + 4 * ((0 : Nat) : Int) + 4) = [a, b, c, d] := by
      rw [Py.slice_of_nonneg (by omega) (by omega)]
      have e1 : (4 * (j : Int) + 4 * ((0 : Nat) : Int)).toNat = 4 * j := by omega
      have e2 : (4 * (j : Int) + 4 * ((0 : Nat) : Int) + 4).toNat - 4 * j = 4 := by omega
      rw [e1, e2, hdrop]
      rfl
    have hzero : ((4 * (j : Int) + 4 * ((0 : Nat) : Int)) == 0) = (j == 0) := by
      cases j with
      | zero => rfl
      | succ n => simp; omega
    have hrest : v.drop (4 * (j + 1)) = rest := by
      have : v.drop (4 * (j + 1)) = (v.drop (4 * j)).drop 4 := by
        rw [List.drop_drop]
        have : 4 * (j + 1) = 4 * j + 4 := by omega
        rw [this]
      rw [this, hdrop]; rfl
    have hfun : ((fun (i : Nat) => 4 * (j : Int) + 4 * (i : Int)) ∘ Nat.succ) = fun (i : Nat) => 4 * ((j + 1 : Nat) : Int) + 4 * (i : Int) := by
      funext i
      simp only [Function.comp]
      omega
    rw [hfun, hdrop]
    simp only [wordStep, hslice, hzero, wordsFold]
    cases hu : Py.unpack1 (if (j == 0) = true then f else ['>', 'I']) [a, b, c, d] with
    | none => simp
    | some t =>
      simp only [Option.bind_some]
      have := ih (j + 1) (Py.bor (r <<< (32 : Nat)) t) (by omega)
      have hne : ((j + 1) == 0) = false := by simp
      rw [hne, hrest] at this
      exact this

/-! ### the value the loop computes -/

theorem beNat_append (a b : Bytes) : Py.beNat (a ++ b) = Py.beNat a * 256 ^ b.length + Py.beNat b := by
  unfold Py.beNat
  rw [List.foldl_append]
  generalize List.foldl (fun a x => a * 256 + x.toNat) 0 a = s0
  induction b generalizing s0 with
  | nil => simp
  | cons x xs ih =>
    simp only [List.foldl_cons, List.length_cons]
    rw [ih]
    have h2 : List.foldl (fun a (x : UInt8) => a * 256 + x.toNat) (0 * 256 + x.toNat) xs
        = (0 * 256 + x.toNat) * 256 ^ xs.length + List.foldl (fun a (x : UInt8) => a * 256 + x.toNat) 0 xs := ih _
    rw [h2, Nat.pow_succ]
    simp only [Nat.zero_mul, Nat.zero_add]
    rw [Nat.add_mul, Nat.mul_assoc, Nat.mul_comm 256 (256 ^ xs.length), Nat.add_assoc]

theorem foldl_be_lt (b : Bytes) : ∀ s0 : Nat, List.foldl (fun a (x : UInt8) => a * 256 + x.toNat) s0 b < (s0 + 1) * 256 ^ b.length := by
  induction b with
  | nil => intro s0; simp
  | cons x xs ih =>
    intro s0
    simp only [List.foldl_cons, List.length_cons, Nat.pow_succ]
    have hx : x.toNat < 256 := x.toNat_lt
    calc List.foldl (fun a (x : UInt8) => a * 256 + x.toNat) (s0 * 256 + x.toNat) xs
        < (s0 * 256 + x.toNat + 1) * 256 ^ xs.length := ih _
      _ ≤ ((s0 + 1) * 256) * 256 ^ xs.length := Nat.mul_le_mul_right _ (by omega)
      _ = (s0 + 1) * (256 ^ xs.length * 256) := by rw [Nat.mul_assoc, Nat.mul_comm 256]

theorem beNat_lt (b : Bytes) : Py.beNat b < 256 ^ b.length := by
  have := foldl_be_lt b 0
  simpa [Py.beNat] using this

theorem pow256_4 (m : Nat) : 256 ^ (4 * m) = 4294967296 ^ m := by
  rw [Nat.pow_mul]

theorem unpack_unsigned (a b c d : UInt8) : Py.unpack1 ['>', 'I'] [a, b, c, d] = some (Py.beNat [a, b, c, d] : Int) := by
  simp [Py.unpack1]

theorem word_lt (a b c d : UInt8) : Py.beNat [a, b, c, d] < 4294967296 := by
  have := beNat_lt [a, b, c, d]
  simpa using this

/-- after the first word every word is unsigned: the loop appends the big-endian value of what is left -/
theorem wordsFold_unsigned (f : Str) (m : Nat) : ∀ (w : Bytes) (r : Int), w.length = 4 * m →
    wordsFold f false r w = some (r * (4294967296 : Int) ^ m + (Py.beNat w : Int)) := by
  induction m with
  | zero =>
    intro w r hl
    have : w = [] := List.eq_nil_of_length_eq_zero (by omega)
    subst this
    simp [wordsFold, Py.beNat]
  | succ m ih =>
    intro w r hl
    match w, hl with
    | a :: b :: c :: d :: rest, hl =>
      have hr : rest.length = 4 * m := by simp at hl; omega
      simp only [wordsFold, Bool.false_eq_true, if_false, unpack_unsigned, Option.bind_some]
      rw [bor_shl r _ (word_lt a b c d), ih rest _ hr]
      have happ : Py.beNat (a :: b :: c :: d :: rest) = Py.beNat [a, b, c, d] * 4294967296 ^ m + Py.beNat rest := by
        have := beNat_append [a, b, c, d] rest
        rw [hr, pow256_4] at this
        exact this
      have happ' : (Py.beNat (a :: b :: c :: d :: rest) : Int) = (Py.beNat [a, b, c, d] : Int) * (4294967296 : Int) ^ m + (Py.beNat rest : Int) := by
        rw [happ, Int.natCast_add, Int.natCast_mul, Int.natCast_pow]
        rfl
      rw [happ']
      congr 1
      rw [Int.add_mul, Int.pow_succ, Int.mul_assoc, Int.mul_comm (4294967296 : Int) ((4294967296 : Int) ^ m), Int.add_assoc]
    | [], hl => simp at hl
    | [_], hl => simp at hl; omega
    | [_, _], hl => simp at hl; omega
    | [_, _, _], hl => simp at hl; omega

theorem bor_zero_shl (t : Int) : Py.bor ((0 : Int) <<< (32 : Nat)) t = t := by
  rw [Int.shiftLeft_eq, Int.zero_mul]
  cases t with
  | ofNat n => show ((0 ||| n : Nat) : Int) = _; simp
  | negSucc n => show Int.negSucc (n ^^^ (n &&& 0)) = _; simp

theorem top_bit (x : Nat) : (Py.band (x : Int) 128 != 0) = decide (128 ≤ x % 256) := by
  rw [Py.band_lit_r]
  have h : x &&& 128 = if x.testBit 7 then 128 else 0 := by
    apply Nat.eq_of_testBit_eq
    intro i
    rw [Nat.testBit_and]
    have e128 : (128 : Nat) = 2 ^ 7 := by decide
    by_cases hi : i = 7
    · subst hi
      cases hx : x.testBit 7 <;> simp [e128, Nat.testBit_two_pow_self]
    · have : (128 : Nat).testBit i = false := by rw [e128, Nat.testBit_two_pow]; simp; omega
      cases hx : x.testBit 7 <;> simp [this]
  rw [h, Nat.testBit_eq_decide_div_mod_eq]
  by_cases h2 : 128 ≤ x % 256
  · have : x / 2 ^ 7 % 2 = 1 := by omega
    simp [this, h2]
  · have : ¬ (x / 2 ^ 7 % 2 = 1) := by omega
    simp [this, h2]

theorem beNat_natsOf (v : Bytes) : (Wire.ofBE (Wire.natsOf v)) = Py.beNat v := by
  unfold Wire.ofBE Wire.natsOf Py.beNat
  rw [List.foldl_map]

theorem beNat_zeros (p : Nat) : Py.beNat (List.replicate p (0 : UInt8)) = 0 := by
  induction p with
  | zero => rfl
  | succ p ih =>
    rw [List.replicate_succ]
    have := beNat_append [0] (List.replicate p (0 : UInt8))
    simp only [List.singleton_append] at this
    rw [this, ih]
    simp [Py.beNat]

theorem beNat_ones (p : Nat) : Py.beNat (List.replicate p (255 : UInt8)) + 1 = 256 ^ p := by
  induction p with
  | zero => rfl
  | succ p ih =>
    rw [List.replicate_succ]
    have := beNat_append [255] (List.replicate p (255 : UInt8))
    simp only [List.singleton_append, List.length_replicate] at this
    rw [this, Nat.pow_succ]
    have h255 : Py.beNat [(255 : UInt8)] = 255 := by decide
    rw [h255]
    omega

/-! ### `_parse_mpint` is the loop over the padded string -/

/-- `pad * (4 - len(v) % 4) + v` when the length is not a multiple of four -/
def padded (v : Bytes) (padb : UInt8) : Bytes :=
  if v.length % 4 != 0 then List.replicate (4 - v.length % 4) padb ++ v else v

theorem padded_len (v : Bytes) (padb : UInt8) : (padded v padb).length % 4 = 0 := by
  unfold padded
  by_cases h : v.length % 4 = 0
  · simp [h]
  · simp [h]; omega

theorem parse_mpint_eq_words (v : Bytes) (padb : UInt8) (f : Str) :
    Gen.Logic.parse_mpint v [padb] f = wordsFold f true 0 (padded v padb) := by
  have hv2 : (if (Int.ofNat v.length % 4 != 0) = true then Py.repeatB [padb] (4 - Int.ofNat v.length % 4) ++ v else v) = padded v padb := by
    unfold padded Py.repeatB
    have hc : (Int.ofNat v.length % 4 != 0) = (v.length % 4 != 0) := by
      rw [Bool.eq_iff_iff]
      simp only [bne_iff_ne, ne_eq, Int.ofNat_eq_natCast]
      omega
    have hk : (4 - Int.ofNat v.length % 4).toNat = 4 - v.length % 4 := by simp only [Int.ofNat_eq_natCast]; omega
    rw [hc, hk, List.flatten_replicate_singleton]
  simp only [Gen.Logic.parse_mpint, hv2]
  generalize hw : padded v padb = w
  have hlen : w.length % 4 = 0 := by rw [← hw]; exact padded_len v padb
  obtain ⟨m, hm⟩ : ∃ m, w.length = 4 * m := ⟨w.length / 4, by omega⟩
  have hr : Py.range3 0 (Int.ofNat w.length) 4 = (List.range m).map (fun (i : Nat) => 4 * ((0 : Nat) : Int) + 4 * (i : Int)) := by
    have := range3_words 0 m
    simp only [Nat.zero_add] at this
    rw [← this, hm]
    simp
  rw [hr]
  have := words_loop f w m 0 0 (by omega)
  simp only [Nat.mul_zero, List.drop_zero, beq_self_eq_true] at this
  rw [← this]
  show (Py.foldlOpt (wordStep f w) 0 _).bind (fun r => some r) = _
  cases Py.foldlOpt (wordStep f w) 0 (List.map (fun (i : Nat) => 4 * ((0 : Nat) : Int) + 4 * (i : Int)) (List.range m)) <;> rfl

/-! ### `read_mpint2`: the two's-complement value -/

theorem mpint2_pad_fmt_eq (x : UInt8) (xs : Bytes) :
    Gen.Logic.mpint2_pad_fmt (x :: xs) = some (if 128 ≤ x.toNat then ([255], ['>', 'i']) else ([0], ['>', 'I'])) := by
  have hs : Py.slice (x :: xs) 0 1 = [x] := by
    rw [Py.slice_of_nonneg (by omega) (by omega)]; rfl
  have hx : x.toNat % 256 = x.toNat := Nat.mod_eq_of_lt x.toNat_lt
  simp only [Gen.Logic.mpint2_pad_fmt, hs, Py.ordB, Option.bind_some, Int.ofNat_eq_natCast, top_bit, hx]
  by_cases h : 128 ≤ x.toNat <;> simp [h]

theorem wordsFold_first_irrelevant (first : Bool) (r : Int) (w : Bytes) :
    wordsFold ['>', 'I'] first r w = wordsFold ['>', 'I'] false r w := by
  match w with
  | [] => simp [wordsFold]
  | [_] => simp [wordsFold]
  | [_, _] => simp [wordsFold]
  | [_, _, _] => simp [wordsFold]
  | a :: b :: c :: d :: rest => cases first <;> simp [wordsFold]

/-- a non-negative number: zero padding, every word unsigned -/
theorem parse_unsigned (v : Bytes) : Gen.Logic.parse_mpint v [0] ['>', 'I'] = some (Py.beNat v : Int) := by
  rw [parse_mpint_eq_words, wordsFold_first_irrelevant]
  obtain ⟨m, hm⟩ : ∃ m, (padded v 0).length = 4 * m := ⟨(padded v 0).length / 4, by have := padded_len v 0; omega⟩
  rw [wordsFold_unsigned _ m _ _ hm, Int.zero_mul, Int.zero_add]
  congr 2
  unfold padded
  split
  · rw [beNat_append, beNat_zeros]; simp
  · rfl

theorem word_ge (a b c d : UInt8) (ha : 128 ≤ a.toNat) : 2147483648 ≤ Py.beNat [a, b, c, d] := by
  have := beNat_append [a] [b, c, d]
  simp only [List.singleton_append, List.length_cons, List.length_nil] at this
  rw [this]
  have h1 : Py.beNat [a] = a.toNat := by simp [Py.beNat]
  rw [h1]
  have : (256 : Nat) ^ (0 + 1 + 1 + 1) = 16777216 := by decide
  omega

theorem unpack_signed_neg (a b c d : UInt8) (ha : 128 ≤ a.toNat) :
    Py.unpack1 ['>', 'i'] [a, b, c, d] = some ((Py.beNat [a, b, c, d] : Int) - 4294967296) := by
  have h := word_ge a b c d ha
  have e31 : (2 : Nat) ^ 31 = 2147483648 := by decide
  have : ¬ (Py.beNat [a, b, c, d] < 2 ^ 31) := by omega
  have e32 : (2 : Int) ^ 32 = 4294967296 := by decide
  simp [Py.unpack1, this, e32]

/-- a negative number (top bit of the first byte set): `ff` padding, the first word signed -/
theorem parse_signed (x : UInt8) (xs : Bytes) (hx : 128 ≤ x.toNat) :
    Gen.Logic.parse_mpint (x :: xs) [255] ['>', 'i'] = some ((Py.beNat (x :: xs) : Int) - (256 : Int) ^ (xs.length + 1)) := by
  rw [parse_mpint_eq_words]
  -- the padded string: p bytes ff, then the string; p + length is a positive multiple of four
  obtain ⟨p, hp⟩ : ∃ p, padded (x :: xs) 255 = List.replicate p (255 : UInt8) ++ (x :: xs) := by
    unfold padded
    split
    · exact ⟨_, rfl⟩
    · exact ⟨0, rfl⟩
  have hlen := padded_len (x :: xs) 255
  rw [hp] at hlen ⊢
  -- its first four bytes
  obtain ⟨a, b, c, d, rest, hw, ha⟩ : ∃ a b c d rest, List.replicate p (255 : UInt8) ++ (x :: xs) = a :: b :: c :: d :: rest ∧ 128 ≤ a.toNat := by
    have hl : 4 ≤ (List.replicate p (255 : UInt8) ++ (x :: xs)).length := by
      simp only [List.length_append, List.length_replicate, List.length_cons] at hlen ⊢; omega
    match hq : List.replicate p (255 : UInt8) ++ (x :: xs), hl with
    | a :: b :: c :: d :: rest, _ =>
      refine ⟨a, b, c, d, rest, rfl, ?_⟩
      cases p with
      | zero => simp at hq; rw [← hq.1]; exact hx
      | succ p => rw [List.replicate_succ] at hq; simp at hq; rw [← hq.1]; decide
    | [], h => simp at h
    | [_], h => simp at h
    | [_, _], h => simp at h
    | [_, _, _], h => simp at h
  obtain ⟨m, hm⟩ : ∃ m, rest.length = 4 * m := by
    refine ⟨rest.length / 4, ?_⟩
    have : (a :: b :: c :: d :: rest).length % 4 = 0 := by rw [← hw]; exact hlen
    simp only [List.length_cons] at this
    omega
  rw [hw]
  simp only [wordsFold, if_true, unpack_signed_neg a b c d ha, Option.bind_some, bor_zero_shl]
  rw [wordsFold_unsigned _ m _ _ hm]
  congr 1
  -- arithmetic: value of the padded string minus 256^(its length) = value of the string minus 256^(its length)
  have hA : Py.beNat (a :: b :: c :: d :: rest) = Py.beNat [a, b, c, d] * 4294967296 ^ m + Py.beNat rest := by
    have := beNat_append [a, b, c, d] rest
    rw [hm, pow256_4] at this
    exact this
  have hB : Py.beNat (List.replicate p (255 : UInt8) ++ (x :: xs)) = Py.beNat (List.replicate p (255 : UInt8)) * 256 ^ (xs.length + 1) + Py.beNat (x :: xs) := by
    rw [beNat_append]; rfl
  have hC := beNat_ones p
  have hL : p + (xs.length + 1) = 4 * (m + 1) := by
    have : (List.replicate p (255 : UInt8) ++ (x :: xs)).length = (a :: b :: c :: d :: rest).length := by rw [hw]
    simp only [List.length_append, List.length_replicate, List.length_cons] at this
    omega
  have hP : (256 : Nat) ^ p * 256 ^ (xs.length + 1) = 4294967296 ^ (m + 1) := by
    rw [← Nat.pow_add, hL, pow256_4]
  rw [hw] at hB
  -- everything in Nat, then cast
  have key : Py.beNat [a, b, c, d] * 4294967296 ^ m + Py.beNat rest + 256 ^ (xs.length + 1) = Py.beNat (x :: xs) + 4294967296 ^ (m + 1) := by
    rw [← hA, hB, ← hP]
    have : Py.beNat (List.replicate p (255 : UInt8)) * 256 ^ (xs.length + 1) + 256 ^ (xs.length + 1) = 256 ^ p * 256 ^ (xs.length + 1) := by
      rw [← hC, Nat.add_mul, Nat.one_mul]
    omega
  have keyZ : ((Py.beNat [a, b, c, d] : Int) * (4294967296 : Int) ^ m + (Py.beNat rest : Int)) + (256 : Int) ^ (xs.length + 1)
      = (Py.beNat (x :: xs) : Int) + (4294967296 : Int) ^ (m + 1) := by
    have := congrArg (fun n : Nat => (n : Int)) key
    simp only [Int.natCast_add, Int.natCast_mul, Int.natCast_pow] at this
    exact this
  rw [Int.sub_mul, Int.pow_succ] at *
  omega

/-- the choice of padding byte and first-word format in `read_mpint2` follows the top bit of the first byte -/
theorem mpint2_pad_fmt_eq_model (x : UInt8) (xs : Bytes) :
    Gen.Logic.mpint2_pad_fmt (x :: xs) = some (if 128 ≤ x.toNat then ([255], ['>', 'i']) else ([0], ['>', 'I'])) :=
  mpint2_pad_fmt_eq x xs

theorem signedBE_cons (b : Nat) (r : List Nat) :
    Wire.signedBE (b :: r) = if 128 ≤ b then (Wire.ofBE (b :: r) : Int) - (256 : Int) ^ (r.length + 1) else (Wire.ofBE (b :: r) : Int) := rfl

/-- `read_mpint2` on a non-empty string: the regenerated `_parse_mpint`, called with the regenerated choice of padding and format, computes
    `Wire.signedBE` — the two's-complement value the round-trip theorems of C10 are about — and never raises -/
theorem parse_mpint_eq_model (v : Bytes) (hv : v ≠ []) :
    ((Gen.Logic.mpint2_pad_fmt v).bind fun pf => Gen.Logic.parse_mpint v pf.1 pf.2) = some (Wire.signedBE (Wire.natsOf v)) := by
  match v, hv with
  | x :: xs, _ =>
    rw [mpint2_pad_fmt_eq]
    have hnat : Wire.natsOf (x :: xs) = x.toNat :: Wire.natsOf xs := rfl
    have hval : Wire.ofBE (x.toNat :: Wire.natsOf xs) = Py.beNat (x :: xs) := by rw [← hnat]; exact beNat_natsOf _
    have hlen : (Wire.natsOf xs).length = xs.length := by unfold Wire.natsOf; exact List.length_map _
    rw [hnat, signedBE_cons, hval, hlen]
    by_cases h : 128 ≤ x.toNat
    · simp only [h, if_true, Option.bind_some]
      exact parse_signed x xs h
    · simp only [h, if_false, Option.bind_some]
      exact parse_unsigned (x :: xs)

example : ((Gen.Logic.mpint2_pad_fmt [0xfe, 0x80, 0, 0, 0]).bind fun pf => Gen.Logic.parse_mpint [0xfe, 0x80, 0, 0, 0] pf.1 pf.2) = some (-0x180000000) := by
  decide

/-- the regenerated reader inverts the model's writer: for every non-zero integer, what `_create_mpint` (model `Wire.createMpint`, tied by
    correspondence) writes is read back as that integer by the code of `read_mpint2` / `_parse_mpint` as it stands in the source today -/
theorem regenerated_reader_inverts_writer (n : Int) (hn : n ≠ 0) :
    ((Gen.Logic.mpint2_pad_fmt (Wire.bytesOf (Wire.createMpint n))).bind fun pf =>
        Gen.Logic.parse_mpint (Wire.bytesOf (Wire.createMpint n)) pf.1 pf.2) = some n := by
  have hne : Wire.bytesOf (Wire.createMpint n) ≠ [] := by
    intro h
    have h0 : Wire.createMpint n = [] := by
      unfold Wire.bytesOf at h
      exact List.map_eq_nil_iff.mp h
    have := C10.createMpint_signed n
    rw [h0] at this
    exact hn (by simpa [Wire.signedBE] using this.symm)
  rw [parse_mpint_eq_model _ hne, Wire.natsOf_bytesOf _ (C10.createMpint_lt n), C10.createMpint_signed]

end SshAudit.GenLogic
