/-
  C16 — Identification strings are recognised, decomposed and sanitised correctly.

  Model: SshAudit.Model.Banner (`Banner.parse` / `__str__`, the ASCII filters of utils.py,
  `read_line`, the header loop of `SSH_Socket.get_banner`), tied to the Python code by
  correspondence.  Every theorem quantifies over all texts / byte strings / chunk lists
  (unbounded).  Product and version extraction (`Software.parse`) is covered by the search
  oracle of harness/props/C16.py, not here (its model belongs to C14).
-/
import SshAudit.Lemmas.Banner
namespace SshAudit.C16
open SshAudit SshAudit.Banner

/-! ### sanitising (`to_print_ascii`, `is_print_ascii`, `valid_ascii`) -/

/-- every character shown is in 32..126 -/
theorem sanitise_printable (s : Str) : ∀ c ∈ toPrintAscii s, 32 ≤ c.toNat ∧ c.toNat ≤ 126 := by
  intro c hc
  rw [toPrint_eq_map] at hc
  obtain ⟨x, _, rfl⟩ := List.mem_map.mp hc
  have := isPrint_san x
  simp only [isPrint, isPrintCode, Bool.and_eq_true, decide_eq_true_eq] at this
  omega

/-- each character is kept if printable and becomes exactly one `?` otherwise (nothing is
    dropped, inserted or reordered) -/
theorem sanitise_pointwise (s : Str) :
    (toPrintAscii s).length = s.length ∧
      ∀ i (h : i < s.length), (toPrintAscii s)[i]? = some (if isPrint s[i] then s[i] else '?') := by
  rw [toPrint_eq_map]
  refine ⟨by simp, ?_⟩
  intro i h
  simp [san, h]

/-- a line is left unchanged exactly when it was printable already -/
theorem sanitise_fixed_iff (s : Str) : toPrintAscii s = s ↔ isPrintAscii s = true := by
  constructor
  · intro h; rw [← h]; exact isPrintAscii_toPrint s
  · exact toPrint_of_print s

/-- `valid_ascii` is set exactly when the input line was printable already -/
theorem valid_ascii_iff (l : Str) (b : Banner.Banner) (h : parse l = some b) : b.validAscii = isPrintAscii l := by
  unfold parse at h
  split at h
  · simp at h
  · simp only [Option.some.injEq] at h
    subst h
    rfl

/-- the parts reported depend on the line only through its sanitised form -/
theorem parse_via_sanitised (l : Str) :
    parse l = (parse (toPrintAscii l)).map (fun b => { b with validAscii := isPrintAscii l }) := by
  unfold parse
  simp only [toPrint_idem]
  cases rxBanner (toPrintAscii l) with
  | none => rfl
  | some g => rfl

/-- on printable ASCII, Python's (Unicode) notion of whitespace is the blank alone: this is what
    lets the model read `\s` as `' '` -/
theorem space_printable (c : Char) (h : isPrint c = true) : isUSpace c = isBlank c := by
  simp only [isPrint, isPrintCode, Bool.and_eq_true, decide_eq_true_eq] at h
  by_cases hc : c = ' '
  · subst hc; decide
  · have hn : c.toNat ≠ 32 := by
      intro h32
      apply hc
      apply Char.ext
      apply UInt32.toNat_inj.mp
      simpa using h32
    have hb : isBlank c = false := by simpa [isBlank] using hc
    rw [hb]
    simp only [isUSpace, Bool.or_eq_false_iff, Bool.and_eq_false_iff, decide_eq_false_iff_not, beq_eq_false_iff_ne]
    omega

/-! ### acceptance and decomposition -/

/-- a software token of the grammar: non-empty, no blank, not starting with `SSH-` once shown -/
structure Token (t : Str) : Prop where
  ne : t ≠ []
  noblank : ∀ x ∈ t, x ≠ ' '
  noSsh : sshDash.isPrefixOf (toPrintAscii t) = false

theorem san_blank (c : Char) : isBlank (san c) = isBlank c := by
  unfold san
  split
  · rfl
  · next h =>
    have h1 : isBlank '?' = false := by decide
    rw [h1]
    cases hb : isBlank c with
    | false => rfl
    | true =>
      rw [isBlank_eq c hb] at h
      exact absurd (by decide) h

theorem token_shown (t : Str) (ht : Token t) :
    toPrintAscii t ≠ [] ∧ ∀ x ∈ toPrintAscii t, isBlank x = false := by
  rw [toPrint_eq_map]
  constructor
  · simpa using ht.ne
  · intro x hx
    obtain ⟨c, hc, rfl⟩ := List.mem_map.mp hx
    rw [san_blank]
    simpa [isBlank] using ht.noblank c hc

/-! In the statements below a protocol item is a pair `p = (d, m)` with `WfPair p`: `d` a digit,
    `m` a non-empty digit string; `protoStr p` is the text `SSH-d.m`; `chain ps rem` is
    `-SSH-d₁.m₁-SSH-d₂.m₂…` followed by `rem` (empty `ps`: just `rem`); `protocolOf` is the
    smallest pair in Python's tuple-of-strings order, converted to integers. -/

theorem tail_dash_print (t c : Str) :
    toPrintAscii ('-' :: t ++ ' ' :: c) = '-' :: toPrintAscii t ++ ' ' :: toPrintAscii c ∧
    isPrintAscii ('-' :: t ++ ' ' :: c) = (isPrintAscii t && isPrintAscii c) ∧
    toPrintAscii ('-' :: t) = '-' :: toPrintAscii t ∧ isPrintAscii ('-' :: t) = isPrintAscii t := by
  have h1 : san '-' = '-' := by decide
  have h2 : san ' ' = ' ' := by decide
  have h3 : isPrint '-' = true := by decide
  have h4 : isPrint ' ' = true := by decide
  simp [toPrint_append, toPrint_cons, isPrintAscii_append, isPrintAscii_cons, h1, h2, h3, h4]

/-- `SSH-d.m[-SSH-d.m…]` alone: no software, no comments -/
theorem accept_bare (p : Pair) (ps : List Pair) (hp : ∀ q ∈ p :: ps, WfPair q) :
    parse (protoStr p ++ chain ps [])
      = some { protocol := protocolOf (p :: ps), software := none, comments := none, validAscii := true } := by
  rw [parse_chain p ps [] hp rfl (by intro r h; cases h)]
  rfl

/-- `SSH-d.m-`: the software string is empty (not absent) -/
theorem accept_dash (p : Pair) (ps : List Pair) (hp : ∀ q ∈ p :: ps, WfPair q) :
    parse (protoStr p ++ chain ps ['-'])
      = some { protocol := protocolOf (p :: ps), software := some [], comments := none, validAscii := true } := by
  rw [parse_chain p ps ['-'] hp rfl (by intro r h; cases h; rfl)]
  rfl

/-- `SSH-d.m[-SSH-d.m…]-t` -/
theorem accept_software (p : Pair) (ps : List Pair) (t : Str) (hp : ∀ q ∈ p :: ps, WfPair q) (ht : Token t) :
    parse (protoStr p ++ chain ps ('-' :: t))
      = some { protocol := protocolOf (p :: ps), software := some (toPrintAscii t), comments := none,
               validAscii := isPrintAscii t } := by
  obtain ⟨hne, hnb⟩ := token_shown t ht
  obtain ⟨_, _, hs, hpr⟩ := tail_dash_print t []
  rw [parse_chain p ps _ hp (by rw [hs]; rfl)]
  · rw [hs, hpr, parseTail_token_end _ _ hnb]
    simp only [ofGroups, softwareOf_token _ _ hnb hne, Option.getD_none, normComments_nil]
  · intro r hr
    rw [hs] at hr
    injection hr with _ hr
    subst hr
    have := matchProto_token (toPrintAscii t) [] (by intro a r h; cases h) ht.noSsh
    simpa using this

/-- `SSH-d.m[-SSH-d.m…]-t c…` -/
theorem accept_comments (p : Pair) (ps : List Pair) (t c : Str) (hp : ∀ q ∈ p :: ps, WfPair q) (ht : Token t) :
    parse (protoStr p ++ chain ps ('-' :: t ++ ' ' :: c))
      = some { protocol := protocolOf (p :: ps), software := some (toPrintAscii t),
               comments := normComments (toPrintAscii c), validAscii := isPrintAscii t && isPrintAscii c } := by
  obtain ⟨hne, hnb⟩ := token_shown t ht
  obtain ⟨hs, hpr, _, _⟩ := tail_dash_print t c
  have hblank : ∀ (a : Char) (r : Str), ' ' :: toPrintAscii c = a :: r → isBlank a = true := by
    intro a r h; injection h with h1 _; subst h1; rfl
  rw [parse_chain p ps _ hp (by rw [hs]; rfl)]
  · rw [hs, hpr, parseTail_token _ _ _ hnb hne]
    simp only [ofGroups, softwareOf_token _ _ hnb hne, Option.getD_some, normComments_dropWhile]
  · intro r hr
    rw [hs] at hr
    injection hr with _ hr
    subst hr
    exact matchProto_token _ _ hblank ht.noSsh

theorem protocolOf_single (d : Char) (m : Str) : protocolOf [(d, m)] = (d.toNat - 48, intOfDigits m) := rfl

/-- **acceptance with comments**: `SSH-d.m-t c…` is the banner; protocol, software and
    comments are the corresponding parts of the line (sanitised; comments with their blanks
    normalised), and `valid_ascii` tells whether anything had to be replaced -/
theorem banner_accept (d : Char) (m t c : Str) (hv : WfPair (d, m)) (ht : Token t) :
    parse (sshDash ++ d :: '.' :: m ++ '-' :: t ++ ' ' :: c)
      = some { protocol := (d.toNat - 48, intOfDigits m), software := some (toPrintAscii t),
               comments := normComments (toPrintAscii c), validAscii := isPrintAscii t && isPrintAscii c } := by
  have hl : sshDash ++ d :: '.' :: m ++ '-' :: t ++ ' ' :: c = protoStr (d, m) ++ chain [] ('-' :: t ++ ' ' :: c) := by
    simp [protoStr, sshDash, chain]
  rw [hl, accept_comments (d, m) [] t c (by simpa using hv) ht, protocolOf_single]

/-- **acceptance without comments**: `SSH-d.m-t` -/
theorem banner_accept_nocomment (d : Char) (m t : Str) (hv : WfPair (d, m)) (ht : Token t) :
    parse (sshDash ++ d :: '.' :: m ++ '-' :: t)
      = some { protocol := (d.toNat - 48, intOfDigits m), software := some (toPrintAscii t),
               comments := none, validAscii := isPrintAscii t } := by
  have hl : sshDash ++ d :: '.' :: m ++ '-' :: t = protoStr (d, m) ++ chain [] ('-' :: t) := by
    simp [protoStr, sshDash, chain]
  rw [hl, accept_software (d, m) [] t (by simpa using hv) ht, protocolOf_single]

/-- `SSH-d.m-` and `SSH-d.m`: accepted, with an empty resp. absent software string -/
theorem banner_accept_dash (d : Char) (m : Str) (hv : WfPair (d, m)) :
    parse (sshDash ++ d :: '.' :: m ++ ['-'])
      = some { protocol := (d.toNat - 48, intOfDigits m), software := some [], comments := none, validAscii := true } := by
  have hl : sshDash ++ d :: '.' :: m ++ ['-'] = protoStr (d, m) ++ chain [] ['-'] := by
    simp [protoStr, sshDash, chain]
  rw [hl, accept_dash (d, m) [] (by simpa using hv), protocolOf_single]

theorem banner_accept_bare (d : Char) (m : Str) (hv : WfPair (d, m)) :
    parse (sshDash ++ d :: '.' :: m)
      = some { protocol := (d.toNat - 48, intOfDigits m), software := none, comments := none, validAscii := true } := by
  have hl : sshDash ++ d :: '.' :: m = protoStr (d, m) ++ chain [] [] := by
    simp [protoStr, sshDash, chain]
  rw [hl, accept_bare (d, m) [] (by simpa using hv), protocolOf_single]

/-- the numeric reading: for a major version below ten and any minor version written in
    decimal, the reported protocol is that pair of numbers -/
theorem banner_accept_numeric (major minor : Nat) (t c : Str) (hmaj : major < 10) (ht : Token t) :
    parse (sshDash ++ Text.natToStr major ++ '.' :: Text.natToStr minor ++ '-' :: t ++ ' ' :: c)
      = some { protocol := (major, minor), software := some (toPrintAscii t),
               comments := normComments (toPrintAscii c), validAscii := isPrintAscii t && isPrintAscii c } := by
  have hw : WfPair (major.digitChar, Text.natToStr minor) := by
    refine ⟨?_, natToStr_ne_nil minor, natToStr_digits minor⟩
    have : ∀ n, n < 10 → (Nat.digitChar n).isDigit = true := by decide
    exact this major hmaj
  have := banner_accept major.digitChar (Text.natToStr minor) t c hw ht
  rw [natToStr_lt_ten major hmaj]
  simp only [List.append_assoc, List.cons_append, List.nil_append] at this ⊢
  rw [this, intOfDigits_natToStr, Nat.toNat_digitChar_sub_48_of_lt_ten hmaj]

/-- **several versions**: `SSH-d₀.m₀-SSH-d₁.m₁…-t` is accepted as a whole; the protocol
    reported is the smallest item, the software is `t` -/
theorem multi_version (p : Pair) (ps : List Pair) (t : Str) (hp : ∀ q ∈ p :: ps, WfPair q) (ht : Token t) :
    parse (protoStr p ++ chain ps ('-' :: t))
      = some { protocol := protocolOf (p :: ps), software := some (toPrintAscii t), comments := none,
               validAscii := isPrintAscii t } :=
  accept_software p ps t hp ht

/-- `SSH-1.99-SSH-2.0-t` ↦ protocol (1, 99), software `t` -/
theorem multi_version_199 (t : Str) (ht : Token t) :
    parse (['S','S','H','-','1','.','9','9','-','S','S','H','-','2','.','0','-'] ++ t)
      = some { protocol := (1, 99), software := some (toPrintAscii t), comments := none, validAscii := isPrintAscii t } := by
  have hw : ∀ q ∈ [('1', ['9','9']), ('2', ['0'])], WfPair q := by
    intro q hq
    simp only [List.mem_cons, List.not_mem_nil, or_false] at hq
    rcases hq with rfl | rfl
    · exact ⟨by decide, by simp, by decide⟩
    · exact ⟨by decide, by simp, by decide⟩
  have := multi_version ('1', ['9','9']) [('2', ['0'])] t hw ht
  have hp : protocolOf [('1', ['9','9']), ('2', ['0'])] = (1, 99) := by decide
  rw [hp] at this
  simpa [protoStr, chain] using this


/-- when several protocol items are present, the one reported is a smallest one in Python's
    order on tuples of strings (`ltPair`): it is one of the items and none is below it -/
theorem protocol_is_min (p : Pair) (ps : List Pair) :
    minPair p ps ∈ p :: ps ∧ ∀ q ∈ p :: ps, ltPair q (minPair p ps) = false :=
  ⟨minPair_mem p ps, minPair_le p ps⟩

/-! ### comments: words separated by runs of blanks come out separated by single blanks -/

/-- a word: non-empty, no blank -/
def Word (w : Str) : Prop := w ≠ [] ∧ ∀ x ∈ w, isBlank x = false

/-- `w₀ ␣^(k₁+1) w₁ ␣^(k₂+1) w₂ …` -/
def joinBlanks : Str → List (Nat × Str) → Str
  | w, [] => w
  | w, (k, w') :: rest => w ++ (List.replicate (k + 1) ' ' ++ joinBlanks w' rest)

/-- `w₀ ␣ w₁ ␣ w₂ …` -/
def joinOne : Str → List (Nat × Str) → Str
  | w, [] => w
  | w, (_, w') :: rest => w ++ ' ' :: joinOne w' rest

theorem joinBlanks_head (w : Str) (rest : List (Nat × Str)) (hw : Word w) :
    ∃ c y, joinBlanks w rest = c :: y ∧ isBlank c = false := by
  obtain ⟨hne, hb⟩ := hw
  cases w with
  | nil => exact absurd rfl hne
  | cons c w' =>
    cases rest with
    | nil => exact ⟨c, w', rfl, hb c (by simp)⟩
    | cons p rest => exact ⟨c, w' ++ (List.replicate (p.1 + 1) ' ' ++ joinBlanks p.2 rest), by simp [joinBlanks], hb c (by simp)⟩

theorem lastOk_noblank (w : Str) (h : ∀ x ∈ w, isBlank x = false) : lastOk w = true := by
  induction w with
  | nil => rfl
  | cons c cs ih =>
    cases cs with
    | nil => simp [lastOk, h c (by simp)]
    | cons c' cs' => simp only [lastOk]; exact ih (fun x hx => h x (by simp [hx]))

theorem lastOk_append (x y : Str) (hy : y ≠ []) : lastOk (x ++ y) = lastOk y := by
  induction x with
  | nil => rfl
  | cons c cs ih => rw [List.cons_append, lastOk_cons _ _ (by simp [hy]), ih]

theorem lastOk_joinBlanks (w : Str) (rest : List (Nat × Str)) (hw : Word w) (hr : ∀ p ∈ rest, Word p.2) :
    lastOk (joinBlanks w rest) = true := by
  induction rest generalizing w with
  | nil => exact lastOk_noblank w hw.2
  | cons p rest ih =>
    obtain ⟨k, w'⟩ := p
    obtain ⟨c, y, hcy, _⟩ := joinBlanks_head w' rest (hr (k, w') (by simp))
    have hne : joinBlanks w' rest ≠ [] := by rw [hcy]; simp
    simp only [joinBlanks]
    rw [lastOk_append _ _ (by simp [hne]), lastOk_append _ _ hne]
    exact ih w' (hr (k, w') (by simp)) (fun q hq => hr q (by simp [hq]))

theorem collapse_joinBlanks (w : Str) (rest : List (Nat × Str)) (hw : Word w) (hr : ∀ p ∈ rest, Word p.2) :
    collapse (joinBlanks w rest) = joinOne w rest := by
  induction rest generalizing w with
  | nil =>
    have := collapse_append_nonblank w [] hw.2
    simpa [joinBlanks, joinOne, collapse] using this
  | cons p rest ih =>
    obtain ⟨k, w'⟩ := p
    obtain ⟨c, y, hcy, hc⟩ := joinBlanks_head w' rest (hr (k, w') (by simp))
    simp only [joinBlanks, joinOne]
    rw [collapse_append_nonblank w _ hw.2, hcy, collapse_blanks k c y hc, ← hcy,
      ih w' (hr (k, w') (by simp)) (fun q hq => hr q (by simp [hq]))]

/-- **comments**: whatever the runs of blanks before, between and after the words, the comments
    reported are the words separated by single blanks -/
theorem comments_words (w : Str) (rest : List (Nat × Str)) (k0 k1 : Nat) (hw : Word w) (hr : ∀ p ∈ rest, Word p.2) :
    normComments (List.replicate k0 ' ' ++ joinBlanks w rest ++ List.replicate k1 ' ') = some (joinOne w rest) := by
  obtain ⟨c, y, hcy, hc⟩ := joinBlanks_head w rest hw
  have hstrip : strip (List.replicate k0 ' ' ++ joinBlanks w rest ++ List.replicate k1 ' ') = joinBlanks w rest := by
    unfold strip
    rw [List.append_assoc, dropWhile_append_all isBlank _ _ (by intro x hx; rw [List.eq_of_mem_replicate hx]; rfl)]
    have hd : (joinBlanks w rest ++ List.replicate k1 ' ').dropWhile isBlank = joinBlanks w rest ++ List.replicate k1 ' ' := by
      apply dropWhile_id_of_head
      intro a r h
      rw [hcy] at h
      injection h with h1 _
      rw [← h1]; exact hc
    rw [hd, rstrip_append_blanks, rstrip_of_lastOk _ (lastOk_joinBlanks w rest hw hr)]
  unfold normComments
  rw [hstrip]
  have hne : (joinBlanks w rest).isEmpty = false := by rw [hcy]; rfl
  simp only [orNone, hne, Bool.false_eq_true, if_false, Option.map_some, collapse_joinBlanks w rest hw hr]

/-! ### what is reported is always well-formed and printable -/

/-- shape of every parsed banner, whatever the line was: the major version is one digit; the
    software string has no blank; comments are non-empty, without blanks at the ends or double
    blanks; everything is printable; comments only exist with a non-empty software string -/
theorem parse_wf (l : Str) (b : Banner.Banner) (h : parse l = some b) :
    b.protocol.1 < 10 ∧
    (∀ s, b.software = some s → ∀ x ∈ s, isPrint x = true ∧ isBlank x = false) ∧
    (∀ c, b.comments = some c → normal c = true ∧ ∀ x ∈ c, isPrint x = true) ∧
    (b.software = none → b.comments = none) ∧ (b.software = some [] → b.comments = none) := by
  unfold parse at h
  split at h
  · simp at h
  · next g hg =>
    simp only [Option.some.injEq] at h
    obtain ⟨pairs, rem, hgeq, hok, hsub, hne, hw⟩ := rxBanner_some _ g hg
    subst hgeq
    subst h
    have hpr : ∀ x ∈ rem, isPrint x = true := by
      intro x hx
      have := hsub x hx
      rw [toPrint_eq_map] at this
      obtain ⟨c, _, rfl⟩ := List.mem_map.mp this
      exact isPrint_san c
    obtain ⟨h1, h2, h3, h4⟩ := ofGroups_tail_wf pairs rem (isPrintAscii l) hok
    refine ⟨?_, ?_, ?_, h3, h4⟩
    · simp only [ofGroups, parseTail_pairs]
      exact protocolOf_major pairs hne hw
    · intro s hs x hx
      exact ⟨hpr x (h1 s hs x hx).1, (h1 s hs x hx).2⟩
    · intro c hc
      exact ⟨(h2 c hc).1, fun x hx => hpr x ((h2 c hc).2 x hx)⟩

/-- every character of the banner as the tool shows it (`str(banner)`) is in 32..126 -/
theorem shown_printable (l : Str) (b : Banner.Banner) (h : parse l = some b) : ∀ x ∈ render b, isPrint x = true := by
  obtain ⟨_, h2, h3, _, _⟩ := parse_wf l b h
  intro x hx
  simp only [render, List.mem_append, List.mem_cons, List.not_mem_nil, or_false] at hx
  rcases hx with ((((hx | hx) | hx) | hx) | hx) | hx
  · rcases hx with rfl | rfl | rfl | rfl <;> decide
  · exact isDigit_isPrint x (natToStr_digits _ x hx)
  · subst hx; decide
  · exact isDigit_isPrint x (natToStr_digits _ x hx)
  · cases hs : b.software with
    | none => simp [hs] at hx
    | some s =>
      simp only [hs, List.mem_cons] at hx
      rcases hx with rfl | hx
      · decide
      · exact (h2 s hs x hx).1
  · cases hc : b.comments with
    | none => simp [hc] at hx
    | some c =>
      simp only [hc] at hx
      split at hx
      · simp at hx
      · rcases List.mem_cons.mp hx with rfl | hx
        · decide
        · exact (h3 c hc).2 x hx

/-! ### round trip -/

/-- **rendering a parsed banner and parsing it again gives the same parts**, for every line
    whatsoever whose software string does not itself start with `SSH-` (see
    `roundtrip_excluded_point` for why that class is excluded).  The re-parsed banner is
    printable, so its `valid_ascii` flag is set. -/
theorem banner_roundtrip (l : Str) (b : Banner.Banner) (h : parse l = some b)
    (hs : ∀ s, b.software = some s → sshDash.isPrefixOf s = false) :
    parse (render b) = some { b with validAscii := true } := by
  obtain ⟨hmaj, h2, h3, h4, h5⟩ := parse_wf l b h
  obtain ⟨⟨D, M⟩, sw, cm, v⟩ := b
  simp only at hmaj h2 h3 h4 h5 hs
  have hdig : ∀ n, n < 10 → (Nat.digitChar n).isDigit = true := by decide
  have hw : ∀ q ∈ [(D.digitChar, Text.natToStr M)], WfPair q := by
    intro q hq
    simp only [List.mem_cons, List.not_mem_nil, or_false] at hq
    subst hq
    exact ⟨hdig D hmaj, natToStr_ne_nil M, natToStr_digits M⟩
  have hproto : protocolOf [(D.digitChar, Text.natToStr M)] = (D, M) := by
    rw [protocolOf_single, intOfDigits_natToStr, Nat.toNat_digitChar_sub_48_of_lt_ten hmaj]
  have hrender : ∀ (sw cm : Option Str), render { protocol := (D, M), software := sw, comments := cm, validAscii := v }
      = protoStr (D.digitChar, Text.natToStr M) ++ chain [] ((match sw with | some s => '-' :: s | none => [])
          ++ (match cm with | some c => if c.isEmpty then [] else ' ' :: c | none => [])) := by
    intro sw cm
    cases sw <;> cases cm <;> simp [render, protoStr, chain, natToStr_lt_ten D hmaj]
  cases sw with
  | none =>
    have hc : cm = none := h4 rfl
    subst hc
    have := accept_bare _ [] hw
    rw [hproto] at this
    rw [hrender]
    exact this
  | some s =>
    have hsp : isPrintAscii s = true := by
      rw [isPrintAscii_eq_all, List.all_eq_true]
      exact fun x hx => (h2 s rfl x hx).1
    cases hse : s with
    | nil =>
      subst hse
      have hc : cm = none := h5 rfl
      subst hc
      have := accept_dash _ [] hw
      rw [hproto] at this
      rw [hrender]
      exact this
    | cons a s' =>
      rw [← hse]
      have htok : Token s := by
        refine ⟨by rw [hse]; simp, ?_, ?_⟩
        · intro x hx hxe
          have := (h2 s rfl x hx).2
          rw [hxe] at this
          exact absurd this (by decide)
        · rw [toPrint_of_print s hsp]; exact hs s rfl
      cases cm with
      | none =>
        have := accept_software _ [] s hw htok
        rw [hproto, toPrint_of_print s hsp, hsp] at this
        rw [hrender]
        simpa using this
      | some c =>
        obtain ⟨hn, hcp⟩ := h3 c rfl
        have hcp' : isPrintAscii c = true := by
          rw [isPrintAscii_eq_all, List.all_eq_true]; exact hcp
        have hcne : c.isEmpty = false := by
          simp only [normal, Bool.and_eq_true, Bool.not_eq_true'] at hn
          exact hn.1.1.1
        have := accept_comments _ [] s c hw htok
        rw [hproto, toPrint_of_print s hsp, toPrint_of_print c hcp', hsp, hcp', normComments_of_normal c hn] at this
        rw [hrender]
        simpa [hcne] using this

/-- the excluded class is real, and harmless: after the lenient blank-skipping behind the dash
    the software string of `SSH-1.5- SSH-3.0-bar` is `SSH-3.0-bar`; rendered, the line reads as
    two protocol items and software `bar`.  (The protocol stays the smaller item.) -/
theorem roundtrip_excluded_point :
    parse "SSH-1.5- SSH-3.0-bar".toList
      = some { protocol := (1, 5), software := some "SSH-3.0-bar".toList, comments := none, validAscii := true } ∧
    parse (render { protocol := (1, 5), software := some "SSH-3.0-bar".toList, comments := none, validAscii := true })
      = some { protocol := (1, 5), software := some "bar".toList, comments := none, validAscii := true } := by
  decide +kernel


/-! ### header text and banner are told apart (`SSH_Socket.get_banner`) -/

/-- a line of nothing but (Unicode) whitespace is never a banner -/
theorem blank_not_banner (t : Str) (h : isBlankLine t = true) : parse t = none := by
  cases t with
  | nil => rfl
  | cons c t =>
    simp only [isBlankLine, List.all_cons, Bool.and_eq_true] at h
    have hS : san c ≠ 'S' := by
      unfold san
      split
      · next hp =>
        have := space_printable c hp
        rw [h.1] at this
        rw [isBlank_eq c this.symm]
        decide
      · decide
    have hm : matchProto (toPrintAscii (c :: t)) = none := by
      rw [toPrint_cons]
      apply matchProto_not_prefix
      simp [List.isPrefixOf, Ne.symm hS]
    simp [parse, rxBanner, hm]

/-- **segmentation independence** (holds of the code after the D17 repair, commit 04fd9e5).
    For *every* byte stream, every content of the buffer and every way of cutting the stream
    into non-empty `recv` results, `get_banner` reports the same banner and the same header
    lines as if the whole stream had been in the buffer when the peer stopped sending
    (`finish`: all LF-terminated lines in order, then the unterminated rest, if any, as a last
    line).  What is left unread, followed by the `recv` results never requested, is exactly
    what the whole-stream reading leaves unread.  No bound on sizes or on the number of cuts. -/
theorem segmentation_independence (cs : List Bytes) (hne : ∀ c ∈ cs, c ≠ []) (h0 : List Str) (buf : Bytes) :
    (getBanner h0 buf cs).banner = (finish h0 (buf ++ cs.flatten) []).banner ∧
    (getBanner h0 buf cs).header = (finish h0 (buf ++ cs.flatten) []).header ∧
    (getBanner h0 buf cs).unread ++ (getBanner h0 buf cs).pending.flatten = (finish h0 (buf ++ cs.flatten) []).unread := by
  induction cs generalizing h0 buf with
  | nil => simp [getBanner, finish]
  | cons c cs ih =>
    have hc : c.isEmpty = false := by
      have := (hne c (by simp)); cases c with
      | nil => exact absurd rfl this
      | cons a r => rfl
    have hw : finish h0 (buf ++ (c :: cs).flatten) []
        = (match scan h0 ((cutLines (buf ++ c)).1 ++ splitLines ((cutLines (buf ++ c)).2 ++ cs.flatten)) with
            | (b, h, rest) => { banner := b, header := h, unread := rest.flatten, pending := [] }) := by
      unfold finish
      rw [List.flatten_cons, ← List.append_assoc, splitLines_append]
    rw [hw]
    simp only [getBanner, hc]
    cases hs : scan h0 (cutLines (buf ++ c)).1 with
    | mk b rest' =>
      obtain ⟨h, rest⟩ := rest'
      cases b with
      | some b =>
        rw [scan_append_some h0 _ _ b h rest hs]
        simp [flatten_splitLines, List.append_assoc]
      | none =>
        rw [scan_append_none h0 _ _ h rest hs]
        have := ih (fun x hx => hne x (by simp [hx])) h (cutLines (buf ++ c)).2
        simpa [finish] using this

/-- two deliveries of the same bytes give the same banner and the same header -/
theorem segmentation_any_two (cs₁ cs₂ : List Bytes) (h₁ : ∀ c ∈ cs₁, c ≠ []) (h₂ : ∀ c ∈ cs₂, c ≠ [])
    (hsame : cs₁.flatten = cs₂.flatten) (h0 : List Str) :
    (getBanner h0 [] cs₁).banner = (getBanner h0 [] cs₂).banner ∧
    (getBanner h0 [] cs₁).header = (getBanner h0 [] cs₂).header := by
  obtain ⟨a1, a2, _⟩ := segmentation_independence cs₁ h₁ h0 []
  obtain ⟨b1, b2, _⟩ := segmentation_independence cs₂ h₂ h0 []
  rw [a1, a2, b1, b2, hsame]
  exact ⟨rfl, rfl⟩

/-- in particular: any cutting gives what the stream delivered in one piece gives -/
theorem segmentation_whole (cs : List Bytes) (hne : ∀ c ∈ cs, c ≠ []) (hdata : cs.flatten ≠ []) (h0 : List Str) :
    (getBanner h0 [] cs).banner = (getBanner h0 [] [cs.flatten]).banner ∧
    (getBanner h0 [] cs).header = (getBanner h0 [] [cs.flatten]).header :=
  segmentation_any_two cs [cs.flatten] hne (by simpa using hdata) (by simp) h0

/-- **header separation, LF-terminated lines, any segmentation.**  The stream consists of
    lines `hs` that are not banners, the banner line `l`, an LF, and anything after it
    (`wire`: each line followed by LF; a CR before the LF is part of the line and stripped like
    any trailing whitespace, `lineText_crlf`).  However the stream is cut into `recv` results,
    `get_banner` returns exactly the parse of `l`, the header is exactly the non-blank earlier
    lines in order, and exactly `after` is left for the caller (unread or not yet received). -/
theorem header_separation (hs : List Bytes) (l : Bytes) (b : Banner.Banner) (after : Bytes)
    (cs : List Bytes) (hne : ∀ c ∈ cs, c ≠ []) (h0 : List Str)
    (hcs : cs.flatten = wire hs ++ (l ++ 0x0a :: after))
    (hhs : ∀ r ∈ hs, (0x0a : UInt8) ∉ r ∧ parse (lineText r) = none)
    (hl : (0x0a : UInt8) ∉ l) (hb : parse (lineText l) = some b) :
    (getBanner h0 [] cs).banner = some b ∧ (getBanner h0 [] cs).header = h0 ++ shown hs ∧
      (getBanner h0 [] cs).unread ++ (getBanner h0 [] cs).pending.flatten = after := by
  have hnb : isBlankLine (lineText l) = false := by
    cases hbl : isBlankLine (lineText l) with
    | false => rfl
    | true =>
      have := blank_not_banner _ hbl
      rw [hb] at this
      cases this
  have hfin : finish h0 (wire hs ++ (l ++ 0x0a :: after)) []
      = { banner := some b, header := h0 ++ shown hs, unread := after, pending := [] } := by
    unfold finish
    rw [splitLines_wire hs _ (fun r hr => (hhs r hr).1), splitLines_line l after hl,
      scan_pass h0 _ _ (by
        intro r hr
        obtain ⟨x, hx, rfl⟩ := List.mem_map.mp hr
        rw [lineText_lf]; exact (hhs x hx).2)]
    simp only [scan, lineText_lf, hnb, hb, shown_lf]
    simp [flatten_splitLines]
  obtain ⟨a1, a2, a3⟩ := segmentation_independence cs hne h0 []
  rw [List.nil_append, hcs, hfin] at a1 a2 a3
  exact ⟨a1, a2, a3⟩

/-- **the unterminated tail.**  If the banner line is the last thing the peer sends and has no
    line ending, it is still accepted — as the final line, once the peer has stopped sending
    (closed, timed out or failed) — with the same header, for every segmentation. -/
theorem header_separation_unterminated (hs : List Bytes) (l : Bytes) (b : Banner.Banner)
    (cs : List Bytes) (hne : ∀ c ∈ cs, c ≠ []) (h0 : List Str)
    (hcs : cs.flatten = wire hs ++ l)
    (hhs : ∀ r ∈ hs, (0x0a : UInt8) ∉ r ∧ parse (lineText r) = none)
    (hl : (0x0a : UInt8) ∉ l) (hb : parse (lineText l) = some b) :
    (getBanner h0 [] cs).banner = some b ∧ (getBanner h0 [] cs).header = h0 ++ shown hs ∧
      (getBanner h0 [] cs).unread = [] ∧ (getBanner h0 [] cs).pending = [] := by
  have hlne : l ≠ [] := by
    intro hl0
    subst hl0
    have : parse (lineText []) = none := by decide
    rw [this] at hb
    cases hb
  have hnb : isBlankLine (lineText l) = false := by
    cases hbl : isBlankLine (lineText l) with
    | false => rfl
    | true =>
      have := blank_not_banner _ hbl
      rw [hb] at this
      cases this
  have hfin : finish h0 (wire hs ++ l) []
      = { banner := some b, header := h0 ++ shown hs, unread := [], pending := [] } := by
    unfold finish
    rw [splitLines_wire hs _ (fun r hr => (hhs r hr).1), splitLines_nolf l hlne hl,
      scan_pass h0 _ _ (by
        intro r hr
        obtain ⟨x, hx, rfl⟩ := List.mem_map.mp hr
        rw [lineText_lf]; exact (hhs x hx).2)]
    simp only [scan, hnb, hb, shown_lf]
    simp
  obtain ⟨a1, a2, a3⟩ := segmentation_independence cs hne h0 []
  rw [List.nil_append, hcs, hfin] at a1 a2 a3
  have h4 : (getBanner h0 [] cs).unread = [] ∧ (getBanner h0 [] cs).pending.flatten = [] := by
    simpa using a3
  refine ⟨a1, a2, h4.1, ?_⟩
  -- nothing is pending: the banner is only seen once every `recv` result has been requested
  have hp : ∀ (cs : List Bytes) (h0 : List Str) (buf : Bytes), (∀ c ∈ cs, c ≠ []) →
      (getBanner h0 buf cs).pending.flatten = [] → (getBanner h0 buf cs).pending = [] := by
    intro cs
    induction cs with
    | nil => intro h0 buf _ _; simp [getBanner, finish]
    | cons c cs ih =>
      intro h0 buf hne hflat
      have hc : c.isEmpty = false := by
        have := (hne c (by simp)); cases c with
        | nil => exact absurd rfl this
        | cons a r => rfl
      simp only [getBanner, hc] at hflat ⊢
      cases hs : scan h0 (cutLines (buf ++ c)).1 with
      | mk b' rest' =>
        obtain ⟨h, rest⟩ := rest'
        rw [hs] at hflat
        cases b' with
        | some b' =>
          simp only at hflat ⊢
          cases cs with
          | nil => rfl
          | cons c' cs' =>
            have hc' := hne c' (by simp)
            simp at hflat
            exact absurd hflat.1 hc'
        | none =>
          simp only at hflat ⊢
          exact ih h _ (fun x hx => hne x (by simp [hx])) hflat
  exact hp cs h0 [] hne h4.2

theorem scan_header (h0 : List Str) (raws : List Bytes) :
    ∀ t ∈ (scan h0 raws).2.1, t ∈ h0 ∨ (parse t = none ∧ isBlankLine t = false) := by
  induction raws generalizing h0 with
  | nil => intro t ht; exact Or.inl ht
  | cons r raws ih =>
    intro t ht
    simp only [scan] at ht
    split at ht
    · exact ih h0 t ht
    · next hb =>
      split at ht
      · exact Or.inl ht
      · next hp =>
        rcases ih _ t ht with h | h
        · rcases List.mem_append.mp h with h | h
          · exact Or.inl h
          · simp only [List.mem_cons, List.not_mem_nil, or_false] at h
            subst h
            exact Or.inr ⟨hp, by simpa using hb⟩
        · exact Or.inr h

/-- **no banner is ever reported as header text**: each header line returned is a non-blank
    line that is not a banner -/
theorem header_never_banner (h0 : List Str) (buf : Bytes) (cs : List Bytes) (hne : ∀ c ∈ cs, c ≠ []) :
    ∀ t ∈ (getBanner h0 buf cs).header, t ∈ h0 ∨ (parse t = none ∧ isBlankLine t = false) := by
  rw [(segmentation_independence cs hne h0 buf).2.1]
  unfold finish
  exact scan_header h0 _

theorem scan_banner (h0 : List Str) (raws : List Bytes) (b : Banner.Banner) (h : (scan h0 raws).1 = some b) :
    ∃ raw ∈ raws, parse (lineText raw) = some b := by
  induction raws generalizing h0 with
  | nil => simp [scan] at h
  | cons r raws ih =>
    simp only [scan] at h
    split at h
    · obtain ⟨raw, hr, hp⟩ := ih h0 h
      exact ⟨raw, List.mem_cons_of_mem _ hr, hp⟩
    · split at h
      · next b' hp =>
        simp only [Option.some.injEq] at h
        subst h
        exact ⟨r, by simp, hp⟩
      · obtain ⟨raw, hr, hp⟩ := ih _ h
        exact ⟨raw, List.mem_cons_of_mem _ hr, hp⟩

/-- the banner returned is the parse of one of the lines of the stream (as cut at LF), never of
    a fragment of a line -/
theorem banner_is_a_line (h0 : List Str) (buf : Bytes) (cs : List Bytes) (hne : ∀ c ∈ cs, c ≠ []) (b : Banner.Banner)
    (h : (getBanner h0 buf cs).banner = some b) :
    ∃ raw ∈ splitLines (buf ++ cs.flatten), parse (lineText raw) = some b := by
  rw [(segmentation_independence cs hne h0 buf).1] at h
  unfold finish at h
  exact scan_banner h0 _ b h

/-- `SSH-2.0-Open` -/
def d17a : Bytes := [0x53, 0x53, 0x48, 0x2d, 0x32, 0x2e, 0x30, 0x2d, 0x4f, 0x70, 0x65, 0x6e]
/-- `SSH_8.0\r\n` -/
def d17b : Bytes := [0x53, 0x53, 0x48, 0x5f, 0x38, 0x2e, 0x30, 0x0d, 0x0a]

/-- the former D17 witness (repaired in /repo, commit 04fd9e5): `SSH-2.0-OpenSSH_8.0\r\n`
    delivered in two `recv` results is now reported like the line delivered in one piece -/
theorem d17_repaired :
    getBanner [] [] [d17a, d17b] = getBanner [] [] [d17a ++ d17b] ∧
    getBanner [] [] [d17a, d17b]
      = { banner := some { protocol := (2, 0), software := some "OpenSSH_8.0".toList, comments := none, validAscii := true },
          header := [], unread := [], pending := [] } := by
  decide +kernel

/-! ### non-vacuity -/

example : parse "SSH-2.0-OpenSSH_8.9p1 Ubuntu-3ubuntu0.1".toList
    = some { protocol := (2, 0), software := some "OpenSSH_8.9p1".toList, comments := some "Ubuntu-3ubuntu0.1".toList, validAscii := true } := by
  decide +kernel
example : Token "OpenSSH_8.9p1".toList := ⟨by decide, by decide, by decide +kernel⟩
example : WfPair ('1', "99".toList) := ⟨by decide, by decide, by decide⟩
example : parse "SSH-1.99-SSH-2.0-x  a   b ".toList
    = some { protocol := (1, 99), software := some ['x'], comments := some "a b".toList, validAscii := true } := by
  decide +kernel
example : (parse ("SSH-2.0-dropbear_2019.78 caf" ++ "é\t!").toList).map (fun b => (render b, b.validAscii))
    = some ("SSH-2.0-dropbear_2019.78 caf??!".toList, false) := by
  decide +kernel
example : normComments " Debian-9etch3   on i686  ".toList = some "Debian-9etch3 on i686".toList := by decide +kernel
example : joinBlanks "Debian-9etch3".toList [(2, "on".toList), (0, "i686".toList)] = "Debian-9etch3   on i686".toList := by decide +kernel
example : getBanner [] [] ["hel".toUTF8.toList, "lo\r".toUTF8.toList, "\n\r\nSSH-2.".toUTF8.toList, "0-x\r\nre".toUTF8.toList, "st".toUTF8.toList]
    = { banner := some { protocol := (2, 0), software := some ['x'], comments := none, validAscii := true },
        header := ["hello".toList], unread := "re".toUTF8.toList, pending := ["st".toUTF8.toList] } := by
  decide +kernel

end SshAudit.C16
