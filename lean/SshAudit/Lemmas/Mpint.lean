/- Two's-complement / minimal-digit lemmas behind the mpint round trips (C10).  Core Lean only. -/
import SshAudit.Lemmas.Wire
namespace SshAudit.Wire

theorem signedBE_toBE (m L : Nat) (hm : m < 256 ^ (L+1)) :
    signedBE (toBE m (L+1)) =
      if 128 * 256 ^ L ≤ m then (m : Int) - (256:Int) ^ (L+1) else (m : Int) := by
  have hh := toBE_head m L
  have hl := toBE_length m (L+1)
  have ho := ofBE_toBE m (L+1)
  rw [Nat.mod_eq_of_lt hm] at ho
  match hbs : toBE m (L+1) with
  | [] => rw [hbs] at hl; simp at hl
  | b :: rest =>
    rw [hbs] at hh hl ho
    simp only [List.head?_cons, Option.some.injEq] at hh
    simp only [signedBE, hl, ho]
    have hq : m / 256 ^ L < 256 := by
      rw [Nat.div_lt_iff_lt_mul (Nat.pow_pos (by decide))]
      rw [Nat.pow_succ] at hm; omega
    rw [Nat.mod_eq_of_lt hq] at hh
    have key : (128 ≤ b) ↔ (128 * 256 ^ L ≤ m) := by
      rw [hh, Nat.le_div_iff_mul_le (Nat.pow_pos (by decide))]
    by_cases hb : 128 ≤ b
    · rw [if_pos hb, if_pos (key.mp hb)]
    · rw [if_neg hb, if_neg (fun h => hb (key.mpr h))]

/-- two's complement in `L+1` bytes is exact on `[-128·256^L, 128·256^L)` -/
theorem signed_roundtrip (n : Int) (L : Nat)
    (hlo : -(128 * (256 : Int) ^ L) ≤ n) (hhi : n < 128 * (256 : Int) ^ L) :
    signedBE (toBE (n % (256 : Int) ^ (L+1)).toNat (L+1)) = n := by
  have hM : (256 : Int) ^ (L+1) = 256 * 256 ^ L := by rw [Int.pow_succ]; omega
  have hP : (0 : Int) < 256 ^ L := Int.pow_pos (by decide)
  have hcast1 : ((256 ^ (L+1) : Nat) : Int) = (256 : Int) ^ (L+1) := by simp
  by_cases hn : 0 ≤ n
  · have e : n % (256 : Int) ^ (L+1) = n := Int.emod_eq_of_lt hn (by omega)
    rw [e]
    have hlt : n.toNat < 256 ^ (L+1) := by
      have : ((n.toNat : Nat) : Int) < ((256 ^ (L+1) : Nat) : Int) := by rw [hcast1, Int.toNat_of_nonneg hn]; omega
      exact Int.ofNat_lt.mp this
    rw [signedBE_toBE _ _ hlt]
    have hnot : ¬ (128 * 256 ^ L ≤ n.toNat) := by
      intro h
      have : ((128 * 256 ^ L : Nat) : Int) ≤ ((n.toNat : Nat) : Int) := Int.ofNat_le.mpr h
      rw [Int.toNat_of_nonneg hn] at this
      push_cast at this; omega
    rw [if_neg hnot, Int.toNat_of_nonneg hn]
  · have hneg : n < 0 := by omega
    have e : n % (256 : Int) ^ (L+1) = n + 256 ^ (L+1) := by
      rw [← Int.add_emod_right n ((256:Int) ^ (L+1))]
      exact Int.emod_eq_of_lt (by omega) (by omega)
    rw [e]
    have hnn : 0 ≤ n + (256:Int) ^ (L+1) := by omega
    have hlt : (n + (256:Int) ^ (L+1)).toNat < 256 ^ (L+1) := by
      have : (((n + (256:Int) ^ (L+1)).toNat : Nat) : Int) < ((256 ^ (L+1) : Nat) : Int) := by
        rw [hcast1, Int.toNat_of_nonneg hnn]; omega
      exact Int.ofNat_lt.mp this
    rw [signedBE_toBE _ _ hlt]
    have hge : 128 * 256 ^ L ≤ (n + (256:Int) ^ (L+1)).toNat := by
      have : ((128 * 256 ^ L : Nat) : Int) ≤ (((n + (256:Int) ^ (L+1)).toNat : Nat) : Int) := by
        rw [Int.toNat_of_nonneg hnn]; push_cast; omega
      exact Int.ofNat_le.mp this
    rw [if_pos hge, Int.toNat_of_nonneg hnn]; omega

/-- dropping a leading `ff` in front of a byte ≥ 0x80 keeps the two's-complement value -/
theorem signedBE_neg (a : Nat) (rest : List Nat) (ha : 128 ≤ a) :
    signedBE (a :: rest) = (ofBE (a :: rest) : Int) - (256 : Int) ^ (rest.length + 1) := by
  show (if 128 ≤ a then _ else _) = _
  rw [if_pos ha]; rfl

theorem signedBE_drop_ff' (a b : Nat) (rest : List Nat) (ha : a = 255) (hb : 128 ≤ b) :
    signedBE (a :: b :: rest) = signedBE (b :: rest) := by
  rw [signedBE_neg a _ (by omega), signedBE_neg b _ hb, ofBE_cons a (b :: rest)]
  have hl : (b :: rest).length = rest.length + 1 := rfl
  rw [hl]
  have : (256 : Int) ^ (rest.length + 1 + 1) = 256 * 256 ^ (rest.length + 1) := by rw [Int.pow_succ]; omega
  rw [this]
  have hc : ((a * 256 ^ (rest.length + 1) + ofBE (b :: rest) : Nat) : Int) = (a : Int) * 256 ^ (rest.length + 1) + (ofBE (b :: rest) : Int) := by
    rw [Int.natCast_add, Int.natCast_mul, Int.natCast_pow]; rfl
  rw [hc, ha]
  have : ((255 : Nat) : Int) = 255 := rfl
  rw [this]
  generalize (256 : Int) ^ (rest.length + 1) = P
  omega

theorem signedBE_drop_ff (b : Nat) (rest : List Nat) (hb : 128 ≤ b) :
    signedBE (255 :: b :: rest) = signedBE (b :: rest) := signedBE_drop_ff' 255 b rest rfl hb

/-- `|n| < 2^bits` and `bits ≤ 8L+7`  ⇒  `n` fits `L+1` signed bytes -/
theorem fits_of_bitLen (n : Int) (L : Nat) (h : bitLen n.natAbs / 8 = L) :
    -(128 * (256 : Int) ^ L) ≤ n ∧ n < 128 * (256 : Int) ^ L := by
  have h1 := lt_two_pow_bitLen n.natAbs
  have h2 : bitLen n.natAbs ≤ 8 * L + 7 := by omega
  have h3 : (2:Nat) ^ bitLen n.natAbs ≤ 2 ^ (8 * L + 7) := Nat.pow_le_pow_right (by decide) h2
  have h4 : (2:Nat) ^ (8 * L + 7) = 128 * 256 ^ L := by
    rw [Nat.pow_add, Nat.pow_mul, show (2:Nat) ^ 8 = 256 by decide, show (2:Nat) ^ 7 = 128 by decide, Nat.mul_comm]
  have h5 : n.natAbs < 128 * 256 ^ L := by omega
  have h6 : ((n.natAbs : Nat) : Int) < ((128 * 256 ^ L : Nat) : Int) := Int.ofNat_lt.mpr h5
  push_cast at h6
  omega

/-! ### minimal unsigned digits (mpint1) -/

/-- minimal big-endian base-256 digits -/
def minBE (n : Nat) : List Nat := if n = 0 then [] else minBE (n / 256) ++ [n % 256]
decreasing_by omega

theorem ofBE_minBE (n : Nat) : ofBE (minBE n) = n := by
  induction n using Nat.strongRecOn with
  | ind n ih =>
    unfold minBE
    by_cases h : n = 0
    · simp [h, ofBE]
    · simp only [h, if_false, ofBE_append_single]
      rw [ih (n / 256) (by omega)]; omega

theorem minBE_lt (n : Nat) : ∀ d ∈ minBE n, d < 256 := by
  induction n using Nat.strongRecOn with
  | ind n ih =>
    unfold minBE
    by_cases h : n = 0
    · simp [h]
    · simp only [h, if_false, List.mem_append, List.mem_singleton]
      intro d hd
      rcases hd with hd | hd
      · exact ih (n / 256) (by omega) d hd
      · omega

theorem minBE_head_ne_zero (n : Nat) : ∀ d, (minBE n).head? = some d → d ≠ 0 := by
  induction n using Nat.strongRecOn with
  | ind n ih =>
    unfold minBE
    by_cases h : n = 0
    · simp [h]
    · simp only [h, if_false]
      intro d hd
      rw [List.head?_append] at hd
      by_cases h2 : n / 256 = 0
      · have : minBE (n / 256) = [] := by unfold minBE; simp [h2]
        rw [this] at hd
        simp at hd
        omega
      · cases hq : (minBE (n / 256)).head? with
        | none =>
          have : minBE (n / 256) = [] := by
            cases hm : minBE (n / 256) with
            | nil => rfl
            | cons a b => rw [hm] at hq; simp at hq
          have h0 := ofBE_minBE (n / 256)
          rw [this] at h0; simp [ofBE] at h0; omega
        | some x =>
          rw [hq] at hd; simp at hd
          exact hd ▸ ih (n / 256) (by omega) x hq

/-- `toBE n L` is `minBE n` left-padded with zeros (when `n < 256^L`) -/
theorem toBE_eq_pad (n L : Nat) (h : n < 256 ^ L) :
    toBE n L = List.replicate (L - (minBE n).length) 0 ++ minBE n := by
  induction L generalizing n with
  | zero =>
    have : n = 0 := by simpa using h
    subst this; simp [toBE, minBE]
  | succ L ih =>
    by_cases hn : n = 0
    · subst hn
      have hz : ∀ L, toBE 0 L = List.replicate L 0 := by
        intro L; induction L with
        | zero => rfl
        | succ L ih => simp [toBE, ih, List.replicate_succ']
      rw [hz]; unfold minBE; simp
    · have hd : n / 256 < 256 ^ L := by
        rw [Nat.div_lt_iff_lt_mul (by decide)]; rw [Nat.pow_succ] at h; omega
      rw [toBE, ih (n / 256) hd]
      conv => rhs; unfold minBE
      simp only [hn, if_false, List.length_append, List.length_singleton]
      have hlen : (minBE (n / 256)).length ≤ L := by
        have := congrArg List.length (ih (n / 256) hd)
        simp at this; omega
      rw [show L + 1 - ((minBE (n / 256)).length + 1) = L - (minBE (n / 256)).length by omega]
      simp [List.append_assoc]

theorem dropWhile_zero_pad (k : Nat) (l : List Nat) (h : ∀ d, l.head? = some d → d ≠ 0) :
    (List.replicate k 0 ++ l).dropWhile (· = 0) = l := by
  induction k with
  | zero =>
    cases l with
    | nil => rfl
    | cons a t =>
      have := h a rfl
      simp [this]
  | succ k ih => simp [List.replicate_succ, ih]

/-- the number of minimal digits is `ceil(bitlen / 8)` -/
theorem bitLen_pos (n : Nat) (h : n ≠ 0) : bitLen n = Nat.log2 n + 1 := by simp [bitLen, h]

theorem bitLen_div256 (n : Nat) (h : 256 ≤ n) : bitLen n = bitLen (n / 256) + 8 := by
  have hn : n ≠ 0 := by omega
  have hq : n / 256 ≠ 0 := by omega
  rw [bitLen_pos n hn, bitLen_pos _ hq]
  have h1 := Nat.log2_self_le hq
  have h2 := @Nat.lt_log2_self (n / 256)
  have : Nat.log2 n = Nat.log2 (n / 256) + 8 := by
    rw [Nat.log2_eq_iff hn]
    rw [Nat.pow_add, show (2:Nat) ^ 8 = 256 by decide, show Nat.log2 (n / 256) + 8 + 1 = (Nat.log2 (n / 256) + 1) + 8 by omega,
        Nat.pow_add, show (2:Nat) ^ 8 = 256 by decide]
    constructor <;> omega
  omega

theorem bitLen_small (n : Nat) (h0 : n ≠ 0) (h : n < 256) : 1 ≤ bitLen n ∧ bitLen n ≤ 8 := by
  rw [bitLen_pos n h0]
  have : Nat.log2 n < 8 := (Nat.log2_lt h0).mpr (by omega)
  omega

theorem minBE_length (n : Nat) : (minBE n).length = (bitLen n + 7) / 8 := by
  induction n using Nat.strongRecOn with
  | ind n ih =>
    unfold minBE
    by_cases h : n = 0
    · simp [h, bitLen]
    · simp only [h, if_false, List.length_append, List.length_singleton]
      rw [ih (n / 256) (by omega)]
      by_cases h2 : n < 256
      · have hz : n / 256 = 0 := by omega
        have hb0 : bitLen 0 = 0 := by simp [bitLen]
        have := bitLen_small n h h2
        rw [hz, hb0]; omega
      · have key := bitLen_div256 n (by omega)
        omega

end SshAudit.Wire
