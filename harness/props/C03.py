"""C03 — An algorithm's rating depends only on the algorithm, in every view.

Theorems: SshAudit.Props.C03 (locality of a line's notes; independence of sizes; gss wildcard for
suffixes of any length; unknown names always flagged (text and JSON); JSON fail/warn notes = text
fail/warn notes for every known name).
Tie: every database name (and gss instantiations) placed at several positions among random
neighbours, rendered through text, JSON and --lookup on the real code, compared with the model's
`report` / `lookup.notes`.
Oracle: the same name alone and in context, as server and as client, in text / JSON / --lookup, must
show the same note sets per level; unknown names must be flagged and never be info-only.
"""
import io
import json
import contextlib

from common import Coverage, tstr
from props import report_common as rc
from props import peergen as pg

ID = 'C03'
MODULE = 'SshAudit.Props.C03'
NAMESPACE = 'SshAudit.C03'
THEOREMS = ['notes_local', 'line_notes', 'notes_independent_of_sizes', 'gss_wildcard', 'unknown_flagged', 'unknown_flagged_json', 'known_not_unknown',
            'textsAt_fail', 'textsAt_warn', 'json_eq_text_fail_warn']
EXTENSIONS = ['props.ext.C03_lookup']
TECHNIQUE = 'Lean 4 theorems (list-homomorphism locality, rindex lemma for the gss wildcard over unbounded suffixes, per-level text/JSON equality) + every-database-name correspondence across text, JSON and --lookup'
LEVEL_TEXT = ('A line\'s notes are proved to be a function of (database state, category, name) only — no position, neighbour, role, size map or option enters — gss names of any suffix rate as their wildcard entry, '
              'unknown names are always flagged in both views, and JSON failure/warning notes equal the text ones. Every database name is rendered on the real code in every view and position and compared with the model.'
              " Extension (Props/C03Lookup, 56 theorems): a model of algorithm_lookup and of main()'s dispatch to it — a name is printed under a category iff it is requested and a key of it (gss instances through their wildcard entry), with exactly the notes the audit report model gives it, whatever else is requested; unknown names are exactly the not-found list; suggestions, return status; tied to the real --lookup and cross-checked against real audit renderings.")
LEVEL_NOTE = ('Trusted: Lean kernel, harness. The database state is the master table plus the documented measured attributes (sizes via C11/C12, Terrapin via C04). '
              'D06 (since-text appended to the database list) and D07 (JSON rated gss names unknown) were repaired in /repo; their witnesses run first. Info-level JSON notes list the since-text last, the text report first (same set).')


def lookup_notes(names):
    """--lookup on the real code: {name: [[level, text]…]}"""
    from ssh_audit import ssh_audit as sa
    import fakenet
    fakenet.reset_dbs()
    out = rc.recording_buffer()
    out.batch, out.use_colors = True, False
    sa.algorithm_lookup(out, ','.join(names))
    algs = rc.parse_alg_records(out.records)
    res = {}
    for c in rc.CATS:
        for shown, notes, _ in algs[c]:
            res[(c, shown)] = notes
    return res


def by_level(notes):
    d = {'fail': [], 'warn': [], 'info': []}
    for lvl, t in notes:
        if t != '':
            d[lvl].append(t)
    return {k: sorted(v) for k, v in d.items()}


def json_by_level(jn):
    return {k: sorted(x for x in (jn.get(k) or []) if x is not None) for k in ('fail', 'warn', 'info')}


def run(ctx):
    r = ctx.rng
    db = pg.master()
    cov = Coverage('one evaluation = one (name, position, neighbourhood, view) rendering on the real code; non-trivial = distinct (category, name, neighbourhood); every database name incl. 3 gss '
                   'instantiations per wildcard at positions first/middle/last of lists of length 1, 2, 5 among random neighbours, server and client role, text / JSON / --lookup; unknown names of 8 shapes')
    failures, mismatches = [], []
    lines, expect = [], []

    def fail(kind, inp, observed, expected):
        failures.append({'sig': {'kind': kind}, 'input': inp, 'observed': observed, 'expected': expected, 'how': 'harness/props/C03.py on the real output()/algorithm_lookup()'})
    subjects = []
    for c in rc.CATS:
        for n in db[c]:
            if c == 'kex' and n.startswith('gss-') and n.endswith('-*'):
                for _ in range(3):
                    subjects.append((c, pg.gss_name(r, n), n))
            else:
                subjects.append((c, n, n))
    # corpus first: D07 / D06 witnesses
    subjects.insert(0, ('kex', 'gss-group14-sha256-toWM5Slw5Ew8Mqkay+al2g==', 'gss-group14-sha256-*'))
    if ctx.tier != 'thorough':
        subjects = subjects[:1] + r.sample(subjects[1:], 150)
    neighbourhoods = ctx.scale(2, 12)
    # reference: each name alone
    for c, name, key in subjects:
        alone = quiet_peer(c, [name])
        ref = rc.impl_report(alone)
        ref_line = [x for x in ref['algs'][c] if x[0] == name]
        if not ref_line:
            fail('name_missing', {'cat': c, 'name': name}, ref['algs'][c], 'a line for the name')
            continue
        ref_notes = ref_line[0][1]
        ref_json = [jn for n_, jn in ref['json'][c] if n_ == name][0]
        # text vs JSON per level (known names)
        if by_level(ref_notes) != json_by_level(ref_json):
            fail('text_json_notes_differ', {'cat': c, 'name': name}, {'text': by_level(ref_notes), 'json': json_by_level(ref_json)}, 'same note sets per level')
        cov.add((c, name, 'alone'), True, tags=['alone', c], sample={'cat': c, 'name': name, 'notes': ref_notes} if len(cov.samples) < 3 else None)
        # --lookup (exact database keys only)
        if name == key:
            lk = lookup_notes([name])
            if lk.get((c, name)) != ref_notes:
                fail('lookup_differs', {'cat': c, 'name': name}, lk.get((c, name)), ref_notes)
            lines.append('lookup.notes %s %s' % (tstr(c), tstr(name)))
            expect.append(('lookup', ref_notes, (c, name)))
        for k in range(neighbourhoods):
            L = r.choice([2, 5, 5])
            pos = r.choice([0, L // 2, L - 1])
            lists = {cc: pg.gen_list(r, cc, length=r.choice([1, 3]), allow_empty_name=False) for cc in rc.CATS}
            neigh = pg.gen_list(r, c, length=L - 1, allow_empty_name=False, p_dup=0)
            neigh = [x for x in neigh if x != name and pg_key(c, x) != key] or [r.choice(list(db[c]))]
            lst = neigh[:pos] + [name] + neigh[pos:]
            if r.random() < 0.15:
                lst.append(name)      # the name twice (D06 channel)
            lists[c] = lst
            # keep the Terrapin context out of this comparison (that is C04): both strict-kex markers are advertised, so nothing is marked
            lists['kex'] = lists['kex'] + [pg.STRICT_S, pg.STRICT_C]
            peer = rc.mk_peer(lists['kex'], lists['key'], lists['enc'], lists['mac'])
            client = r.random() < 0.4
            imp = rc.impl_report(peer, client=client)
            got = [x[1] for x in imp['algs'][c] if x[0] == name]
            gotj = [jn for n_, jn in imp['json'][c] if n_ == name]
            cov.add((c, name, json.dumps(lst), client), True, tags=['in-context', 'client' if client else 'server'])
            for g in got:
                if g != ref_notes:
                    fail('notes_depend_on_context', {'cat': c, 'name': name, 'list': lst, 'client': client}, g, ref_notes)
            for g in gotj:
                if g != ref_json:
                    fail('json_notes_depend_on_context', {'cat': c, 'name': name, 'list': lst, 'client': client}, g, ref_json)
            lines.append(rc.report_line(peer, client, imp['banner']))
            expect.append(('report', imp, (c, name)))
    # history independence: after a scan that edits rating state (Terrapin marks on ChaCha / CBC / EtM entries), a fresh scan and
    # --lookup must still show the same notes for every name
    before = {}
    probe = [(c, n, k) for c, n, k in subjects if n == k][:40] + [('enc', 'chacha20-poly1305@openssh.com', 'chacha20-poly1305@openssh.com'), ('enc', 'aes256-cbc', 'aes256-cbc'),
                                                                    ('mac', 'hmac-sha2-256-etm@openssh.com', 'hmac-sha2-256-etm@openssh.com')]
    for c, name, key in probe:
        ref = rc.impl_report(quiet_peer(c, [name]))
        before[(c, name)] = ([x[1] for x in ref['algs'][c] if x[0] == name], [jn for n_, jn in ref['json'][c] if n_ == name], lookup_notes([name]).get((c, name)))
    polluter = rc.mk_peer(['curve25519-sha256'], ['ssh-ed25519'], ['chacha20-poly1305@openssh.com', 'aes256-cbc', 'aes128-cbc', '3des-cbc'],
                          ['hmac-sha2-256-etm@openssh.com', 'hmac-sha1-etm@openssh.com', 'hmac-md5-etm@openssh.com'])
    rc.run_output(polluter, fresh=True)
    rc.run_output(polluter, fresh=False, use_json=True, batch=False)
    for c, name, key in probe:
        ref = rc.impl_report(quiet_peer(c, [name]))
        after = ([x[1] for x in ref['algs'][c] if x[0] == name], [jn for n_, jn in ref['json'][c] if n_ == name], lookup_notes([name]).get((c, name)))
        cov.add((c, name, 'after-other-scan'), True, tags=['history'])
        if after != before[(c, name)]:
            fail('notes_depend_on_earlier_scan', {'cat': c, 'name': name, 'earlier_scan': {'enc': polluter['encS'], 'mac': polluter['macS']}},
                 {'text': after[0], 'json': after[1], 'lookup': after[2]}, {'text': before[(c, name)][0], 'json': before[(c, name)][1], 'lookup': before[(c, name)][2]})
    # … and the same in the order a worker thread of a multi-target scan meets them: on a thread that has rendered nothing yet, first the
    # scan that edits rating state (text and JSON), then thread_exit() as target_worker_thread() calls it, then the quiet scan — whose text,
    # JSON and --lookup notes must be what they are on their own (seed C03-11: JSON notes memoised per thread and not dropped by thread_exit)
    import threading
    from ssh_audit.ssh2_kexdb import SSH2_KexDB as _DB
    from ssh_audit.ssh1_kexdb import SSH1_KexDB as _DB1
    later = {}

    def worker():
        rc.run_output(polluter, fresh=True)
        rc.run_output(polluter, fresh=False, use_json=True, batch=False)
        _DB.thread_exit()
        _DB1.thread_exit()
        for c, name, key in probe[-12:]:
            q = quiet_peer(c, [name])
            _, o1, _, _ = rc.run_output(q, fresh=False, batch=True)
            _, _, jtext, _ = rc.run_output(q, fresh=False, batch=False, use_json=True)
            doc = json.loads(jtext)
            later[(c, name)] = ([x[1] for x in rc.parse_alg_records(o1.records)[c] if x[0] == name],
                                [{k: e['notes'].get(k) for k in ('fail', 'warn', 'info')} for e in doc[c] if e['algorithm'] == name])
            _DB.thread_exit()
    t = threading.Thread(target=worker)
    t.start()
    t.join()
    for (c, name), (txt, jn) in later.items():
        cov.add((c, name, 'after-other-scan-on-a-worker-thread'), True, tags=['history-worker-thread'])
        if txt != before[(c, name)][0] or jn != before[(c, name)][1]:
            fail('notes_depend_on_earlier_scan', {'cat': c, 'name': name, 'worker_thread': True, 'earlier_scan': {'enc': polluter['encS'], 'mac': polluter['macS']}},
                 {'text': txt, 'json': jn}, {'text': before[(c, name)][0], 'json': before[(c, name)][1]})
    # unknown names
    for shape in ('plain', 'at', 'long', 'gssunk', 'eq'):
        for c in rc.CATS:
            name = pg.unknown_name(r, shape)
            peer = quiet_peer(c, [r.choice(list(db[c])), name])
            imp = rc.impl_report(peer)
            notes = [x[1] for x in imp['algs'][c] if x[0] == name]
            jn = [j for n_, j in imp['json'][c] if n_ == name]
            cov.add((c, name, 'unknown'), True, tags=['unknown-name'])
            if notes != [[['warn', 'unknown algorithm']]]:
                fail('unknown_not_flagged', {'cat': c, 'name': name}, notes, [['warn', 'unknown algorithm']])
            if not jn or jn[0].get('fail') != ['using unknown algorithm']:
                fail('unknown_not_flagged_json', {'cat': c, 'name': name}, jn, {'fail': ['using unknown algorithm']})
            lines.append(rc.report_line(peer, False, imp['banner']))
            expect.append(('report', imp, (c, name)))
    # the same unknown name more than once in one report (twice in a list, in two categories, two gss names with one wildcard): every occurrence is flagged, in text and JSON
    for k in range(ctx.scale(12, 120)):
        shape = r.choice(['plain', 'at', 'long', 'eq'])
        name = pg.unknown_name(r, shape)
        base = {'kex': ['curve25519-sha256', pg.STRICT_S, pg.STRICT_C], 'key': ['ssh-ed25519'], 'enc': ['aes256-ctr'], 'mac': ['hmac-sha2-256']}
        how = ['twice-in-list', 'two-categories', 'gss-pair'][k % 3]
        if how == 'twice-in-list':
            c = r.choice(rc.CATS)
            base[c] = [name] + base[c][:1] + [name] + base[c][1:]
            occ = [(c, name), (c, name)]
        elif how == 'two-categories':
            c1, c2 = r.sample(rc.CATS, 2)
            base[c1] = base[c1] + [name]
            base[c2] = [name] + base[c2]
            occ = [(c1, name), (c2, name)]
        else:
            stem = 'gss-zz%d-sha256-' % r.randrange(1000)
            n1, n2 = stem + 'toWM5Slw5Ew8Mqkay+al2g==', stem + 'eipGX3TCiQSrx573bT1o1Q=='
            base['kex'] = [n1] + base['kex'] + [n2]
            occ = [('kex', n1), ('kex', n2)]
        peer = rc.mk_peer(base['kex'], base['key'], base['enc'], base['mac'])
        imp = rc.impl_report(peer)
        cov.add(('unknown-repeated', how, json.dumps(base, sort_keys=True)), True, tags=['unknown-name', 'unknown-' + how])
        for c, n_ in set(occ):
            want_n = occ.count((c, n_))
            notes = [x[1] for x in imp['algs'][c] if x[0] == n_]
            jn = [j for m_, j in imp['json'][c] if m_ == n_]
            if len(notes) != want_n or any(x != [['warn', 'unknown algorithm']] for x in notes):
                fail('unknown_not_flagged', {'lists': base, 'cat': c, 'name': n_, 'repeated': how}, notes, [[['warn', 'unknown algorithm']]] * want_n)
            if len(jn) != want_n or any(j.get('fail') != ['using unknown algorithm'] for j in jn):
                fail('unknown_not_flagged_json', {'lists': base, 'cat': c, 'name': n_, 'repeated': how}, jn, [{'fail': ['using unknown algorithm']}] * want_n)
        lines.append(rc.report_line(peer, False, imp['banner']))
        expect.append(('report', imp, ('repeated-unknown', how)))
    whole_audit_neighbours(ctx, fail, cov)
    launch_modes(ctx, fail, cov)
    finding_isolation(ctx, fail, cov)
    model = ctx.driver(lines) if ctx.driver_ok else []
    for line, m, (kind, want, what) in zip(lines, model, expect):
        if kind == 'lookup':
            got = m.get('ok') and m['ok']['notes']
            if got != want:
                mismatches.append({'stream': 'lookup.notes', 'op': line, 'model': got, 'impl': want})
        else:
            d = rc.compare(rc.canon_model(m), want) if 'ok' in m else ['model error']
            if d:
                mismatches.append({'stream': 'report', 'op': line[:300], 'model': d[:2], 'impl': str(what)})
    import fakenet
    fakenet.reset_dbs()
    return {'failures': failures, 'mismatches': mismatches, 'coverage': cov, 'corr_cases': len(model),
            'assumptions': ['the Terrapin context is deliberately excluded here (C04 covers it); sizes are covered by C11/C12'],
            'observations': []}


# ---------------------------------------------------------------- whole audits: a host key's / key exchange's entry does not depend on what is advertised beside it

def _hk_pool(r):
    """host-key types with the blobs a scripted server presents for them (one RSA key for the whole RSA family)"""
    import fakenet as fn
    bits = r.choice([1024, 2048, 3072, 4096])
    rsa = fn.rsa_blob(bits)
    cab = r.choice([1024, 2048, 3072, 4096])
    cas = {'rsa': fn.rsa_blob(cab), 'ed25519': fn.ed25519_blob(b'\x51' * 32), 'ecdsa': fn.ecdsa_blob('nistp256')}
    ca1, ca2 = r.choice(sorted(cas)), r.choice(sorted(cas))
    n = (1 << (bits - 1)) | 1
    pool = {'ssh-rsa': rsa, 'rsa-sha2-256': rsa, 'rsa-sha2-512': rsa, 'ssh-ed25519': fn.ed25519_blob(), 'ssh-ed448': fn.ed448_blob(), 'ecdsa-sha2-nistp256': fn.ecdsa_blob('nistp256'),
            'ecdsa-sha2-nistp384': fn.ecdsa_blob('nistp384', 97), 'ssh-dss': fn.dss_blob(1024),
            'ssh-rsa-cert-v01@openssh.com': fn.cert_blob('ssh-rsa-cert-v01@openssh.com', fn.mpint(65537) + fn.mpint(n), cas[ca1]),
            'ssh-ed25519-cert-v01@openssh.com': fn.cert_blob('ssh-ed25519-cert-v01@openssh.com', fn.sstr(b'\x42' * 32), cas[ca2])}
    # the rest of the probe table (round 15, seed C03-10: entries of one family sharing their note lists): the ECDSA family with its
    # certificates, the RSA certificate algorithms (their blobs carry the type ssh-rsa-cert-v01@openssh.com), a DSA certificate
    ca3 = r.choice(sorted(cas))
    for curve, qlen in (('nistp256', 65), ('nistp384', 97), ('nistp521', 133)):
        pool.setdefault('ecdsa-sha2-' + curve, fn.ecdsa_blob(curve, qlen))
        pool['ecdsa-sha2-%s-cert-v01@openssh.com' % curve] = fn.cert_blob('ecdsa-sha2-%s-cert-v01@openssh.com' % curve, fn.sstr(curve) + fn.sstr(b'\x04' + b'\x09' * (qlen - 1)), cas[ca3])
    for a in ('rsa-sha2-256-cert-v01@openssh.com', 'rsa-sha2-512-cert-v01@openssh.com'):
        pool[a] = pool['ssh-rsa-cert-v01@openssh.com']
    return pool, {'rsa_bits': bits, 'ca_bits': cab, 'ca_of_rsa_cert': ca1, 'ca_of_ed25519_cert': ca2, 'ca_of_ecdsa_certs': ca3}


def _audit_entries(keys, kexs, blobs, gex_bits, launch=()):
    """real main() (-j and text) on a scripted server; returns {category: {name: [json entry, text lines]}} for key and kex.
    `launch`: () = the target named on the command line; ('-T', n) = named in a targets file, scanned with n threads"""
    import re as _re
    import fakenet as fn
    if launch:
        import os
        import tempfile
        fd, path = tempfile.mkstemp(prefix='verif_targets_')
        os.write(fd, b'10.3.0.1\n')
        os.close(fd)
        target = ['-T', path, '--threads', str(launch[1])]
    else:
        path, target = None, ['10.3.0.1']
    srv = fn.simple_server(kex=tuple(kexs) + (pg.STRICT_S, pg.STRICT_C), key=tuple(keys), enc=('aes256-ctr',), mac=('hmac-sha2-256',), banner=b'SSH-2.0-OpenSSH_8.9',
                           hostkeys={k: blobs[k] for k in keys if k in blobs}, gex=(lambda mn, pf, mx: gex_bits if (gex_bits and mn <= gex_bits <= mx) else None))
    try:
        code, jtext = fn.run_main(['-n', '--skip-rate-test', '-j'] + target, fn.FakeNet({'10.3.0.1': srv}))
        doc = json.loads(jtext)
        if isinstance(doc, list):       # a targets-file scan prints an array of reports
            doc = doc[0]
        code2, text = fn.run_main(['-n', '--skip-rate-test'] + target, fn.FakeNet({'10.3.0.1': srv}))
    finally:
        if path:
            os.unlink(path)
    res = {}
    for c in ('key', 'kex'):
        res[c] = {}
        for e in doc[c]:
            res[c].setdefault(e['algorithm'], [e, []])
        cur = None
        for line in text.split('\n'):
            if line.startswith('(%s) ' % c):
                body = line[6:]
                shown = body.split(' -- ')[0].rstrip()
                ent = res[c].get(shown.split(' (')[0])
                cur = None
                if ent is not None and not ent[1]:
                    cur = ent[1]
                    cur.append(_re.sub(r'\s+', ' ', body.strip()))
            elif line.lstrip().startswith('`- ') and cur is not None:
                cur.append(_re.sub(r'\s+', ' ', line.strip()))
            else:
                cur = None
    return res


def whole_audit_neighbours(ctx, fail, cov):
    r = ctx.rng
    alone_cache = {}
    for k in range(ctx.scale(14, 250)):
        pool, meta = _hk_pool(r)
        names = sorted(pool)
        if k == 0:      # an RSA certificate signed by an ECDSA CA, probed before the plain keys (seed C03-7)
            keys = ['ssh-ed25519', 'ssh-rsa-cert-v01@openssh.com', 'ecdsa-sha2-nistp256']
        elif k == 1:    # an ECDSA host certificate beside the plain keys of its family (seed C03-10)
            keys = ['ecdsa-sha2-nistp256-cert-v01@openssh.com', 'ecdsa-sha2-nistp256', 'ecdsa-sha2-nistp384', 'ssh-ed25519']
        elif k == 2:
            keys = ['rsa-sha2-512-cert-v01@openssh.com', 'ssh-rsa-cert-v01@openssh.com', 'rsa-sha2-512', 'ssh-rsa', 'ecdsa-sha2-nistp521-cert-v01@openssh.com', 'ecdsa-sha2-nistp521']
        else:
            keys = r.sample(names, r.randint(2, 5))
        gex_bits = r.choice([None, 1024, 2048, 3072, 4096])
        kexs = ['curve25519-sha256'] + r.sample(['diffie-hellman-group-exchange-sha256', 'diffie-hellman-group-exchange-sha1', 'diffie-hellman-group14-sha256', 'ecdh-sha2-nistp256', 'diffie-hellman-group1-sha1'], r.randint(0, 3))
        full = _audit_entries(keys, kexs, pool, gex_bits)
        cov.add(('whole-neighbours', tuple(keys), tuple(kexs), json.dumps(meta, sort_keys=True), gex_bits), True, tags=['whole-audit-neighbours'] + ['hk:' + t for t in keys])
        for c, lst in (('key', keys), ('kex', kexs)):
            for n_ in lst:
                if c == 'kex' and n_ == 'curve25519-sha256':
                    continue
                ck = (c, n_, json.dumps(meta, sort_keys=True) if c == 'key' else gex_bits)
                if ck not in alone_cache:
                    # the same name alone in its category (the other category as small as a working handshake allows), presenting the same key / group
                    a = _audit_entries([n_] if c == 'key' else ['ssh-ed25519'], ['curve25519-sha256'] + ([n_] if c == 'kex' else []), pool, gex_bits)
                    alone_cache[ck] = a[c].get(n_)
                ref, got = alone_cache[ck], full[c].get(n_)
                if ref is None or got is None:
                    continue
                if got != ref:
                    fail('entry_changes_with_neighbours', {'whole_audit': True, 'cat': c, 'name': n_, 'keys': keys, 'kexs': kexs, 'meta': meta, 'gex_bits': gex_bits},
                         {'json': got[0], 'text': got[1][:4]}, {'json': ref[0], 'text': ref[1][:4]})


def launch_modes(ctx, fail, cov):
    """The same server audited when it is named on the command line and when it is named in a targets file (one line; 1 and 4 worker threads):
    the entries of its host keys and key exchanges — names, measured sizes, notes, in JSON and in text — are the same.  The servers earn
    measured-size notes (small RSA keys and CA keys, small group-exchange moduli).  (Seed C03-12: in targets-file mode the probes ran on a
    helper thread and wrote their notes into that thread's copy of the database.)"""
    r = ctx.rng
    for k in range(ctx.scale(4, 40)):
        pool, meta = _hk_pool(r)
        if k == 0:
            keys, gex_bits, kexs = ['ssh-rsa', 'rsa-sha2-512', 'ssh-ed25519'], 1024, ['curve25519-sha256', 'diffie-hellman-group-exchange-sha256']
            pool = dict(pool)
            import fakenet as fn
            pool['ssh-rsa'] = pool['rsa-sha2-512'] = fn.rsa_blob(1024)
        else:
            keys = r.sample(sorted(pool), r.randint(2, 4))
            gex_bits = r.choice([None, 1024, 2048, 3072])
            kexs = ['curve25519-sha256'] + r.sample(['diffie-hellman-group-exchange-sha256', 'diffie-hellman-group-exchange-sha1', 'diffie-hellman-group14-sha256'], r.randint(1, 2))
        ref = _audit_entries(keys, kexs, pool, gex_bits)
        for launch in (('-T', 1), ('-T', 4)):
            got = _audit_entries(keys, kexs, pool, gex_bits, launch=launch)
            cov.add(('launch-mode', tuple(keys), tuple(kexs), gex_bits, launch), True, tags=['launch-modes'])
            for c in ('key', 'kex'):
                for n_ in ref[c]:
                    if got[c].get(n_) != ref[c][n_]:
                        g = got[c].get(n_)
                        fail('entry_changes_with_launch_mode', {'launch_modes': True, 'cat': c, 'name': n_, 'keys': keys, 'kexs': kexs, 'meta': meta, 'gex_bits': gex_bits, 'launch': list(launch)},
                             {'json': g[0], 'text': g[1][:4]} if g else None, {'json': ref[c][n_][0], 'text': ref[c][n_][1][:4]})


def finding_isolation(ctx, fail, cov):
    """A finding recorded on one entry (the way the probes record theirs: pad the entry to fail / warn / info lists, then extend them in place)
    never changes the entry of another algorithm: every entry of the calling thread's database is edited in turn and the rest of the
    database is compared with what it was.  (Seed C03-10: entries of one family built from shared list objects.)"""
    import copy
    import fakenet
    from ssh_audit.ssh2_kexdb import SSH2_KexDB
    fakenet.reset_dbs()
    marker = 'using small 1024-bit modulus (isolation probe)'
    flagged = set()
    for cat in ('kex', 'key', 'enc', 'mac'):
        for name in sorted(SSH2_KexDB.get_db()[cat]):
            fakenet.reset_dbs()
            db = SSH2_KexDB.get_db()
            before = copy.deepcopy(db)
            e = db[cat][name]
            while len(e) < 4:
                e.append([])
            for slot in (1, 2, 3):
                e[slot].extend([marker])
            changed = sorted((c2, n2) for c2 in db for n2 in db[c2] if (c2, n2) != (cat, name) and db[c2][n2] != before[c2][n2])
            cov.add(('finding-isolation', cat, name), True, tags=['finding-isolation'])
            if changed and (cat, name) not in flagged:
                flagged.update(changed)
                fail('finding_on_one_entry_changes_another', {'isolation': True, 'cat': cat, 'name': name},
                     {'entries_that_changed': ['%s %s' % x for x in changed][:8]}, 'no other entry changes')
    fakenet.reset_dbs()


def quiet_peer(c, lst):
    """the subject list in category c; fixed clean neighbours elsewhere; both strict-kex markers so that no Terrapin mark is made"""
    base = {'kex': ['curve25519-sha256'], 'key': ['ssh-ed25519'], 'enc': ['aes256-ctr'], 'mac': ['hmac-sha2-256']}
    base[c] = list(lst)
    base['kex'] = base['kex'] + [pg.STRICT_S, pg.STRICT_C]
    return rc.mk_peer(base['kex'], base['key'], base['enc'], base['mac'])


def pg_key(cat, name):
    if cat == 'kex' and name.startswith('gss-') and '-' in name[4:]:
        return name[:name.rindex('-')] + '-*'
    return name


def terrapin_touches(peer, c, name):
    enc, mac = peer['encS'], peer['macS']
    ch = lambda n: n.startswith('chacha20-poly1305')
    cbc = lambda n: n.endswith('-cbc') or n.endswith('-cbc@openssh.org') or n.endswith('-cbc@ssh.com') or n == 'rijndael-cbc@lysator.liu.se'
    etm = lambda n: n.endswith('-etm@openssh.com')
    if c == 'enc':
        return ch(name) or (cbc(name) and any(etm(m) for m in mac))
    if c == 'mac':
        return etm(name) and any(cbc(e) for e in enc)
    return False


def replay(obj):
    f = obj.get('failure', obj)
    print(json.dumps(f, indent=1)[:2500])
    inp = f['input']
    if 'lists' in inp:
        b = inp['lists']
        imp = rc.impl_report(rc.mk_peer(b['kex'], b['key'], b['enc'], b['mac']))
        c, n_ = inp['cat'], inp['name']
        notes = [x[1] for x in imp['algs'][c] if x[0] == n_]
        jn = [j for m_, j in imp['json'][c] if m_ == n_]
        print('text notes per occurrence:', notes)
        print('json notes per occurrence:', jn)
        bad = any(x != [['warn', 'unknown algorithm']] for x in notes) or any(j.get('fail') != ['using unknown algorithm'] for j in jn) or not notes or len(notes) != len(jn)
        print('PROPERTY FAILS' if bad else 'every occurrence is flagged in both views')
        return 1 if bad else 0
    if inp.get('isolation'):
        import copy
        import fakenet
        from ssh_audit.ssh2_kexdb import SSH2_KexDB
        fakenet.reset_dbs()
        db = SSH2_KexDB.get_db()
        before = copy.deepcopy(db)
        e = db[inp['cat']][inp['name']]
        while len(e) < 4:
            e.append([])
        for slot in (1, 2, 3):
            e[slot].extend(['isolation probe'])
        changed = sorted((c2, n2) for c2 in db for n2 in db[c2] if (c2, n2) != (inp['cat'], inp['name']) and db[c2][n2] != before[c2][n2])
        fakenet.reset_dbs()
        print('entries that changed with %s %s:' % (inp['cat'], inp['name']), changed[:10])
        print('PROPERTY FAILS' if changed else 'no other entry changes')
        return 1 if changed else 0
    if 'list' in inp:
        db = pg.master()
        c, name = inp['cat'], inp['name']
        alone = quiet_peer(c, [name])
        ref = [x[1] for x in rc.impl_report(alone)['algs'][c] if x[0] == name]
        peer = quiet_peer(c, inp['list'])
        got = [x[1] for x in rc.impl_report(peer, client=inp.get('client', False))['algs'][c] if x[0] == name]
        bad = any(g != ref[0] for g in got)
        print('PROPERTY FAILS' if bad else 'notes are the same alone and in this context')
        return 1 if bad else 0
    import sys
    from common import rerun_for_signature
    return rerun_for_signature(sys.modules[__name__], f)
