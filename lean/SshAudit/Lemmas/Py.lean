/-
  Lemmas about the Python primitives of `Model/Py.lean`, in the form `simp` can use on the literal bounds the logic translator emits
  (side conditions `0 ≤ i` / `i < 0` on numerals are closed by `simp` itself).
-/
import SshAudit.Model.Py
namespace SshAudit
namespace Py

theorem normIdx_of_nonneg {len : Nat} {i : Int} (h : 0 ≤ i) : normIdx len i = min i.toNat len := by
  unfold normIdx; split <;> first | omega | rfl
theorem normIdx_of_neg {len : Nat} {i : Int} (h : i < 0) : normIdx len i = len - (-i).toNat := by
  unfold normIdx; split <;> omega

theorem sliceTo_of_nonneg {xs : List α} {i : Int} (h : 0 ≤ i) : sliceTo xs i = xs.take i.toNat := by
  simp only [sliceTo, normIdx_of_nonneg h]
  rcases Nat.le_total i.toNat xs.length with h1 | h1
  · rw [Nat.min_eq_left h1]
  · rw [Nat.min_eq_right h1, List.take_of_length_le (Nat.le_refl _), List.take_of_length_le h1]
theorem sliceTo_of_neg {xs : List α} {i : Int} (h : i < 0) : sliceTo xs i = xs.take (xs.length - (-i).toNat) := by
  simp only [sliceTo, normIdx_of_neg h]
theorem sliceFrom_of_nonneg {xs : List α} {i : Int} (h : 0 ≤ i) : sliceFrom xs i = xs.drop i.toNat := by
  simp only [sliceFrom, normIdx_of_nonneg h]
  rcases Nat.le_total i.toNat xs.length with h1 | h1
  · rw [Nat.min_eq_left h1]
  · rw [Nat.min_eq_right h1, List.drop_of_length_le (Nat.le_refl _), List.drop_of_length_le h1]
theorem sliceFrom_of_neg {xs : List α} {i : Int} (h : i < 0) : sliceFrom xs i = xs.drop (xs.length - (-i).toNat) := by
  simp only [sliceFrom, normIdx_of_neg h]
/-- `xs[a:b]` with `0 ≤ a`, `0 ≤ b` -/
theorem slice_of_nonneg {xs : List α} {a b : Int} (ha : 0 ≤ a) (hb : 0 ≤ b) : slice xs a b = (xs.drop a.toNat).take (b.toNat - a.toNat) := by
  simp only [slice, normIdx_of_nonneg ha, normIdx_of_nonneg hb]
  apply List.ext_getElem?
  intro i
  simp only [List.getElem?_drop, List.getElem?_take]
  grind

theorem getItem_of_nonneg {xs : List α} {i : Int} (h : 0 ≤ i) : getItem xs i = xs[i.toNat]? := by
  simp only [getItem, h, if_true]
theorem setAt?_eq {xs : List α} {n : Nat} {v : α} : setAt? xs n v = if n < xs.length then some (xs.set n v) else none := by
  induction xs generalizing n with
  | nil => rfl
  | cons x xs ih =>
    cases n with
    | zero => simp [setAt?]
    | succ n =>
      simp only [setAt?, ih, List.length_cons, List.set_cons_succ, Nat.add_lt_add_iff_right]
      by_cases h : n < xs.length <;> simp [h]
theorem setItem_of_lt {xs : List α} {i : Int} {v : α} (h : 0 ≤ i) (h2 : i.toNat < xs.length) : setItem xs i v = some (xs.set i.toNat v) := by
  simp only [setItem, h, setAt?_eq, h2, if_true]

@[simp] theorem foldlOpt_nil (f : β → α → Option β) (b : β) : foldlOpt f b [] = some b := rfl
theorem foldlOpt_cons (f : β → α → Option β) (b : β) (x : α) (xs : List α) :
    foldlOpt f b (x :: xs) = (f b x).bind (fun b' => foldlOpt f b' xs) := by
  simp only [foldlOpt]; cases f b x <;> rfl

/-- a loop none of whose passes raises is the plain fold -/
theorem foldlOpt_eq_foldl (f : β → α → Option β) (g : β → α → β) (P : β → Prop) (xs : List α) (b : β)
    (hb : P b) (hstep : ∀ b x, P b → x ∈ xs → f b x = some (g b x) ∧ P (g b x)) :
    foldlOpt f b xs = some (xs.foldl g b) ∧ P (xs.foldl g b) := by
  induction xs generalizing b with
  | nil => exact ⟨rfl, hb⟩
  | cons x xs ih =>
    have h1 := hstep b x hb (List.mem_cons_self ..)
    simp only [foldlOpt, h1.1, List.foldl_cons]
    exact ih (g b x) h1.2 (fun b' x' hb' hx' => hstep b' x' hb' (List.mem_cons_of_mem _ hx'))

theorem mem_range {n i : Int} : i ∈ range n ↔ 0 ≤ i ∧ i < n := by
  simp only [range, List.mem_map, List.mem_range]
  constructor
  · rintro ⟨k, hk, rfl⟩; simp only [Int.ofNat_eq_natCast]; omega
  · rintro ⟨h1, h2⟩; exact ⟨i.toNat, by omega, by simp only [Int.ofNat_eq_natCast]; omega⟩

/-! ### `& | ^ >>` on non-negative operands are the operations of `Nat` -/
@[simp] theorem band_natCast (a b : Nat) : band (a : Int) (b : Int) = ((a &&& b : Nat) : Int) := rfl
@[simp] theorem bor_natCast (a b : Nat) : bor (a : Int) (b : Int) = ((a ||| b : Nat) : Int) := rfl
@[simp] theorem bxor_natCast (a b : Nat) : bxor (a : Int) (b : Int) = ((a ^^^ b : Nat) : Int) := rfl
@[simp] theorem shiftRight_natCast (a k : Nat) : ((a : Int) >>> k) = ((a >>> k : Nat) : Int) := rfl

/-- the idiom `for i in range(len(v)): … ord(v[i:i + 1]) …` visits the bytes of `v` in order -/
theorem foldlOpt_range_bytes (v : Bytes) (g : β → Int → Option β) (b : β) :
    foldlOpt (fun acc i => (ordB (slice v i (i + 1))).bind (g acc)) b (range (Int.ofNat v.length))
      = foldlOpt (fun acc x => g acc (Int.ofNat x.toNat)) b v := by
  have key : ∀ (suf pre : Bytes) (b : β), v = pre ++ suf →
      foldlOpt (fun acc i => (ordB (slice v i (i + 1))).bind (g acc)) b ((List.range' pre.length suf.length).map Int.ofNat)
        = foldlOpt (fun acc x => g acc (Int.ofNat x.toNat)) b suf := by
    intro suf
    induction suf with
    | nil => intro pre b _; rfl
    | cons x s ih =>
      intro pre b hv
      have hs : slice v (Int.ofNat pre.length) (Int.ofNat pre.length + 1) = [x] := by
        rw [slice_of_nonneg (by simp only [Int.ofNat_eq_natCast]; omega) (by simp only [Int.ofNat_eq_natCast]; omega), hv]
        have h1 : (Int.ofNat pre.length).toNat = pre.length := by simp
        have h2 : (Int.ofNat pre.length + 1).toNat = pre.length + 1 := by simp only [Int.ofNat_eq_natCast]; omega
        rw [h1, h2, List.drop_left', Nat.add_sub_cancel_left]
        · rfl
        · rfl
      simp only [List.length_cons, List.range'_succ, List.map_cons, foldlOpt_cons, hs, ordB, Option.bind_some]
      have := ih (pre ++ [x]) 
      simp only [List.length_append, List.length_cons, List.length_nil, Nat.zero_add, List.append_assoc, List.cons_append, List.nil_append] at this
      congr 1
      funext b'
      exact this b' hv
  have := key v [] b (by simp)
  have hn : (Int.ofNat v.length).toNat = v.length := by simp
  simpa only [range, List.range_eq_range', List.length_nil, hn] using this

/-! ### lifting a loop on non-negative `int`s to `Nat`: casts pulled outwards, numerals read as casts -/

theorem foldlOpt_nat_sim {α} (F : Int → α → Option Int) (g : Nat → α → Nat)
    (h : ∀ (c : Nat) (x : α), F (c : Int) x = some ((g c x : Nat) : Int)) (xs : List α) (c : Nat) :
    foldlOpt F (c : Int) xs = some ((xs.foldl g c : Nat) : Int) := by
  induction xs generalizing c with
  | nil => rfl
  | cons x xs ih => simp only [foldlOpt_cons, h, Option.bind_some, List.foldl_cons]; exact ih _

-- casts pulled outwards, numerals as casts
theorem band_lit_r (a n : Nat) : band (a : Int) (no_index (OfNat.ofNat n)) = ((a &&& n : Nat) : Int) := rfl
theorem band_lit_l (a n : Nat) : band (no_index (OfNat.ofNat n)) (a : Int) = ((n &&& a : Nat) : Int) := rfl
theorem bxor_lit_r (a n : Nat) : bxor (a : Int) (no_index (OfNat.ofNat n)) = ((a ^^^ n : Nat) : Int) := rfl
theorem bxor_lit_l (a n : Nat) : bxor (no_index (OfNat.ofNat n)) (a : Int) = ((n ^^^ a : Nat) : Int) := rfl
theorem mod_lit (a n : Nat) : (a : Int) % (no_index (OfNat.ofNat n)) = ((a % n : Nat) : Int) := by
  show (a : Int) % (n : Int) = _; exact (Int.natCast_emod a n).symm
theorem div_lit (a n : Nat) : (a : Int) / (no_index (OfNat.ofNat n)) = ((a / n : Nat) : Int) := by
  show (a : Int) / (n : Int) = _; exact (Int.natCast_ediv a n).symm
theorem and_255 (c : Nat) : c &&& 255 = c % 256 := Nat.and_two_pow_sub_one_eq_mod c 8
theorem and_255' (c : Nat) : 255 &&& c = c % 256 := by rw [Nat.and_comm]; exact and_255 c
theorem shr8 (c : Nat) : c >>> 8 = c / 256 := by simp [Nat.shiftRight_eq_div_pow]


end Py
end SshAudit

/-! ### shared by the `Props/GenLogic*.lean` files (each of which must stand on its own: none imports another) -/
namespace SshAudit.GenLogic
open SshAudit

theorem fmtD_natCast (n : Nat) : Py.fmtD (n : Int) = Text.natToStr n := by
  unfold Py.fmtD
  have : ¬ ((n : Int) < 0) := by omega
  simp [this]


def encSize : Option Nat → Int
  | some n => (n : Int)
  | none => -1


end SshAudit.GenLogic
