/-
  Helper lemmas for C14: lexicographic comparison over a strict total order, combination
  of pre-orders given as three-way comparisons, split/join and the version grammar.
-/
import SshAudit.Model.Version
namespace SshAudit
namespace Version
open Text

/-! ### Three-way comparisons that behave like a total pre-order -/

/-- `c a b` is a three-way comparison of a total pre-order on the elements satisfying `P`:
    swapping the arguments flips the sign, and "not newer" is transitive. -/
structure IsPreCmp {α : Type} (P : α → Prop) (c : α → α → Int) : Prop where
  antisymm : ∀ a b, P a → P b → c a b = - c b a
  trans : ∀ a b d, P a → P b → P d → c a b ≤ 0 → c b d ≤ 0 → c a d ≤ 0

namespace IsPreCmp
variable {α : Type} {P : α → Prop} {c : α → α → Int}

theorem lt_of_lt_of_le (h : IsPreCmp P c) {a b d : α} (ha : P a) (hb : P b) (hd : P d)
    (h1 : c a b < 0) (h2 : c b d ≤ 0) : c a d < 0 := by
  have t1 := h.trans d a b hd ha hb
  have t2 := h.trans b d a hb hd ha
  have a1 := h.antisymm a b ha hb
  have a2 := h.antisymm b d hb hd
  have a3 := h.antisymm a d ha hd
  omega

theorem lt_of_le_of_lt (h : IsPreCmp P c) {a b d : α} (ha : P a) (hb : P b) (hd : P d)
    (h1 : c a b ≤ 0) (h2 : c b d < 0) : c a d < 0 := by
  have t1 := h.trans d a b hd ha hb
  have a2 := h.antisymm b d hb hd
  have a3 := h.antisymm a d ha hd
  omega

theorem eq_trans (h : IsPreCmp P c) {a b d : α} (ha : P a) (hb : P b) (hd : P d)
    (h1 : c a b = 0) (h2 : c b d = 0) : c a d = 0 := by
  have t1 := h.trans a b d ha hb hd
  have t2 := h.trans d b a hd hb ha
  have a1 := h.antisymm a b ha hb
  have a2 := h.antisymm b d hb hd
  have a3 := h.antisymm a d ha hd
  omega

/-- pull-back along a key function -/
theorem comap {β : Type} {Q : β → Prop} (f : β → α) (h : IsPreCmp P c) (hq : ∀ b, Q b → P (f b)) :
    IsPreCmp Q (fun x y => c (f x) (f y)) :=
  ⟨fun a b ha hb => h.antisymm _ _ (hq a ha) (hq b hb),
   fun a b d ha hb hd => h.trans _ _ _ (hq a ha) (hq b hb) (hq d hd)⟩

/-- "first by `c₁`, ties broken by `c₂`" is again a total pre-order comparison -/
theorem lex {c₁ c₂ : α → α → Int} (h₁ : IsPreCmp P c₁) (h₂ : IsPreCmp P c₂) :
    IsPreCmp P (fun a b => if c₁ a b ≠ 0 then c₁ a b else c₂ a b) := by
  constructor
  · intro a b ha hb
    have a1 := h₁.antisymm a b ha hb
    have a2 := h₂.antisymm a b ha hb
    show (if c₁ a b ≠ 0 then c₁ a b else c₂ a b) = -(if c₁ b a ≠ 0 then c₁ b a else c₂ b a)
    split <;> split <;> omega
  · intro a b d ha hb hd hab hbd
    replace hab : (if c₁ a b ≠ 0 then c₁ a b else c₂ a b) ≤ 0 := hab
    replace hbd : (if c₁ b d ≠ 0 then c₁ b d else c₂ b d) ≤ 0 := hbd
    show (if c₁ a d ≠ 0 then c₁ a d else c₂ a d) ≤ 0
    by_cases x0 : c₁ a b = 0
    · by_cases y0 : c₁ b d = 0
      · have z0 := h₁.eq_trans ha hb hd x0 y0
        simp only [x0, y0, z0, ne_eq, not_true_eq_false, ite_false] at hab hbd ⊢
        exact h₂.trans a b d ha hb hd hab hbd
      · simp only [x0, ne_eq, not_true_eq_false, ite_false, y0, not_false_eq_true, ite_true] at hab hbd
        have z := h₁.lt_of_le_of_lt ha hb hd (by omega) (show c₁ b d < 0 by omega)
        have : c₁ a d ≠ 0 := by omega
        simp only [ne_eq, this, not_false_eq_true, ite_true]; omega
    · simp only [ne_eq, x0, not_false_eq_true, ite_true] at hab
      have hbd' : c₁ b d ≤ 0 := by
        by_cases y0 : c₁ b d = 0
        · omega
        · simp only [ne_eq, y0, not_false_eq_true, ite_true] at hbd; exact hbd
      have z := h₁.lt_of_lt_of_le ha hb hd (show c₁ a b < 0 by omega) hbd'
      have : c₁ a d ≠ 0 := by omega
      simp only [ne_eq, this, not_false_eq_true, ite_true]; omega

theorem weaken {Q : α → Prop} (h : IsPreCmp P c) (hq : ∀ a, Q a → P a) : IsPreCmp Q c :=
  ⟨fun a b ha hb => h.antisymm a b (hq a ha) (hq b hb),
   fun a b d ha hb hd => h.trans a b d (hq a ha) (hq b hb) (hq d hd)⟩

theorem congr {c' : α → α → Int} (h : IsPreCmp P c)
    (e : ∀ a b, P a → P b → c' a b = c a b) : IsPreCmp P c' :=
  ⟨fun a b ha hb => by rw [e a b ha hb, e b a hb ha]; exact h.antisymm a b ha hb,
   fun a b d ha hb hd => by rw [e a b ha hb, e b d hb hd, e a d ha hd]; exact h.trans a b d ha hb hd⟩

end IsPreCmp

/-! ### Lexicographic comparison of lists -/

/-- a decidable strict total order -/
structure StrictTotal {α : Type} (lt : α → α → Bool) : Prop where
  irrefl : ∀ a, lt a a = false
  trans : ∀ a b c, lt a b = true → lt b c = true → lt a c = true
  tri : ∀ a b, lt a b = false → lt b a = false → a = b

/-- the three-way lexicographic comparison: first difference decides, a proper prefix is older -/
def lexCmp {α : Type} (lt : α → α → Bool) : List α → List α → Int
  | [], [] => 0
  | [], _ :: _ => -1
  | _ :: _, [] => 1
  | a :: as, b :: bs => if lt a b then -1 else if lt b a then 1 else lexCmp lt as bs

/-- Python's `<`/`>` ladder over sequence comparison is the three-way comparison. -/
theorem cmpOf_lexLt {α : Type} (lt : α → α → Bool) (a b : List α) :
    cmpOf (lexLt lt) a b = lexCmp lt a b := by
  induction a generalizing b with
  | nil => cases b <;> simp [cmpOf, lexLt, lexCmp]
  | cons x xs ih =>
    cases b with
    | nil => simp [cmpOf, lexLt, lexCmp]
    | cons y ys =>
      have := ih ys
      simp only [cmpOf, lexLt, lexCmp] at this ⊢
      by_cases hxy : lt x y = true
      · simp [hxy]
      · by_cases hyx : lt y x = true
        · simp [hxy, hyx]
        · simp [hxy, hyx, this]

theorem lexCmp_antisymm {α : Type} {lt : α → α → Bool} (h : StrictTotal lt) (a b : List α) :
    lexCmp lt a b = - lexCmp lt b a := by
  induction a generalizing b with
  | nil => cases b <;> simp [lexCmp]
  | cons x xs ih =>
    cases b with
    | nil => simp [lexCmp]
    | cons y ys =>
      simp only [lexCmp]
      cases hxy : lt x y <;> cases hyx : lt y x
      · simpa using ih ys
      · simp
      · simp
      · have := h.trans x y x hxy hyx
        rw [h.irrefl] at this; cases this

theorem lexCmp_trans {α : Type} {lt : α → α → Bool} (h : StrictTotal lt) (a b d : List α) :
    lexCmp lt a b ≤ 0 → lexCmp lt b d ≤ 0 → lexCmp lt a d ≤ 0 := by
  induction a generalizing b d with
  | nil => cases d <;> simp [lexCmp]
  | cons x xs ih =>
    cases b with
    | nil => simp [lexCmp]
    | cons y ys =>
      cases d with
      | nil =>
        simp only [lexCmp]
        intro _ h2
        cases hyz : lexCmp lt (y :: ys) ([] : List α) <;> simp_all
      | cons z zs =>
        simp only [lexCmp]
        cases hxy : lt x y
        · cases hyx : lt y x
          · have exy : x = y := h.tri x y hxy hyx
            subst exy
            cases hyz : lt x z
            · cases hzy : lt z x
              · simpa using ih ys zs
              · simp
            · simp
          · simp
        · cases hyz : lt y z
          · cases hzy : lt z y
            · have eyz : y = z := h.tri y z hyz hzy
              subst eyz
              simp [hxy]
            · simp
          · have := h.trans x y z hxy hyz
            simp [this]

theorem lexCmp_isPreCmp {α : Type} {lt : α → α → Bool} (h : StrictTotal lt) :
    IsPreCmp (fun _ : List α => True) (lexCmp lt) :=
  ⟨fun a b _ _ => lexCmp_antisymm h a b, fun a b d _ _ _ => lexCmp_trans h a b d⟩

theorem lexCmp_range {α : Type} (lt : α → α → Bool) (a b : List α) :
    lexCmp lt a b = -1 ∨ lexCmp lt a b = 0 ∨ lexCmp lt a b = 1 := by
  induction a generalizing b with
  | nil => cases b <;> simp [lexCmp]
  | cons x xs ih =>
    cases b with
    | nil => simp [lexCmp]
    | cons y ys =>
      simp only [lexCmp]
      split
      · simp
      · split
        · simp
        · exact ih ys

theorem natLt_strictTotal : StrictTotal natLt :=
  ⟨fun a => by simp [natLt], fun a b c => by simp only [natLt, decide_eq_true_eq]; omega,
   fun a b => by simp only [natLt, decide_eq_false_iff_not]; omega⟩

theorem charLt_strictTotal : StrictTotal charLt :=
  ⟨fun a => by simp [charLt, Char.lt_irrefl],
   fun a b c => by simp only [charLt, decide_eq_true_eq]; exact Char.lt_trans,
   fun a b => by
     simp only [charLt, decide_eq_false_iff_not]
     intro h1 h2
     exact Char.le_antisymm (Char.not_lt.mp h2) (Char.not_lt.mp h1)⟩

/-- the string-order ladder, pulled back along any key function, is a total pre-order -/
theorem strCmp_isPreCmp {β : Type} (key : β → Str) :
    IsPreCmp (fun _ : β => True) (fun a b => cmpOf strLt (key a) (key b)) := by
  have h := (lexCmp_isPreCmp charLt_strictTotal).comap (Q := fun _ : β => True) key (fun _ _ => trivial)
  have e : (fun a b : β => cmpOf strLt (key a) (key b)) = (fun a b => lexCmp charLt (key a) (key b)) := by
    funext a b; exact cmpOf_lexLt charLt _ _
  rw [e]; exact h

/-! ### split / join -/

theorem splitOn_append_sep (c : Char) (p : Str) (hp : c ∉ p) (rest : Str) :
    splitOn c (p ++ c :: rest) = p :: splitOn c rest := by
  induction p with
  | nil => simp [splitOn]
  | cons x xs ih =>
    have hx : x ≠ c := by intro h; apply hp; simp [h]
    have hxs : c ∉ xs := by intro h; apply hp; simp [h]
    simp [splitOn, hx, ih hxs]

theorem splitOn_no_sep (c : Char) (p : Str) (hp : c ∉ p) : splitOn c p = [p] := by
  induction p with
  | nil => simp [splitOn]
  | cons x xs ih =>
    have hx : x ≠ c := by intro h; apply hp; simp [h]
    have hxs : c ∉ xs := by intro h; apply hp; simp [h]
    simp [splitOn, hx, ih hxs]

theorem split_join (c : Char) (ps : List Str) (hne : ps ≠ []) (h : ∀ p ∈ ps, c ∉ p) :
    splitOn c (join [c] ps) = ps := by
  induction ps with
  | nil => exact absurd rfl hne
  | cons p qs ih =>
    cases qs with
    | nil => simpa [join] using splitOn_no_sep c p (h p (by simp))
    | cons q rs =>
      simp only [join, List.append_assoc, List.singleton_append]
      rw [splitOn_append_sep c p (h p (by simp))]
      rw [ih (by simp) (fun x hx => h x (by simp [hx]))]

/-! ### The version grammar: `digits(.digits)*` -/

/-- a non-empty string of decimal digits -/
def IsNum (d : Str) : Prop := d ≠ [] ∧ d.all isDigit = true

/-- the components of a version: at least one, each a non-empty digit string -/
def WfDs (ds : List Str) : Prop := ds ≠ [] ∧ ∀ d ∈ ds, IsNum d

/-- the version text: components joined by dots -/
def render (ds : List Str) : Str := join ['.'] ds

/-- the number a digit string denotes -/
def decVal (d : Str) : Nat := d.foldl (fun acc c => acc * 10 + (c.toNat - '0'.toNat)) 0

/-- the numbers a version denotes -/
def vals (ds : List Str) : List Nat := ds.map decVal

theorem isDigit_ne_dot {c : Char} (h : isDigit c = true) : c ≠ '.' := by
  intro e; subst e; revert h; decide

theorem isDigit_ne_nl {c : Char} (h : isDigit c = true) : c ≠ '\n' := by
  intro e; subst e; revert h; decide

theorem isNum_no_dot {d : Str} (h : IsNum d) : '.' ∉ d := by
  intro hm
  have := (List.all_eq_true.mp h.2) _ hm
  exact isDigit_ne_dot this rfl

theorem parseNat?_isNum {d : Str} (h : IsNum d) : parseNat? d = some (decVal d) := by
  obtain ⟨hne, hall⟩ := h
  cases d with
  | nil => exact absurd rfl hne
  | cons x xs => simp [parseNat?, hall, decVal]

theorem mapM_parseNat? (ds : List Str) (h : ∀ d ∈ ds, IsNum d) : ds.mapM parseNat? = some (vals ds) := by
  induction ds with
  | nil => simp [vals]
  | cons d rest ih =>
    have h1 := parseNat?_isNum (h d (by simp))
    have h2 := ih (fun x hx => h x (by simp [hx]))
    simp [List.mapM_cons, h1, h2, vals]

theorem takeWhile_all {α : Type} (p : α → Bool) (l : List α) (h : ∀ a ∈ l, p a = true) : l.takeWhile p = l := by
  induction l with
  | nil => rfl
  | cons x xs ih =>
    simp [h x (by simp), ih (fun a ha => h a (by simp [ha]))]

theorem dropWhile_all {α : Type} (p : α → Bool) (l : List α) (h : ∀ a ∈ l, p a = true) : l.dropWhile p = [] := by
  induction l with
  | nil => rfl
  | cons x xs ih =>
    simp [h x (by simp), ih (fun a ha => h a (by simp [ha]))]

/-- every character of a rendered version is a digit or a dot -/
theorem render_verChars (ds : List Str) (h : ∀ d ∈ ds, IsNum d) : ∀ c ∈ render ds, isVerChar c = true := by
  induction ds with
  | nil => simp [render, join]
  | cons d rest ih =>
    have hd : ∀ c ∈ d, isVerChar c = true := fun c hc => by
      have := (List.all_eq_true.mp (h d (by simp)).2) c hc
      simp [isVerChar, this]
    cases rest with
    | nil => simpa [render, join] using hd
    | cons q rs =>
      intro c hc
      simp only [render, join, List.append_assoc, List.singleton_append, List.mem_append, List.mem_cons] at hc
      rcases hc with hc | hc | hc
      · exact hd c hc
      · subst hc; decide
      · exact ih (fun x hx => h x (by simp [hx])) c (by simpa [render] using hc)

/-- a rendered version ends in a digit -/
theorem render_last (ds : List Str) (h : WfDs ds) : ∃ pre c, render ds = pre ++ [c] ∧ isDigit c = true := by
  obtain ⟨hne, hall⟩ := h
  induction ds with
  | nil => exact absurd rfl hne
  | cons d rest ih =>
    cases rest with
    | nil =>
      have hd := hall d (by simp)
      have hne' : d ≠ [] := hd.1
      refine ⟨d.dropLast, d.getLast hne', ?_, ?_⟩
      · simp [render, join, List.dropLast_concat_getLast]
      · exact (List.all_eq_true.mp hd.2) _ (List.getLast_mem hne')
    | cons q rs =>
      obtain ⟨pre, c, e, hc⟩ := ih (by simp) (fun x hx => hall x (by simp [hx]))
      refine ⟨d ++ '.' :: pre, c, ?_, hc⟩
      simp only [render, join, List.append_assoc, List.singleton_append] at e ⊢
      rw [e]; simp

theorem render_ne_nil (ds : List Str) (h : WfDs ds) : render ds ≠ [] := by
  obtain ⟨pre, c, e, _⟩ := render_last ds h
  rw [e]; simp

/-- `^\d+(\.\d+)*$` accepts a rendered version and the components are its numbers -/
theorem dotNum?_render (ds : List Str) (h : WfDs ds) : dotNum? (render ds) = some (vals ds) := by
  obtain ⟨pre, c, e, hc⟩ := render_last ds h
  have hlast : (render ds).getLast? ≠ some '\n' := by
    rw [e, List.getLast?_concat]
    intro hh
    exact isDigit_ne_nl hc (Option.some.inj hh)
  simp only [dotNum?, hlast, if_false]
  rw [render, split_join '.' ds h.1 (fun p hp => isNum_no_dot (h.2 p hp))]
  exact mapM_parseNat? ds h.2

/-- the numeric branch of `_compare_version_numbers` on two grammar versions -/
theorem compareVersionNumbers_render (ds₁ ds₂ : List Str) (h₁ : WfDs ds₁) (h₂ : WfDs ds₂) :
    compareVersionNumbers (render ds₁) (render ds₂) = lexCmp natLt (vals ds₁) (vals ds₂) := by
  simp only [compareVersionNumbers, dotNum?_render ds₁ h₁, dotNum?_render ds₂ h₂]
  exact cmpOf_lexLt natLt _ _

theorem stripDots_render (ds : List Str) (h : WfDs ds) : stripDots (render ds) = render ds := by
  obtain ⟨pre, c, e, hc⟩ := render_last ds h
  have hcd : c ≠ '.' := isDigit_ne_dot hc
  rw [e]
  simp [stripDots, List.reverse_append, hcd]

/-- what a patch suffix must look like for `^([\d\.]+\d+)(.*)$` + `.strip()` to return it
    unchanged: it does not continue the version, has no newline and no outer white space -/
structure PatchShape (pa : Str) : Prop where
  head : ∀ c, pa.head? = some c → isVerChar c = false
  noNl : '\n' ∉ pa
  stripped : pyStrip pa = pa

theorem patchShape_nil : PatchShape [] := ⟨by simp, by simp, by simp [pyStrip, pyLstrip, pyRstrip]⟩

theorem takeWhile_render_append (ds : List Str) (h : WfDs ds) (pa : Str) (hp : ∀ c, pa.head? = some c → isVerChar c = false) :
    (render ds ++ pa).takeWhile isVerChar = render ds := by
  rw [List.takeWhile_append_of_pos (render_verChars ds h.2)]
  cases pa with
  | nil => simp
  | cons x xs =>
    have := hp x (by simp)
    simp [this]

theorem dotTail_noNl (pa : Str) (h : '\n' ∉ pa) : dotTail pa = some pa := by
  have hall : ∀ a ∈ pa, notNl a = true := fun a ha => by
    simp only [notNl, bne_iff_ne, ne_eq]
    intro e; subst e; exact h ha
  simp [dotTail, dropWhile_all notNl pa hall, takeWhile_all notNl pa hall]

/-- `compare_version` splits `<version><patch>` back into its two parts (one version character
    is enough since the repair of D13-onechar) -/
theorem splitOther_render (ds : List Str) (h : WfDs ds) (pa : Str) (hp : PatchShape pa) :
    splitOther (render ds ++ pa) = (render ds, pa) := by
  have hg : stripDots ((render ds ++ pa).takeWhile isVerChar) = render ds := by
    rw [takeWhile_render_append ds h pa hp.head, stripDots_render ds h]
  have h1 : 1 ≤ (render ds).length := List.length_pos_iff.mpr (render_ne_nil ds h)
  unfold splitOther verPrefixN
  simp only [hg, h1, if_true, List.drop_left, dotTail_noNl pa hp.noNl, hp.stripped]

/-! ### Canonical decimal rendering of natural numbers -/

theorem isDigit_of_core {c : Char} (h : c.isDigit = true) : isDigit c = true := by
  simp only [Char.isDigit, Bool.and_eq_true, decide_eq_true_eq] at h
  simp only [isDigit, Bool.and_eq_true, decide_eq_true_eq]
  exact ⟨Char.le_def.mpr h.1, Char.le_def.mpr h.2⟩

theorem decVal_eq (d : Str) : decVal d = Nat.ofDigitChars 10 d 0 := by
  have : (fun acc (c : Char) => acc * 10 + (c.toNat - '0'.toNat)) = (fun sofar (c : Char) => 10 * sofar + (c.toNat - '0'.toNat)) := by
    funext a c; rw [Nat.mul_comm]
  simp only [decVal, Nat.ofDigitChars, this]

theorem natToStr_isNum (n : Nat) : IsNum (natToStr n) := by
  simp only [natToStr, Nat.toList_repr]
  exact ⟨Nat.toDigits_ne_nil, List.all_eq_true.mpr (fun c hc => isDigit_of_core (Nat.isDigit_of_mem_toDigits (by decide) (by decide) hc))⟩

theorem decVal_natToStr (n : Nat) : decVal (natToStr n) = n := by
  rw [decVal_eq]; simp only [natToStr, Nat.toList_repr]; exact Nat.ofDigitChars_ten_toDigits

/-- the usual text of a version given by its numbers: `[10, 0] ↦ "10.0"` -/
def verText (ns : List Nat) : Str := render (ns.map natToStr)

theorem wfDs_canon (ns : List Nat) (h : ns ≠ []) : WfDs (ns.map natToStr) :=
  ⟨by simpa using h, fun d hd => by obtain ⟨n, _, rfl⟩ := List.mem_map.mp hd; exact natToStr_isNum n⟩

theorem vals_canon (ns : List Nat) : vals (ns.map natToStr) = ns := by
  induction ns with
  | nil => rfl
  | cons n rest ih => simp only [vals, List.map_cons, decVal_natToStr, List.cons.injEq, true_and] at ih ⊢; exact ih

end Version
end SshAudit
