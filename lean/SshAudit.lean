import SshAudit.Model.Types
import SshAudit.Gen.KexDB
import SshAudit.Gen.Policies
import SshAudit.Gen.Tables
