#!/venv/bin/python
"""Logic translator (pilot): small pure functions of /repo/src/ssh_audit  ->  lean/SshAudit/Gen/Logic.lean (+ Gen/LogicCrc.lean)

`translate.py` regenerates the DATA of the model from the source on every run; this file does the same for a handful of small
pure FUNCTIONS: each function of the table below is read with `ast` (nothing is imported or executed), translated to a Lean `def`
in namespace `SshAudit.Gen.Logic`, and `lean/SshAudit/Props/GenLogic.lean` proves `<name>_eq_model : Gen.Logic.<name> = <hand model>`.
So a change of the Python function changes the Lean definition the theorem is about.

The subset is deliberately strict: whatever is not listed here makes the function *untranslatable* (reported, never guessed).

  types        int -> Int, str -> List Char, bool -> Bool, bytes -> List UInt8, List[int] / List[str], Optional[...] of those
               (parameters need annotations of exactly these forms; locals are inferred)
  constants    int / str / bool / bytes literals; lists / tuples of them; module-level and class-level NAME = <such a literal>,
               also of a class or module imported with `from ssh_audit.x import Y` / `from ssh_audit import x`
  statements   return, assignment to locals (SSA-renamed; tuple assignment `a, b = x, y`), augmented assignment, `xs[i] = v`,
               if / elif / else (a branch that returns takes the rest of the block with it, otherwise the assigned locals are merged),
               `X is None [or ...]` / `X is not None [and ...]` as an `if` test narrows an Optional local (a `match`),
               `for x in <list>` / `for i in range(n)` whose body only updates locals (a fold over the updated locals), pass, docstrings
  expressions  and / or / not on bools, comparisons (== != on equal types, < <= > >= on ints, chains), `in` / `not in` a literal list,
               + - * on ints, // % (positive literal divisor: Int `/` `%`, which is floor there; negative literal: Int.fdiv / Int.fmod;
               otherwise Py.floordiv / Py.mod, which raise on 0), << >> (literal count, or Py.shl / Py.shr raising on a negative one),
               & | ^ ~ (two's complement on unbounded ints: Py.band / Py.bor / Py.bxor), unary -, conditional expressions,
               len, ord (of a str / bytes of length 1, raising otherwise), bool(<bool>), s.startswith(t) / s.endswith(t) with str t,
               <str>.join(<List[str]>), '<text with {} only>'.format(<str>, ...), + on str / bytes / lists, `[v] * n`,
               xs[i] (raising outside the range, negative indices as Python), xs[a:b] (clamped as Python; no step)
  partiality   an operation that can raise makes the function `Option`-valued (`none` = an exception); it must not sit under a
               short-circuit (`and` / `or` / conditional expression), where evaluation order would matter
  statements+  (round 15) chained assignment `a = b = v` (v not a list), `xs.append(v)` / `xs.extend(ys)` on a list local (a rebinding; a
               list local is never bound to another list *name*, so no two names can share one list), `'..%d..%s..' % v` / `% (v, w)` with
               %d / %u on ints and %s on strs, `<` `<=` `>` `>=` on strs (code-point order, `Text.ltStr`), `xs.index(v)` (raising when absent),
               `min(a, b)` / `max(a, b)` on ints
  procedures   (round 15, `proc`) a run of statements that calls functions the table declares EXTERNAL (probes of the peer, setters): each
               becomes a parameter `ext_<name> : σ → <modelled args> → <result> × σ` over an abstract state σ that is threaded through the
               statements in execution order; `for` loops may `break` (a fold with a done flag), a `break` that leaves the selected
               statements sets the `stop` result; calls of the debug channel (`out.d`, `out.v`) with pure arguments are skipped; an `and`
               chain may narrow (`X is not None and <uses of X>`), also for a declared object with Optional attributes;
               `s.find(t)` (index or -1)
  nested lists `List[List[Optional[str]]]`: `xs.append([v])`, `xs.append([])`, `del xs[i]`, `xs.insert(i, v)`, `xs[i].append(v)`,
               `v in xs[i]`, and the loop `while len(xs) < n: xs.append(v)` (padding); a str is lifted to Optional[str] where one is expected
  extraction   besides whole functions, these patterns pick a piece of a bigger function (`block`: the statements chosen by the selectors
               of the table, in source order, as a function from the typed free variables to the tuple of the `out` locals; `lambda`: the
               only lambda expression of a function): the test of the `if` inside the only `for`
               of a nested function (`for-if-test`), an `if/elif` chain whose tests read one local only (`if-chain`: the index of the
               branch taken), the right-hand side of the only assignment to a local (`assign-expr`); the free variables are typed by the table.

`try: int(s) except ValueError` is NOT translated: `int()` accepts any Unicode decimal digit, Unicode white space, a sign and
underscores between digits; modelling that exactly needs the Unicode Nd table, which this pilot does not carry.

Output: one JSON line {"ok": true, "translated": [...], "untranslatable": {name: reason}, "changed": [files rewritten],
"units": {name: generated file without .lean; its theorems are in lean/SshAudit/Props/Gen<unit>.lean}}.
"""
import ast
import json
import os
import sys

REPO = os.environ.get('VERIF_REPO', '/repo')
HERE = os.path.dirname(os.path.abspath(__file__))
GEN = os.path.join(HERE, '..', 'lean', 'SshAudit', 'Gen')

# (Lean name, module file, qualified function name, options)
FUNCTIONS = [
    ('adjust_key_size', 'kexdh.py', 'KexDH.__adjust_key_size', {}),
    ('normalize_error_field', 'policy.py', 'Policy._normalize_error_field', {}),
    ('is_chacha', 'ssh_audit.py', 'post_process_findings._get_chacha_ciphers_enabled', {'extract': 'for-if-test', 'params': ['str']}),
    ('is_cbc', 'ssh_audit.py', 'post_process_findings._get_cbc_ciphers_enabled', {'extract': 'for-if-test', 'params': ['str']}),
    ('is_etm', 'ssh_audit.py', 'post_process_findings._get_etm_macs_enabled', {'extract': 'for-if-test', 'params': ['str']}),
    ('fix_date', 'software.py', 'Software._fix_date', {}),
    ('get_ssh_version', 'algorithm.py', 'Algorithm.get_ssh_version', {}),
    # 'unit': these go to Gen/LogicCrc.lean: the theorem about the table evaluates 2048 list updates in the kernel (~40 s), which is
    # paid again only when one of these two functions changes, not when any other function of the table does
    ('ssh1_crc32_table', 'ssh1_crc32.py', 'SSH1_CRC32.__init__', {'result_attr': '_table', 'unit': 'LogicCrc'}),
    ('ssh1_crc32_calc', 'ssh1_crc32.py', 'SSH1_CRC32.calc', {'attrs': {'_table': 'ssh1_crc32_table'}, 'unit': 'LogicCrc'}),
    ('gex_size_class', 'gextest.py', 'GEXTest.run', {'extract': 'if-chain', 'var': 'smallest_modulus', 'params': ['int']}),
    ('mpint_length', 'writebuf.py', 'WriteBuf._create_mpint', {'extract': 'assign-expr', 'var': 'length', 'free': {'bits': 'int', 'n': 'int'}}),
    # ---- round 15: blocks and lambdas (unit Logic2: theorems in Props/GenLogic2.lean)
    ('hostkey_comments', 'hostkeytest.py', 'HostKeyTest.perform_test', {'unit': 'Logic2', 'extract': 'block', 'select': [('if', 'hostkey_min_good', ['hostkey_modulus_size', 'ca_modulus_size'])],
        'free': {'host_key_type': 'str', 'cert': 'bool', 'hostkey_modulus_size': 'int', 'ca_key_type': 'str', 'ca_modulus_size': 'int',
                 'key_fail_comments': 'List[str]', 'key_warn_comments': 'List[str]'},
        'out': ['key_fail_comments', 'key_warn_comments']}),
    ('send_packet_framing', 'ssh_socket.py', 'SSH_Socket.send_packet', {'unit': 'Logic2', 'extract': 'block',
        'select': [('assign', 'padding', 0, 2), ('if-assigning', 'padding'), ('assign', 'plen')], 'free': {'payload': 'bytes'}, 'out': ['padding', 'plen']}),
    ('status_step', 'ssh_audit.py', 'output_algorithm', {'unit': 'Logic2', 'extract': 'block', 'select': [('if', 'program_retval', ['level'])],
        'free': {'level': 'str', 'program_retval': 'int'}, 'out': ['program_retval']}),
    ('rank_step', 'ssh_audit.py', 'main', {'unit': 'Logic2', 'extract': 'block',
        'select': [('assign', 'ranked_return_codes'), ('if', 'ret', ['ranked_return_codes', 'worker_ret', 'ret'])],
        'free': {'worker_ret': 'int', 'ret': 'int'}, 'out': ['ret']}),
    ('gex_early_exit', 'gextest.py', 'GEXTest.run', {'unit': 'Logic2', 'extract': 'if-test', 'names': ['bits', 'smallest_modulus'],
        'free': {'bits': 'int', 'smallest_modulus': 'int'}}),
    ('gex_followup_updated', 'gextest.py', 'GEXTest.run', {'unit': 'Logic2', 'extract': 'assign-expr', 'var': 'openssh_test_updated', 'count': 2, 'nth': 1,
        'free': {'smallest_modulus': 'int'}}),
    ('port_out_of_range', 'auditconf.py', 'AuditConf.__setattr__', {'unit': 'Logic2', 'extract': 'if-test', 'names': ['port'], 'free': {'port': 'int'}}),
    ('read_packet2_lengths', 'ssh_socket.py', 'SSH_Socket.read_packet', {'unit': 'Logic2', 'extract': 'block',
        'select': [('assign', 'payload_length', 1, 2), ('assign', 'check_size', 1, 2)], 'free': {'packet_length': 'int', 'padding_length': 'int'},
        'out': ['payload_length', 'check_size']}),
    ('read_packet1_lengths', 'ssh_socket.py', 'SSH_Socket.read_packet', {'unit': 'Logic2', 'extract': 'block',
        'select': [('assign', 'padding_length', 0, 2), ('assign', 'payload_length', 0, 2), ('assign', 'check_size', 0, 2)], 'free': {'packet_length': 'int'},
        'out': ['padding_length', 'payload_length', 'check_size']}),
    ('read_packet_bad_block', 'ssh_socket.py', 'SSH_Socket.read_packet', {'unit': 'Logic2', 'extract': 'if-test', 'names': ['check_size', 'self'],
        'free': {'check_size': 'int', 'self.__block_size': 'int'}}),
    ('read_packet_bad_length', 'ssh_socket.py', 'SSH_Socket.read_packet', {'unit': 'Logic2', 'extract': 'if-test', 'names': ['payload_length', 'sshv'],
        'free': {'payload_length': 'int', 'sshv': 'int'}}),
    # ---- procedures: external calls as parameters over an abstract state (unit Logic3: theorems in Props/GenLogic3.lean)
    ('gex_probe', 'gextest.py', 'GEXTest.run', {'unit': 'Logic3', 'extract': 'proc',
        'select': [('range', ('assign', 'smallest_modulus', 0, 3), ('if-names', ['smallest_modulus', 'banner']))],
        'externals': {'GEXTest._send_init': {'lean': 'send_init', 'args': [5, 6, 7], 'arg_types': ['int', 'int', 'int'], 'ret': ['int', 'bool']}},
        'passed_through': ['out', 's', 'kex_group', 'kex', 'gex_alg'], 'ignore_calls': ['out.d'], 'objects': {'banner': {'software': 'Optional[str]'}},
        'free': {}, 'out': ['smallest_modulus', 'reconnect_failed', 'openssh_test_updated']}),
    ('gex_report_guard', 'gextest.py', 'GEXTest.run', {'unit': 'Logic3', 'extract': 'if-test', 'names': ['smallest_modulus'], 'count': 3, 'nth': 0,
        'free': {'smallest_modulus': 'int'}}),
    ('gex_rate', 'gextest.py', 'GEXTest.run', {'unit': 'Logic3', 'extract': 'block',
        'select': [('if-names', ['smallest_modulus'], 1, 2), ('if-names', ['openssh_test_updated'])],
        'free': {'lst': 'List[List[Optional[str]]]', 'smallest_modulus': 'int', 'openssh_test_updated': 'bool'}, 'out': ['lst']}),
    ('policy_check_kex', 'policy.py', 'Policy.evaluate', {'unit': 'Logic3', 'extract': 'proc', 'select': [('if-with-str', 'Key exchanges')],
        'externals': {'self._append_error': {'lean': 'append_error', 'args': [0, 1, 2, 3], 'arg_types': ['str', 'List[str]', 'Optional[List[str]]', 'List[str]'], 'ret': []}},
        'free': {'ret': 'bool', 'self._kex': 'Optional[List[str]]', 'self._allow_algorithm_subset_and_reordering': 'bool', 'kex.kex_algorithms': 'List[str]'},
        'nonnull': ['kex'], 'out': ['ret']}),
    ('policy_check_hostkeys', 'policy.py', 'Policy.evaluate', {'unit': 'Logic3', 'extract': 'proc',
        'select': [('assign', 'pruned_host_keys', 0, 2), ('if-assigning', 'pruned_host_keys'), ('if-with-str', 'Host keys')],
        'externals': {'self._append_error': {'lean': 'append_error', 'args': [0, 1, 2, 3], 'arg_types': ['str', 'List[str]', 'Optional[List[str]]', 'List[str]'], 'ret': []}},
        'free': {'ret': 'bool', 'self._host_keys': 'Optional[List[str]]', 'self._optional_host_keys': 'Optional[List[str]]',
                 'self._allow_algorithm_subset_and_reordering': 'bool', 'kex.key_algorithms': 'List[str]'},
        'nonnull': ['kex'], 'out': ['ret']}),
    ('policy_check_compression', 'policy.py', 'Policy.evaluate', {'unit': 'Logic3', 'extract': 'proc', 'select': [('if-with-str', 'Compression')],
        'externals': {'self._append_error': {'lean': 'append_error', 'args': [0, 1, 2, 3], 'arg_types': ['str', 'List[str]', 'Optional[List[str]]', 'List[str]'], 'ret': []}},
        'free': {'ret': 'bool', 'self._compressions': 'Optional[List[str]]', 'kex.server.compression': 'List[str]'},
        'nonnull': ['kex', 'kex.server'], 'out': ['ret']}),
    ('policy_check_ciphers', 'policy.py', 'Policy.evaluate', {'unit': 'Logic3', 'extract': 'proc', 'select': [('if-with-str', 'Ciphers')],
        'externals': {'self._append_error': {'lean': 'append_error', 'args': [0, 1, 2, 3], 'arg_types': ['str', 'List[str]', 'Optional[List[str]]', 'List[str]'], 'ret': []}},
        'free': {'ret': 'bool', 'self._ciphers': 'Optional[List[str]]', 'self._allow_algorithm_subset_and_reordering': 'bool', 'kex.server.encryption': 'List[str]'},
        'nonnull': ['kex', 'kex.server'], 'out': ['ret']}),
    ('policy_check_macs', 'policy.py', 'Policy.evaluate', {'unit': 'Logic3', 'extract': 'proc', 'select': [('if-with-str', 'MACs')],
        'externals': {'self._append_error': {'lean': 'append_error', 'args': [0, 1, 2, 3], 'arg_types': ['str', 'List[str]', 'Optional[List[str]]', 'List[str]'], 'ret': []}},
        'free': {'ret': 'bool', 'self._macs': 'Optional[List[str]]', 'self._allow_algorithm_subset_and_reordering': 'bool', 'kex.server.mac': 'List[str]'},
        'nonnull': ['kex', 'kex.server'], 'out': ['ret']}),
    ('terrapin_rule', 'ssh_audit.py', 'post_process_findings', {'unit': 'Logic4', 'extract': 'proc',
        'select': [('range', ('assign', 'kex_strict_marker', 0, 2), ('if-names', ['algs_to_note', 'len']))],
        'externals': {'_add_terrapin_warning': {'lean': 'add_terrapin_warning', 'args': [1, 2], 'arg_types': ['str', 'str'], 'ret': []}},
        'pure_calls': {'_get_chacha_ciphers_enabled': ('chacha_enabled', 'List[str]'), '_get_cbc_ciphers_enabled': ('cbc_enabled', 'List[str]'),
                       '_get_etm_macs_enabled': ('etm_enabled', 'List[str]')},
        'passed_through': ['db', 'algs'], 'opaque': ['db'], 'objects': {'algs.ssh2kex': {'kex_algorithms': 'List[str]'}},
        'locals': {'additional_notes': 'List[str]'},
        'free': {'client_audit': 'bool', 'algs_to_note': 'List[str]'}, 'out': ['kex_strict_marker', 'algs_to_note', 'additional_notes']}),
    ('get_level', 'outputbuffer.py', 'OutputBuffer.get_level', {'unit': 'Logic4'}),
    ('print_filtered', 'outputbuffer.py', 'OutputBuffer._print', {'unit': 'Logic4', 'extract': 'if-test', 'names': ['always_print', 'self', 'level'],
        'calls': {'self.get_level': 'get_level'}, 'free': {'always_print': 'bool', 'level': 'str', 'self.__level': 'int'}}),
    ('append_line', 'outputbuffer.py', 'OutputBuffer._print', {'unit': 'Logic4', 'extract': 'block', 'select': [('if-assigning', 'last_entry')],
        'free': {'buf': 'List[str]', 's': 'str', 'self.line_ended': 'bool'}, 'out': ['buf']}),
    ('parse_mpint', 'readbuf.py', 'ReadBuf._parse_mpint', {'unit': 'Logic5'}),
    ('mpint2_pad_fmt', 'readbuf.py', 'ReadBuf.read_mpint2', {'unit': 'Logic5', 'extract': 'block', 'select': [('assign', 'pad')],
        'free': {'v': 'bytes'}, 'out': ['pad', 'f']}),
    ('create_mpint', 'writebuf.py', 'WriteBuf._create_mpint', {'unit': 'Logic5', 'extract': 'block',
        'select': [('range', ('assign', 'length'), ('if-names', ['signed']))],
        'free': {'n': 'int', 'signed': 'bool', 'bits': 'int'}, 'out': ['data']}),
    ('mpint1_nbytes', 'readbuf.py', 'ReadBuf.read_mpint1', {'unit': 'Logic5', 'extract': 'assign-expr', 'var': 'n', 'free': {'bits': 'int'}}),
    ('kex_write', 'ssh2_kex.py', 'SSH2_Kex.write', {'unit': 'Logic6', 'extract': 'proc', 'select': [('body',)],
        'externals': {'wbuf.write': {'lean': 'write', 'args': [0], 'arg_types': ['bytes'], 'ret': []},
                      'wbuf.write_list': {'lean': 'write_list', 'args': [0], 'arg_types': ['List[str]'], 'ret': []},
                      'wbuf.write_bool': {'lean': 'write_bool', 'args': [0], 'arg_types': ['bool'], 'ret': []},
                      'wbuf.write_int': {'lean': 'write_int', 'args': [0], 'arg_types': ['int'], 'ret': []}},
        'free': {'self.cookie': 'bytes', 'self.kex_algorithms': 'List[str]', 'self.key_algorithms': 'List[str]',
                 'self.client.encryption': 'List[str]', 'self.server.encryption': 'List[str]', 'self.client.mac': 'List[str]', 'self.server.mac': 'List[str]',
                 'self.client.compression': 'List[str]', 'self.server.compression': 'List[str]', 'self.client.languages': 'List[str]',
                 'self.server.languages': 'List[str]', 'self.follows': 'bool', 'self.__unused': 'int'}, 'out': []}),
    ('kex_parse', 'ssh2_kex.py', 'SSH2_Kex.parse', {'unit': 'Logic6', 'extract': 'proc',
        'select': [('range', ('assign', 'cookie'), ('assign', 'unused'))],
        'externals': {'buf.read': {'lean': 'read', 'args': [0], 'arg_types': ['int'], 'ret': ['bytes']},
                      'buf.read_list': {'lean': 'read_list', 'args': [], 'arg_types': [], 'ret': ['List[str]']},
                      'buf.read_bool': {'lean': 'read_bool', 'args': [], 'arg_types': [], 'ret': ['bool']},
                      'buf.read_int': {'lean': 'read_int', 'args': [], 'arg_types': [], 'ret': ['int']}},
        'free': {}, 'out': ['cookie', 'kex_algs', 'key_algs', 'cli_enc', 'srv_enc', 'cli_mac', 'srv_mac', 'cli_compression', 'srv_compression',
                            'cli_languages', 'srv_languages', 'follows', 'unused']}),
    ('pkm_write', 'ssh1_publickeymessage.py', 'SSH1_PublicKeyMessage.write', {'unit': 'Logic6', 'extract': 'proc', 'select': [('body',)],
        'externals': {'wbuf.write': {'lean': 'write', 'args': [0], 'arg_types': ['bytes'], 'ret': []},
                      'wbuf.write_int': {'lean': 'write_int', 'args': [0], 'arg_types': ['int'], 'ret': []},
                      'wbuf.write_mpint1': {'lean': 'write_mpint1', 'args': [0], 'arg_types': ['int'], 'ret': []}},
        'free': {'self.cookie': 'bytes', 'self.server_key_bits': 'int', 'self.server_key_public_exponent': 'int', 'self.server_key_public_modulus': 'int',
                 'self.host_key_bits': 'int', 'self.host_key_public_exponent': 'int', 'self.host_key_public_modulus': 'int', 'self.protocol_flags': 'int',
                 'self.supported_ciphers_mask': 'int', 'self.supported_authentications_mask': 'int'}, 'out': []}),
    ('pkm_parse', 'ssh1_publickeymessage.py', 'SSH1_PublicKeyMessage.parse', {'unit': 'Logic6', 'extract': 'proc',
        'select': [('range', ('assign', 'cookie'), ('assign', 'server_key_modulus')), ('range', ('assign', 'host_key_bits'), ('assign', 'host_key_modulus')),
                   ('range', ('assign', 'pflags'), ('assign', 'amask'))],
        'externals': {'buf.read': {'lean': 'read', 'args': [0], 'arg_types': ['int'], 'ret': ['bytes']},
                      'buf.read_int': {'lean': 'read_int', 'args': [], 'arg_types': [], 'ret': ['int']},
                      'buf.read_mpint1': {'lean': 'read_mpint1', 'args': [], 'arg_types': [], 'ret': ['int']}},
        'free': {}, 'out': ['cookie', 'server_key_bits', 'server_key_exponent', 'server_key_modulus', 'host_key_bits', 'host_key_exponent', 'host_key_modulus',
                            'pflags', 'cmask', 'amask']}),
    ('is_print_ascii_char', 'utils.py', 'Utils.is_print_ascii', {'unit': 'Logic2', 'extract': 'lambda', 'params': ['int']}),
    # candidates that are outside the subset (kept in the table so that the reason is reported on every run)
    ('ctoi', 'utils.py', 'Utils.ctoi', {}),
    ('parse_int', 'utils.py', 'Utils.parse_int', {}),
    ('parse_float', 'utils.py', 'Utils.parse_float', {}),
    ('fix_patch', 'software.py', 'Software._fix_patch', {}),
    ('bitlength', 'writebuf.py', 'WriteBuf._bitlength', {}),
]


class Untranslatable(Exception):
    pass


def bad(node, why):
    ln = getattr(node, 'lineno', None)
    raise Untranslatable('%s%s' % (why, ' (line %d)' % ln if ln else ''))


# ---------------------------------------------------------------- types

INT, STR, BOOL, BYTES = ('int',), ('str',), ('bool',), ('bytes',)
NONE = ('none',)


def tlist(t):
    return ('list', t)


def topt(t):
    return ('opt', t)


def ttuple(ts):
    return ('tuple',) + tuple(ts)


STATE = ('state',)
OBJ = ('obj',)


def lean_type(t):
    if t == STATE:
        return 'σ'
    if t[0] == 'opt' and t[1][0] == 'tuple':
        return 'Option (%s)' % lean_type(t[1])
    if t == OBJ:
        return 'Bool'
    if t == ('unit',):
        return 'Unit'
    if t == INT:
        return 'Int'
    if t == STR:
        return 'Str'
    if t == BOOL:
        return 'Bool'
    if t == BYTES:
        return 'Bytes'
    if t[0] == 'list':
        return 'List %s' % lean_atom_type(t[1])
    if t[0] == 'opt':
        return 'Option %s' % lean_atom_type(t[1])
    if t[0] == 'tuple':
        return ' × '.join(lean_atom_type(x) for x in t[1:])
    raise Untranslatable('no Lean type for %r' % (t,))


def lean_atom_type(t):
    s = lean_type(t)
    return '(%s)' % s if ' ' in s else s


def parse_annotation(a):
    if a is None:
        raise Untranslatable('parameter without a type annotation')
    if isinstance(a, ast.Constant) and isinstance(a.value, str):
        a = ast.parse(a.value, mode='eval').body
    if isinstance(a, ast.Name):
        if a.id in ('int', 'str', 'bool', 'bytes'):
            return (a.id,)
        bad(a, 'type %s is outside the subset' % a.id)
    if isinstance(a, ast.Subscript) and isinstance(a.value, ast.Name):
        if a.value.id in ('List', 'list', 'Sequence'):
            inner = parse_annotation(a.slice)
            if inner in (INT, STR):
                return tlist(inner)
            bad(a, 'list element type outside the subset')
        if a.value.id == 'Optional':
            inner = parse_annotation(a.slice)
            if inner[0] == 'opt':
                bad(a, 'nested Optional')
            return topt(inner)
        bad(a, 'type %s[...] is outside the subset' % a.value.id)
    bad(a, 'type annotation outside the subset: %s' % ast.dump(a)[:60])


def type_of_name(s):
    return {'int': INT, 'str': STR, 'bool': BOOL, 'bytes': BYTES, 'List[str]': tlist(STR), 'List[int]': tlist(INT),
            'Optional[str]': topt(STR), 'Optional[int]': topt(INT), 'List[List[Optional[str]]]': tlist(tlist(topt(STR))),
            'List[Optional[str]]': tlist(topt(STR)), 'Optional[List[str]]': topt(tlist(STR))}[s]


# ---------------------------------------------------------------- Lean literals

def lchar(c):
    o = ord(c)
    if c == "'":
        return "'\\''"
    if c == '\\':
        return "'\\\\'"
    if 32 <= o < 127:
        return "'%s'" % c
    return '(Char.ofNat %d)' % o


def lit(v, node=None):
    """(Lean term, type) of a Python literal value"""
    if isinstance(v, bool):
        return ('true' if v else 'false'), BOOL
    if isinstance(v, int):
        return ('(%d : Int)' % v if v >= 0 else '(-%d : Int)' % -v), INT
    if isinstance(v, str):
        for c in v:
            if 0xd800 <= ord(c) <= 0xdfff:
                bad(node, 'surrogate code point in a string literal')
        if len(v) > 80 and all(32 <= ord(c) < 127 for c in v):
            # a long text: as a string literal (a list display of this length is slow to elaborate and hard to state lemmas about)
            return '("%s".toList : Str)' % v.replace('\\', '\\\\').replace('"', '\\"'), STR
        return '([%s] : Str)' % ', '.join(lchar(c) for c in v), STR
    if isinstance(v, bytes):
        return '([%s] : Bytes)' % ', '.join('%d' % b for b in v), BYTES
    if isinstance(v, (list, tuple)):
        if len(v) == 0:
            bad(node, 'empty list literal (element type unknown)')
        items = [lit(x, node) for x in v]
        t = items[0][1]
        if any(i[1] != t for i in items) or t not in (INT, STR, BOOL):
            bad(node, 'list literal with mixed or unsupported element types')
        return '([%s] : List %s)' % (', '.join(i[0] for i in items), lean_atom_type(t)), tlist(t)
    bad(node, 'literal of type %s is outside the subset' % type(v).__name__)


def literal_value(node):
    """Python value of an AST that is a literal of the subset, else raises ValueError"""
    if isinstance(node, ast.Constant) and isinstance(node.value, (bool, int, str, bytes)) and not isinstance(node.value, float):
        return node.value
    if isinstance(node, ast.UnaryOp) and isinstance(node.op, ast.USub) and isinstance(node.operand, ast.Constant) \
            and type(node.operand.value) is int:
        return -node.operand.value
    if isinstance(node, (ast.List, ast.Tuple)):
        return [literal_value(e) for e in node.elts]
    raise ValueError('not a literal')


# ---------------------------------------------------------------- source access

class Source:
    _cache = {}

    @classmethod
    def tree(cls, fname):
        if fname not in cls._cache:
            path = os.path.join(REPO, 'src', 'ssh_audit', fname)
            cls._cache[fname] = ast.parse(open(path, encoding='utf-8').read())
        return cls._cache[fname]


def child_def(node, name):
    """the def / class called `name` directly inside `node` (searching nested blocks of a function, not other defs)"""
    hits = []

    def visit(n, top):
        for ch in ast.iter_child_nodes(n):
            if isinstance(ch, (ast.FunctionDef, ast.ClassDef)):
                if ch.name == name:
                    hits.append(ch)
                continue
            visit(ch, False)
    visit(node, True)
    if len(hits) != 1:
        raise Untranslatable('%d definitions called %s' % (len(hits), name))
    return hits[0]


def find_def(fname, qual):
    node = Source.tree(fname)
    chain = [node]
    for part in qual.split('.'):
        node = child_def(node, part)
        chain.append(node)
    return chain


def constants_of(scope_node):
    """NAME -> literal value for the `NAME = <literal>` / `NAME: T = <literal>` statements directly in a module or class body"""
    out = {}
    seen = {}
    for st in scope_node.body:
        tgt = val = None
        if isinstance(st, ast.Assign) and len(st.targets) == 1 and isinstance(st.targets[0], ast.Name):
            tgt, val = st.targets[0].id, st.value
        elif isinstance(st, ast.AnnAssign) and isinstance(st.target, ast.Name) and st.value is not None:
            tgt, val = st.target.id, st.value
        if tgt is None:
            continue
        seen[tgt] = seen.get(tgt, 0) + 1
        try:
            out[tgt] = literal_value(val)
        except ValueError:
            out.pop(tgt, None)
    return {k: v for k, v in out.items() if seen[k] == 1}     # a name bound twice is not a constant


def imports_of(module_tree):
    """local name -> ('class' | 'module', file, name) for `from ssh_audit.x import Y` and `from ssh_audit import x`"""
    out = {}
    for st in module_tree.body:
        if isinstance(st, ast.ImportFrom) and st.level == 0 and st.module:
            for al in st.names:
                local = al.asname or al.name
                if st.module == 'ssh_audit':
                    out[local] = ('module', al.name + '.py', None)
                elif st.module.startswith('ssh_audit.'):
                    out[local] = ('class', st.module.split('.', 1)[1] + '.py', al.name)
    return out


# ---------------------------------------------------------------- the translator of one function

KEYWORDS = {'at', 'by', 'do', 'end', 'from', 'fun', 'have', 'if', 'in', 'let', 'match', 'open', 'show', 'then', 'else', 'with', 'where',
            'def', 'theorem', 'instance', 'class', 'structure', 'namespace', 'section', 'variable', 'example', 'import', 'export',
            'return', 'for', 'unless', 'mut', 'try', 'catch', 'finally', 'nomatch', 'suffices', 'calc', 'using', 'deriving', 'local',
            'some', 'none', 'true', 'false', 'Type', 'Prop', 'Sort', 'universe', 'macro', 'syntax', 'notation', 'infix', 'prefix',
            'postfix', 'private', 'protected', 'partial', 'noncomputable', 'abbrev', 'inductive', 'mutual', 'extends', 'set_option'}


class Fn:
    """state of the translation of one function"""

    def __init__(self, fname, chain, opts, known):
        self.fname = fname
        self.chain = chain                     # [module, (class | function)..., the function]
        self.opts = opts
        self.known = known                     # name -> (lean type) of functions translated earlier (for opts['attrs'])
        self.module_consts = constants_of(chain[0])
        self.imports = imports_of(chain[0])
        self.classes = [n for n in chain[1:-1] if isinstance(n, ast.ClassDef)]
        self.counter = {}
        self.tmp = 0
        self.prelude = []                      # (lean name, lean term) evaluated before the body (references to other generated defs)

    # -- names
    def fresh(self, pyname):
        base = pyname.replace('.', '_')
        if base == '_':
            base = 'u'
        base = base.lstrip('_') or 'u'
        if base.endswith('_'):
            base += 'x'
        if base in KEYWORDS or not (base[0].isalpha() and all(c.isalnum() or c == '_' for c in base) and base.isascii()):
            base = 'v_' + ''.join(c if (c.isalnum() and c.isascii()) else '_' for c in base)
        k = self.counter.get(base, 0)
        self.counter[base] = k + 1
        return base if k == 0 else '%s_%d' % (base, k)

    def temp(self):
        self.tmp += 1
        return 't%d_' % self.tmp

    # -- constants
    def class_const(self, fname, cname, attr, node):
        tree = Source.tree(fname)
        try:
            cls = child_def(tree, cname)
        except Untranslatable:
            bad(node, 'class %s not found in %s' % (cname, fname))
        consts = constants_of(cls)
        if attr not in consts:
            bad(node, '%s.%s is not a literal class-level constant' % (cname, attr))
        return lit(consts[attr], node)


# IR of a block (continuation-passing; every leaf is a 'ret'):
#   ('ret', term, type)
#   ('let', name, term, body)                       pure binding
#   ('bind', name, optterm, body)                   partial operation: none = raises
#   ('if', cond, then, else)
#   ('matchopt', scrutinee, newname, some_tree, none_tree)
#   ('sub', names, types, subtree, body)            subtree's leaves return the tuple of `names`; body continues
#   ('loop', names, types, lamvar, lamtype, bodytree, inits, listterm, body)


def is_partial(t):
    k = t[0]
    if k == 'ret':
        return False
    if k == 'let':
        return is_partial(t[3])
    if k == 'bind':
        return True
    if k == 'if':
        return is_partial(t[2]) or is_partial(t[3])
    if k == 'matchopt':
        return is_partial(t[3]) or is_partial(t[4])
    if k == 'sub':
        return is_partial(t[3]) or is_partial(t[4])
    if k == 'loop':
        return is_partial(t[5]) or is_partial(t[8])
    raise AssertionError(k)


def leaves(t, acc):
    k = t[0]
    if k == 'ret':
        acc.append(t)
    elif k in ('let', 'bind'):
        leaves(t[3], acc)
    elif k == 'if':
        leaves(t[2], acc)
        leaves(t[3], acc)
    elif k == 'matchopt':
        leaves(t[3], acc)
        leaves(t[4], acc)
    elif k == 'sub':
        leaves(t[4], acc)
    elif k == 'loop':
        leaves(t[8], acc)
    return acc


def tuple_term(names):
    return names[0] if len(names) == 1 else '(' + ', '.join(names) + ')'


def proj(tmp, i, n):
    """i-th component of an n-tuple (right-nested pairs)"""
    if n == 1:
        return tmp
    s = tmp
    for _ in range(i):
        s += '.2'
    return s + '.1' if i < n - 1 else s


def render(t, monadic, ind, retconv=None):
    """Lean term of an IR tree.  monadic: the value is Option-valued (leaves are `some …`)."""
    pad = '  ' * ind
    k = t[0]
    if k == 'ret':
        term = retconv(t) if retconv else t[1]
        return pad + ('some (%s)' % term if monadic else term)
    if k == 'let':
        return '%slet %s := %s\n%s' % (pad, t[1], t[2], render(t[3], monadic, ind, retconv))
    if k == 'bind':
        assert monadic
        return '%sOption.bind (%s) fun %s =>\n%s' % (pad, t[2], t[1], render(t[3], monadic, ind, retconv))
    if k == 'if':
        return '%sif %s then\n%s\n%selse\n%s' % (pad, t[1], render(t[2], monadic, ind + 1, retconv), pad, render(t[3], monadic, ind + 1, retconv))
    if k == 'matchopt':
        return '%s(match %s with\n%s| some %s =>\n%s\n%s| none =>\n%s)' % (
            pad, t[1], pad, t[2], render(t[3], monadic, ind + 1, retconv), pad, render(t[4], monadic, ind + 1, retconv))
    if k == 'sub':
        names, types, sub, body = t[1], t[2], t[3], t[4]
        tmp = names[0] if len(names) == 1 else 'p_' + '_'.join(names)
        subp = is_partial(sub)
        s = render(sub, subp, ind + 2)
        if subp:
            assert monadic
            out = '%sOption.bind (\n%s) fun %s =>\n' % (pad, s, tmp)
        else:
            out = '%slet %s : %s :=\n%s\n' % (pad, tmp, lean_type(ttuple(types)) if len(types) > 1 else lean_type(types[0]), s)
        if len(names) > 1:
            for i, nm in enumerate(names):
                out += '%slet %s := %s\n' % (pad, nm, proj(tmp, i, len(names)))
        return out + render(body, monadic, ind, retconv)
    if k == 'loop':
        names, types, lamvar, lamtype, bodytree, inits, listterm, body = t[1:]
        accT = lean_type(ttuple(types)) if len(types) > 1 else lean_type(types[0])
        tmp = names[0] if len(names) == 1 else 'p_' + '_'.join(names)
        bp = is_partial(bodytree)
        lam = 'fun (acc_ : %s) (%s : %s) =>\n%s' % (accT, lamvar, lean_type(lamtype), render(bodytree, bp, ind + 2))
        init = tuple_term(inits)
        if bp:
            assert monadic
            out = '%sOption.bind (Py.foldlOpt (%s)\n%s  (%s) (%s)) fun %s =>\n' % (pad, lam, pad, init, listterm, tmp)
        else:
            out = '%slet %s : %s := List.foldl (%s)\n%s  (%s) (%s)\n' % (pad, tmp, accT, lam, pad, init, listterm)
        if len(names) > 1:
            for i, nm in enumerate(names):
                out += '%slet %s := %s\n' % (pad, nm, proj(tmp, i, len(names)))
        return out + render(body, monadic, ind, retconv)
    raise AssertionError(k)


def dotted(node):
    """'a.b.c' for a Name / Attribute chain, else None"""
    parts = []
    while isinstance(node, ast.Attribute):
        parts.append(node.attr)
        node = node.value
    if isinstance(node, ast.Name):
        parts.append(node.id)
        return '.'.join(reversed(parts))
    return None


def coerce(term, frm, to):
    """term of type `frm` where `to` is expected (a str where an Optional[str] is, element-wise in lists), or None"""
    if frm == to:
        return term
    if to[0] == 'opt' and frm == to[1]:
        return '(some %s)' % term
    if to[0] == 'opt' and frm == NONE:
        return 'none'
    if to[0] == 'list' and frm[0] == 'list':
        inner = coerce('x_', frm[1], to[1])
        if inner is not None:
            return '(%s.map fun x_ => %s)' % (term, inner)
    return None


class Tr:
    def __init__(self, fn):
        self.fn = fn
        self.break_stack = []

    def externals(self):
        return self.fn.opts.get('externals', {})

    def is_ignored_call(self, node):
        return isinstance(node, ast.Call) and dotted(node.func) in self.fn.opts.get('ignore_calls', ())

    def has_jump(self, stmts):
        """a return, or a break that leaves these statements (not one of a loop nested inside them)"""
        def visit(n, depth):
            if isinstance(n, ast.Return):
                return True
            if isinstance(n, (ast.Break, ast.Continue)) and depth == 0:
                return True
            d = depth + 1 if isinstance(n, (ast.For, ast.While)) else depth
            return any(visit(c, d) for c in ast.iter_child_nodes(n))
        return any(visit(s_, 0) for s_ in stmts)

    # ------------------------------------------------------------ expressions
    # expr(node, env, binds) -> (lean term, type).  binds: list collecting (name, option term) of partial operations in evaluation
    # order, or None where a partial operation is not allowed (under a short-circuit).

    def partial(self, node, binds, optterm):
        if binds is None:
            bad(node, 'an operation that can raise under and / or / a conditional expression')
        nm = self.fn.temp()
        binds.append((nm, optterm))
        return nm

    def expr(self, node, env, binds):
        fn = self.fn
        if isinstance(node, ast.Constant):
            if node.value is None:
                return 'none', NONE
            if isinstance(node.value, float) or not isinstance(node.value, (bool, int, str, bytes)):
                bad(node, 'literal of type %s' % type(node.value).__name__)
            return lit(node.value, node)
        if isinstance(node, (ast.List, ast.Tuple)) and isinstance(node.ctx, ast.Load):
            try:
                return lit(literal_value(node), node)
            except ValueError:
                pass
            items = [self.expr(e, env, binds) for e in node.elts]
            if isinstance(node, ast.Tuple):
                if len(items) < 2:
                    bad(node, 'tuple of fewer than two values')
                return '(' + ', '.join(i[0] for i in items) + ')', ttuple([i[1] for i in items])
            if not items or any(i[1] != items[0][1] for i in items) or items[0][1] not in (INT, STR):
                bad(node, 'list display with mixed or unsupported element types')
            return '[' + ', '.join(i[0] for i in items) + ']', tlist(items[0][1])
        if isinstance(node, ast.Name):
            if node.id in env:
                return env[node.id]
            if node.id in fn.module_consts:
                return lit(fn.module_consts[node.id], node)
            bad(node, 'unknown name %s (not a local, not a literal module-level constant)' % node.id)
        if isinstance(node, ast.Attribute):
            return self.attribute(node, env)
        if isinstance(node, ast.BoolOp):
            if isinstance(node.op, ast.And):
                return self.and_chain(list(node.values), env, binds), BOOL
            parts = []
            for i, v in enumerate(node.values):
                c, t = self.expr(v, env, binds if i == 0 else None)
                if t != BOOL:
                    bad(v, 'operand of and / or that is not a bool')
                parts.append(c)
            return '(' + ' || '.join(parts) + ')', BOOL
        if isinstance(node, ast.UnaryOp):
            c, t = self.expr(node.operand, env, binds)
            if isinstance(node.op, ast.Not):
                if t != BOOL:
                    bad(node, '`not` of a value that is not a bool')
                return '(!%s)' % c, BOOL
            if t != INT:
                bad(node, 'unary operator on a value that is not an int')
            if isinstance(node.op, ast.USub):
                return '(-%s)' % c, INT
            if isinstance(node.op, ast.UAdd):
                return c, INT
            if isinstance(node.op, ast.Invert):
                return '(-%s - 1)' % c, INT
            bad(node, 'unary operator')
        if isinstance(node, ast.Compare):
            return self.compare(node, env, binds)
        if isinstance(node, ast.BinOp):
            return self.binop(node, env, binds)
        if isinstance(node, ast.IfExp):
            c, tc = self.expr(node.test, env, binds)
            if tc != BOOL:
                bad(node, 'condition that is not a bool')
            a, ta = self.expr(node.body, env, None)
            b, tb = self.expr(node.orelse, env, None)
            if ta != tb:
                bad(node, 'conditional expression with branches of different types')
            return '(if %s then %s else %s)' % (c, a, b), ta
        if isinstance(node, ast.ListComp):
            # [elt for x in xs if cond ...]: one generator over a list, pure element and conditions
            if len(node.generators) != 1 or node.generators[0].is_async or not isinstance(node.generators[0].target, ast.Name):
                bad(node, 'list comprehension with more than one generator or a structured target')
            g = node.generators[0]
            xs, tx = self.expr(g.iter, env, binds)
            if tx[0] != 'list':
                bad(node, 'comprehension over something that is not a list')
            v = self.fn.fresh(g.target.id)
            env2 = dict(env)
            env2[g.target.id] = (v, tx[1])
            term = xs
            for c_ in g.ifs:
                cc, tc = self.expr(c_, env2, None)
                if tc != BOOL:
                    bad(node, 'comprehension condition that is not a bool')
                term = '(%s.filter fun %s => %s)' % (term, v, cc)
            e_, te = self.expr(node.elt, env2, None)
            if not (isinstance(node.elt, ast.Name) and node.elt.id == g.target.id):
                term = '(%s.map fun %s => %s)' % (term, v, e_)
            return term, tlist(te)
        if isinstance(node, ast.Call):
            return self.call(node, env, binds)
        if isinstance(node, ast.Subscript):
            return self.subscript(node, env, binds)
        bad(node, 'expression %s is outside the subset' % type(node).__name__)

    def and_chain(self, values, env, binds):
        """`a and b and ...`; a conjunct `X is not None` narrows X (an Optional local / attribute, or a declared object) for the conjuncts after it"""
        v, rest = values[0], values[1:]
        if isinstance(v, ast.BoolOp) and isinstance(v.op, ast.And):
            return self.and_chain(list(v.values) + rest, env, binds)
        if rest and isinstance(v, ast.Compare) and len(v.ops) == 1 and isinstance(v.ops[0], ast.IsNot) \
                and isinstance(v.comparators[0], ast.Constant) and v.comparators[0].value is None:
            key = dotted(v.left)
            if key is not None and key in env and env[key][1] == OBJ:
                env2 = dict(env)
                env2[key + '!'] = ('true', BOOL)
                return '(%s && %s)' % (env[key][0], self.and_chain(rest, env2, None))
            if key is not None and ('.' in key):
                base = key.rsplit('.', 1)[0]
                if key in env and env[key][1][0] == 'opt' and (base + '!') in env:
                    nm = self.fn.fresh(key)
                    env2 = dict(env)
                    env2[key] = (nm, env[key][1][1])
                    return '(match %s with | some %s => %s | none => false)' % (env[key][0], nm, self.and_chain(rest, env2, None))
            if key is not None and key in env and env[key][1][0] == 'opt' and ('.' not in key or key.startswith('self.')):
                nm = self.fn.fresh(key)
                env2 = dict(env)
                env2[key] = (nm, env[key][1][1])
                return '(match %s with | some %s => %s | none => false)' % (env[key][0], nm, self.and_chain(rest, env2, None))
        c, t = self.expr(v, env, binds)
        if t != BOOL:
            bad(v, 'operand of and that is not a bool')
        if not rest:
            return c
        return '(%s && %s)' % (c, self.and_chain(rest, env, None))

    def attribute(self, node, env):
        fn = self.fn
        key = dotted(node)
        if key == 'sys.maxsize' and 'sys' not in env:
            return '(9223372036854775807 : Int)', INT      # CPython on a 64-bit platform
        if key is not None and key in env and '.' in key and not key.startswith('self.'):
            base = key.rsplit('.', 1)[0]
            if (base + '!') not in env:
                bad(node, 'attribute %s read where %s may be None' % (key, base))
            return env[key]
        if key is not None and key.startswith('self.') and key in env:
            return env[key]
        if not isinstance(node.value, ast.Name):
            bad(node, 'attribute of an expression')
        base, attr = node.value.id, node.attr
        if base in ('self', 'cls') and base not in env:
            key = 'self.' + attr
            if key in env:
                return env[key]
            for cls in reversed(fn.classes):
                consts = constants_of(cls)
                if attr in consts:
                    return lit(consts[attr], node)
            bad(node, '%s.%s is neither a declared attribute nor a literal class-level constant' % (base, attr))
        if base in env:
            bad(node, 'attribute of a local')
        for cls in fn.classes:
            if cls.name == base:
                consts = constants_of(cls)
                if attr in consts:
                    return lit(consts[attr], node)
                bad(node, '%s.%s is not a literal class-level constant' % (base, attr))
        if base in fn.imports:
            kind, fname, cname = fn.imports[base]
            if kind == 'class':
                return fn.class_const(fname, cname, attr, node)
            try:
                consts = constants_of(Source.tree(fname))
            except OSError:
                bad(node, 'module %s not found' % fname)
            if attr in consts:
                return lit(consts[attr], node)
            bad(node, '%s.%s is not a literal module-level constant' % (base, attr))
        bad(node, 'attribute %s.%s' % (base, attr))

    def compare(self, node, env, binds):
        operands = [node.left] + list(node.comparators)
        vals = []
        for i, o in enumerate(operands):
            # in a chain the operands after the second are evaluated only if the earlier comparisons hold
            vals.append((o,) + self.expr(o, env, binds if i < 2 else None))
        parts = []
        for i, op in enumerate(node.ops):
            (na, a, ta), (nb, b, tb) = vals[i], vals[i + 1]
            if isinstance(op, (ast.Is, ast.IsNot)):
                pos = isinstance(op, ast.Is)
                if tb == NONE and ta[0] == 'opt':
                    parts.append('%s.%s' % (a, 'isNone' if pos else 'isSome'))
                elif tb == BOOL and ta == BOOL and isinstance(nb, ast.Constant):
                    parts.append('(%s %s %s)' % (a, '==' if pos else '!=', b))
                else:
                    bad(node, '`is` other than with None on an Optional or with True / False on a bool')
            elif isinstance(op, (ast.Eq, ast.NotEq)):
                if ta != tb or ta == NONE or ta[0] in ('opt', 'tuple'):
                    bad(node, '== / != between values of different or unsupported types')
                parts.append('(%s %s %s)' % (a, '==' if isinstance(op, ast.Eq) else '!=', b))
            elif isinstance(op, (ast.Lt, ast.LtE, ast.Gt, ast.GtE)) and ta == STR and tb == STR:
                parts.append({ast.Lt: '(Text.ltStr %s %s)', ast.Gt: '(Text.ltStr %s %s)', ast.LtE: '(!(Text.ltStr %s %s))', ast.GtE: '(!(Text.ltStr %s %s))'}[type(op)]
                             % ((a, b) if isinstance(op, (ast.Lt, ast.GtE)) else (b, a)))
            elif isinstance(op, (ast.Lt, ast.LtE, ast.Gt, ast.GtE)):
                if ta != INT or tb != INT:
                    bad(node, 'ordering comparison of values that are not ints')
                sym = {ast.Lt: '<', ast.LtE: '≤', ast.Gt: '>', ast.GtE: '≥'}[type(op)]
                parts.append('decide (%s %s %s)' % (a, sym, b))
            elif isinstance(op, (ast.In, ast.NotIn)):
                if tb[0] != 'list' or coerce(a, ta, tb[1]) is None:
                    bad(node, '`in` whose right-hand side is not a list of the left-hand type')
                if not isinstance(nb, (ast.List, ast.Tuple, ast.Attribute, ast.Name, ast.Subscript)):
                    bad(node, '`in` a computed container')
                c = '(%s).contains %s' % (b, coerce(a, ta, tb[1]))
                parts.append('(%s)' % c if isinstance(op, ast.In) else '(!(%s))' % c)
            else:
                bad(node, 'comparison operator')
        return (parts[0] if len(parts) == 1 else '(' + ' && '.join(parts) + ')'), BOOL

    def binop(self, node, env, binds):
        op = node.op
        # `[v] * n`
        if isinstance(op, ast.Mult) and isinstance(node.left, ast.List) and len(node.left.elts) == 1:
            v, tv = self.expr(node.left.elts[0], env, binds)
            n, tn = self.expr(node.right, env, binds)
            if tn != INT or tv not in (INT, STR):
                bad(node, 'list repetition outside the subset')
            return '(Py.replicate %s %s)' % (n, v), tlist(tv)
        if isinstance(op, ast.Mod) and isinstance(node.left, ast.Constant) and isinstance(node.left.value, str):
            return self.percent_format(node, env, binds)
        if isinstance(op, ast.Mod) and isinstance(node.left, (ast.Name, ast.Attribute)) and isinstance(self.const_value(node.left, env), str):
            return self.percent_format(node, env, binds, self.const_value(node.left, env))
        a, ta = self.expr(node.left, env, binds)
        b, tb = self.expr(node.right, env, binds)
        if isinstance(op, ast.Mult) and ta == BYTES and tb == INT:
            return '(Py.repeatB %s %s)' % (a, b), BYTES
        if isinstance(op, ast.Add) and ta == tb and (ta in (STR, BYTES) or ta[0] == 'list'):
            return '(%s ++ %s)' % (a, b), ta
        if ta != INT or tb != INT:
            bad(node, 'binary operator on operands that are not both ints (%s, %s)' % (ta[0], tb[0]))
        try:
            rlit = literal_value(node.right)
            rlit = rlit if type(rlit) is int else None
        except ValueError:
            rlit = None
        if isinstance(op, ast.Add):
            return '(%s + %s)' % (a, b), INT
        if isinstance(op, ast.Sub):
            return '(%s - %s)' % (a, b), INT
        if isinstance(op, ast.Mult):
            return '(%s * %s)' % (a, b), INT
        if isinstance(op, (ast.FloorDiv, ast.Mod)):
            div = isinstance(op, ast.FloorDiv)
            if rlit is not None and rlit > 0:
                # Int `/` and `%` round toward minus infinity for a positive divisor, as Python does
                return '(%s %s %s)' % (a, '/' if div else '%', b), INT
            if rlit is not None and rlit < 0:
                return '(%s %s %s)' % ('Int.fdiv' if div else 'Int.fmod', a, b), INT
            return self.partial(node, binds, '%s %s %s' % ('Py.floordiv' if div else 'Py.mod', a, b)), INT
        if isinstance(op, (ast.LShift, ast.RShift)):
            left = isinstance(op, ast.LShift)
            if rlit is not None and rlit >= 0:
                return '(%s %s (%d : Nat))' % (a, '<<<' if left else '>>>', rlit), INT
            return self.partial(node, binds, '%s %s %s' % ('Py.shl' if left else 'Py.shr', a, b)), INT
        if isinstance(op, ast.BitAnd):
            return '(Py.band %s %s)' % (a, b), INT
        if isinstance(op, ast.BitOr):
            return '(Py.bor %s %s)' % (a, b), INT
        if isinstance(op, ast.BitXor):
            return '(Py.bxor %s %s)' % (a, b), INT
        bad(node, 'binary operator %s' % type(op).__name__)

    def const_value(self, node, env):
        """the Python value of a literal, or of a class- / module-level constant named by `node` (None when it is neither)"""
        try:
            return literal_value(node)
        except ValueError:
            pass
        fn = self.fn
        if isinstance(node, ast.Name) and node.id not in env and node.id in fn.module_consts:
            return fn.module_consts[node.id]
        if isinstance(node, ast.Attribute) and isinstance(node.value, ast.Name) and node.value.id not in env:
            base, attr = node.value.id, node.attr
            for cls in fn.classes:
                if cls.name == base or base in ('self', 'cls'):
                    v = constants_of(cls).get(attr)
                    if v is not None:
                        return v
            if base in fn.imports:
                kind, fname, cname = fn.imports[base]
                try:
                    tree = Source.tree(fname)
                    scope = child_def(tree, cname) if kind == 'class' else tree
                    return constants_of(scope).get(attr)
                except (Untranslatable, OSError):
                    return None
        return None

    def percent_format(self, node, env, binds, tmpl=None):
        tmpl = node.left.value if tmpl is None else tmpl
        argn = list(node.right.elts) if isinstance(node.right, ast.Tuple) else [node.right]
        args = [self.expr(a, env, binds) for a in argn]
        out, i, n, lit_run = [], 0, 0, ''
        while i < len(tmpl):
            ch = tmpl[i]
            if ch != '%':
                lit_run += ch
                i += 1
                continue
            if i + 1 >= len(tmpl):
                bad(node, 'format template ending in %')
            spec = tmpl[i + 1]
            i += 2
            if spec == '%':
                lit_run += '%'
                continue
            if spec not in 'dus':
                bad(node, 'format specification %%%s is outside the subset (only %%d %%u %%s %%%%)' % spec)
            if n >= len(args):
                bad(node, 'more format fields than arguments')
            c, t = args[n]
            n += 1
            if lit_run:
                out.append(lit(lit_run, node)[0])
                lit_run = ''
            if spec in 'du':
                if t != INT:
                    bad(node, '%%%s of a value that is not an int' % spec)
                out.append('(Py.fmtD %s)' % c)
            else:
                if t != STR:
                    bad(node, '%s of a value that is not a str')
                out.append(c)
        if n != len(args):
            bad(node, 'more arguments than format fields')
        if lit_run:
            out.append(lit(lit_run, node)[0])
        return ('(' + ' ++ '.join(out) + ')' if out else '([] : Str)'), STR

    def call(self, node, env, binds):
        kc = self.fn.opts.get('calls', {})
        if dotted(node.func) in kc:
            ref = kc[dotted(node.func)]
            if ref not in self.fn.known or node.keywords:
                bad(node, 'call of %s, which is not translated' % dotted(node.func))
            rt, rpartial = self.fn.known[ref]
            args = [self.expr(a, env, binds)[0] for a in node.args]
            term = '%s%s' % (ref, ''.join(' ' + a for a in args))
            if rpartial:
                return self.partial(node, binds, term), rt
            return '(%s)' % term, rt
        pc = self.fn.opts.get('pure_calls', {})
        if dotted(node.func) in pc and ('$call:' + dotted(node.func)) in env:
            # a helper the table declares pure (it only reads objects this procedure does not change): its value is a parameter
            if node.keywords or not all(isinstance(a, ast.Name) and a.id in self.fn.opts.get('passed_through', ()) for a in node.args):
                bad(node, 'a declared pure helper called with anything but the objects the table lets pass through')
            return env['$call:' + dotted(node.func)]
        if node.keywords:
            bad(node, 'keyword arguments')
        f = node.func
        if dotted(f) == 'struct.pack' and 'struct' not in env and len(node.args) == 2 and isinstance(node.args[1], ast.Starred):
            # struct.pack(fmt, *xs): `none` (struct.error) unless fmt is '>kQ' for the k = len(xs) values, each in 0 .. 2^64-1
            fm, tf = self.expr(node.args[0], env, binds)
            xs, tx = self.expr(node.args[1].value, env, binds)
            if tf != STR or tx != tlist(INT):
                bad(node, 'struct.pack(fmt, *xs) of something other than (str format, list of ints)')
            return self.partial(node, binds, 'Py.packQ %s %s' % (fm, xs)), BYTES
        if isinstance(f, ast.Name) and f.id not in env:
            args = [self.expr(a, env, binds) for a in node.args]
            if f.id == 'bytes' and len(args) == 1 and args[0][1] == BYTES:
                return args[0]
            if f.id == 'len' and len(args) == 1 and (args[0][1] in (STR, BYTES) or args[0][1][0] == 'list'):
                return '(Int.ofNat (%s).length)' % args[0][0], INT
            if f.id == 'ord' and len(args) == 1 and args[0][1] in (STR, BYTES):
                return self.partial(node, binds, '%s %s' % ('Py.ordS' if args[0][1] == STR else 'Py.ordB', args[0][0])), INT
            if f.id == 'bool' and len(args) == 1 and args[0][1] == BOOL:
                return args[0][0], BOOL
            if f.id in ('min', 'max') and len(args) == 2 and args[0][1] == INT and args[1][1] == INT:
                return '(%s %s %s)' % (f.id, args[0][0], args[1][0]), INT
            if f.id == 'int':
                bad(node, 'int(): parsing as CPython does (Unicode digits, white space, sign, underscores) is not modelled')
            bad(node, 'call of %s' % f.id)
        if isinstance(f, ast.Attribute):
            meth = f.attr
            if meth == 'format' and isinstance(f.value, ast.Constant) and isinstance(f.value.value, str):
                tmpl = f.value.value
                pieces = tmpl.split('{}')
                if '{' in ''.join(pieces) or '}' in ''.join(pieces):
                    bad(node, 'format template with anything but plain {} fields')
                args = [self.expr(a, env, binds) for a in node.args]
                if len(args) != len(pieces) - 1 or any(t not in (STR, INT) for _, t in args):
                    bad(node, 'format arguments that are not exactly one str / int per {} field')
                out = []
                for i, p in enumerate(pieces):
                    if p:
                        out.append(lit(p, node)[0])
                    if i < len(args):
                        out.append(args[i][0] if args[i][1] == STR else '(Py.fmtD %s)' % args[i][0])
                return ('(' + ' ++ '.join(out) + ')' if out else '([] : Str)'), STR
            recv, tr_ = self.expr(f.value, env, binds)
            args = [self.expr(a, env, binds) for a in node.args]
            if meth in ('startswith', 'endswith') and tr_ in (STR,) and len(args) == 1 and args[0][1] == STR:
                return '(Text.%s %s %s)' % ('startsWith' if meth == 'startswith' else 'endsWith', recv, args[0][0]), BOOL
            if meth == 'startswith' and tr_ == BYTES and len(args) == 1 and args[0][1] == BYTES:
                return '(Py.startsWithB %s %s)' % (recv, args[0][0]), BOOL
            if meth == 'lstrip' and tr_ == BYTES and len(args) == 1 and args[0][1] == BYTES:
                return '(Py.lstripB %s %s)' % (recv, args[0][0]), BYTES
            if meth == 'join' and tr_ == STR and len(args) == 1 and args[0][1] == tlist(STR):
                return '(Text.join %s %s)' % (recv, args[0][0]), STR
            if meth == 'find' and tr_ == STR and len(args) == 1 and args[0][1] == STR:
                return '(Py.find %s %s)' % (recv, args[0][0]), INT
            if meth == 'index' and tr_[0] == 'list' and len(args) == 1 and args[0][1] == tr_[1]:
                return self.partial(node, binds, 'Py.indexOf %s %s' % (recv, args[0][0])), INT
            bad(node, 'method call .%s(...) is outside the subset' % meth)
        bad(node, 'call')

    def subscript(self, node, env, binds):
        v = node.value
        if isinstance(v, ast.Call) and dotted(v.func) == 'struct.unpack' and 'struct' not in env and len(v.args) == 2 and not v.keywords \
                and isinstance(node.slice, ast.Constant) and node.slice.value == 0:
            f, tf = self.expr(v.args[0], env, binds)
            d, td = self.expr(v.args[1], env, binds)
            if tf != STR or td != BYTES:
                bad(node, 'struct.unpack of something other than (str format, bytes)')
            return self.partial(node, binds, 'Py.unpack1 %s %s' % (f, d)), INT
        xs, tx = self.expr(node.value, env, binds)
        if not (tx in (STR, BYTES) or tx[0] == 'list'):
            bad(node, 'subscript of a value that is not a str / bytes / list')
        sl = node.slice
        if isinstance(sl, ast.Slice):
            if sl.step is not None:
                bad(node, 'slice with a step')
            lo = self.expr(sl.lower, env, binds) if sl.lower is not None else None
            hi = self.expr(sl.upper, env, binds) if sl.upper is not None else None
            for b_ in (lo, hi):
                if b_ is not None and b_[1] != INT:
                    bad(node, 'slice bound that is not an int')
            if lo is None and hi is None:
                return xs, tx
            if hi is None:
                return '(Py.sliceFrom %s %s)' % (xs, lo[0]), tx
            if lo is None:
                return '(Py.sliceTo %s %s)' % (xs, hi[0]), tx
            return '(Py.slice %s %s %s)' % (xs, lo[0], hi[0]), tx
        i, ti = self.expr(sl, env, binds)
        if ti != INT:
            bad(node, 'index that is not an int')
        got = self.partial(node, binds, 'Py.getItem %s %s' % (xs, i))
        if tx == STR:
            return '[%s]' % got, STR
        if tx == BYTES:
            return '(Int.ofNat (%s).toNat)' % got, INT
        return got, tx[1]

    # ------------------------------------------------------------ statements

    @staticmethod
    def wrap(binds, tree):
        for nm, term in reversed(binds):
            tree = ('bind', nm, term, tree)
        return tree

    @staticmethod
    def contains_return(stmts):
        for s in stmts:
            for n in ast.walk(s):
                if isinstance(n, ast.Return):
                    return True
        return False

    def assigned(self, stmts):
        """names (and self.attr keys) assigned anywhere in the statements, in first-assignment order"""
        out = []

        def add(t):
            if isinstance(t, ast.Name):
                if t.id not in out:
                    out.append(t.id)
            elif isinstance(t, ast.Attribute) and isinstance(t.value, ast.Name) and t.value.id == 'self':
                if 'self.' + t.attr not in out:
                    out.append('self.' + t.attr)
            elif isinstance(t, ast.Tuple):
                for e in t.elts:
                    add(e)
            elif isinstance(t, ast.Subscript):
                add(t.value)
        for s in stmts:
            for n in ast.walk(s):
                if isinstance(n, ast.Assign):
                    for t in n.targets:
                        add(t)
                elif isinstance(n, (ast.AugAssign, ast.AnnAssign)):
                    add(n.target)
                elif isinstance(n, ast.For):
                    add(n.target)
                elif isinstance(n, ast.Expr) and isinstance(n.value, ast.Call) and isinstance(n.value.func, ast.Attribute) \
                        and n.value.func.attr in ('append', 'extend', 'insert'):
                    tgt = n.value.func.value
                    if isinstance(tgt, ast.Subscript):
                        tgt = tgt.value
                    if isinstance(tgt, ast.Name):
                        add(tgt)
                elif isinstance(n, ast.Delete):
                    for t in n.targets:
                        if isinstance(t, ast.Subscript):
                            add(t.value)
                if isinstance(n, ast.Call) and dotted(n.func) in self.externals() and '$st' not in out:
                    out.append('$st')
        return out

    def definitely_assigned(self, stmts):
        """names bound on every path through the statements (an `if` binds what both of its branches bind)"""
        out = set()
        for st in stmts:
            if isinstance(st, ast.If):
                out |= self.definitely_assigned(st.body) & self.definitely_assigned(st.orelse)
            elif isinstance(st, (ast.For, ast.While)):
                continue
            else:
                out |= set(self.assigned([st]))
        return out

    def target_key(self, t):
        if isinstance(t, ast.Name):
            return t.id
        if isinstance(t, ast.Attribute) and isinstance(t.value, ast.Name) and t.value.id == 'self' and ('self.' + t.attr) in self.fn.opts.get('_selfattrs', ()):
            return 'self.' + t.attr
        bad(t, 'assignment target outside the subset')

    def bind_var(self, key, term, typ, env, rest_tree_fn):
        """let <fresh> := term; continue with env[key] = (fresh, typ)"""
        if typ == NONE:
            raise Untranslatable('a local bound to None only (type unknown)')
        nm = self.fn.fresh(key)
        env2 = dict(env)
        env2[key] = (nm, typ)
        return ('let', nm, term, rest_tree_fn(env2))

    def block(self, stmts, env, k):
        if not stmts:
            return k(env)
        s, rest = stmts[0], stmts[1:]
        if isinstance(s, ast.Expr) and isinstance(s.value, ast.Constant) and isinstance(s.value.value, str):
            return self.block(rest, env, k)
        if isinstance(s, ast.Pass):
            return self.block(rest, env, k)
        if isinstance(s, ast.Break):
            if not self.break_stack:
                bad(s, 'break outside a translated loop / selected block')
            return self.break_stack[-1](env)
        if isinstance(s, ast.Expr) and self.is_ignored_call(s.value):
            # the debug channel: skipped, provided evaluating its arguments cannot do anything but format values
            for a in list(s.value.args) + [kw.value for kw in s.value.keywords]:
                for n in ast.walk(a):
                    if isinstance(n, ast.Call) and not (isinstance(n.func, ast.Name) and n.func.id in ('str', 'len', 'repr', 'bool')):
                        bad(s, 'a call inside the arguments of a skipped debug statement')
            return self.block(rest, env, k)
        if isinstance(s, ast.Expr) and isinstance(s.value, ast.Call) and dotted(s.value.func) in self.externals():
            return self.external_call(s.value, [], s, rest, env, k)
        if isinstance(s, ast.Assign) and len(s.targets) == 1 and isinstance(s.value, ast.Call) and dotted(s.value.func) in self.externals():
            tgt = s.targets[0]
            tgts = list(tgt.elts) if isinstance(tgt, ast.Tuple) else [tgt]
            if not all(isinstance(t, ast.Name) for t in tgts):
                bad(s, 'result of an external call bound to something other than plain names')
            return self.external_call(s.value, [t.id for t in tgts], s, rest, env, k)
        if isinstance(s, ast.Assign) and len(s.targets) == 1 and isinstance(s.targets[0], ast.Name) and s.targets[0].id in self.fn.opts.get('opaque', ()):
            return self.block(rest, env, k)      # an object the model does not look into (only ever handed to external calls)
        if isinstance(s, ast.Delete):
            if len(s.targets) != 1 or not isinstance(s.targets[0], ast.Subscript) or not isinstance(s.targets[0].value, ast.Name) \
                    or isinstance(s.targets[0].slice, ast.Slice):
                bad(s, 'del of something other than one list item')
            key = s.targets[0].value.id
            if key not in env or env[key][1][0] != 'list':
                bad(s, 'del on something that is not a list local')
            binds = []
            i, ti = self.expr(s.targets[0].slice, env, binds)
            if ti != INT:
                bad(s, 'index that is not an int')
            nm = self.fn.fresh(key)
            env2 = dict(env)
            env2[key] = (nm, env[key][1])
            return self.wrap(binds, ('bind', nm, 'Py.delItem %s %s' % (env[key][0], i), self.block(rest, env2, k)))
        if isinstance(s, ast.While):
            return self.while_pad(s, rest, env, k)
        if isinstance(s, ast.Expr) and isinstance(s.value, ast.Call) and isinstance(s.value.func, ast.Attribute) \
                and s.value.func.attr == 'insert' and isinstance(s.value.func.value, ast.Name):
            call = s.value
            key = call.func.value.id
            if key not in env or env[key][1][0] != 'list' or len(call.args) != 2 or call.keywords:
                bad(s, '.insert() on something that is not a list local')
            binds = []
            i, ti = self.expr(call.args[0], env, binds)
            v = self.list_item(call.args[1], env[key][1][1], env, binds)
            if ti != INT:
                bad(s, 'insert position that is not an int')
            return self.wrap(binds, self.bind_var(key, '(Py.insert %s %s %s)' % (env[key][0], i, v), env[key][1], env, lambda e: self.block(rest, e, k)))
        if isinstance(s, ast.Expr) and isinstance(s.value, ast.Call) and isinstance(s.value.func, ast.Attribute) \
                and s.value.func.attr == 'append' and isinstance(s.value.func.value, ast.Subscript) and isinstance(s.value.func.value.value, ast.Name):
            # xs[i].append(v)
            call = s.value
            key = call.func.value.value.id
            if key not in env or env[key][1][0] != 'list' or env[key][1][1][0] != 'list' or len(call.args) != 1 or call.keywords \
                    or isinstance(call.func.value.slice, ast.Slice):
                bad(s, 'xs[i].append(v) on something that is not a list of lists')
            binds = []
            i, ti = self.expr(call.func.value.slice, env, binds)
            if ti != INT:
                bad(s, 'index that is not an int')
            v = self.list_item(call.args[0], env[key][1][1][1], env, binds)
            row = self.partial(s, binds, 'Py.getItem %s %s' % (env[key][0], i))
            nm = self.fn.fresh(key)
            env2 = dict(env)
            env2[key] = (nm, env[key][1])
            return self.wrap(binds, ('bind', nm, 'Py.setItem %s %s (%s ++ [%s])' % (env[key][0], i, row, v), self.block(rest, env2, k)))
        if isinstance(s, ast.Expr) and isinstance(s.value, ast.Call) and isinstance(s.value.func, ast.Attribute) \
                and s.value.func.attr == 'append' and isinstance(s.value.func.value, ast.Name) \
                and s.value.func.value.id in env and env[s.value.func.value.id][1][0] == 'list' and len(s.value.args) == 1 and not s.value.keywords:
            key = s.value.func.value.id
            binds = []
            v = self.list_item(s.value.args[0], env[key][1][1], env, binds)
            return self.wrap(binds, self.bind_var(key, '(%s ++ [%s])' % (env[key][0], v), env[key][1], env, lambda e: self.block(rest, e, k)))
        if isinstance(s, ast.Expr) and isinstance(s.value, ast.Call) and isinstance(s.value.func, ast.Attribute) \
                and s.value.func.attr in ('append', 'extend') and isinstance(s.value.func.value, ast.Name):
            call = s.value
            key = call.func.value.id
            if key not in env or env[key][1][0] != 'list' or len(call.args) != 1 or call.keywords:
                bad(s, '.%s() on something that is not a list local' % call.func.attr)
            binds = []
            v, tv = self.expr(call.args[0], env, binds)
            lt = env[key][1]
            if call.func.attr == 'append':
                if tv != lt[1]:
                    bad(s, 'append of a value of another type')
                term = '(%s ++ [%s])' % (env[key][0], v)
            else:
                if tv != lt:
                    bad(s, 'extend by a value of another type')
                term = '(%s ++ %s)' % (env[key][0], v)
            return self.wrap(binds, self.bind_var(key, term, lt, env, lambda e: self.block(rest, e, k)))
        if isinstance(s, ast.Return):
            if s.value is None:
                bad(s, 'return without a value')
            binds = []
            c, t = self.expr(s.value, env, binds)
            return self.wrap(binds, ('ret', c, t))
        if isinstance(s, ast.AnnAssign):
            if s.value is None:
                return self.block(rest, env, k)
            s2 = ast.Assign(targets=[s.target], value=s.value)
            ast.copy_location(s2, s)
            want = parse_annotation(s.annotation)
            binds = []
            c, t = self.expr(s.value, env, binds)
            if t != want and not (want[0] == 'opt' and (t == NONE or t == want[1])):
                bad(s, 'annotated assignment whose value has another type')
            if want[0] == 'opt' and t != want:
                c, t = ('none' if t == NONE else '(some %s)' % c), want
            key = self.target_key(s.target)
            return self.wrap(binds, self.bind_var(key, c, t, env, lambda e: self.block(rest, e, k)))
        if isinstance(s, ast.AugAssign):
            s2 = ast.Assign(targets=[s.target], value=ast.BinOp(left=self.as_load(s.target), op=s.op, right=s.value))
            ast.copy_location(s2, s)
            ast.fix_missing_locations(s2)
            return self.block([s2] + rest, env, k)
        if isinstance(s, ast.Assign):
            if len(s.targets) != 1:
                # a = b = v: v is evaluated once, then bound left to right
                if not all(isinstance(t, ast.Name) for t in s.targets):
                    bad(s, 'chained assignment to something other than plain names')
                binds = []
                c, t = self.expr(s.value, env, binds)
                if t[0] == 'list' or t == NONE:
                    bad(s, 'chained assignment of a list (two names would share it) or of None')
                keys = [self.target_key(t_) for t_ in s.targets]
                for key in keys:
                    if key in env and env[key][1] != t:
                        bad(s, 'local %s changes its type' % key)

                def chain2(i, e):
                    if i == len(keys):
                        return self.block(rest, e, k)
                    return self.bind_var(keys[i], c, t, e, lambda e2: chain2(i + 1, e2))
                return self.wrap(binds, chain2(0, env))
            tgt = s.targets[0]
            if isinstance(tgt, ast.Tuple) and isinstance(s.value, ast.IfExp) and isinstance(s.value.body, ast.Tuple) and isinstance(s.value.orelse, ast.Tuple) \
                    and len(s.value.body.elts) == len(tgt.elts) == len(s.value.orelse.elts):
                # a, b = (x, y) if c else (u, v)
                binds = []
                c, tc = self.expr(s.value.test, env, binds)
                if tc != BOOL:
                    bad(s, 'condition that is not a bool')
                va = [self.expr(e, env, None) for e in s.value.body.elts]
                vb = [self.expr(e, env, None) for e in s.value.orelse.elts]
                if [x[1] for x in va] != [x[1] for x in vb]:
                    bad(s, 'conditional tuple assignment with branches of different types')
                keys = [self.target_key(t) for t in tgt.elts]

                def chain3(i, e):
                    if i == len(keys):
                        return self.block(rest, e, k)
                    return self.bind_var(keys[i], '(if %s then %s else %s)' % (c, va[i][0], vb[i][0]), va[i][1], e, lambda e2: chain3(i + 1, e2))
                return self.wrap(binds, chain3(0, env))
            if isinstance(tgt, ast.Tuple):
                if not isinstance(s.value, ast.Tuple) or len(s.value.elts) != len(tgt.elts):
                    bad(s, 'tuple assignment whose right-hand side is not a tuple display of the same length')
                binds = []
                vals = [self.expr(v, env, binds) for v in s.value.elts]      # all right-hand sides in the old environment
                keys = [self.target_key(t) for t in tgt.elts]
                if len(set(keys)) != len(keys):
                    bad(s, 'tuple assignment with a repeated target')

                def chain(i, e):
                    if i == len(keys):
                        return self.block(rest, e, k)
                    return self.bind_var(keys[i], vals[i][0], vals[i][1], e, lambda e2: chain(i + 1, e2))
                # the fresh names never clash with the names the right-hand sides mention (SSA)
                return self.wrap(binds, chain(0, env))
            if isinstance(tgt, ast.Subscript):
                key = self.target_key(tgt.value)
                if key not in env or env[key][1][0] != 'list':
                    bad(s, 'item assignment to something that is not a list local')
                if isinstance(tgt.slice, ast.Slice):
                    bad(s, 'slice assignment')
                binds = []
                i, ti = self.expr(tgt.slice, env, binds)
                v, tv = self.expr(s.value, env, binds)
                if ti != INT or tv != env[key][1][1]:
                    bad(s, 'item assignment with an index that is not an int or a value of another type')
                nm = self.fn.fresh(key)
                env2 = dict(env)
                env2[key] = (nm, env[key][1])
                return self.wrap(binds, ('bind', nm, 'Py.setItem %s %s %s' % (env[key][0], i, v), self.block(rest, env2, k)))
            key = self.target_key(tgt)
            binds = []
            if isinstance(s.value, ast.List) and not s.value.elts and key in self.fn.opts.get('locals', {}):
                t = type_of_name(self.fn.opts['locals'][key])
                return self.bind_var(key, '([] : %s)' % lean_type(t), t, env, lambda e: self.block(rest, e, k))
            c, t = self.expr(s.value, env, binds)
            if t[0] == 'list' and isinstance(s.value, ast.Name) and s.value.id in env:
                bad(s, 'a list local bound to another list local (the two names would share one list)')
            if key in env and env[key][1] != t:
                old = env[key][1]
                if old[0] == 'opt' and (t == NONE or t == old[1]):
                    c, t = ('none' if t == NONE else '(some %s)' % c), old
                else:
                    bad(s, 'local %s changes its type' % key)
            return self.wrap(binds, self.bind_var(key, c, t, env, lambda e: self.block(rest, e, k)))
        if isinstance(s, ast.If):
            return self.if_stmt(s, rest, env, k)
        if isinstance(s, ast.For):
            return self.for_stmt(s, rest, env, k)
        bad(s, 'statement %s is outside the subset' % type(s).__name__)

    def list_item(self, node, want, env, binds):
        """term of type `want` for a value stored into a list (an empty list display, or a value lifted to the element type)"""
        if isinstance(node, ast.List) and not node.elts:
            if want[0] != 'list':
                bad(node, 'an empty list where a %s is expected' % want[0])
            return '([] : %s)' % lean_type(want)
        if isinstance(node, ast.List) and want[0] == 'list':
            items = [self.list_item(e, want[1], env, binds) for e in node.elts]
            return '[%s]' % ', '.join(items)
        c, t = self.expr(node, env, binds)
        out = coerce(c, t, want)
        if out is None:
            bad(node, 'a value of another type stored into a list')
        return out

    def while_pad(self, s, rest, env, k):
        """`while len(xs) < n: xs.append(v)` — padding a list local up to a length"""
        t = s.test
        ok = (not s.orelse and isinstance(t, ast.Compare) and len(t.ops) == 1 and isinstance(t.ops[0], ast.Lt)
              and isinstance(t.left, ast.Call) and isinstance(t.left.func, ast.Name) and t.left.func.id == 'len' and len(t.left.args) == 1
              and isinstance(t.left.args[0], ast.Name) and len(s.body) == 1 and isinstance(s.body[0], ast.Expr)
              and isinstance(s.body[0].value, ast.Call) and isinstance(s.body[0].value.func, ast.Attribute) and s.body[0].value.func.attr == 'append'
              and isinstance(s.body[0].value.func.value, ast.Name) and s.body[0].value.func.value.id == t.left.args[0].id
              and len(s.body[0].value.args) == 1)
        if not ok:
            bad(s, 'a while loop other than `while len(xs) < n: xs.append(v)`')
        key = t.left.args[0].id
        if key not in env or env[key][1][0] != 'list':
            bad(s, 'padding of something that is not a list local')
        for part in (t.comparators[0], s.body[0].value.args[0]):
            if key in names_in(part):
                bad(s, 'the bound or the padding value reads the list being padded')
        binds = []
        n, tn = self.expr(t.comparators[0], env, binds)
        if tn != INT:
            bad(s, 'length bound that is not an int')
        v = self.list_item(s.body[0].value.args[0], env[key][1][1], env, binds)
        return self.wrap(binds, self.bind_var(key, '(Py.padTo %s %s %s)' % (env[key][0], n, v), env[key][1], env, lambda e: self.block(rest, e, k)))

    def external_call(self, call, targets, s, rest, env, k):
        spec = self.externals()[dotted(call.func)]
        if '$st' not in env:
            bad(s, 'external call outside a procedure')
        if call.keywords:
            bad(s, 'keyword arguments in an external call')
        if any(isinstance(a, ast.Starred) for a in call.args):
            # f(..., *CONSTANT_TUPLE): the tuple is spelled out
            flat = []
            for a in call.args:
                if isinstance(a, ast.Starred):
                    v = self.const_value(a.value, env)
                    if not isinstance(v, list):
                        bad(s, 'a starred argument that is not a constant tuple')
                    flat += [ast.copy_location(ast.Constant(value=x), a) for x in v]
                else:
                    flat.append(a)
            call = ast.copy_location(ast.Call(func=call.func, args=flat, keywords=call.keywords), call)
        binds = []
        args = []
        for pos, tn in zip(spec['args'], spec['arg_types']):
            if pos >= len(call.args):
                bad(s, 'external call with fewer arguments than the table models')
            c, t = self.expr(call.args[pos], env, binds)
            c2 = coerce(c, t, type_of_name(tn))
            if c2 is None:
                bad(s, 'argument %d of the external call is not a %s' % (pos, tn))
            args.append(c2 if c2 == c else '(%s)' % c2.strip('()') if c2 == 'none' else c2)
        for pos, a in enumerate(call.args):
            if pos not in spec['args'] and not (isinstance(a, ast.Name) and a.id in self.fn.opts.get('passed_through', ())):
                bad(s, 'argument %d of the external call is neither modelled nor one of the objects the table lets pass through' % pos)
        rets = [type_of_name(x) for x in spec['ret']]
        if len(targets) != len(rets):
            bad(s, 'external call bound to %d names, the table declares %d results' % (len(targets), len(rets)))
        tmp = self.fn.temp()
        term = 'ext_%s %s%s' % (spec['lean'], env['$st'][0], ''.join(' ' + a for a in args))
        nst = self.fn.fresh('st')
        env2 = dict(env)
        env2['$st'] = (nst, STATE)
        tree_fn = lambda e: self.block(rest, e, k)
        # results: tmp.1 is the (tuple of) result(s), tmp.2 the next state
        def chain(i, e):
            if i == len(targets):
                return tree_fn(e)
            if targets[i] == '_':
                return chain(i + 1, e)
            key = targets[i]
            if key in e and e[key][1] != rets[i]:
                bad(s, 'local %s changes its type' % key)
            return self.bind_var(key, proj('%s.1' % tmp, i, len(rets)) if rets else tmp, rets[i], e, lambda e2: chain(i + 1, e2))
        inner = ('let', nst, ('%s.2' % tmp) if rets else tmp, chain(0, env2))
        return self.wrap(binds, ('let', tmp, term, inner))

    @staticmethod
    def as_load(t):
        import copy
        t2 = copy.deepcopy(t)
        for n in ast.walk(t2):
            if hasattr(n, 'ctx'):
                n.ctx = ast.Load()
        return t2

    def narrowing(self, test, env):
        """('some' | 'none' | 'none_or', key, remaining test or None) if the test is `X is not None [and ...]` / `X is None [or ...]` for an Optional local X"""
        first, more, conn = test, None, None
        if isinstance(test, ast.BoolOp):
            conn = type(test.op)
            first = test.values[0]
            more = test.values[1] if len(test.values) == 2 else ast.BoolOp(op=test.op, values=test.values[1:])
        if isinstance(first, ast.Compare) and len(first.ops) == 1 and isinstance(first.ops[0], (ast.Is, ast.IsNot)) \
                and isinstance(first.comparators[0], ast.Constant) and first.comparators[0].value is None \
                and dotted(first.left) is not None and dotted(first.left) in env and env[dotted(first.left)][1][0] == 'opt':
            pos = isinstance(first.ops[0], ast.IsNot)
            key = dotted(first.left)
            if more is None:
                return ('some' if pos else 'none'), key, None
            if pos and conn is ast.And:
                return 'some', key, more
            if not pos and conn is ast.Or:
                return 'none_or', key, more
        return None

    def if_stmt(self, s, rest, env, k):
        if self.has_jump([s]):
            then_fn = lambda e: self.block(list(s.body) + rest, e, k)
            else_fn = lambda e: self.block(list(s.orelse) + rest, e, k)
            return self.branch(s, env, then_fn, else_fn)
        # no return inside: the locals assigned in the branches are merged
        names = self.assigned([s])
        merged, types = [], []
        for key in names:
            if key in env or (key in self.definitely_assigned(s.body) and key in self.definitely_assigned(s.orelse)):
                merged.append(key)
            # a local bound in one branch only and not before is dropped: a later use of it is an unknown name (untranslatable)
        if not merged:
            if all(isinstance(x, ast.Pass) for x in list(s.body) + list(s.orelse)):
                return self.block(rest, env, k)
            bad(s, 'an if that neither returns nor assigns a local that is defined afterwards')

        def leaf(e):
            vals = []
            for key in merged:
                if key not in e:
                    raise Untranslatable('local %s may be unbound after an if' % key)
                vals.append(e[key])
            leaf.types.append([v[1] for v in vals])
            return ('ret', tuple_term([v[0] for v in vals]), ttuple([v[1] for v in vals]) if len(vals) > 1 else vals[0][1])
        leaf.types = []
        sub = self.branch(s, env, lambda e: self.block(list(s.body), e, leaf), lambda e: self.block(list(s.orelse), e, leaf))
        ts = leaf.types[0]
        if any(t != ts for t in leaf.types):
            bad(s, 'a local has different types in the branches of an if')
        fresh = [self.fn.fresh(key) for key in merged]
        env2 = dict(env)
        for key, nm, t in zip(merged, fresh, ts):
            env2[key] = (nm, t)
        return ('sub', fresh, ts, sub, self.block(rest, env2, k))

    def branch(self, s, env, then_fn, else_fn):
        nar = self.narrowing(s.test, env)
        if nar is not None:
            kind, key, more = nar
            old, ot = env[key]
            nm = self.fn.fresh(key)
            env_some = dict(env)
            env_some[key] = (nm, ot[1])
            if kind == 'some':
                if more is None:
                    return ('matchopt', old, nm, then_fn(env_some), else_fn(env))
                binds = []
                c, t = self.expr(more, env_some, binds)
                if t != BOOL:
                    bad(s, 'if test that is not a bool')
                return ('matchopt', old, nm, self.wrap(binds, ('if', c, then_fn(env_some), else_fn(env_some))), else_fn(env))
            if kind == 'none_or':
                # `X is None or REST`: X is None -> body; otherwise REST (which may read X) decides
                binds = []
                c, t = self.expr(more, env_some, binds)
                if t != BOOL:
                    bad(s, 'if test that is not a bool')
                return ('matchopt', old, nm, self.wrap(binds, ('if', c, then_fn(env_some), else_fn(env_some))), then_fn(env))
            return ('matchopt', old, nm, else_fn(env_some), then_fn(env))
        binds = []
        c, t = self.expr(s.test, env, binds)
        if t != BOOL:
            bad(s, 'if test that is not a bool')
        return self.wrap(binds, ('if', c, then_fn(env), else_fn(env)))

    def for_stmt(self, s, rest, env, k):
        if s.orelse:
            bad(s, 'for ... else')
        for n in ast.walk(s):
            if isinstance(n, (ast.Return, ast.Continue)):
                bad(n, 'return / continue inside a loop')
        has_break = self.has_jump(list(s.body))
        if not isinstance(s.target, ast.Name):
            bad(s, 'loop target that is not a plain name')
        if s.target.id in env:
            bad(s, 'loop target that re-uses the name of a local')
        binds = []
        it = s.iter
        if isinstance(it, ast.Call) and isinstance(it.func, ast.Name) and it.func.id == 'range' and 'range' not in env:
            if len(it.args) == 3 and not it.keywords:
                try:
                    step = literal_value(it.args[2])
                except ValueError:
                    step = None
                if type(step) is not int or step <= 0:
                    bad(s, 'range whose step is not a positive literal')
                ra, ta_ = self.expr(it.args[0], env, binds)
                rb, tb_ = self.expr(it.args[1], env, binds)
                if ta_ != INT or tb_ != INT:
                    bad(s, 'range of values that are not ints')
                listterm, elt = 'Py.range3 %s %s (%d : Int)' % (ra, rb, step), INT
            else:
                if len(it.args) != 1 or it.keywords:
                    bad(s, 'range with two arguments')
                n, tn = self.expr(it.args[0], env, binds)
                if tn != INT:
                    bad(s, 'range of a value that is not an int')
                listterm, elt = 'Py.range %s' % n, INT
        else:
            c, t = self.expr(it, env, binds)
            if t[0] != 'list':
                bad(s, 'loop over something that is not a list / range')
            listterm, elt = c, t[1]
        body_assigned = self.assigned(s.body)
        if s.target.id in body_assigned:
            bad(s, 'loop variable assigned in the loop body')
        carried = [key for key in body_assigned if key in env]
        if not carried:
            bad(s, 'loop that updates no local defined before it')
        if s.target.id in carried:
            bad(s, 'loop variable shadows an updated local')
        if has_break:
            # a done flag travels with the updated locals; once set, the remaining passes leave everything as it is
            env = dict(env)
            env['$done'] = ('false', BOOL)
            carried = ['$done'] + carried
        types = [env[key][1] for key in carried]
        lamvar = self.fn.fresh(s.target.id)
        env_b = dict(env)
        env_b[s.target.id] = (lamvar, elt)
        pre = []
        for i, key in enumerate(carried):
            nm = self.fn.fresh(key)
            env_b[key] = (nm, types[i])
            pre.append((nm, proj('acc_', i, len(carried))))

        def leaf(e, done='false'):
            vals = [e[key] if key != '$done' else (done, BOOL) for key in carried]
            if [v[1] for v in vals] != types:
                raise Untranslatable('a local changes its type inside a loop')
            return ('ret', tuple_term([v[0] for v in vals]), None)
        self.break_stack.append(lambda e: leaf(e, 'true'))
        try:
            body = self.block(list(s.body), env_b, leaf)
        finally:
            self.break_stack.pop()
        if has_break:
            body = ('if', env_b['$done'][0], ('ret', 'acc_', None), body)
        for nm, term in reversed(pre):
            body = ('let', nm, term, body)
        fresh = [self.fn.fresh(key) for key in carried]
        env2 = dict(env)
        # the loop variable and the locals first bound inside the body are dropped after the loop (a later use is untranslatable)
        env2.pop(s.target.id, None)
        for key, nm, t in zip(carried, fresh, types):
            env2[key] = (nm, t)
        env2.pop('$done', None)
        inits = [env[key][0] for key in carried]
        return self.wrap(binds, ('loop', fresh, types, lamvar, elt, body, inits, listterm, self.block(rest, env2, k)))


# ---------------------------------------------------------------- statement selectors of the `block` extraction

def statement_lists(func):
    """every statement list inside the function (bodies of if / for / while / with / try), not those of nested defs / classes"""
    out = []

    def visit(stmts):
        out.append(stmts)
        for st in stmts:
            if isinstance(st, (ast.FunctionDef, ast.ClassDef, ast.AsyncFunctionDef)):
                continue
            for field in ('body', 'orelse', 'finalbody'):
                sub = getattr(st, field, None)
                if isinstance(sub, list) and sub and isinstance(sub[0], ast.stmt):
                    visit(sub)
            for h in getattr(st, 'handlers', []) or []:
                visit(h.body)
    visit(func.body)
    return out


def directly_assigns(st, var):
    if isinstance(st, ast.Assign):
        return any(isinstance(t, ast.Name) and t.id == var for t in st.targets) or \
            any(isinstance(t, ast.Tuple) and any(isinstance(e, ast.Name) and e.id == var for e in t.elts) for t in st.targets)
    if isinstance(st, (ast.AugAssign, ast.AnnAssign)):
        return isinstance(st.target, ast.Name) and st.target.id == var
    return False


GLOBAL_NAMES = set()     # class names and imported names of the file being translated: a reference like GEXTest.LIMIT is a constant, not a variable


def names_in(node):
    return {x.id for x in ast.walk(node) if isinstance(x, ast.Name)} - GLOBAL_NAMES


def select_statements(func, selectors):
    """the statements picked by the selectors, which must come out in source order:
         ('assign', var)                    the only statement of the function that assigns the plain name var (any depth)
         ('assign', var, nth, count)        the nth (from 0, in source order) of exactly `count` such statements
         ('if', var, [names])               the only `if` statement (an `elif` is part of its `if`) with a direct assignment to var in its body
                                            and whose test reads exactly the given names
         ('if-assigning', var)              the only `if` statement whose body directly assigns var
         ('if-names', [names][, nth, count]) the (nth of count) `if` statement(s) whose test reads exactly these names
         ('if-with-str', text)              the outermost `if` statement that contains the string constant `text`
         ('range', selA, selB)              the statements from selA to selB of one block, both included"""
    lists = statement_lists(func)
    elifs = set()
    for sl in lists:
        for st in sl:
            if isinstance(st, ast.If) and len(st.orelse) == 1 and isinstance(st.orelse[0], ast.If):
                elifs.add(id(st.orelse[0]))
    picked = []
    for sel in selectors:
        if sel[0] == 'body':
            picked.extend(func.body)      # ('body',): every statement of the function
            continue
        if sel[0] == 'range':
            a = select_statements(func, [sel[1]])[0]
            b = select_statements(func, [sel[2]])[0]
            home = [sl for sl in lists if any(st is a for st in sl) and any(st is b for st in sl)]
            if len(home) != 1:
                raise Untranslatable('the two ends of the range are not statements of one block')
            ia = [i for i, st in enumerate(home[0]) if st is a][0]
            ib = [i for i, st in enumerate(home[0]) if st is b][0]
            if ia > ib:
                raise Untranslatable('the range ends before it starts')
            picked.extend(home[0][ia:ib + 1])
            continue
        hits = []
        for sl in lists:
            for st in sl:
                if sel[0] == 'assign' and directly_assigns(st, sel[1]):
                    hits.append(st)
                elif sel[0] in ('if', 'if-assigning') and isinstance(st, ast.If) and id(st) not in elifs \
                        and any(directly_assigns(b, sel[1]) for b in st.body):
                    if sel[0] == 'if-assigning' or names_in(st.test) == set(sel[2]):
                        hits.append(st)
                elif sel[0] == 'if-with-str' and isinstance(st, ast.If) and id(st) not in elifs \
                        and any(isinstance(n, ast.Constant) and n.value == sel[1] for n in ast.walk(st)):
                    hits.append(st)
                elif sel[0] == 'if-names' and isinstance(st, ast.If) and id(st) not in elifs and names_in(st.test) == set(sel[1]):
                    hits.append(st)
        hits.sort(key=lambda st: (st.lineno, st.col_offset))
        if sel[0] == 'if-with-str':
            # the outermost such statement
            hits = [h for h in hits if not any(o is not h and any(n is h for n in ast.walk(o)) for o in hits)]
        if sel[0] == 'if-names' and len(sel) == 4:
            if len(hits) != sel[3]:
                raise Untranslatable('selector %r matches %d statements (expected %d)' % (tuple(sel), len(hits), sel[3]))
            picked.append(hits[sel[2]])
            continue
        if sel[0] == 'assign' and len(sel) == 4:
            # ('assign', var, nth, count): the nth of exactly `count` statements assigning var
            if len(hits) != sel[3]:
                raise Untranslatable('selector %r matches %d statements (expected %d)' % (tuple(sel), len(hits), sel[3]))
            picked.append(hits[sel[2]])
            continue
        if len(hits) != 1:
            raise Untranslatable('selector %r matches %d statements (expected exactly one)' % (tuple(sel), len(hits)))
        picked.append(hits[0])
    lines = [st.lineno for st in picked]
    if lines != sorted(lines) or len(set(lines)) != len(lines):
        raise Untranslatable('the selected statements are not in source order')
    return picked


# ---------------------------------------------------------------- one table entry -> Lean def

def unify_returns(tree):
    """the common type of the leaves; returns (type, converter of a leaf to a term of that type)"""
    ls = leaves(tree, [])
    ts = [l[2] for l in ls]
    base = None
    optional = False
    for t in ts:
        if t == NONE:
            optional = True
            continue
        if t[0] == 'opt':
            optional = True
            t = t[1]
        if base is None:
            base = t
        elif base != t:
            raise Untranslatable('return values of different types (%s, %s)' % (base[0], t[0]))
    if base is None:
        raise Untranslatable('the function returns None only')
    if not optional:
        return base, None
    full = topt(base)

    def conv(leaf):
        if leaf[2] == NONE:
            return 'none'
        if leaf[2][0] == 'opt':
            return leaf[1]
        return 'some %s' % leaf[1]
    return full, conv


def fall_off(env):
    raise Untranslatable('a path reaches the end of the function without a return')


def translate_entry(name, fname, qual, opts, known):
    chain = find_def(fname, qual)
    GLOBAL_NAMES.clear()
    for st in chain[0].body:
        if isinstance(st, ast.ClassDef):
            GLOBAL_NAMES.add(st.name)
        elif isinstance(st, (ast.Import, ast.ImportFrom)):
            for al in st.names:
                GLOBAL_NAMES.add((al.asname or al.name).split('.')[0])
    func = chain[-1]
    if not isinstance(func, ast.FunctionDef):
        raise Untranslatable('%s is not a function' % qual)
    opts = dict(opts)
    fn = Fn(fname, chain, opts, known)
    tr = Tr(fn)
    env = {}
    params = []
    kind = opts.get('extract')

    def add_param(pyname, typ):
        nm = fn.fresh(pyname)
        env[pyname] = (nm, typ)
        params.append((nm, typ))

    if kind is None:
        a = func.args
        if a.vararg or a.kwarg or a.kwonlyargs or a.posonlyargs:
            raise Untranslatable('*args / **kwargs / keyword-only parameters')
        plist = list(a.args)
        decos = [d.id for d in func.decorator_list if isinstance(d, ast.Name)]
        if len(decos) != len(func.decorator_list) or any(d not in ('staticmethod', 'classmethod') for d in decos):
            raise Untranslatable('decorator outside the subset')
        in_class = len(chain) >= 3 and isinstance(chain[-2], ast.ClassDef)
        if in_class and 'staticmethod' not in decos:
            if not plist:
                raise Untranslatable('method without self / cls')
            plist = plist[1:]
        for p in plist:
            add_param(p.arg, parse_annotation(p.annotation))
        selfattrs = set()
        for attr, ref in opts.get('attrs', {}).items():
            if ref not in known:
                raise Untranslatable('self.%s is bound to %s, which is not translated' % (attr, ref))
            rt, rpartial = known[ref]
            nm = fn.fresh('self.' + attr)
            env['self.' + attr] = (nm, rt)
            fn.prelude.append((nm, ref, rpartial))
        if 'result_attr' in opts:
            selfattrs.add('self.' + opts['result_attr'])
        opts['_selfattrs'] = selfattrs
        fn.opts = opts
        if 'result_attr' in opts:
            key = 'self.' + opts['result_attr']

            def k(e):
                if key not in e:
                    raise Untranslatable('%s is not assigned' % key)
                return ('ret', e[key][0], e[key][1])
        else:
            k = fall_off
        tree = tr.block(list(func.body), env, k)
    elif kind == 'for-if-test':
        fors = [n for n in ast.walk(func) if isinstance(n, ast.For)]
        if len(fors) != 1:
            raise Untranslatable('expected exactly one for loop, found %d' % len(fors))
        loop = fors[0]
        if not isinstance(loop.target, ast.Name) or len(loop.body) != 1 or not isinstance(loop.body[0], ast.If) or loop.body[0].orelse:
            raise Untranslatable('the loop body is not a single if without else')
        add_param(loop.target.id, type_of_name(opts['params'][0]))
        binds = []
        c, t = tr.expr(loop.body[0].test, env, binds)
        if t != BOOL:
            raise Untranslatable('the test is not a bool')
        tree = Tr.wrap(binds, ('ret', c, BOOL))
    elif kind == 'if-chain':
        var = opts['var']
        hits = []
        for n in ast.walk(func):
            if isinstance(n, ast.If):
                tests, cur = [], n
                while True:
                    tests.append(cur.test)
                    if len(cur.orelse) == 1 and isinstance(cur.orelse[0], ast.If):
                        cur = cur.orelse[0]
                    else:
                        break
                if len(tests) >= 2 and all(names_in(t_) == {var} for t_ in tests):
                    hits.append(tests)
        hits = [h for h in hits if not any(len(o) > len(h) and o[-len(h):] == h for o in hits)]     # an elif is not a chain of its own
        if len(hits) != 1:
            raise Untranslatable('expected exactly one if/elif chain over %s alone, found %d' % (var, len(hits)))
        add_param(var, type_of_name(opts['params'][0]))
        tree = ('ret', lit(len(hits[0]))[0], INT)
        for i, t_ in reversed(list(enumerate(hits[0]))):
            binds = []
            c, t = tr.expr(t_, env, binds)
            if binds or t != BOOL:
                raise Untranslatable('a test of the chain can raise or is not a bool')
            tree = ('if', c, ('ret', lit(i)[0], INT), tree)
    elif kind == 'block':
        stmts = select_statements(func, opts['select'])
        for v, tn in opts['free'].items():
            add_param(v, type_of_name(tn))
        outs = opts['out']

        def k_out(e):
            vals = []
            for o in outs:
                if o not in e:
                    raise Untranslatable('%s is not bound at the end of the block' % o)
                vals.append(e[o])
            return ('ret', tuple_term([v[0] for v in vals]) if len(vals) > 1 else vals[0][0],
                    ttuple([v[1] for v in vals]) if len(vals) > 1 else vals[0][1])
        for st in stmts:
            for n in ast.walk(st):
                if isinstance(n, ast.Return):
                    raise Untranslatable('return inside the selected block')
        tree = tr.block(stmts, env, k_out)
    elif kind == 'proc':
        stmts = select_statements(func, opts['select'])
        for st in stmts:
            for n in ast.walk(st):
                if isinstance(n, ast.Return):
                    raise Untranslatable('return inside the selected statements')
        env['$st'] = ('st', STATE)
        fn.counter['st'] = 1
        for obj, attrs in opts.get('objects', {}).items():
            nm = fn.fresh(obj + '_present')
            env[obj] = (nm, OBJ)
            params.append((nm, OBJ))
            for attr, tn in attrs.items():
                nm2 = fn.fresh('%s_%s' % (obj, attr))
                env['%s.%s' % (obj, attr)] = (nm2, type_of_name(tn))
                params.append((nm2, type_of_name(tn)))
        for v, tn in opts['free'].items():
            if '.' in v:
                nm = fn.fresh(v)
                env[v] = (nm, type_of_name(tn))
                params.append((nm, type_of_name(tn)))
            else:
                add_param(v, type_of_name(tn))
        for v in opts.get('nonnull', ()):
            env[v + '!'] = ('true', BOOL)
        for fname_, (pname, tn) in opts.get('pure_calls', {}).items():
            nm = fn.fresh(pname)
            env['$call:' + fname_] = (nm, type_of_name(tn))
            params.append((nm, type_of_name(tn)))
        outs = opts['out']

        def k_proc(e, stop=False):
            # left by `break`: (none, state); run to the end: (some (the out locals), state)
            if stop:
                return ('ret', '((none : Option (%s)), %s)' % (k_proc.otype or '_', e['$st'][0]), ('proc',))
            if not outs:
                # a procedure that only acts through its external calls
                k_proc.otype = 'Unit'
                k_proc.rtype = ('tuple', ('opt', ('unit',)), STATE)
                return ('ret', '(some (), %s)' % e['$st'][0], ('proc',))
            vals = []
            for o in outs:
                if o not in e:
                    raise Untranslatable('%s is not bound at the end of the selected statements' % o)
                vals.append(e[o])
            k_proc.otype = lean_type(ttuple([v[1] for v in vals])) if len(vals) > 1 else lean_type(vals[0][1])
            k_proc.rtype = ('tuple', ('opt', ttuple([v[1] for v in vals]) if len(vals) > 1 else vals[0][1]), STATE)
            return ('ret', '(some %s, %s)' % (tuple_term([v[0] for v in vals]), e['$st'][0]), ('proc',))
        k_proc.otype = None
        k_proc.rtype = None
        tr.break_stack.append(lambda e: k_proc(e, True))
        tree = tr.block(stmts, env, k_proc)
        tr.break_stack.pop()
    elif kind == 'if-test':
        # the test of the only `if` / `elif` / `while` statement whose test reads exactly the names of the table (`self.x` counts as `self`)
        want = set(opts['names'])
        hits = [n for n in ast.walk(func) if isinstance(n, (ast.If, ast.While)) and names_in(n.test) == want]
        hits.sort(key=lambda n: (n.lineno, n.col_offset))
        if len(hits) != opts.get('count', 1):
            raise Untranslatable('expected exactly %d if / while test(s) over %s, found %d' % (opts.get('count', 1), sorted(want), len(hits)))
        hits = [hits[opts.get('nth', 0)]]
        for v, tn in opts['free'].items():
            if v.startswith('self.'):
                nm = fn.fresh(v)
                env[v] = (nm, type_of_name(tn))
                params.append((nm, type_of_name(tn)))
            else:
                add_param(v, type_of_name(tn))
        def conj(values):
            # `a and b and …` as nested ifs: a conjunct that can raise is evaluated only when the ones before it hold, as in Python
            binds = []
            c, t = tr.expr(values[0], env, binds)
            if t != BOOL:
                raise Untranslatable('the test is not a bool')
            if len(values) == 1:
                return Tr.wrap(binds, ('ret', c, BOOL))
            return Tr.wrap(binds, ('if', c, conj(values[1:]), ('ret', 'false', BOOL)))
        test = hits[0].test
        tree = conj(list(test.values) if isinstance(test, ast.BoolOp) and isinstance(test.op, ast.And) else [test])
    elif kind == 'lambda':
        lams = [n for n in ast.walk(func) if isinstance(n, ast.Lambda)]
        if len(lams) != 1:
            raise Untranslatable('expected exactly one lambda, found %d' % len(lams))
        la = lams[0].args
        if la.vararg or la.kwarg or la.kwonlyargs or la.posonlyargs or la.defaults or len(la.args) != len(opts['params']):
            raise Untranslatable('the lambda does not take exactly the %d plain parameters of the table' % len(opts['params']))
        for a_, tn in zip(la.args, opts['params']):
            add_param(a_.arg, type_of_name(tn))
        binds = []
        c, t = tr.expr(lams[0].body, env, binds)
        tree = Tr.wrap(binds, ('ret', c, t))
    elif kind == 'assign-expr':
        var = opts['var']
        hits = [n for n in ast.walk(func) if isinstance(n, ast.Assign) and len(n.targets) == 1 and isinstance(n.targets[0], ast.Name) and n.targets[0].id == var]
        hits += [n for n in ast.walk(func) if isinstance(n, (ast.AugAssign, ast.AnnAssign)) and isinstance(n.target, ast.Name) and n.target.id == var]
        hits.sort(key=lambda n: (n.lineno, n.col_offset))
        want = opts.get('count', 1)
        if len(hits) != want or not all(isinstance(h, ast.Assign) for h in hits):
            raise Untranslatable('expected exactly %d plain assignment(s) to %s, found %d' % (want, var, len(hits)))
        value = hits[opts.get('nth', 0)].value
        free = sorted(names_in(value) - {'bool', 'len', 'ord', 'min', 'max'})
        for v in free:
            if v not in opts['free']:
                raise Untranslatable('the right-hand side reads %s, which the table does not type' % v)
        for v in opts['free']:
            add_param(v, type_of_name(opts['free'][v]))
        binds = []
        c, t = tr.expr(value, env, binds)
        tree = Tr.wrap(binds, ('ret', c, t))
    else:
        raise Untranslatable('unknown extraction kind %s' % kind)
    if kind == 'proc':
        if k_proc.rtype is None:
            raise Untranslatable('every path leaves the selected statements by break')
        rtype, conv = k_proc.rtype, None
    else:
        rtype, conv = unify_returns(tree)
    for nm, ref, rpartial in reversed(fn.prelude):
        tree = ('bind', nm, ref, tree) if rpartial else ('let', nm, ref, tree)
    partial = is_partial(tree)
    full = topt(rtype) if partial else rtype
    if partial and rtype[0] == 'opt':
        pass        # Option (Option T): outer none = raises, inner none = returns None
    body = render(tree, partial, 1, conv)
    sig = ' '.join('(%s : %s)' % (nm, lean_type(t)) for nm, t in params)
    if kind == 'proc':
        exts = []
        for ename, spec in opts.get('externals', {}).items():
            rets = [type_of_name(x) for x in spec['ret']]
            rt = ('(%s) × σ' % lean_type(ttuple(rets))) if len(rets) > 1 else ('%s × σ' % lean_atom_type(rets[0]) if rets else 'σ')
            exts.append('(ext_%s : σ → %s%s)' % (spec['lean'], ''.join(lean_atom_type(type_of_name(t_)) + ' → ' for t_ in spec['arg_types']), rt))
        sig = '{σ : Type} ' + ' '.join(exts) + ' (st : σ) ' + sig
    src = '%s %s' % (fname, qual) + (' [%s]' % kind if kind else '')
    text = '/-- `%s` -/\ndef %s %s: %s :=\n%s\n' % (src, name, sig + ' ' if sig else '', lean_type(full), body)
    return text, (rtype, partial)


HEADER = '''/- GENERATED by harness/translate_logic.py from the functions of /repo/src/ssh_audit named in its table — do not edit.
   Regenerated on every check that declares GEN_LOGIC; `SshAudit.Props.GenLogic` relates each definition to the hand-written model. -/
import SshAudit.Model.Py
set_option linter.unusedVariables false
namespace SshAudit.Gen.Logic
open SshAudit

'''


def generate():
    """{file name: content}, translated, untranslatable"""
    units = {'Logic': [HEADER]}
    translated, untranslatable, known = [], {}, {}
    for name, fname, qual, opts in FUNCTIONS:
        out = units.setdefault(opts.get('unit', 'Logic'), [HEADER])
        try:
            text, info = translate_entry(name, fname, qual, opts, known)
            known[name] = info
            translated.append(name)
            out.append(text)
        except Untranslatable as e:
            untranslatable[name] = str(e)
        except (OSError, SyntaxError) as e:
            untranslatable[name] = 'source not readable: %s' % type(e).__name__
        except RecursionError:
            untranslatable[name] = 'source too deeply nested'
        if name in untranslatable:
            import re as _re
            # without the line number: an edit elsewhere in the file must not rewrite (and rebuild) the generated module
            out.append('/-- `%s` %s: untranslatable -/\ndef %s : Py.Untranslatable := ⟨%s⟩\n'
                       % (fname, qual, name, json.dumps(_re.sub(r' \(line \d+\)', '', untranslatable[name]))))
    return {u + '.lean': '\n'.join(parts + ['end SshAudit.Gen.Logic\n']) for u, parts in units.items()}, translated, untranslatable


def write_if_changed(path, content):
    try:
        if open(path, encoding='utf-8').read() == content:
            return False
    except FileNotFoundError:
        pass
    with open(path, 'w', encoding='utf-8') as f:
        f.write(content)
    return True


def main():
    files, translated, untranslatable = generate()
    changed = [n for n, text in sorted(files.items()) if write_if_changed(os.path.join(GEN, n), text)]
    units = {name: opts.get('unit', 'Logic') for name, _, _, opts in FUNCTIONS}
    print(json.dumps({'ok': True, 'translated': translated, 'untranslatable': untranslatable, 'changed': changed, 'units': units}))


if __name__ == '__main__':
    main()
