import SshAudit.Driver.WireOps
import SshAudit.Driver.Tables
import SshAudit.Model.Version
namespace SshAudit.Driver
open SshAudit SshAudit.Version

/-- list of optional text tokens: `,`-joined `decOptStr` tokens; `_` is the empty list -/
def decOptStrList (tok : String) : Option (List (Option Str)) :=
  if tok = "_" then some [] else (tok.splitOn ",").mapM decOptStr

/-- `~` = None, `1` = True, `0` = False -/
def decOptBool (tok : String) : Option (Option Bool) :=
  if tok = "~" then some none else (decBool tok).map some

def jostr (o : Option Str) : J := J.ofOpt .str o

def jsoftware (s : Software) : J := .obj [
  ("vendor", jostr s.vendor), ("product", .str s.product), ("version", .str s.version),
  ("patch", jostr s.patch), ("os", jostr s.os)]

def jtfStorage (tf : Timeframe) : J := .arr (tf.map fun (p, slots) => .arr [.str p, .arr (slots.map jostr)])

/-- storage plus `p in tf`, `get_from(p, s)`, `get_till(p, s)` for the products the tool asks about -/
def jtf (tf : Timeframe) : J := .obj [
  ("storage", jtfStorage tf),
  ("queries", .arr ([pOpenSSH, pDropbear, pLibSSH, pTinySSH].map fun p =>
    .arr [.bool (tfContains tf p), jostr (tfGetFrom tf p true), jostr (tfGetTill tf p true),
          jostr (tfGetFrom tf p false), jostr (tfGetTill tf p false)]))]

def mkSw (product version : Str) (patch : Option Str) : Software := ⟨none, product, version, patch, none⟩

def db2Items (kex key enc mac : List Str) : List (Str × List Str) :=
  [("kex".toList, kex), ("key".toList, key), ("enc".toList, enc), ("mac".toList, mac)]

def versionOp (op : String) (args : List String) : Option J :=
  match op, args with
  | "ver.cmpnum", [a, b] => do
      let a ← decStr a; let b ← decStr b
      pure (jok (.num (compareVersionNumbers a b)))
  | "ver.split", [o] => do
      let o ← decStr o
      let r := splitOther o
      pure (jok (.arr [.str r.1, .str r.2]))
  | "ver.compare", [prod, ver, patch, other] => do
      let prod ← decStr prod; let ver ← decStr ver; let patch ← decOptStr patch
      let other ← decOptStr other
      pure (jok (.num (compareVersionO (mkSw prod ver patch) (match other with | none => .none | some s => .str s))))
  | "ver.compare.sw", [prod, ver, patch, over, opatch] => do
      let prod ← decStr prod; let ver ← decStr ver; let patch ← decOptStr patch
      let over ← decStr over; let opatch ← decOptStr opatch
      pure (jok (.num (compareVersionO (mkSw prod ver patch) (.soft (mkSw prod over opatch)))))
  | "ver.between", [prod, ver, patch, vfrom, vtill] => do
      let prod ← decStr prod; let ver ← decStr ver; let patch ← decOptStr patch
      let vfrom ← decStr vfrom; let vtill ← decStr vtill
      pure (jok (.bool (betweenVersions (mkSw prod ver patch) vfrom vtill)))
  | "ver.parse", [sw, comments] => do
      let sw ← decOptStr sw; let comments ← decOptStr comments
      pure (jok (J.ofOpt jsoftware (parse sw comments)))
  | "ver.os", [c] => do
      let c ← decOptStr c
      pure (jok (jostr (extractOs c)))
  | "ver.display", [vendor, prod, ver, patch, os, full] => do
      let vendor ← decOptStr vendor; let prod ← decStr prod; let ver ← decStr ver
      let patch ← decOptStr patch; let os ← decOptStr os; let full ← decBool full
      pure (jok (.str (display ⟨vendor, prod, ver, patch, os⟩ full)))
  | "ver.sshver", [d] => do
      let d ← decStr d
      let (p, v, c) := getSshVersion d
      pure (jok (.arr [.str p, .str v, .bool c]))
  | "ver.since", [vs] => do
      let vs ← decOptStrList vs
      pure (jok (jostr (getSinceText vs)))
  | "ver.filter", [prod, ver, patch, unknown, forServer, v0] => do
      -- product `~` = software None
      let prod ← decOptStr prod; let ver ← decStr ver; let patch ← decOptStr patch
      let unknown ← decBool unknown; let forServer ← decBool forServer; let v0 ← decStr v0
      pure (jok (.bool (versionFilter (prod.map fun p => mkSw p ver patch) unknown forServer v0)))
  | "ver.dbtf", [fs, sshv, a, b, c, d] => do
      -- get_ssh_timeframe over the generated databases: sshv 2: kex key enc mac; sshv 1: key enc aut (d ignored)
      let fs ← decOptBool fs
      let a ← decStrs a; let b ← decStrs b; let c ← decStrs c; let d ← decStrs d
      if sshv = "2" then pure (jok (jtf (sshTimeframe [] Gen.ssh2db (db2Items a b c d) fs)))
      else if sshv = "1" then
        pure (jok (jtf (sshTimeframe [] Gen.ssh1db [("key".toList, a), ("enc".toList, b), ("aut".toList, c)] fs)))
      else none
  | "ver.dbversions", [] =>
      pure (jok (.arr ((dbVersionsOf Gen.ssh2db ++ dbVersionsOf Gen.ssh1db).map fun (p, v) => .arr [.str p, .str v])))
  | "ver.tf", fs :: vss => do
      -- Timeframe().update(v, fs) for each v in order; answer: storage + get_from/get_till of the three products
      let fs ← decOptBool fs
      let vss ← vss.mapM decOptStrList
      let tf := vss.foldl (fun tf v => tfUpdate tf v fs) []
      pure (jok (jtf tf))
  | _, _ => none

end SshAudit.Driver
