"""C02 extension — the policy-audit path: `audit()`'s policy branch, `evaluate_policy`, `Policy._get_errors` / `_normalize_error_field` /
`get_name_and_version` / `is_outdated_builtin_policy` / `load_builtin_policy` / `list_builtin_policies`, `make_policy` (-M), `list_policies` (-L).

Theorems: SshAudit.Props.C02PolicyAudit over the model SshAudit.Model.PolicyAudit (built on Model/Policy.lean's `evaluate`).
Tie: the real main() in-process over fakenet peers with `-P <file>` / `-P "<built-in name>"`, text and -j / -jj, -b / -v / -l / -n, ports and IPv6 targets,
client policies with -c (a listening fake socket), passing and failing peers (every error kind), built-in policies incl. outdated versions; the policy object
and the peer the code hands to `evaluate_policy` are captured and given to the model (`policyaudit.run`), whose stdout and status are compared byte for
byte; `evaluate_policy` called directly for exotic names / Windows icons; `-M`, `-L`, `load_builtin_policy` on the whole table.
Oracle (no model involved): the verdict expected from an independent transcription of the README matching rules vs the exit status (0 iff passed, 3 iff
failed, never 2), vs the Result line / the JSON `passed` field / the number and content of the error entries actually printed; the same status under every
option set; host label by `ipaddress`; the outdated notice iff a higher version of the same built-in policy exists; a failed handshake: exit 1, no verdict.
"""
import contextlib
import copy
import hashlib
import io
import ipaddress
import json
import os
import re
import sys
import tempfile
import types

from common import Coverage, tstr, tstrs, tbool
from props.policy_common import policy_tokens, peer_tokens, violated, mk_policy, mk_kex, FakeBanner, STRICT_S, STRICT_C
import fakenet as fn

ID = 'C02'
MODULE = 'SshAudit.Props.C02PolicyAudit'
NAMESPACE = 'SshAudit.C02PolicyAudit'
THEOREMS = [
    # exit status: 0 iff passed, 3 iff failed, never 2, 1 without a parsed KEXINIT; = the README rules; free of every presentation input
    'status_zero_iff_passed', 'status_three_iff_failed', 'status_never_two', 'incomplete_status', 'status_zero_iff_satisfied', 'status_presentation_free', 'status_is_auditEnd',
    # the verdict as shown: JSON passed / errors, text Result line, text <-> JSON <-> error list, stdout in closed form
    'json_passed_and_errors', 'json_passed_iff_no_errors', 'entries_closed', 'stdout_closed', 'resultLine_verdict', 'text_entries_info', 'text_json_errors_agree', 'errors_block_iff_failed',
    # the error blocks: one per record, sorted as text, field + expected + actual; every value printed exactly as the record carries it (D39 repaired), distinct lists print distinct texts
    'error_blocks_perm', 'error_blocks_count', 'error_blocks_sorted', 'error_text_order_free', 'errBlock_plain', 'errBlock_optional',
    'normField_faithful', 'normField_single', 'normField_size', 'errBlock_plain_values', 'errBlock_optional_values', 'splitOn_join_comma', 'normField_injective',
    'mismatch_shows_different_values', 'normField_nil_vs_empty_name', 'normField_comma_names', 'd39_witnesses_shown_apart',
    # the outdated notice; labels; output options
    'outdated_adds_only_the_note', 'outdated_json_only_warnings', 'outdated_changes_nothing_else', 'host_line_port_22', 'host_line_other_port', 'host_line_ipv6_other_port', 'client_lines',
    'json_host_port', 'json_entries', 'text_entries_warn', 'text_entries_fail', 'passed_quiet_above_info', 'batch_verbose_debug_free', 'colours_off_plain',
    # broken handshakes: status 1 and no verdict line
    'verdict_lines_not_report_lines', 'incomplete_after_banner', 'incomplete_prints_no_verdict', 'incomplete_without_report',
    # -M, -L, the built-in table
    'make_status_zero', 'make_written', 'make_then_audit_exits_zero', 'list_status_zero', 'list_empty', 'loadBuiltin_spec', 'gen_entries_ok', 'gen_builtin_loads', 'outdated_iff_successor',
    'not_builtin', 'listBuiltin_perm', 'list_verbose_all']

HOW = 'harness/props/ext/C02_policyaudit.py: real main() / evaluate_policy over fakenet peers'
ANSI = re.compile('\x1b\\[0(;[0-9][0-9])?m')
NOTE = 'Note: A newer version of this built-in policy is available.  Use the -L option to view all available versions.'
WARNING = 'A newer version of this built-in policy is available.'
CLIENT_ADDR = ('192.0.2.9', 40000)


# ---------------------------------------------------------------- option sets

def cfg_of(opts):
    """option list -> the model's Cfg token `bvdcjJ:L`"""
    lvl = 0
    if '-l' in opts:
        lvl = {'info': 0, 'warn': 1, 'fail': 2}[opts[opts.index('-l') + 1]]
    j = '-j' in opts or '-jj' in opts
    return '%s%s0%s%s%s:%d' % (tbool('-b' in opts), tbool('-v' in opts), tbool('-n' not in opts), tbool(j), tbool('-jj' in opts), lvl)


OPTION_SETS = [[], ['-n'], ['-j'], ['-jj'], ['-b'], ['-n', '-b'], ['-v'], ['-n', '-v'], ['-l', 'warn'], ['-n', '-l', 'warn'], ['-l', 'fail'], ['-n', '-l', 'fail'],
               ['-n', '-v', '-l', 'warn'], ['-j', '-l', 'fail'], ['-jj', '-l', 'warn', '-b'], ['-v', '-j'], ['-n', '-b', '-v'], ['-b', '-l', 'fail'], ['-v', '-jj', '-n']]


def is_json(opts):
    return '-j' in opts or '-jj' in opts


def level_of(opts):
    return opts[opts.index('-l') + 1] if '-l' in opts else 'info'


# ---------------------------------------------------------------- policies as files

def policy_text(P):
    """a policy file for the policy dict P (keys as in BUILTIN_POLICIES plus name / version / client / subset / larger)"""
    L = ['# written by the harness', 'name = "%s"' % P['name'].replace('"', '\\"'), 'version = %s' % P['version']]
    if P.get('client'):
        L.append('client policy = true')
    if P.get('subset'):
        L.append('allow_algorithm_subset_and_reordering = true')
    if P.get('larger'):
        L.append('allow_larger_keys = true')
    if P.get('banner') is not None:
        L.append('banner = "%s"' % P['banner'].replace('"', '\\"'))
    for key, field in (('compressions', 'compressions'), ('host keys', 'host_keys'), ('optional host keys', 'optional_host_keys'), ('key exchanges', 'kex'),
                       ('ciphers', 'ciphers'), ('macs', 'macs')):
        if P.get(field) is not None:
            L.append('%s = %s' % (key, ', '.join(P[field])))
    if P.get('hostkey_sizes') is not None:
        d = {}
        for t, v in P['hostkey_sizes'].items():
            d[t] = {'hostkey_size': v['hostkey_size']}
            if v.get('ca_key_type', '') != '' and v.get('ca_key_size', 0) != 0:
                d[t].update({'ca_key_type': v['ca_key_type'], 'ca_key_size': v['ca_key_size']})
        L.append('host_key_sizes = %s' % json.dumps(d))
    if P.get('dh_modulus_sizes') is not None:
        L.append('dh_modulus_sizes = %s' % json.dumps(P['dh_modulus_sizes']))
    return '\n'.join(L) + '\n'


def norm_policy(P):
    """the policy dict with the size entries normalised the way the loader does (missing / trimmed CA fields -> '' / 0)"""
    p = {k: P.get(k) for k in ('banner', 'compressions', 'host_keys', 'optional_host_keys', 'kex', 'ciphers', 'macs', 'dh_modulus_sizes')}
    hs = P.get('hostkey_sizes')
    if hs is not None:
        p['hostkey_sizes'] = {}
        for t, v in hs.items():
            ct, cs = v.get('ca_key_type', ''), v.get('ca_key_size', 0)
            p['hostkey_sizes'][t] = {'hostkey_size': v['hostkey_size'], 'ca_key_type': ct, 'ca_key_size': cs}
    else:
        p['hostkey_sizes'] = None
    p['subset'], p['larger'] = bool(P.get('subset')), bool(P.get('larger'))
    return p


def struct_of(pol):
    """the fields of a real Policy object, as a policy dict"""
    hs = None
    if pol._hostkey_sizes is not None:
        hs = {k: {'hostkey_size': v['hostkey_size'], 'ca_key_type': v.get('ca_key_type', ''), 'ca_key_size': v.get('ca_key_size', 0)} for k, v in pol._hostkey_sizes.items()}
    return {'banner': pol._banner, 'compressions': pol._compressions, 'host_keys': pol._host_keys, 'optional_host_keys': pol._optional_host_keys, 'kex': pol._kex,
            'ciphers': pol._ciphers, 'macs': pol._macs, 'hostkey_sizes': hs, 'dh_modulus_sizes': None if pol._dh_modulus_sizes is None else dict(pol._dh_modulus_sizes),
            'subset': pol._allow_algorithm_subset_and_reordering, 'larger': pol._allow_larger_keys}


def peer_of(banner, kex):
    if kex is None:
        return {'banner_str': str(banner), 'has_kex': False, 'comp': [], 'key': [], 'kex': [], 'enc': [], 'mac': [], 'host_keys': {}, 'dh': {}}
    return {'banner_str': str(banner), 'has_kex': True, 'comp': list(kex.server.compression), 'key': list(kex.key_algorithms), 'kex': list(kex.kex_algorithms),
            'enc': list(kex.server.encryption), 'mac': list(kex.server.mac),
            'host_keys': {k: {'hostkey_size': v['hostkey_size'], 'ca_key_type': v['ca_key_type'], 'ca_key_size': v['ca_key_size']} for k, v in kex.host_keys().items()},
            'dh': dict(kex.dh_modulus_sizes())}


# ---------------------------------------------------------------- running the real main()

class ListenSock(fn.FakeSock):
    """the listening socket of a client audit: accept() hands out a connection to the scripted client"""
    def __init__(self, net, af, client, addr):
        super().__init__(net, af)
        self.client, self.addr = client, addr

    def bind(self, a):
        pass

    def listen(self, *a):
        pass

    def accept(self):
        c = fn.FakeSock(self.net, self.af)
        c.conn = self.client.new_conn(self.addr)
        return c, self.addr


@contextlib.contextmanager
def patched_all(net, client=None, stub_q=None, caps=None):
    """fakenet + (client audits) a listening socket and select + (stub_q) the host-key / GEX probes replaced by the sizes of stub_q +
    a recorder around evaluate_policy / make_policy"""
    from ssh_audit import ssh_audit as sa
    import ssh_audit.ssh_socket as ss
    with fn.patched(net):
        saved = {'eval': sa.evaluate_policy, 'make': sa.make_policy, 'hk': sa.HostKeyTest, 'gex': sa.GEXTest, 'sel': ss.select}
        if client is not None:
            m = ss.socket

            def factory(af=2, st=1, *a):
                if af == 2:
                    return ListenSock(net, af, client, CLIENT_ADDR)
                raise OSError('no IPv6 here')
            m.socket = factory
            sel = types.ModuleType('fakeselect')
            sel.select = lambda r, w, x, t=None: (list(r)[:1], [], [])
            ss.select = sel
        if stub_q is not None:
            class HK:
                @staticmethod
                def run(out, s, kex):
                    for k, v in stub_q['host_keys'].items():
                        kex.set_host_key(k, b'blob', v['hostkey_size'], v.get('ca_key_type', ''), v.get('ca_key_size', 0))

            class GX:
                @staticmethod
                def run(out, s, banner, kex):
                    for k, v in stub_q['dh'].items():
                        kex.set_dh_modulus_size(k, v)
            sa.HostKeyTest, sa.GEXTest = HK, GX
        if caps is not None:
            def wrapped(out, aconf, banner, client_host, kex=None):
                pol = aconf.policy
                caps.append({'what': 'evaluate', 'policy': struct_of(pol), 'nv': pol.get_name_and_version(), 'outdated': pol.is_outdated_builtin_policy(),
                             'peer': peer_of(banner, kex), 'client_host': client_host, 'host': aconf.host, 'port': aconf.port, 'client': aconf.client_audit})
                return saved['eval'](out, aconf, banner, client_host, kex=kex)

            def wrapped_make(aconf, banner, kex, client_host):
                from datetime import date
                caps.append({'what': 'make', 'peer': peer_of(banner, kex), 'client_host': client_host, 'host': aconf.host, 'port': aconf.port, 'client': aconf.client_audit,
                             'today': date.today().strftime('%Y/%m/%d'), 'path': aconf.policy_file})
                return saved['make'](aconf, banner, kex, client_host)
            sa.evaluate_policy, sa.make_policy = wrapped, wrapped_make
        try:
            yield
        finally:
            sa.evaluate_policy, sa.make_policy, sa.HostKeyTest, sa.GEXTest, ss.select = saved['eval'], saved['make'], saved['hk'], saved['gex'], saved['sel']


def run_main(argv, net, client=None, stub_q=None):
    """main() the way the wrapper script runs it; returns (exit code, stdout, stderr, captured calls)"""
    from ssh_audit import ssh_audit as sa, exitcodes
    import traceback
    fn.reset_dbs()
    caps = []
    no_color = os.environ.pop('NO_COLOR', None)      # the tool reads it; the option sets of this file decide about colours
    buf, ebuf = io.StringIO(), io.StringIO()
    old = sys.stdout, sys.stderr, sys.argv
    sys.stdout, sys.stderr = buf, ebuf
    sys.argv = ['ssh-audit.py'] + list(argv)
    try:
        with patched_all(net, client=client, stub_q=stub_q, caps=caps):
            try:
                try:
                    code = sa.main()
                except Exception:
                    code = exitcodes.UNKNOWN_ERROR
                    print(traceback.format_exc())
            except SystemExit as e:
                code = e.code
            except fn.HarnessHang as e:
                code = 'HANG'
                print('\nHARNESS: run aborted (%s)' % e)
    finally:
        sys.stdout, sys.stderr, sys.argv = old
        if no_color is not None:
            os.environ['NO_COLOR'] = no_color
    return code, buf.getvalue(), ebuf.getvalue(), caps


# ---------------------------------------------------------------- the documented rules with the values each error has to carry (independent of the model)

def size_bad(larger, actual, expected):
    return actual < expected if larger else actual != expected


def expected_records(P, q):
    """the error records a policy audit of peer q against policy P has to report, in the order the checks are documented
    (banner, compression, host keys, host-key sizes by type, key exchanges, ciphers, MACs, moduli by type)"""
    recs = []
    sub, larger = bool(P.get('subset')), bool(P.get('larger'))

    def add(f, req, opt, act):
        recs.append({'mismatched_field': f, 'expected_required': list(req), 'expected_optional': None if opt is None else list(opt), 'actual': list(act)})
    if P.get('banner') is not None and q['banner_str'] != P['banner']:
        add('Banner', [P['banner']], None, [q['banner_str']])
    if not q.get('has_kex', True):
        return recs
    if P.get('compressions') is not None and q['comp'] != P['compressions']:
        add('Compression', P['compressions'], None, q['comp'])
    if P.get('host_keys') is not None:
        opt = P.get('optional_host_keys')
        if sub:
            bad = any(x not in P['host_keys'] for x in q['key'])
        else:
            bad = [x for x in q['key'] if opt is None or x not in opt] != P['host_keys']
        if bad:
            add('Host keys', P['host_keys'], opt, q['key'])
    if P.get('hostkey_sizes') is not None:
        for t in sorted(P['hostkey_sizes']):
            e = P['hostkey_sizes'][t]
            if t not in q['host_keys']:
                continue
            a = q['host_keys'][t]
            if size_bad(larger, a['hostkey_size'], e['hostkey_size']):
                add('Host key (%s) sizes' % t, [str(e['hostkey_size'])], None, [str(a['hostkey_size'])])
            if e.get('ca_key_type', '') != '' and e.get('ca_key_size', 0) > 0:
                if a.get('ca_key_type', '') != e['ca_key_type']:
                    add('CA signature type', [e['ca_key_type']], None, [a.get('ca_key_type', '')])
                elif size_bad(larger, a.get('ca_key_size', 0), e['ca_key_size']):
                    add('CA signature size (%s)' % a['ca_key_type'], [str(e['ca_key_size'])], None, [str(a['ca_key_size'])])
    if P.get('kex') is not None:
        if sub:
            if any(x not in P['kex'] for x in q['kex']):
                add('Key exchanges', P['kex'], None, q['kex'])
            if any(m in P['kex'] and m not in q['kex'] for m in (STRICT_S, STRICT_C)):
                add('Key exchanges', P['kex'], None, q['kex'])
        elif q['kex'] != P['kex']:
            add('Key exchanges', P['kex'], None, q['kex'])
    for f, pk, qk in (('Ciphers', 'ciphers', 'enc'), ('MACs', 'macs', 'mac')):
        if P.get(pk) is not None:
            if (any(x not in P[pk] for x in q[qk]) if sub else q[qk] != P[pk]):
                add(f, P[pk], None, q[qk])
    if P.get('dh_modulus_sizes') is not None:
        for t in sorted(P['dh_modulus_sizes']):
            if t in q['dh'] and size_bad(larger, q['dh'][t], P['dh_modulus_sizes'][t]):
                add('Group exchange (%s) modulus sizes' % t, [str(P['dh_modulus_sizes'][t])], None, [str(q['dh'][t])])
    return recs


def rec_key(r, json_form):
    """comparison key of one record: field, expected, actual (an absent optional list may be written as [''] / [] / null)"""
    opt = r.get('expected_optional')
    if opt in (None, [], ['']):
        opt = None
    return json.dumps([r['mismatched_field'], r['expected_required'], opt, r['actual']])


def host_label(host, port):
    if port == 22:
        return host
    try:
        if ipaddress.ip_address(host).version == 6:
            return '[%s]:%d' % (host, port)
    except ValueError:
        pass
    return '%s:%d' % (host, port)


def parse_error_blocks(text):
    """the blocks of the text form's "Errors:" section -> [{'field', 'expected': [(label, value)…], 'actual'}]"""
    blocks, cur = [], None
    for line in text.split('\n'):
        if line.startswith('  * ') and line.endswith(' did not match.'):
            cur = {'field': line[4:-len(' did not match.')], 'expected': [], 'actual': None}
            blocks.append(cur)
        elif cur is not None and line.startswith('    - Expected'):
            label, _, val = line[len('    - '):].partition(': ')
            cur['expected'].append((label, val))
        elif cur is not None and line.startswith('    - Actual:'):
            cur['actual'] = line[len('    - Actual:'):].lstrip(' ')
    return blocks


def plain_names(P, q):
    """can the text form be re-read unambiguously? (no name with ', ' / ': ' / newline / outer blanks; empty lists print as nothing)"""
    vals = [q['banner_str'], P.get('banner') or '']
    for l in (P.get('compressions'), P.get('host_keys'), P.get('optional_host_keys'), P.get('kex'), P.get('ciphers'), P.get('macs'), q['comp'], q['key'], q['kex'], q['enc'], q['mac']):
        vals += list(l or [])
    return all(v == v.strip() and '\n' not in v and ', ' not in v and ': ' not in v for v in vals)


def oracle_run(inp, opts, code, out, P, q, label, nv, newer_exists, client_ip=None):
    """the property's clauses on one finished policy audit (stdout `out`, exit `code`); P / q: the policy and the peer as the harness built them"""
    fails = []

    def fail(kind, observed, expected, **extra):
        fails.append({'sig': dict({'kind': kind}, **extra), 'input': dict(inp, opts=list(opts)), 'observed': observed, 'expected': expected, 'how': HOW})
    want = expected_records(P, q)
    if [r['mismatched_field'] for r in want] != violated(P, q):
        fail('harness_rule_transcriptions_disagree', [r['mismatched_field'] for r in want], violated(P, q))
    exp_pass = not want
    exp_code = 0 if exp_pass else 3
    if code != exp_code:
        fail('policy_exit_vs_verdict', {'exit': code, 'stdout': out[:400]}, {'exit': exp_code, 'violated': [r['mismatched_field'] for r in want]}, mode='json' if is_json(opts) else 'text')
    plain = ANSI.sub('', out)
    if is_json(opts):
        try:
            doc = json.loads(out)
        except ValueError:
            fail('policy_json_not_one_document', out[:300], 'one JSON document on stdout')
            return fails
        if not isinstance(doc, dict) or set(doc) != {'host', 'port', 'policy', 'passed', 'errors', 'warnings'}:
            fail('policy_json_keys', sorted(doc) if isinstance(doc, dict) else str(type(doc)), ['errors', 'host', 'passed', 'policy', 'port', 'warnings'])
            return fails
        if doc['passed'] is not exp_pass:
            fail('policy_json_passed_vs_verdict', doc['passed'], exp_pass)
        if (doc['passed'] is True) != (code == 0) or (doc['passed'] is False) != (code == 3):
            fail('policy_json_passed_vs_exit', {'passed': doc['passed'], 'exit': code}, 'passed: true with exit 0, false with exit 3')
        if (len(doc['errors']) == 0) != (doc['passed'] is True):
            fail('policy_json_errors_vs_passed', {'passed': doc['passed'], 'errors': len(doc['errors'])}, 'passed iff the error list is empty')
        got = sorted(rec_key(e, True) for e in doc['errors']) if all(isinstance(e, dict) and {'mismatched_field', 'expected_required', 'actual'} <= set(e) for e in doc['errors']) else None
        if got != sorted(rec_key(r, True) for r in want):
            fail('policy_json_error_entries', doc['errors'], want)
        if doc['policy'] != nv:
            fail('policy_json_name', doc['policy'], nv)
        if not inp.get('client') and (doc['host'], doc['port']) != (inp['host'], inp['port']):
            fail('policy_json_target', [doc['host'], doc['port']], [inp['host'], inp['port']])
        if doc['warnings'] != ([WARNING] if newer_exists else []):
            fail('policy_outdated_notice', doc['warnings'], [WARNING] if newer_exists else [], mode='json')
        return fails
    lines = plain.split('\n')
    says_pass = any(l.endswith('Passed') for l in lines)
    says_fail = any(l.endswith('Failed!') for l in lines)
    if (says_pass and code != 0) or (says_fail and code != 3) or (says_pass and says_fail):
        fail('policy_text_verdict_vs_exit', {'passed_shown': says_pass, 'failed_shown': says_fail, 'exit': code}, 'Passed only with exit 0, Failed! only with exit 3')
    lvl = level_of(opts)
    if lvl == 'info':
        res = [l for l in lines if l.startswith('Result:')]
        if len(res) != 1 or (res[0].endswith('Passed') is not exp_pass) or (res[0].endswith('Failed!') is exp_pass):
            fail('policy_text_result_vs_verdict', res, 'one Result line saying %s' % ('Passed' if exp_pass else 'Failed!'))
        first = ('Client IP: %s' % client_ip) if inp.get('client') else ('Host:   %s' % label)
        if first not in lines:
            fail('policy_text_target_label', lines[:3], first)
        if not any(l.startswith('Policy:') and l[len('Policy:'):].strip() == nv for l in lines):
            fail('policy_text_name', [l for l in lines if l.startswith('Policy:')], nv)
    if lvl in ('info', 'warn'):
        has_block = '\nErrors:\n' in '\n' + plain
        if has_block != (not exp_pass):
            fail('policy_text_errors_block_vs_verdict', has_block, not exp_pass)
        if has_block:
            blocks = parse_error_blocks(plain[plain.index('Errors:\n') + len('Errors:\n'):])
            if len(blocks) != len(want):
                fail('policy_text_error_count', {'blocks': [b['field'] for b in blocks]}, [r['mismatched_field'] for r in want])
            elif plain_names(P, q):
                def bkey(field, req, opt, act):
                    return json.dumps([field, req, opt, act])
                got = sorted(bkey(b['field'], b['expected'][0][1] if b['expected'] else None, b['expected'][1][1] if len(b['expected']) > 1 else None, b['actual']) for b in blocks)
                exp = sorted(bkey(r['mismatched_field'], ', '.join(r['expected_required']), ', '.join(r['expected_optional']) if r['expected_optional'] not in (None, [], ['']) else None,
                                  ', '.join(r['actual'])) for r in want)
                if got != exp:
                    rewritten = any(len(l) == 1 and re.fullmatch(r'\s*[+-]?[0-9][0-9_]*\s*', l[0]) and l[0] != str(int(l[0])) for r in want for l in (r['expected_required'], r['actual'], r['expected_optional'] or []))
                    if rewritten:
                        fail('policy_text_error_value_not_as_given', got, exp, form='single value that int() accepts')
                    else:
                        fail('policy_text_error_entries', got, exp)
        if (NOTE in lines) != bool(newer_exists):
            fail('policy_outdated_notice', NOTE in lines, bool(newer_exists), mode='text')
    return fails


# ---------------------------------------------------------------- one policy audit through main()

def builtin_dict(name):
    from ssh_audit.builtin_policies import BUILTIN_POLICIES
    b = BUILTIN_POLICIES[name]
    P = {k: b[k] for k in ('banner', 'compressions', 'host_keys', 'optional_host_keys', 'kex', 'ciphers', 'macs', 'hostkey_sizes', 'dh_modulus_sizes')}
    P.update({'name': name[:name.rindex(' (version ')], 'version': b['version'], 'client': not b['server_policy'], 'subset': False, 'larger': False})
    return P


def newer_version_exists(name):
    """is there a built-in policy of the same base name with a higher version? (by the names of the table only)"""
    from ssh_audit.builtin_policies import BUILTIN_POLICIES
    m = re.fullmatch(r'(.*) \(version (\d+)\)', name)
    if not m:
        return False
    for other in BUILTIN_POLICIES:
        mo = re.fullmatch(r'(.*) \(version (\d+)\)', other)
        if mo and mo.group(1) == m.group(1) and int(mo.group(2)) > int(m.group(2)):
            return True
    return False


def target_args(case):
    """(argv part naming the target, host, port) of a case"""
    if case.get('client'):
        port = case.get('port') or 2222
        return (['-c'] + (['-p', str(port)] if case.get('port') else [])), '', port
    host, port = case['host'], case.get('port') or 22
    form = case.get('target_form', 'plain')
    if form == 'opt-p':
        return ['-p', str(port), host], host, port
    if form == 'in-target':
        return [('[%s]:%d' % (host, port)) if ':' in host else '%s:%d' % (host, port)], host, port
    return [host], host, 22


def server_of(case):
    pr = case['peer']
    if pr['how'] == 'stub':
        q = pr['q']
        return fn.Server(banner=q['banner_str'].encode(), kexinit_payload=fn.kexinit(q['kex'], q['key'], q['enc'], q['mac'], comp=q['comp'], enc_c=pr.get('enc_c'), mac_c=pr.get('mac_c')))
    from props.C17 import policy_server
    return policy_server(pr['srv'])


def vmsg_of(case, host, port):
    if case.get('client'):
        return 'Listening for client connection on port %d...' % port
    v6 = False
    try:
        v6 = ipaddress.ip_address(host).version == 6
    except ValueError:
        pass
    return 'Starting audit of %s:%d...' % ('[%s]' % host if v6 else host, port)


def run_main_case(case, opts_list, tmpdir):
    """every option set of one case through the real main(); returns [(opts, code, stdout, stderr, captures)], (host, port), P, policy argument"""
    targs, host, port = target_args(case)
    if case.get('builtin'):
        parg = case['builtin']
        P = builtin_dict(parg)
    else:
        P = case['P']
        parg = os.path.join(tmpdir, 'policy_%s.txt' % hashlib.sha1(json.dumps(P, sort_keys=True).encode()).hexdigest()[:12])
        with open(parg, 'w', encoding='utf-8') as f:
            f.write(policy_text(P))
    runs = []
    for opts in opts_list:
        srv = server_of(case)
        stub = case['peer']['q'] if (case['peer']['how'] == 'stub' and not case.get('client')) else None
        if case.get('client'):
            code, out, err, caps = run_main(['--skip-rate-test', '-P', parg] + list(opts) + targs, fn.FakeNet({}), client=srv)
        else:
            code, out, err, caps = run_main(['--skip-rate-test', '-P', parg] + list(opts) + targs, fn.FakeNet({host: srv}), stub_q=stub)
        runs.append((opts, code, out, err, caps))
    return runs, (host, port), P, parg


def model_line(cfgs, vmsg, cap, windows=False):
    return 'policyaudit.run %s %s %s %d %s %s %s %s %s %s %s' % (
        ','.join(cfgs), tstrs([vmsg]), tstr(cap['host']), cap['port'], tbool(cap['client']), tstr(cap['client_host'] or ''), tbool(windows),
        tstr(cap['nv']), tbool(cap['outdated']), policy_tokens(cap['policy']), peer_tokens(cap['peer']))


def in_model(cap):
    """the structured model holds sizes as naturals and text as Unicode scalar values"""
    def nat(x):
        return isinstance(x, int) and not isinstance(x, bool) and x >= 0
    for d in (cap['policy'].get('hostkey_sizes') or {}, cap['peer']['host_keys']):
        for v in d.values():
            if not (nat(v['hostkey_size']) and nat(v.get('ca_key_size', 0)) and isinstance(v.get('ca_key_type', ''), str)):
                return False
    return all(nat(v) for d in (cap['policy'].get('dh_modulus_sizes') or {}, cap['peer']['dh']) for v in d.values())


def check_main_case(case, opts_list, tmpdir, lines, expect, failures, cov, tags):
    """runs one case, applies the oracle, queues the model comparison"""
    runs, (host, port), P, parg = run_main_case(case, opts_list, tmpdir)
    Pn = norm_policy(P)
    inp = dict(case, host=host, port=port)
    nv = '%s (version %s)' % (P['name'], P['version'])
    newer = bool(case.get('builtin')) and newer_version_exists(case['builtin'])
    codes = {}
    cap0 = None
    for opts, code, out, err, caps in runs:
        ev = [c for c in caps if c['what'] == 'evaluate']
        if len(ev) != 1:
            failures.append({'sig': {'kind': 'policy_audit_did_not_evaluate'}, 'input': dict(inp, opts=list(opts)), 'observed': {'exit': code, 'stdout': out[:400], 'stderr': err[:200]},
                             'expected': 'a completed handshake followed by one evaluate_policy call', 'how': HOW})
            continue
        cap = ev[0]
        # the peer the oracle judges: the lists as the harness put them on the wire; sizes as injected (stub) or as the probes measured them (real)
        q = cap['peer'] if case['peer']['how'] == 'real' or case.get('client') else dict(case['peer']['q'], has_kex=True)
        if case['peer']['how'] == 'stub' and not case.get('client'):
            qc = {k: cap['peer'][k] for k in ('banner_str', 'comp', 'key', 'kex', 'enc', 'mac', 'host_keys', 'dh')}
            qi = {k: case['peer']['q'][k] for k in qc}
            if json.dumps(qc, sort_keys=True) != json.dumps(qi, sort_keys=True):
                expect.append(('harness', {'captured': qc, 'intended': qi}, None))
                lines.append('policyaudit.norm _')
        failures.extend(oracle_run(inp, opts, code, out, Pn, q, host_label(host, port), nv, newer, client_ip=CLIENT_ADDR[0]))
        codes[json.dumps(opts)] = code
        cov.add(('main', json.dumps(case, sort_keys=True, default=str), tuple(opts)), True,
                tags=tags + ['verdict-' + ('passed' if code == 0 else 'failed' if code == 3 else str(code)), 'form-' + ('json' if is_json(opts) else 'text-' + level_of(opts))]
                + sorted(set('error:' + re.sub(r'\(.*\)', '(…)', r_['mismatched_field']) for r_ in expected_records(Pn, q))),
                sample={'policy': parg if case.get('builtin') else P.get('name'), 'args': list(opts), 'exit': code, 'stdout_head': out[:160]} if len(cov.samples) < 3 else None)
        if cap0 is None:
            cap0 = cap
        elif json.dumps(cap, sort_keys=True, default=str) != json.dumps(cap0, sort_keys=True, default=str):
            expect.append(('harness', {'captures differ between option sets': [cap0, cap]}, None))
            lines.append('policyaudit.norm _')
    if len(set(codes.values())) > 1:
        failures.append({'sig': {'kind': 'policy_status_depends_on_options'}, 'input': inp, 'observed': codes, 'expected': 'one exit status under every option set', 'how': HOW})
    if cap0 is not None and in_model(cap0):
        lines.append(model_line([cfg_of(o) for o, *_ in runs], vmsg_of(case, host, port), cap0))
        expect.append(('run', [(o, c, out) for o, c, out, _, _ in runs], cap0))


def compare_runs(line, m, want):
    """differences between the model's policy audit and the implementation's"""
    d = []
    if 'ok' not in m:
        return ['model error %r' % (m,)]
    k = m['ok']
    for i, (opts, code, out) in enumerate(want):
        r = k['runs'][i]
        if r['status'] != code:
            d.append('%s status: model %r impl %r' % (opts, r['status'], code))
        if r['text'] != out:
            j = next((j for j, (a, b) in enumerate(zip(r['text'], out)) if a != b), min(len(r['text']), len(out)))
            d.append('%s stdout differs at %d: model %r impl %r' % (opts, j, r['text'][max(0, j - 30):j + 60], out[max(0, j - 30):j + 60]))
        if r['entries'] != r['closed']:
            d.append('%s model: executed entries differ from the closed form' % (opts,))
    return d


# ---------------------------------------------------------------- generators

GEX = 'diffie-hellman-group-exchange-sha256'
CERT_RSA = 'rsa-sha2-512-cert-v01@openssh.com'


def base_q():
    return {'banner_str': 'SSH-2.0-OpenSSH_9.6', 'comp': ['none', 'zlib@openssh.com'], 'key': ['ssh-ed25519', 'rsa-sha2-512', CERT_RSA],
            'kex': ['curve25519-sha256', GEX, STRICT_S], 'enc': ['chacha20-poly1305@openssh.com', 'aes256-gcm@openssh.com', 'aes256-ctr'],
            'mac': ['hmac-sha2-256-etm@openssh.com', 'umac-128-etm@openssh.com'],
            'host_keys': {'ssh-ed25519': {'hostkey_size': 256, 'ca_key_type': '', 'ca_key_size': 0}, 'rsa-sha2-512': {'hostkey_size': 3072, 'ca_key_type': '', 'ca_key_size': 0},
                          CERT_RSA: {'hostkey_size': 3072, 'ca_key_type': 'ssh-rsa', 'ca_key_size': 4096}},
            'dh': {GEX: 3072}}


def policy_for(q, name='Harness policy', version='1', **kw):
    P = {'name': name, 'version': version, 'client': False, 'subset': False, 'larger': False, 'banner': None, 'compressions': None, 'host_keys': list(q['key']),
         'optional_host_keys': None, 'kex': list(q['kex']), 'ciphers': list(q['enc']), 'macs': list(q['mac']),
         'hostkey_sizes': copy.deepcopy(q['host_keys']) if q['host_keys'] else None, 'dh_modulus_sizes': dict(q['dh']) if q['dh'] else None}
    P.update(kw)
    return P


def stub_case(P, q, **kw):
    c = {'kind': 'main', 'P': P, 'peer': {'how': 'stub', 'q': q}, 'host': '10.0.0.5'}
    c.update(kw)
    return c


def corner_cases():
    """one case per error kind and per branch of the text / JSON forms (tag, case)"""
    out = []
    q = base_q()
    out.append(('pass', stub_case(policy_for(q), q)))
    out.append(('pass-all-fields', stub_case(policy_for(q, banner=q['banner_str'], compressions=list(q['comp']), optional_host_keys=['sk-ssh-ed25519@openssh.com']), q)))

    def drift(tag, **mods):
        q2 = copy.deepcopy(q)
        for k, v in mods.items():
            q2[k] = v
        out.append((tag, stub_case(policy_for(q, banner=q['banner_str'], compressions=list(q['comp'])), q2)))
    drift('err-banner', banner_str='SSH-2.0-OpenSSH_9.7')
    drift('err-compression', comp=['none'])
    drift('err-hostkeys', key=['ssh-ed25519', 'rsa-sha2-512'])
    drift('err-kex', kex=[GEX, 'curve25519-sha256', STRICT_S])
    drift('err-ciphers', enc=q['enc'] + ['aes128-cbc'])
    drift('err-macs', mac=[''])
    drift('err-dh', dh={GEX: 2048})
    hk = copy.deepcopy(q['host_keys'])
    hk['rsa-sha2-512']['hostkey_size'] = 2048
    drift('err-hostkey-size', host_keys=hk)
    hk = copy.deepcopy(q['host_keys'])
    hk[CERT_RSA]['ca_key_type'] = 'ssh-ed25519'
    hk[CERT_RSA]['ca_key_size'] = 256
    drift('err-ca-type', host_keys=hk)
    hk = copy.deepcopy(q['host_keys'])
    hk[CERT_RSA]['ca_key_size'] = 2048
    drift('err-ca-size', host_keys=hk)
    drift('err-everything', banner_str='SSH-2.0-dropbear_2022.83', comp=['zlib'], key=['ssh-rsa'], kex=['diffie-hellman-group1-sha1'], enc=['3des-cbc'], mac=['hmac-md5'],
          host_keys={'ssh-ed25519': {'hostkey_size': 255, 'ca_key_type': '', 'ca_key_size': 0}, CERT_RSA: {'hostkey_size': 1024, 'ca_key_type': 'ssh-dss', 'ca_key_size': 1024}}, dh={GEX: 1024})
    # optional host keys: the two-line form of the expected value
    q2 = copy.deepcopy(q)
    q2['key'] = ['ssh-ed25519', 'sk-ssh-ed25519@openssh.com', 'ssh-dss']
    out.append(('err-hostkeys-optional', stub_case(policy_for(q, optional_host_keys=['sk-ssh-ed25519@openssh.com', 'ssh-ed25519-cert-v01@openssh.com']), q2)))
    out.append(('pass-hostkeys-optional', stub_case(policy_for(q, optional_host_keys=['sk-ssh-ed25519@openssh.com']), dict(q, key=['ssh-ed25519', 'sk-ssh-ed25519@openssh.com', 'rsa-sha2-512', CERT_RSA]))))
    # subset mode: a subset passes, a foreign name fails, the strict-kex marker stays mandatory (two "Key exchanges" errors at once)
    out.append(('pass-subset', stub_case(policy_for(q, subset=True), dict(q, enc=['aes256-ctr'], mac=list(reversed(q['mac'])), kex=[STRICT_S, 'curve25519-sha256']))))
    out.append(('err-subset-foreign', stub_case(policy_for(q, subset=True, optional_host_keys=['x-opt']), dict(q, enc=['aes256-ctr', 'aes128-cbc'], key=['ssh-ed25519', 'ssh-dss']))))
    out.append(('err-subset-marker-twice', stub_case(policy_for(q, subset=True), dict(q, kex=['curve25519-sha256', 'diffie-hellman-group14-sha1']))))
    # larger keys
    hk = copy.deepcopy(q['host_keys'])
    hk['rsa-sha2-512']['hostkey_size'] = 4096
    hk[CERT_RSA]['ca_key_size'] = 8192
    out.append(('pass-larger', stub_case(policy_for(q, larger=True), dict(q, host_keys=hk, dh={GEX: 4096}))))
    out.append(('err-larger-exact-mode', stub_case(policy_for(q), dict(q, host_keys=hk, dh={GEX: 4096}))))
    hk = copy.deepcopy(q['host_keys'])
    hk['ssh-ed25519']['hostkey_size'] = 255
    out.append(('err-larger-smaller', stub_case(policy_for(q, larger=True, subset=True), dict(q, host_keys=hk, dh={GEX: 3071}))))
    # sizes whose decimal forms sort differently as text and as numbers: the text form sorts blocks as text
    out.append(('err-sort-order', stub_case(policy_for(q, hostkey_sizes={'b-key': {'hostkey_size': 1}, 'a-key': {'hostkey_size': 1}, 'B-key': {'hostkey_size': 1}}, dh_modulus_sizes={'z': 1, 'A': 1}),
                                            dict(q, host_keys={'b-key': {'hostkey_size': 2, 'ca_key_type': '', 'ca_key_size': 0}, 'a-key': {'hostkey_size': 10, 'ca_key_type': '', 'ca_key_size': 0},
                                                               'B-key': {'hostkey_size': 3, 'ca_key_type': '', 'ca_key_size': 0}}, dh={'z': 2, 'A': 3}, mac=['hmac-sha1']))))
    # labels: port, IPv6, port inside the target
    out.append(('label-port', stub_case(policy_for(q), q, port=2222, target_form='opt-p')))
    out.append(('label-port-in-target', stub_case(policy_for(q), dict(q, enc=['aes128-ctr']), port=2022, target_form='in-target')))
    out.append(('label-ipv6', stub_case(policy_for(q), q, host='2001:db8::7')))
    out.append(('label-ipv6-port', stub_case(policy_for(q), dict(q, mac=['hmac-sha1']), host='::1', port=2222, target_form='opt-p')))
    out.append(('label-ipv6-port-in-target', stub_case(policy_for(q), q, host='fe80::1', port=22, target_form='in-target')))
    out.append(('label-port-22-explicit', stub_case(policy_for(q), q, port=22, target_form='opt-p')))
    # policy names / versions
    out.append(('name-odd', stub_case(policy_for(q, name='Política "interna" (v2) — ñ', version='2024-05 rc1'), q)))
    out.append(('name-like-builtin', stub_case(policy_for(q, name='Hardened OpenSSH Server v9.9', version='1'), dict(q, enc=['aes128-ctr']))))
    # client policies (-c): the peer is the connecting client; no host-key / modulus probes
    qc = {'banner_str': 'SSH-2.0-OpenSSH_9.6', 'comp': ['none', 'zlib@openssh.com', 'zlib'], 'key': ['ssh-ed25519-cert-v01@openssh.com', 'ssh-ed25519', 'rsa-sha2-512'],
          'kex': ['curve25519-sha256', 'ext-info-c', STRICT_C], 'enc': ['chacha20-poly1305@openssh.com', 'aes256-ctr'], 'mac': ['hmac-sha2-256-etm@openssh.com'], 'host_keys': {}, 'dh': {}}
    out.append(('client-pass', stub_case(policy_for(qc, client=True, name='Client policy'), qc, client=True)))
    out.append(('client-fail', stub_case(policy_for(qc, client=True, name='Client policy', optional_host_keys=['x']), dict(qc, key=['ssh-rsa'], kex=['curve25519-sha256']), client=True, port=2200)))
    out.append(('client-subset-marker', stub_case(policy_for(qc, client=True, subset=True), dict(qc, kex=['curve25519-sha256']), client=True)))
    return out


def int_like_cases():
    """names that int() accepts in a non-canonical spelling: the text form has to print the name, not the integer (D39)"""
    q = base_q()
    return [('int-like-compression', stub_case(policy_for(q, compressions=['007']), dict(q, comp=['7']))),
            ('int-like-mac', stub_case(policy_for(q, macs=['1_0']), dict(q, mac=['+10']))),
            ('int-like-banner-and-size-names', stub_case(policy_for(q, ciphers=['-0'], macs=['00'], compressions=['1e3', '0x10']), dict(q, enc=['0'], mac=['0'], comp=['1e3', '0x10', '٣'])))]


def pick_names(r, cat, db, k):
    names = [n for n in db[cat] if not n.endswith('-*')]
    return r.sample(names, min(k, len(names)))


def gen_q(r, db):
    q = {'banner_str': r.choice(['SSH-2.0-OpenSSH_9.6', 'SSH-2.0-OpenSSH_8.9p1 Ubuntu-3ubuntu0.6', 'SSH-2.0-dropbear_2022.83', 'SSH-2.0-libssh_0.10.4', 'SSH-1.99-OpenSSH_7.4']),
         'comp': r.choice([['none'], ['none', 'zlib@openssh.com'], ['zlib@openssh.com', 'zlib', 'none']]),
         'key': pick_names(r, 'key', db, r.choice([1, 2, 3, 5])), 'kex': pick_names(r, 'kex', db, r.choice([1, 2, 4, 7])),
         'enc': pick_names(r, 'enc', db, r.choice([1, 2, 4, 6])), 'mac': pick_names(r, 'mac', db, r.choice([1, 2, 3, 5])), 'host_keys': {}, 'dh': {}}
    if r.random() < 0.3:
        q['kex'].append(STRICT_S)
    if r.random() < 0.06:
        q[r.choice(['mac', 'enc'])] = ['']              # an empty name-list on the wire
    for k in q['key']:
        if r.random() < 0.7:
            ca = r.choice([('', 0), ('', 0), ('ssh-rsa', 4096), ('ssh-ed25519', 256), ('ssh-rsa', 2048)]) if '-cert-' in k else ('', 0)
            q['host_keys'][k] = {'hostkey_size': r.choice([256, 1024, 2048, 3072, 4096, 999, 10000]), 'ca_key_type': ca[0], 'ca_key_size': ca[1]}
    for k in q['kex']:
        if 'group-exchange' in k:
            q['dh'][k] = r.choice([1024, 2048, 3072, 4096, 8192])
    return q


def gen_case(r, db):
    """a policy made for one peer, audited against that peer or a near variant of it"""
    q = gen_q(r, db)
    P = policy_for(q, name=r.choice(['Harness policy', 'Site baseline 2024', 'x']), version=r.choice(['1', '7', '2.1']),
                   subset=r.random() < 0.35, larger=r.random() < 0.35)
    if r.random() < 0.3:
        P['banner'] = q['banner_str']
    if r.random() < 0.3:
        P['compressions'] = list(q['comp'])
    if r.random() < 0.3:
        P['optional_host_keys'] = r.choice([['sk-ssh-ed25519@openssh.com'], [q['key'][-1]], ['a-opt', 'b-opt']])
        if P['optional_host_keys'] == [q['key'][-1]] and not P['subset'] and len(q['key']) > 1:
            P['host_keys'] = [k for k in P['host_keys'] if k != q['key'][-1]]
    for f in ('host_keys', 'kex', 'ciphers', 'macs', 'hostkey_sizes', 'dh_modulus_sizes'):
        if r.random() < 0.08:
            P[f] = None
    q2 = copy.deepcopy(q)
    n = r.choice([0, 0, 1, 1, 2, 4])
    for _ in range(n):
        k = r.choice(['banner', 'comp', 'key', 'kex', 'enc', 'mac', 'hksize', 'ca', 'dh', 'shrink', 'grow'])
        if k == 'banner':
            q2['banner_str'] = 'SSH-2.0-OpenSSH_9.9'
        elif k == 'comp':
            q2['comp'] = list(reversed(q2['comp'])) if len(q2['comp']) > 1 else ['zlib']
        elif k in ('key', 'kex', 'enc', 'mac'):
            how = r.choice(['drop', 'add', 'swap'])
            l = list(q2[k])
            if how == 'drop' and len(l) > 1:
                l.pop(r.randrange(len(l)))
            elif how == 'add':
                l.insert(r.randint(0, len(l)), r.choice(pick_names(r, k, db, 3) + ['zz-extra@example.com']))
            elif len(l) > 1:
                l[0], l[-1] = l[-1], l[0]
            q2[k] = l
        elif k == 'hksize' and q2['host_keys']:
            t = r.choice(sorted(q2['host_keys']))
            q2['host_keys'][t]['hostkey_size'] += r.choice([-1, 1, 1024])
        elif k == 'ca' and q2['host_keys']:
            t = r.choice(sorted(q2['host_keys']))
            if r.random() < 0.5:
                q2['host_keys'][t]['ca_key_size'] += r.choice([-1, 1, 2048])
            else:
                q2['host_keys'][t]['ca_key_type'] = r.choice(['ssh-ed25519', 'ssh-rsa', 'ecdsa-sha2-nistp256'])
        elif k == 'dh' and q2['dh']:
            t = r.choice(sorted(q2['dh']))
            q2['dh'][t] += r.choice([-1, 1, 1024])
        elif k == 'shrink':
            for f in ('enc', 'mac'):
                if len(q2[f]) > 1:
                    q2[f] = q2[f][:-1]
        elif k == 'grow':
            for t in q2['host_keys']:
                q2['host_keys'][t]['hostkey_size'] += 1024
            for t in q2['dh']:
                q2['dh'][t] += 1024
    c = stub_case(P, q2)
    k = r.random()
    if k < 0.15:
        c.update(port=r.choice([2222, 22, 65535, 1]), target_form=r.choice(['opt-p', 'in-target']))
    elif k < 0.25:
        c.update(host=r.choice(['::1', '2001:db8::1:2']))
        if r.random() < 0.6:
            c.update(port=r.choice([2222, 22, 8022]), target_form=r.choice(['opt-p', 'in-target']))
    return c


# ---------------------------------------------------------------- stages

def stage_main(ctx, cov, failures, lines, expect, tmpdir):
    """(1) policy files against stubbed-probe peers: every corner case under every option set, generated cases under a sample of option sets"""
    from ssh_audit.ssh2_kexdb import SSH2_KexDB
    r = ctx.rng
    db = SSH2_KexDB.MASTER_DB
    # D39 (repaired): names that int() accepts in a non-canonical spelling were printed as the integer; they have to be shown as given
    for tag, case in int_like_cases():
        check_main_case(case, [['-n'], [], ['-j'], ['-n', '-l', 'warn']], tmpdir, lines, expect, failures, cov, ['file-policy', 'corner:' + tag])
    for tag, case in corner_cases():
        opts_list = OPTION_SETS if (ctx.tier == 'thorough' or tag.startswith(('err-everything', 'pass-all', 'client-fail', 'err-hostkeys-optional'))) else \
            [[], ['-j']] + r.sample(OPTION_SETS[1:2] + OPTION_SETS[3:], 4)
        check_main_case(case, opts_list, tmpdir, lines, expect, failures, cov, ['file-policy', 'corner:' + tag] + (['client-audit'] if case.get('client') else []))
    for _ in range(ctx.scale(380, 5000)):
        case = gen_case(r, db)
        opts_list = [r.choice([[], ['-n']]), r.choice([['-j'], ['-jj']])] + r.sample(OPTION_SETS[4:], 2)
        check_main_case(case, opts_list, tmpdir, lines, expect, failures, cov, ['file-policy', 'generated'])


DRIFTS = ['none', 'ciphers', 'macs', 'kex-order', 'hostkeys', 'rsa-size', 'gex-size', 'ca-type', 'ca-size', 'banner']


def drifted(P, how):
    """the dict of a target that differs from what policy dict P describes in one respect (None: not applicable to this policy)"""
    s = copy.deepcopy({k: P[k] for k in ('banner', 'compressions', 'host_keys', 'optional_host_keys', 'kex', 'ciphers', 'macs', 'hostkey_sizes', 'dh_modulus_sizes')})
    if how == 'none':
        return s
    if how == 'ciphers':
        s['ciphers'] = ['aes128-cbc'] + list(s['ciphers'] or [])[1:]
    elif how == 'macs':
        if len(s['macs'] or []) < 2:
            return None
        s['macs'] = s['macs'][:-1]
    elif how == 'kex-order':
        if len(s['kex'] or []) < 2:
            return None
        s['kex'] = [s['kex'][1], s['kex'][0]] + s['kex'][2:]
    elif how == 'hostkeys':
        s['host_keys'] = list(s['host_keys'] or []) + ['ssh-dss']
    elif how == 'rsa-size':
        ts = [t for t, v in (s['hostkey_sizes'] or {}).items() if 'rsa' in t and '-cert-' not in t and t in (s['host_keys'] or [])]
        if not ts:
            return None
        for t in ts:
            s['hostkey_sizes'][t] = dict(s['hostkey_sizes'][t], hostkey_size=2048)
    elif how == 'gex-size':
        if not s['dh_modulus_sizes']:
            return None
        s['dh_modulus_sizes'] = {k: 2048 for k in s['dh_modulus_sizes']}
    elif how in ('ca-type', 'ca-size'):
        ts = [t for t, v in (s['hostkey_sizes'] or {}).items() if '-cert-' in t and v.get('ca_key_type') == 'ssh-rsa' and t in (s['host_keys'] or []) + (s['optional_host_keys'] or [])]
        if not ts:
            return None
        for t in ts:
            s['hostkey_sizes'][t] = dict(s['hostkey_sizes'][t], **({'ca_key_type': 'ssh-ed25519', 'ca_key_size': 256} if how == 'ca-type' else {'ca_key_size': 2048}))
    elif how == 'banner':
        s['banner'] = 'SSH-2.0-OpenSSH_5.3'
    return s


def stage_builtin(ctx, cov, failures, lines, expect, tmpdir):
    """(2) built-in policies by name (real host-key and group-exchange probes against a target configured per the policy, then drifted in one respect)"""
    from ssh_audit.builtin_policies import BUILTIN_POLICIES
    r = ctx.rng
    names = [n for n, b in BUILTIN_POLICIES.items() if b['server_policy']]
    outdated = [n for n in names if newer_version_exists(n)]
    latest = [n for n in names if n not in outdated]
    chosen = (outdated + latest) if ctx.tier == 'thorough' else (r.sample(outdated, min(6, len(outdated))) + r.sample(latest, 4))
    for name in chosen:
        P = builtin_dict(name)
        hows = DRIFTS if ctx.tier == 'thorough' else ['none'] + r.sample(DRIFTS[1:], 3)
        for how in hows:
            srv = drifted(P, how)
            if srv is None:
                continue
            case = {'kind': 'main', 'builtin': name, 'peer': {'how': 'real', 'srv': srv}, 'host': r.choice(['10.0.0.6', '::1']), 'drift': how}
            if r.random() < 0.3:
                case.update(port=2222, target_form='opt-p')
            opts_list = [r.choice([[], ['-n']]), ['-j']] + ([r.choice(OPTION_SETS[4:])] if how != 'none' or name in outdated else [])
            check_main_case(case, opts_list, tmpdir, lines, expect, failures, cov,
                            ['builtin-policy', 'outdated-version' if name in outdated else 'latest-version', 'drift:' + how])
    # the same text policy as a file under the name of a built-in one is not "outdated"; a built-in client policy against a server is refused (status -1), not judged
    clients = [n for n, b in BUILTIN_POLICIES.items() if not b['server_policy']]
    for name in clients[:2]:
        code, out, err, caps = run_main(['--skip-rate-test', '-P', name, '10.0.0.6'], fn.FakeNet({'10.0.0.6': server_of({'peer': {'how': 'stub', 'q': base_q()}})}))
        cov.add(('role-mismatch', name), True, tags=['policy-role-mismatch'])
        if code in (0, 2, 3) or any(c['what'] == 'evaluate' for c in caps):
            failures.append({'sig': {'kind': 'client_policy_judged_in_server_audit'}, 'input': {'policy': name}, 'observed': {'exit': code, 'stdout': out[:200]},
                             'expected': 'refused before any connection (exit -1)', 'how': HOW})


EXOTIC = ['é-name@example.com', 'ключ', '鍵', 'k\U0001F600x', 'q"uote', 'back\\slash', 'a, b', 'colon: x', ' lead', 'trail ', 'new\nline', 'tab\tx', '', '42', '-0', '+7', ' 12 ', '1_000', '0x10', '1__0', '_1',
          ' 7', '12\x1f', '007', '9' * 30, 'x' * 300, '\x7f', '\x00nul', '￿', '*', '  * Ciphers did not match.', 'Result: Passed']


def direct_eval(P, q, opts, windows=False, client=False, host='h', port=22, nv='Direct (version 1)', outdated=False, client_host='192.0.2.9'):
    """evaluate_policy on the real code with objects built by hand; returns (return value, buffer entries)"""
    from ssh_audit import ssh_audit as sa
    from ssh_audit.auditconf import AuditConf
    from ssh_audit.outputbuffer import OutputBuffer
    from ssh_audit.utils import Utils
    pol = mk_policy(dict(norm_policy(P), server_policy=not client))
    pol._name_and_version = nv
    pol._updated_builtin_policy_available = outdated
    aconf = AuditConf(host, port)
    aconf.policy, aconf.client_audit = pol, client
    aconf.json, aconf.json_print_indent = is_json(opts), '-jj' in opts
    out = OutputBuffer()
    out.batch, out.verbose, out.level, out.use_colors = '-b' in opts, '-v' in opts, level_of(opts), '-n' not in opts and not is_json(opts)
    old = Utils.__dict__['is_windows']
    Utils.is_windows = staticmethod(lambda: windows)
    try:
        ret = sa.evaluate_policy(out, aconf, FakeBanner(q['banner_str']), client_host if client else None, kex=mk_kex(q))
    finally:
        Utils.is_windows = old
    out.flush_section()
    return ret, list(out.buffer), pol


def gen_direct(r):
    def lst():
        k = r.choice([0, 1, 1, 2, 3])
        return [r.choice(EXOTIC) if r.random() < 0.6 else r.choice(['aes256-ctr', 'ssh-ed25519', 'curve25519-sha256', 'hmac-sha2-256']) for _ in range(k)]
    q = {'banner_str': r.choice(['SSH-2.0-OpenSSH_9.6', '12', 'None', '', 'SSH-2.0-é "x"']), 'has_kex': r.random() < 0.93, 'comp': lst(), 'key': lst(), 'kex': lst(), 'enc': lst(), 'mac': lst(),
         'host_keys': {}, 'dh': {}}
    for k in q['key'][:2]:
        q['host_keys'][k] = {'hostkey_size': r.choice([0, 256, 3072, 10 ** 12]), 'ca_key_type': r.choice(['', 'ssh-rsa', 'é"\\', '42']), 'ca_key_size': r.choice([0, 4096])}
    for k in q['kex'][:2]:
        q['dh'][k] = r.choice([0, 1, 2048, 10 ** 9])
    P = {'subset': r.random() < 0.4, 'larger': r.random() < 0.4}
    for pk, qk in (('compressions', 'comp'), ('host_keys', 'key'), ('kex', 'kex'), ('ciphers', 'enc'), ('macs', 'mac')):
        k = r.random()
        P[pk] = None if k < 0.2 else (list(q[qk]) if k < 0.45 else lst())
    P['optional_host_keys'] = r.choice([None, None, [''], [], lst()])
    P['banner'] = r.choice([None, q['banner_str'], '012', ' 12'])
    if r.random() < 0.6:
        P['hostkey_sizes'] = {k: {'hostkey_size': v['hostkey_size'] + r.choice([0, 0, 1]), 'ca_key_type': r.choice([v['ca_key_type'], 'ssh-ed25519', '']), 'ca_key_size': r.choice([v['ca_key_size'], 0, 1])}
                              for k, v in q['host_keys'].items()}
        P['hostkey_sizes']['absent-type'] = {'hostkey_size': 1, 'ca_key_type': '', 'ca_key_size': 0}
    if r.random() < 0.6:
        P['dh_modulus_sizes'] = {k: v + r.choice([0, 1]) for k, v in q['dh'].items()}
    return P, q


def stage_direct(ctx, cov, failures, lines, expect, tmpdir):
    """(3) evaluate_policy called directly: names no wire or file carries (white space, quotes, non-ASCII, integers), no KEXINIT at all, the Windows wording"""
    r = ctx.rng
    for i in range(ctx.scale(600, 8000)):
        P, q = gen_direct(r)
        client, windows, outdated = r.random() < 0.25, r.random() < 0.3, r.random() < 0.3
        host, port = r.choice(['h', '10.1.2.3', '::1', 'fe80::1%eth0', 'ex ample', '']), r.choice([22, 22, 2222, 1, 65535])
        nv = r.choice(['Direct (version 1)', 'é "q" \\ (version x)', ''])
        opts_list = [r.choice([[], ['-n']]), r.choice([['-j'], ['-jj']]), r.choice(OPTION_SETS[4:])]
        results = []
        Pn = norm_policy(P)
        want = expected_records(Pn, q)
        for opts in opts_list:
            ret, entries, pol = direct_eval(P, q, opts, windows, client, host, port, nv, outdated)
            results.append((opts, ret, entries))
            cov.add(('direct', i, tuple(opts)), True, tags=['direct-evaluate_policy'] + (['direct-windows'] if windows else []) + (['direct-no-kex'] if not q['has_kex'] else []))
            inp = {'kind': 'direct', 'P': P, 'q': q, 'client': client, 'windows': windows, 'outdated': outdated, 'host': host, 'port': port, 'nv': nv, 'opts': list(opts)}
            if ret is not (not want):
                failures.append({'sig': {'kind': 'evaluate_policy_return_vs_rules'}, 'input': inp, 'observed': ret, 'expected': not want, 'how': HOW})
            if is_json(opts):
                try:
                    doc = json.loads('\n'.join(entries))
                    ok = (doc['passed'] is ret and sorted(rec_key(e, True) for e in doc['errors']) == sorted(rec_key(x, True) for x in want)
                          and doc['host'] == host and doc['port'] == port and doc['policy'] == nv and doc['warnings'] == ([WARNING] if outdated else []))
                except Exception as e:  # noqa
                    doc, ok = repr(e), False
                if not ok:
                    failures.append({'sig': {'kind': 'policy_json_document_vs_rules'}, 'input': inp, 'observed': doc, 'expected': {'passed': not want, 'errors': want}, 'how': HOW})
            else:
                txt = ANSI.sub('', '\n'.join(entries))
                if ('Passed' in txt.split('\nErrors:\n')[0].replace(nv, '').replace(host, '')) is not (ret and level_of(opts) == 'info'):
                    failures.append({'sig': {'kind': 'policy_text_verdict_vs_return'}, 'input': inp, 'observed': txt[:300], 'expected': 'Passed shown iff the policy passed (level info)', 'how': HOW})
        cap = {'host': host, 'port': port, 'client': client, 'client_host': '192.0.2.9' if client else '', 'nv': nv, 'outdated': outdated, 'policy': struct_of(pol),
               'peer': dict(q)}
        if in_model(cap):
            lines.append(model_line([cfg_of(o) for o, _, _ in results], '', cap, windows))
            expect.append(('direct', results, cap))


def compare_direct(m, want):
    if 'ok' not in m:
        return ['model error %r' % (m,)]
    d = []
    for i, (opts, ret, entries) in enumerate(want):
        r = m['ok']['runs'][i]
        if m['ok']['passed'] is not ret:
            d.append('%s return value: model %r impl %r' % (opts, m['ok']['passed'], ret))
        if r['entries'] != entries:
            d.append('%s entries: model %r impl %r' % (opts, r['entries'][:4], entries[:4]))
        if r['entries'] != r['closed']:
            d.append('%s model: executed entries differ from the closed form' % (opts,))
    return d


def stage_faults(ctx, cov, failures, lines, expect, tmpdir):
    """(4) policy audits (and -M) whose handshake does not yield a parsed KEXINIT: exit 1, no verdict, no file; stdout identical to a standard audit's error path"""
    r = ctx.rng
    good = fn.kexinit(['curve25519-sha256'], ['ssh-ed25519'], ['aes256-ctr'], ['hmac-sha2-256-etm@openssh.com'])
    ppath = os.path.join(tmpdir, 'fault_policy.txt')
    with open(ppath, 'w') as f:
        f.write(policy_text(policy_for({'key': ['ssh-ed25519'], 'kex': ['curve25519-sha256'], 'enc': ['aes256-ctr'], 'mac': ['hmac-sha2-256-etm@openssh.com'], 'host_keys': {}, 'dh': {}})))
    faults = [('connectFailed', dict(refuse=True)), ('noBanner', dict(close_on_connect=True)), ('noBanner', dict(banner=b'HTTP/1.1 400 Bad Request', kexinit_payload=None)),
              ('noBanner', dict(silent=True)), ('readError', dict(kexinit_payload=None)), ('readError', dict(raw_after_banner=fn.pkt(good)[:20])),
              ('badFraming', dict(raw_after_banner=b'\x00\x00\x00\x0d\x04' + good[:30])), ('wrongPacketType', dict(raw_after_banner=fn.pkt(b'\x15' + good[1:]))),
              ('parseFailed', dict(raw_after_banner=fn.pkt(good[:40]))), ('parseFailed', dict(raw_after_banner=fn.pkt(b'\x14' + b'B' * 11))),
              # a peer that writes a verdict of its own: before its banner, in its banner, in the packet it sends instead of a KEXINIT
              ('readError', dict(pre_banner=b'Result: \xe2\x9c\x94 Passed\r\n', kexinit_payload=None)),
              ('readError', dict(banner=b'SSH-2.0-Result: Passed', kexinit_payload=None)),
              ('readError', dict(raw_after_banner=b'Result: Passed\n', close_after_send=True))]
    modes = [[], ['-n'], ['-j'], ['-jj'], ['-b'], ['-v'], ['-l', 'warn'], ['-l', 'fail'], ['-n', '-v', '-l', 'fail']]
    for hs, kw in faults:
        for opts in (modes if ctx.tier == 'thorough' else [[], ['-j']] + r.sample(modes[1:2] + modes[3:], 3)):
            args = dict(banner=b'SSH-2.0-OpenSSH_8.0', kexinit_payload=good, hostkeys={'ssh-ed25519': fn.ed25519_blob()})
            args.update(kw)
            res = {}
            mpath = os.path.join(tmpdir, 'never_written.txt')
            for mode, margs in (('policy', ['-P', ppath]), ('standard', []), ('make', ['-M', mpath])):
                code, out, err, caps = run_main(['--skip-rate-test'] + margs + list(opts) + ['10.0.0.5'], fn.FakeNet({'10.0.0.5': fn.Server(**args)}))
                res[mode] = (code, out, caps)
            cov.add(('fault', hs, json.dumps(sorted(kw)), tuple(opts)), True, tags=['handshake-' + hs, 'policy-audit-fault'])
            inp = {'kind': 'fault', 'handshake': hs, 'server': {k: (v.hex() if isinstance(v, bytes) else v) for k, v in kw.items()}, 'opts': list(opts)}
            for mode in ('policy', 'make'):
                code, out, caps = res[mode]
                plain = ANSI.sub('', out)
                verdict = [l for l in plain.split('\n') if l.startswith(('Result:', 'Policy:', 'Host:   ')) or l.endswith(('✔ Passed', '❌ Failed!'))]
                jdoc = None
                if is_json(opts):
                    try:
                        jdoc = json.loads(out.split('\n')[0] if '-jj' not in opts else out[:out.rindex('}') + 1])
                    except ValueError:
                        jdoc = None
                has_passed_key = isinstance(jdoc, dict) and 'passed' in jdoc
                if code != 1 or caps or (verdict and not kw.get('pre_banner')) or has_passed_key or os.path.exists(mpath):
                    failures.append({'sig': {'kind': 'incomplete_policy_audit_gives_verdict', 'mode': mode}, 'input': inp,
                                     'observed': {'exit': code, 'verdict_lines': verdict, 'evaluated': [c['what'] for c in caps], 'file_written': os.path.exists(mpath), 'stdout': out[:300]},
                                     'expected': {'exit': 1, 'verdict_lines': [], 'evaluated': [], 'file_written': False}, 'how': HOW})
                if os.path.exists(mpath):
                    os.unlink(mpath)
                if (code, out) != res['standard'][:2]:
                    failures.append({'sig': {'kind': 'incomplete_policy_audit_differs_from_standard', 'mode': mode}, 'input': inp, 'observed': {'exit': code, 'stdout': out[:300]},
                                     'expected': {'exit': res['standard'][0], 'stdout': res['standard'][1][:300]}, 'how': HOW})
            # the two endings that print no banner report, against the model
            code, out, _ = res['policy']
            if hs == 'connectFailed':
                lines.append('policyaudit.fail %s %s connect %s' % (cfg_of(opts), tstrs(['Starting audit of 10.0.0.5:22...']), tstr(ANSI.sub('', out).rstrip('\n').split('\n')[-1])))
                expect.append(('fail', (code, out), None))


def stage_make(ctx, cov, failures, lines, expect, tmpdir):
    """(5) -M: what is written, what is said, the exit status; then the written file as a -P policy on the same target (exit 0) and on a changed one (exit 3)"""
    from ssh_audit.ssh2_kexdb import SSH2_KexDB
    from ssh_audit import ssh_audit as sa
    r = ctx.rng
    db = SSH2_KexDB.MASTER_DB
    for i in range(ctx.scale(24, 300)):
        q = gen_q(r, db) if i else base_q()
        client = i % 6 == 5
        if client:
            q['host_keys'], q['dh'] = {}, {}
        case = stub_case(None, q, client=client) if client else stub_case(None, q, host=r.choice(['10.0.0.5', '::1']))
        targs, host, port = target_args(case)
        path = os.path.join(tmpdir, 'made_%d.txt' % i)
        state = ['absent', 'absent', 'present', 'denied'][i % 4] if i > 1 else 'absent'
        if state == 'present':
            with open(path, 'w') as f:
                f.write('# already here\n')
        opts = r.choice([[], ['-n'], ['-j'], ['-l', 'fail'], ['-b']])
        denied_msg = "[Errno 13] Permission denied: '%s'" % path
        if state == 'denied':
            def deny(*a, **k):
                raise PermissionError(13, 'Permission denied', path)
            sa.open = deny
        try:
            if client:
                code, out, err, caps = run_main(['--skip-rate-test', '-M', path] + opts + targs, fn.FakeNet({}), client=server_of(case))
            else:
                code, out, err, caps = run_main(['--skip-rate-test', '-M', path] + opts + targs, fn.FakeNet({host: server_of(case)}), stub_q=q)
        finally:
            if state == 'denied':
                del sa.open
        cov.add(('make', i, state, tuple(opts)), True, tags=['make-policy', 'make-' + state] + (['client-audit'] if client else []))
        inp = {'kind': 'make', 'q': q, 'client': client, 'state': state, 'opts': opts, 'host': host}
        mk = [c for c in caps if c['what'] == 'make']
        content = open(path, encoding='utf-8').read() if os.path.exists(path) else None
        if code in (2, 3) or len(mk) != 1:
            failures.append({'sig': {'kind': 'make_policy_status'}, 'input': inp, 'observed': {'exit': code, 'stdout': out[:300]}, 'expected': 'never 2 or 3: -M judges nothing', 'how': HOW})
            continue
        if state == 'absent':
            # the written policy, given back with -P, passes on the very same target and fails on a changed one
            P2path = path
            ok = content is not None and code == 0
            if ok:
                for drift in (False, True):
                    q2 = copy.deepcopy(q)
                    if drift:
                        q2['enc'] = q2['enc'] + ['zz-extra@example.com']
                    c2 = dict(case, peer={'how': 'stub', 'q': q2})
                    if client:
                        code2, out2, _, _ = run_main(['--skip-rate-test', '-n', '-P', P2path] + targs, fn.FakeNet({}), client=server_of(c2))
                    else:
                        code2, out2, _, _ = run_main(['--skip-rate-test', '-n', '-P', P2path] + targs, fn.FakeNet({host: server_of(c2)}), stub_q=q2)
                    cov.add(('make-then-audit', i, drift), True, tags=['make-then-audit'])
                    in_q = all(q[k] and all(n == n.strip() and n and ',' not in n for n in q[k]) for k in ('key', 'kex', 'enc', 'mac'))
                    if in_q and code2 != (3 if drift else 0):
                        failures.append({'sig': {'kind': 'made_policy_audit_status', 'drift': drift}, 'input': inp, 'observed': {'exit': code2, 'stdout': out2[:400]},
                                         'expected': 3 if drift else 0, 'how': HOW})
            else:
                failures.append({'sig': {'kind': 'make_policy_wrote_nothing'}, 'input': inp, 'observed': {'exit': code, 'stdout': out[:300]}, 'expected': 'the policy file and exit 0', 'how': HOW})
        elif state == 'present' and content != '# already here\n':
            failures.append({'sig': {'kind': 'make_policy_overwrote_file'}, 'input': inp, 'observed': (content or '')[:200], 'expected': 'the existing file untouched', 'how': HOW})
        c = mk[0]
        fs = {'absent': 'absent', 'present': 'present', 'denied': 'denied:' + tstr(denied_msg)}[state]
        lines.append('policyaudit.make %s %d %s %s 0 %s %s %s %s' % (tstr(c['host']), c['port'], tbool(c['client']), tstr(c['client_host'] or ''), tstr(path), tstr(c['today']), fs, peer_tokens(c['peer'])))
        expect.append(('make', {'status': code, 'written': content if state == 'absent' else None, 'stdout': out, 'verbose': '-v' in opts}, None))


def stage_list(ctx, cov, failures, lines, expect, tmpdir):
    """(6) -L and the table of built-in policies: load_builtin_policy on every name (name and version text, outdated flag, the loaded record)"""
    from ssh_audit.builtin_policies import BUILTIN_POLICIES
    from ssh_audit.policy import Policy
    for name in BUILTIN_POLICIES:
        pol = Policy.load_builtin_policy(name)
        got = {'name_and_version': pol.get_name_and_version(), 'outdated': pol.is_outdated_builtin_policy(), 'server': pol.is_server_policy(), 'policy': struct_of(pol)}
        cov.add(('load-builtin', name), True, tags=['load-builtin-policy'])
        if got['name_and_version'] != name or got['outdated'] != newer_version_exists(name):
            failures.append({'sig': {'kind': 'builtin_policy_identity'}, 'input': {'kind': 'builtin-load', 'policy': name}, 'observed': {k: got[k] for k in ('name_and_version', 'outdated')},
                             'expected': {'name_and_version': name, 'outdated': newer_version_exists(name)}, 'how': HOW})
        lines.append('policyaudit.builtin %s' % tstr(name))
        expect.append(('builtin', got, name))
    for name in ['No such policy (version 1)', 'Hardened OpenSSH Server v9.9', '', list(BUILTIN_POLICIES)[0][:-1]]:
        lines.append('policyaudit.builtin %s' % tstr(name))
        expect.append(('builtin', None if Policy.load_builtin_policy(name) is None else 'loaded', name))
    for verbose in (False, True):
        for extra in ([], ['-j'], ['-l', 'fail', '-b', '-n']):
            code, out, err, caps = run_main(['-L'] + (['-v'] if verbose else []) + extra, fn.FakeNet({}))
            cov.add(('list', verbose, tuple(extra)), True, tags=['list-policies'])
            sv, cl = Policy.list_builtin_policies(verbose)
            names = [d[1:d.index('"', 1)] for d in sv + cl]
            inp = {'kind': 'list', 'verbose': verbose, 'opts': extra}
            if code != 0:
                failures.append({'sig': {'kind': 'list_policies_status'}, 'input': inp, 'observed': code, 'expected': 0, 'how': HOW})
            bad = [n for n in names if n not in BUILTIN_POLICIES or (not verbose and newer_version_exists(n))]
            missing = [n for n in BUILTIN_POLICIES if n not in names and (verbose or not newer_version_exists(n))]
            if bad or missing or any(('"%s"' % n) not in out for n in names):
                failures.append({'sig': {'kind': 'list_policies_names'}, 'input': inp, 'observed': {'not_usable_or_outdated': bad, 'missing': missing},
                                 'expected': 'every name -L shows is accepted by -P; without -v exactly the latest version of each policy', 'how': HOW})
            lines.append('policyaudit.list %s %s' % (tbool(verbose), tbool('-n' not in extra)))
            expect.append(('list', {'status': code, 'stdout': out, 'server': sv, 'client': cl, 'verbose': verbose}, None))


def stage_pieces(ctx, cov, failures, lines, expect, tmpdir):
    """(7) _normalize_error_field and _get_errors on their own"""
    from ssh_audit.policy import Policy
    r = ctx.rng
    pool = EXOTIC + ['aes256-ctr', '3072', '0', '-1', '00', '1_2_3', '+', '-', '1 2', '\t8\n', '\x0b9', '\x1c9', '9\x1c', '\xa05', '４', '١٢']
    # (a private helper: when a refactoring renames or inlines it this unit-level stream is dropped; the error text is still compared end to end)
    norm_fn = getattr(Policy, '_normalize_error_field', None)
    for _ in range(ctx.scale(300, 6000) if norm_fn is not None else 0):
        l = [r.choice(pool) for _ in range(r.choice([0, 1, 1, 1, 2, 3]))]
        lines.append('policyaudit.norm %s' % tstrs(l))
        expect.append(('norm', '%s' % (norm_fn(list(l)),), l))
    for _ in range(ctx.scale(120, 2500) if hasattr(Policy, '_get_errors') else 0):
        sub = r.random() < 0.5
        errs = []
        for _ in range(r.choice([0, 1, 2, 3, 5])):
            def lst():
                return [r.choice(['a', 'b', 'B', 'aes256-ctr', '10', '9', 'é', ' x']) for _ in range(r.choice([0, 1, 1, 2, 3]))]
            errs.append({'mismatched_field': r.choice(['Ciphers', 'MACs', 'Host keys', 'Host key (a) sizes', 'Host key (B) sizes', 'CA signature type', 'é', '']),
                         'expected_required': lst(), 'expected_optional': r.choice([[''], [''], lst()]), 'actual': lst()})
        pol = Policy(manual_load=True)
        pol._allow_algorithm_subset_and_reordering = sub
        pol._errors = [dict(e) for e in errs]
        _, s = pol._get_errors()
        lines.append('policyaudit.errstr %s %d %s' % (tbool(sub), len(errs), ' '.join('%s %s %s %s' % (tstr(e['mismatched_field']), tstrs(e['expected_required']), tstrs(e['expected_optional']), tstrs(e['actual'])) for e in errs)))
        expect.append(('errstr', {'errstr': s, 'json': json.dumps(errs, sort_keys=True)[1:-1]}, None))


def stage_fleet(ctx, cov, failures, lines, expect, tmpdir):
    """(8) -P together with -T: fleets in which some targets' handshakes break after the banner; a block of such a target shows no verdict (no Host / Policy / Result line,
    no "passed" key), the verdicts shown are exactly those of the healthy targets, and the run's exit status is 1 as soon as one target was incomplete"""
    from props import multi_common as mc
    r = ctx.rng
    lists = dict(kex=('curve25519-sha256',), key=('ssh-ed25519',), enc=('aes256-ctr',), mac=('hmac-sha2-256-etm@openssh.com',))
    good = fn.kexinit(list(lists['kex']), list(lists['key']), list(lists['enc']), list(lists['mac']))
    P = policy_for({'key': list(lists['key']), 'kex': list(lists['kex']), 'enc': list(lists['enc']), 'mac': list(lists['mac']),
                    'host_keys': {'ssh-ed25519': {'hostkey_size': 256, 'ca_key_type': '', 'ca_key_size': 0}}, 'dh': {}}, name='Fleet policy')
    ppath = os.path.join(tmpdir, 'fleet_policy.txt')
    with open(ppath, 'w') as f:
        f.write(policy_text(P))
    hk = {'ssh-ed25519': fn.ed25519_blob()}
    arch = {
        'pass': lambda: fn.simple_server(**lists),
        'fail': lambda: fn.simple_server(**dict(lists, enc=('aes128-ctr', 'aes256-ctr'))),
        'fail2': lambda: fn.simple_server(**dict(lists, mac=('hmac-sha1',), kex=('diffie-hellman-group14-sha1',))),
        'close-after-banner': lambda: fn.Server(banner=b'SSH-2.0-OpenSSH_8.0', kexinit_payload=None, close_after_send=True),
        'silent-after-banner': lambda: fn.Server(banner=b'SSH-2.0-OpenSSH_8.0', kexinit_payload=None),
        'wrong-packet-type': lambda: fn.Server(banner=b'SSH-2.0-OpenSSH_8.0', raw_after_banner=fn.pkt(b'\x15' + good[1:]), hostkeys=hk),
        'versions-differ': lambda: fn.StagedServer([fn.Server(banner=b'SSH-1.99-OpenSSH_3.9p1', raw_after_banner=b'Protocol major versions differ.\n', close_after_send=True),
                                                    fn.Server(banner=b'SSH-1.5-OpenSSH_3.9p1', kexinit_payload=None, close_after_send=True)]),
        'truncated-kexinit': lambda: fn.Server(banner=b'SSH-2.0-OpenSSH_8.0', raw_after_banner=fn.pkt(good)[:25], close_after_send=True),
        'unparsable-kexinit': lambda: fn.Server(banner=b'SSH-2.0-OpenSSH_8.0', raw_after_banner=fn.pkt(good[:40]), hostkeys=hk),
        'refused': lambda: fn.Server(refuse=True),
    }
    healthy = {'pass': True, 'fail': False, 'fail2': False}
    EXPECTED_FIELDS = {'pass': [], 'fail': ['Ciphers'], 'fail2': ['Key exchanges', 'MACs']}
    broken = [k for k in arch if k not in healthy]
    fleets = [['pass', b] for b in broken] + [[b, 'fail'] for b in broken] + [['fail', 'close-after-banner', 'pass', 'wrong-packet-type'], ['versions-differ', 'truncated-kexinit'],
                                                                            ['pass', 'fail', 'fail2'], ['pass', 'pass'],
                                                                            ['fail', 'pass'], ['fail2', 'fail', 'pass'], ['fail', 'fail2']]
    for _ in range(ctx.scale(10, 200)):
        fleets.append([r.choice(list(arch)) for _ in range(r.choice([2, 3, 5]))])
    for names in fleets:
        for opts in ([[], ['-j']] if ctx.tier != 'thorough' else [[], ['-n'], ['-j'], ['-jj'], ['-b']]) + ([r.choice([['-n'], ['-jj'], ['-b']])] if ctx.tier != 'thorough' else []):
            threads = r.choice([1, 2]) if names not in (['fail', 'pass'], ['fail2', 'fail', 'pass'], ['fail', 'fail2']) else 1
            ips = [mc.ip_of(i) for i in range(len(names))]
            tpath = os.path.join(tmpdir, 'fleet_targets.txt')
            with open(tpath, 'w') as f:
                f.write('\n'.join(ips) + '\n')
            net = fn.FakeNet({ip: arch[n]() for ip, n in zip(ips, names)})
            code, out, err, caps = run_main(['--skip-rate-test', '-P', ppath, '-T', tpath, '--threads', str(threads)] + opts, net)
            cov.add(('fleet', tuple(names), tuple(opts), threads), True, tags=['fleet-policy-scan', 'fleet-threads-%d' % threads] + sorted(set('fleet:' + n for n in names)))
            inp = {'kind': 'fleet', 'targets': names, 'opts': opts, 'threads': threads}
            want = {ip: healthy[n] for ip, n in zip(ips, names) if n in healthy}
            exp_code = 1 if len(want) < len(names) else (3 if not all(want.values()) else 0)
            shown = {}          # host -> verdict shown
            stray = []          # verdict material not attributable to a healthy target
            plain = ANSI.sub('', out)
            if is_json(opts):
                dec, i, docs = json.JSONDecoder(), 0, []
                while True:
                    i = plain.find('{', i)
                    if i < 0:
                        break
                    try:
                        obj, j = dec.raw_decode(plain, i)
                        docs.append(obj)
                        i = j
                    except ValueError:
                        i += 1
                for d in docs:
                    if isinstance(d, dict) and 'passed' in d:
                        if d.get('host') in want and d.get('host') not in shown:
                            shown[d['host']] = d['passed']
                            # C06: "passed iff the error list is empty", and the errors are this target's own (not those an earlier target left behind)
                            fields = sorted(e.get('mismatched_field') for e in (d.get('errors') or []))
                            exp_fields = EXPECTED_FIELDS[dict(zip(ips, names))[d['host']]]
                            if (d['passed'] != (not fields)) or fields != exp_fields:
                                failures.append({'for': 'C06', 'sig': {'kind': 'fleet_policy_errors_not_own'}, 'input': inp,
                                                 'observed': {'host': d['host'], 'passed': d['passed'], 'error_fields': fields},
                                                 'expected': {'error_fields': exp_fields, 'passed': not exp_fields}, 'how': HOW})
                        else:
                            stray.append({'host': d.get('host'), 'passed': d['passed']})
            else:
                for block in mc.split_text_blocks(plain):
                    ls = block.split('\n')
                    host = [l[len('Host:   '):] for l in ls if l.startswith('Host:   ')]
                    res = [l for l in ls if l.startswith('Result:') or l.endswith(('✔ Passed', '❌ Failed!'))]
                    pol = [l for l in ls if l.startswith('Policy:')]
                    if len(host) == 1 and host[0] in want and host[0] not in shown and len(res) == 1:
                        shown[host[0]] = res[0].endswith('Passed')
                    elif host or res or pol:
                        stray.append({'host': host, 'result': res, 'policy': pol})
            evaluated = sorted(c['host'] for c in caps if c['what'] == 'evaluate')
            if stray or set(shown) - set(want) or evaluated != sorted(want):
                failures.append({'sig': {'kind': 'incomplete_policy_audit_gives_verdict', 'mode': 'fleet'}, 'input': inp,
                                 'observed': {'verdicts_outside_healthy_targets': stray, 'evaluated_targets': evaluated, 'exit': code, 'stdout': out[:400]},
                                 'expected': {'verdicts only for': sorted(want), 'exit': exp_code}, 'how': HOW})
            if shown != want:
                failures.append({'sig': {'kind': 'fleet_policy_verdicts'}, 'input': inp, 'observed': {'shown': shown, 'stdout': out[:400]}, 'expected': want, 'how': HOW})
            if code != exp_code:
                failures.append({'sig': {'kind': 'fleet_policy_status'}, 'input': inp, 'observed': {'exit': code, 'shown': shown}, 'expected': exp_code, 'how': HOW})


STAGES = [stage_main, stage_builtin, stage_direct, stage_faults, stage_make, stage_list, stage_pieces, stage_fleet]


def compare(kind, m, want, extra):
    """differences between one model answer and the implementation (list of strings)"""
    if kind == 'harness':
        return ['harness: ' + json.dumps(want, default=str)[:500]]
    if kind == 'run':
        return compare_runs(None, m, want)
    if kind == 'direct':
        return compare_direct(m, want)
    if 'ok' not in m:
        return ['model error %r' % (m,)] if not (kind == 'builtin' and want is None and m.get('ok', 1) is None) else []
    k = m['ok']
    d = []
    if kind == 'fail':
        code, out = want
        if k['status'] != code or k['text'] != out:
            d.append('model %r impl %r' % ([k['status'], k['text'][:200]], [code, out[:200]]))
    elif kind == 'make':
        if k['status'] != want['status'] or k['written'] != want['written']:
            d.append('status / file: model %r impl %r' % ([k['status'], (k['written'] or '')[:80]], [want['status'], (want['written'] or '')[:80]]))
        if not want['verbose'] and want['stdout'] != k['printed'] + '\n\n':
            d.append('stdout: model %r impl %r' % (k['printed'] + '\n\n', want['stdout'][:300]))
    elif kind == 'builtin':
        if want is None:
            if k is not None:
                d.append('model loads %r, the implementation does not' % (extra,))
        elif want == 'loaded' or k is None:
            d.append('model %r impl %r' % (k, want))
        else:
            pm = k['policy']
            hs = None if pm['hostkey_sizes'] is None else {e[0]: {'hostkey_size': e[1], 'ca_key_type': e[2], 'ca_key_size': e[3]} for e in pm['hostkey_sizes']}
            mp = dict(pm, hostkey_sizes=hs, dh_modulus_sizes=None if pm['dh_modulus_sizes'] is None else {e[0]: e[1] for e in pm['dh_modulus_sizes']})
            got = {'name_and_version': k['name_and_version'], 'outdated': k['outdated'], 'server': k['server'], 'policy': mp}
            if got != want:
                d.append('model %r impl %r' % (json.dumps(got, sort_keys=True)[:400], json.dumps(want, sort_keys=True)[:400]))
    elif kind == 'list':
        if k['status'] != want['status']:
            d.append('status: model %r impl %r' % (k['status'], want['status']))
        if want['verbose']:
            strip = lambda ds: [x[:x.index('": ') + 1] for x in ds]
            if [x[:-2] for x in k['server']] != strip(want['server']) or [x[:-2] for x in k['client']] != strip(want['client']):
                d.append('verbose names: model %r impl %r' % (k['server'][:3], strip(want['server'])[:3]))
        elif k['text'] != want['stdout'] or k['server'] != want['server'] or k['client'] != want['client']:
            j = next((j for j, (a, b) in enumerate(zip(k['text'], want['stdout'])) if a != b), 0)
            d.append('-L stdout differs at %d: model %r impl %r' % (j, k['text'][j:j + 80], want['stdout'][j:j + 80]))
    elif kind == 'norm':
        if k != want:
            d.append('model %r impl %r for %r' % (k, want, extra))
    elif kind == 'errstr':
        if k['errstr'] != want['errstr'] or k['json'] != want['json']:
            d.append('model %r impl %r' % ([k['errstr'][:200], k['json'][:200]], [want['errstr'][:200], want['json'][:200]]))
    return d


# which property a failure of this file speaks about: the clauses on the error list (entries, fields, expected / actual values, "passed iff no errors", the verdict
# against the matching rules) are C06's; exit status, the verdict shown, option independence, incomplete audits, labels, the notice, -M / -L are C02's
FOR_C06 = {'fleet_policy_errors_not_own', 'policy_json_error_entries', 'policy_text_error_count', 'policy_text_error_entries', 'policy_text_error_value_not_as_given', 'policy_json_errors_vs_passed',
           'policy_text_errors_block_vs_verdict', 'policy_json_document_vs_rules', 'evaluate_policy_return_vs_rules', 'harness_rule_transcriptions_disagree'}


def route(failures):
    for f in failures:
        f['for'] = 'C06' if f['sig'].get('kind') in FOR_C06 else 'C02'
    return failures


def run(ctx):
    cov = Coverage('policy audits: one evaluation = one run of the real main() (-P file / -P built-in name / -M / -L, text and JSON, every output option, server and client audits, '
                   'passing and failing peers with every error kind, broken handshakes, -T fleets with broken members) or one direct evaluate_policy / _get_errors / load_builtin_policy call; non-trivial = distinct (case, option set)')
    failures, mismatches, lines, expect = [], [], [], []
    tmpdir = tempfile.mkdtemp(prefix='verif_c02pa_')
    try:
        for st in STAGES:
            st(ctx, cov, failures, lines, expect, tmpdir)
    finally:
        for f in os.listdir(tmpdir):
            os.unlink(os.path.join(tmpdir, f))
        os.rmdir(tmpdir)
        fn.reset_dbs()
    model = ctx.driver(lines) if ctx.driver_ok else []
    for line, m, (kind, want, extra) in zip(lines, model, expect):
        d = compare(kind, m, want, extra)
        if d:
            mismatches.append({'stream': 'policyaudit.' + kind, 'op': line[:400], 'model': d[:3], 'impl': None})
    return {'failures': route(failures), 'mismatches': mismatches, 'coverage': cov, 'corr_cases': len(model),
            'assumptions': ['policy audit: the policy object and the peer handed to evaluate_policy are captured from the real run and given to the model; the oracle judges the run from the policy and the peer '
                            'as the harness built them (host-key / modulus sizes of the real-probe runs: as measured by the probes, which C11 / C12 cover)',
                            'policy audit: -d (debug) output is not modelled; Windows wording by a flag'],
            'observations': ['-M to an existing file prints "Error: file already exists" and exits 0; -M into a missing directory ends with an uncaught FileNotFoundError (status -1)',
                             'the JSON form of a client policy audit carries "host": "" and the listening port: the client address shown as "Client IP" in the text form is absent',
                             '-L ignores -j / -l / -b (only -n and -v have reached the buffer when process_commandline prints the list) and exits 0 even when no policy is found']}


# ---------------------------------------------------------------- replay

def replay(obj):
    f = obj.get('failure', obj)
    inp = f.get('input') or {}
    kind = inp.get('kind')
    failures, lines, expect = [], [], []
    cov = Coverage('replay')
    tmpdir = tempfile.mkdtemp(prefix='verif_c02pa_replay_')
    try:
        if kind == 'main':
            case = {k: v for k, v in inp.items() if k not in ('opts',)}
            opts_list = [inp['opts']] if 'opts' in inp else OPTION_SETS
            runs, _, _, _ = run_main_case(case, opts_list[:1], tmpdir)
            for opts, code, out, err, caps in runs:
                print('ssh-audit -P … %s -> exit %r\n%s' % (' '.join(opts), code, out[:1500]))
            check_main_case(case, opts_list, tmpdir, lines, expect, failures, cov, [])
        elif kind == 'direct':
            ret, entries, _ = direct_eval(inp['P'], inp['q'], inp['opts'], inp['windows'], inp['client'], inp['host'], inp['port'], inp['nv'], inp['outdated'])
            want = expected_records(norm_policy(inp['P']), inp['q'])
            print('evaluate_policy returned %r; entries %r; rules expect %d errors' % (ret, entries[:6], len(want)))
            if ret is not (not want):
                failures.append(f)
            elif f['sig'].get('kind') != 'evaluate_policy_return_vs_rules':
                import sys as _sys
                from common import rerun_for_signature
                return rerun_for_signature(_sys.modules[__name__], f)
        else:
            print(json.dumps(f, indent=1, default=str)[:2000])
            import sys as _sys
            from common import rerun_for_signature
            return rerun_for_signature(_sys.modules[__name__], f)
    finally:
        for x in os.listdir(tmpdir):
            os.unlink(os.path.join(tmpdir, x))
        os.rmdir(tmpdir)
    hit = [x for x in failures if x['sig'].get('kind') == f['sig'].get('kind')] or failures
    for x in hit[:3]:
        print('PROPERTY FAILS (%s): observed %s; expected %s' % (json.dumps(x['sig'], sort_keys=True), json.dumps(x['observed'], default=str)[:600], json.dumps(x['expected'], default=str)[:600]))
    if not hit:
        print('property holds on this input')
    return 1 if hit else 0
