/-
  C07 — Each target's result is independent of the other targets in the run.

  Model: SshAudit.Model.Multi.  The rating state shared between scans is the per-thread
  database map; every in-place edit a scan makes (Terrapin marks, key / modulus size notes, the
  OpenSSH-2048 note) is a `Step.edit` on the scanning thread's slot.  The theorems hold for any
  number of threads, any target lists, any edits and *every* interleaving of the workers' steps.
-/
import SshAudit.Model.Multi
namespace SshAudit.C07
open SshAudit SshAudit.Multi

/-- **Frame**: a step of thread `t` changes no other thread's slot -/
theorem step_frame (master : DB) (s : Shared) (st : Step) (u : Tid) (h : u ≠ st.tid) : (step master s st).1 u = s u := by
  cases st <;> simp [step, setSlot, Step.tid] at * <;> simp [h]

/-- …and reads only its own slot: the step's effect on slot `t` and its observation depend on slot `t` only -/
theorem step_local (master : DB) (s s' : Shared) (st : Step) (h : s st.tid = s' st.tid) :
    (step master s st).1 st.tid = (step master s' st).1 st.tid ∧ (step master s st).2 = (step master s' st).2 := by
  cases st <;> simp [step, setSlot, Step.tid, getDb] at * <;> simp [h]

theorem exec_cons (master : DB) (s : Shared) (st : Step) (rest : List Step) :
    exec master s (st :: rest) =
      match (step master s st).2 with
      | some obs => obs :: exec master (step master s st).1 rest
      | none => exec master (step master s st).1 rest := rfl

theorem finalState_cons (master : DB) (s : Shared) (st : Step) (rest : List Step) :
    finalState master s (st :: rest) = finalState master (step master s st).1 rest := rfl

theorem obs_tid (master : DB) (s : Shared) (st : Step) (obs : Tid × Nat × DB) (h : (step master s st).2 = some obs) : obs.1 = st.tid := by
  cases st with
  | threadExit t => simp [step] at h
  | edit t f => simp [step] at h
  | render t x => simp only [step, Option.some.injEq] at h; rw [← h]; rfl

/-- **Interleaving is irrelevant**: in any execution, what thread `t` observes is what it would observe running
    its own steps alone (from any state that agrees on its slot). Unbounded length, any number of threads. -/
theorem interleaving_irrelevant (master : DB) (t : Tid) (steps : List Step) (s s' : Shared) (h : s t = s' t) :
    (exec master s steps).filter (·.1 = t) = exec master s' (steps.filter (·.tid = t)) := by
  induction steps generalizing s s' with
  | nil => rfl
  | cons st rest ih =>
    by_cases ht : st.tid = t
    · have hl := step_local master s s' st (by rw [ht]; exact h)
      have hf : (st :: rest).filter (·.tid = t) = st :: rest.filter (·.tid = t) := by simp [ht]
      rw [hf, exec_cons, exec_cons, ← hl.2]
      have hnext : (step master s st).1 t = (step master s' st).1 t := by rw [← ht]; exact hl.1
      cases ho : (step master s st).2 with
      | none => simp only; exact ih _ _ hnext
      | some obs =>
        simp only
        have htid : obs.1 = t := by rw [obs_tid master s st obs ho]; exact ht
        simp only [List.filter_cons, htid, decide_true, if_true]
        rw [ih _ _ hnext]
    · have hf : (st :: rest).filter (·.tid = t) = rest.filter (·.tid = t) := by simp [ht]
      rw [hf, exec_cons]
      have hfr : (step master s st).1 t = s t := step_frame master s st t (fun e => ht e.symm)
      have hagree : (step master s st).1 t = s' t := by rw [hfr]; exact h
      cases ho : (step master s st).2 with
      | none => simp only; exact ih _ _ hagree
      | some obs =>
        simp only
        have htid : ¬ obs.1 = t := by rw [obs_tid master s st obs ho]; exact ht
        simp only [List.filter_cons, htid, decide_false]
        exact ih _ _ hagree

/-! ### a worker alone: every target is rendered from a pristine database plus its own edits -/

theorem exec_append_noobs (master : DB) (s : Shared) (a b : List Step) (h : exec master s a = []) :
    exec master s (a ++ b) = exec master (finalState master s a) b := by
  induction a generalizing s with
  | nil => rfl
  | cons st rest ih =>
    rw [exec_cons] at h
    rw [List.cons_append, exec_cons, finalState_cons]
    cases ho : (step master s st).2 with
    | none => rw [ho] at h; simp only at h ⊢; exact ih _ h
    | some obs => rw [ho] at h; simp at h

theorem edits_run (master : DB) (t : Tid) (es : List (DB → DB)) (s : Shared) (d : DB) (h : getDb master s t = d) :
    exec master s (es.map (.edit t)) = [] ∧ getDb master (finalState master s (es.map (.edit t))) t = es.foldl (fun d f => f d) d := by
  induction es generalizing s d with
  | nil => exact ⟨rfl, h⟩
  | cons f fs ih =>
    simp only [List.map_cons, List.foldl_cons]
    have hs : getDb master (step master s (.edit t f)).1 t = f d := by
      simp [step, setSlot, getDb] at *; rw [h]
    have := ih (step master s (.edit t f)).1 (f d) hs
    rw [exec_cons, finalState_cons]
    exact this

/-- one target processed by the repaired worker: whatever the shared state was, the report is rendered from
    `singleRun master edits`, and the thread's slot is empty again afterwards -/
theorem target_alone (master : DB) (t : Tid) (x : Nat) (es : List (DB → DB)) (rest : List Step) (s : Shared) :
    ∃ s', exec master s (targetSteps t x es ++ rest) = (t, x, singleRun master es) :: exec master s' rest ∧ s' t = none := by
  unfold targetSteps
  simp only [List.append_assoc, List.cons_append, List.nil_append]
  rw [exec_cons]
  simp only [step]
  have hfresh : getDb master (setSlot s t none) t = master := by simp [getDb, setSlot]
  obtain ⟨he, hg⟩ := edits_run master t es (setSlot s t none) master hfresh
  rw [exec_append_noobs master _ _ _ he]
  generalize finalState master (setSlot s t none) (es.map (.edit t)) = s2 at hg
  refine ⟨setSlot (setSlot s2 t (some (getDb master s2 t))) t none, ?_, by simp [setSlot]⟩
  rw [exec_cons]
  simp only [step]
  rw [exec_cons]
  simp only [step]
  rw [hg]
  rfl

/-- **A worker's reports are exactly the single-target runs of its targets, in order** — from any initial shared state -/
theorem worker_alone (master : DB) (t : Tid) (targets : List (Nat × List (DB → DB))) (s : Shared) :
    exec master s (workerSteps t targets) = targets.map (fun xe => (t, xe.1, singleRun master xe.2)) := by
  induction targets generalizing s with
  | nil => rfl
  | cons xe rest ih =>
    obtain ⟨x, es⟩ := xe
    unfold workerSteps
    obtain ⟨s', he, _⟩ := target_alone master t x es (workerSteps t rest) s
    rw [he, ih s']
    rfl

/-- **Multi-target = single-target**: in every interleaving of the workers' programs (any thread count, any assignment
    and order of targets, any schedule, any prior state), each target's report is rendered from exactly the database a
    fresh single-target invocation would use. -/
theorem multi_equals_single (master : DB) (s : Shared) (steps : List Step) (assign : Tid → List (Nat × List (DB → DB)))
    (hint : ∀ t, steps.filter (·.tid = t) = workerSteps t (assign t)) (t : Tid) :
    (exec master s steps).filter (·.1 = t) = (assign t).map (fun xe => (t, xe.1, singleRun master xe.2)) := by
  rw [interleaving_irrelevant master t steps s s rfl, hint t, worker_alone]

/-! ### why the reset matters (the D03 defect, kept as a documented negation) -/

/-- the old worker: no `thread_exit` between targets -/
def targetStepsOld (t : Tid) (target : Nat) (edits : List (DB → DB)) : List Step :=
  edits.map (.edit t) ++ [.render t target]

def demoMaster : DB := [(['e','n','c'], [{ name := ['x'], desc := [[]] }])]
def markX : DB → DB := fun db => db.map (fun (c, es) => (c, es.map (fun e => { e with desc := e.desc ++ [[some ['!']]] })))

/-- without the reset the second target is rendered from the first target's edited database -/
theorem leak_without_reset :
    exec demoMaster (fun _ => none) (targetStepsOld 0 1 [markX] ++ targetStepsOld 0 2 [])
      ≠ [(0, 1, singleRun demoMaster [markX]), (0, 2, singleRun demoMaster [])] := by decide

/-- with it, it is not -/
example : exec demoMaster (fun _ => none) (workerSteps 0 [(1, [markX]), (2, [])])
      = [(0, 1, singleRun demoMaster [markX]), (0, 2, singleRun demoMaster [])] := by decide

end SshAudit.C07
