/-
  C14 — Software versions are ordered numerically, component by component.

  Model: `SshAudit.Model.Version` (software.py / algorithm.py / timeframe.py / the version
  filter of algorithms.py as they are in /repo now).  Spec: `numCmp`, the lexicographic
  order on the lists of numbers the dot-separated components denote (a proper prefix is
  older).  A *grammar version* is `render ds ++ patch` with `ds` a non-empty list of non-empty
  digit strings of ANY length (so 10.0, 0.10.6, 2022.83, zero-padded 7.04 are all covered)
  and `patch` a suffix that does not continue the version (`PatchShape`).
-/
import SshAudit.Lemmas.Version
import SshAudit.Gen.KexDB
namespace SshAudit.C14
open SshAudit SshAudit.Version SshAudit.Text

/-! ### Specification -/

/-- component-wise numeric comparison: −1 older, 0 same, 1 newer; a proper prefix is older -/
def numCmp : List Nat → List Nat → Int
  | [], [] => 0
  | [], _ :: _ => -1
  | _ :: _, [] => 1
  | a :: as, b :: bs => if a < b then -1 else if b < a then 1 else numCmp as bs

theorem numCmp_eq_lexCmp (a b : List Nat) : numCmp a b = lexCmp natLt a b := by
  induction a generalizing b with
  | nil => cases b <;> rfl
  | cons x xs ih =>
    cases b with
    | nil => rfl
    | cons y ys => simp only [numCmp, lexCmp, natLt, decide_eq_true_eq, ih ys]

theorem numCmp_antisymm (a b : List Nat) : numCmp a b = - numCmp b a := by
  simp only [numCmp_eq_lexCmp]; exact lexCmp_antisymm natLt_strictTotal a b

theorem numCmp_trans (a b c : List Nat) : numCmp a b ≤ 0 → numCmp b c ≤ 0 → numCmp a c ≤ 0 := by
  simp only [numCmp_eq_lexCmp]; exact lexCmp_trans natLt_strictTotal a b c

theorem numCmp_self (a : List Nat) : numCmp a a = 0 := by
  have := numCmp_antisymm a a; omega

/-- what `compare_version` must return on two grammar versions of one product: the numeric
    comparison, ties broken by the product's patch order -/
def expected (product : Str) (n₁ n₂ : List Nat) (patch₁ patch₂ : Str) : Int :=
  if numCmp n₁ n₂ ≠ 0 then numCmp n₁ n₂ else patchCmp product patch₁ patch₂

/-! ### compare_version is the numeric comparison -/

/-- `_compare_version_numbers` on two dot-separated decimal versions is `numCmp` of their numbers
    (any number of components, any number of digits). -/
theorem compareVersionNumbers_numeric (ds₁ ds₂ : List Str) (h₁ : WfDs ds₁) (h₂ : WfDs ds₂) :
    compareVersionNumbers (render ds₁) (render ds₂) = numCmp (vals ds₁) (vals ds₂) := by
  rw [compareVersionNumbers_render ds₁ ds₂ h₁ h₂, numCmp_eq_lexCmp]

/-- The regular expression of `compare_version` takes `<version><patch>` apart again — also when
    the version is a single character (`9p1`). -/
theorem splitOther_grammar (ds : List Str) (h : WfDs ds) (pa : Str) (hp : PatchShape pa) :
    splitOther (render ds ++ pa) = (render ds, pa) :=
  splitOther_render ds h pa hp

/-- **compare_numeric.**  For every product, every two dot-separated decimal versions and every
    patch suffix, `compare_version` returns the component-wise numeric comparison and, when the
    numbers are equal, the product's patch comparison. -/
theorem compare_numeric (vendor os patch : Option Str) (product : Str) (ds₁ ds₂ : List Str) (pa : Str)
    (h₁ : WfDs ds₁) (h₂ : WfDs ds₂) (hp : PatchShape pa) :
    compareVersion ⟨vendor, product, render ds₁, patch, os⟩ (render ds₂ ++ pa)
      = expected product (vals ds₁) (vals ds₂) (patch.getD []) pa := by
  simp only [compareVersion, splitOther_render ds₂ h₂ pa hp,
    compareVersionNumbers_numeric ds₁ ds₂ h₁ h₂, expected]

/-- the same when the argument is a `Software` object (its version and patch are glued together
    and split again) -/
theorem compare_numeric_software (self other : Software) (ds₁ ds₂ : List Str)
    (e₁ : self.version = render ds₁) (e₂ : other.version = render ds₂)
    (h₁ : WfDs ds₁) (h₂ : WfDs ds₂) (hp : PatchShape (other.patch.getD [])) :
    compareVersionO self (.soft other)
      = expected self.product (vals ds₁) (vals ds₂) (self.patch.getD []) (other.patch.getD []) := by
  cases self with
  | mk v p ver pa o =>
    simp only at e₁; subst e₁
    simp only [compareVersionO, e₂]
    exact compare_numeric v o pa p ds₁ ds₂ _ h₁ h₂ hp

/-- **compare_numeric, stated over numbers.**  For all non-empty lists of natural numbers written
    the usual way (`[10, 0] ↦ "10.0"`): the verdict is `numCmp` of the numbers, then the patch order. -/
theorem compare_numeric_nat (vendor os patch : Option Str) (product : Str) (ns₁ ns₂ : List Nat) (pa : Str)
    (h₁ : ns₁ ≠ []) (h₂ : ns₂ ≠ []) (hp : PatchShape pa) :
    compareVersion ⟨vendor, product, verText ns₁, patch, os⟩ (verText ns₂ ++ pa)
      = expected product ns₁ ns₂ (patch.getD []) pa := by
  have := compare_numeric vendor os patch product _ _ pa (wfDs_canon ns₁ h₁) (wfDs_canon ns₂ h₂) hp
  simpa only [vals_canon, verText] using this

def patchShapeB (pa : Str) : Bool :=
  (match pa with | [] => true | c :: _ => !isVerChar c) && !pa.contains '\n' && pyStrip pa == pa

theorem patchShape_of_check (pa : Str) (h : patchShapeB pa = true) : PatchShape pa := by
  simp only [patchShapeB, Bool.and_eq_true, Bool.not_eq_true', beq_iff_eq] at h
  obtain ⟨⟨h1, h2⟩, h3⟩ := h
  refine ⟨?_, ?_, h3⟩
  · intro c hc
    cases pa with
    | nil => simp at hc
    | cons x xs =>
      simp only [List.head?_cons, Option.some.injEq] at hc; subst hc
      simpa using h1
  · intro hm
    have : pa.contains '\n' = true := by simpa using hm
    rw [this] at h2; cases h2

def s (x : String) : Str := x.toList

/-- **Regression of the repaired defect D13-onechar.**  A ONE-character version followed by a
    patch (`9p1`, `3p1`) used not to be split (the expression wanted two version characters) and
    was compared as a string: OpenSSH `10` vs `9p1` gave −1, `3` vs `3p1` gave −1.  Now the
    numeric verdicts hold (they are instances of `compare_numeric`, evaluated here on the model). -/
theorem compare_numeric_one_digit :
    compareVersion ⟨none, pOpenSSH, ['1','0'], none, none⟩ ['9','p','1'] = 1
    ∧ compareVersion ⟨none, pOpenSSH, ['9'], some ['p','1'], none⟩ ['1','0'] = -1
    ∧ compareVersion ⟨none, pOpenSSH, ['3'], none, none⟩ ['3','p','1'] = 0
    ∧ compareVersion ⟨none, pOpenSSH, ['3'], some ['p','1'], none⟩ ['3'] = 0
    ∧ compareVersion ⟨none, pOpenSSH, ['3'], some ['p','1'], none⟩ ['3','p','2'] = -1
    ∧ compareVersion ⟨none, pDropbear, ['9'], none, none⟩ ['9','t','e','s','t','3'] = 1
    ∧ splitOther ['9','p','1'] = (['9'], ['p','1']) := by
  decide

/-- … and as a statement for every one-component version `d` (a single digit string of any
    length, in particular one character) against any other version and patch. -/
theorem compare_numeric_one_component (vendor os patch : Option Str) (product : Str) (ds₁ : List Str) (d pa : Str)
    (h₁ : WfDs ds₁) (hd : IsNum d) (hp : PatchShape pa) :
    compareVersion ⟨vendor, product, render ds₁, patch, os⟩ (d ++ pa)
      = expected product (vals ds₁) [decVal d] (patch.getD []) pa := by
  have h₂ : WfDs [d] := ⟨by simp, fun x hx => by simp at hx; subst hx; exact hd⟩
  have := compare_numeric vendor os patch product ds₁ [d] pa h₁ h₂ hp
  simpa [render, join, vals] using this

def mk (product version : Str) (patch : Option Str := none) : Software := ⟨none, product, version, patch, none⟩

/-- The witnesses of the repaired defect D13 and friends, evaluated on the model. -/
theorem compare_numeric_examples :
    compareVersion (mk pOpenSSH ['1','0','.','0']) ['9','.','9'] = 1
    ∧ compareVersion (mk pOpenSSH ['9','.','9']) ['1','0','.','0'] = -1
    ∧ compareVersion (mk pLibSSH ['0','.','1','0','.','6']) ['0','.','7','.','0'] = 1
    ∧ compareVersion (mk pLibSSH ['0','.','9','.','8']) ['0','.','1','1','.','1'] = -1
    ∧ compareVersion (mk pDropbear ['2','0','2','2','.','8','3']) ['0','.','5','3','.','1'] = 1
    ∧ compareVersion (mk pOpenSSH ['1','0','.','0'] (some ['p','1'])) ['9','.','9','p','2'] = 1
    ∧ compareVersion (mk pOpenSSH ['7','.','1','0']) ['7','.','9'] = 1
    ∧ compareVersion (mk pOpenSSH ['7','.','4']) ['7','.','4','.','1'] = -1
    ∧ compareVersion (mk pOpenSSH ['7','.','0','4']) ['7','.','4'] = 0 := by
  decide

/-! ### Antisymmetry and transitivity over the product grammars -/

/-- a grammar version: components and patch suffix -/
structure GV where
  ds : List Str
  patch : Str

/-- the `Software` object of a grammar version (no patch is `None`, as `Software.parse` makes it) -/
def GV.soft (p : Str) (v : GV) : Software := ⟨none, p, render v.ds, if v.patch = [] then none else some v.patch, none⟩
/-- its text, as it appears in a banner or a database -/
def GV.text (v : GV) : Str := render v.ds ++ v.patch
def GV.nums (v : GV) : List Nat := vals v.ds

/-- OpenSSH: a plain release or a portable release p1 … p9 -/
def opensshPatches : List Str :=
  [[], ['p','1'], ['p','2'], ['p','3'], ['p','4'], ['p','5'], ['p','6'], ['p','7'], ['p','8'], ['p','9']]

/-- the patch grammar: OpenSSH `""|p1..p9`; for every other product (Dropbear `testN…`, libssh,
    …) any suffix of the right shape -/
def PatchOK (p pa : Str) : Prop := p = pOpenSSH → pa ∈ opensshPatches

structure GV.Wf (p : Str) (v : GV) : Prop where
  ds : WfDs v.ds
  shape : PatchShape v.patch
  grammar : PatchOK p v.patch

/-- `a.compare_version(b)` for two grammar versions of product `p` -/
def cmpG (p : Str) (a b : GV) : Int := compareVersion (a.soft p) b.text

theorem soft_patch (p : Str) (v : GV) : (v.soft p).patch.getD [] = v.patch := by
  simp only [GV.soft]; split <;> simp_all

theorem cmpG_eq (p : Str) (a b : GV) (ha : a.Wf p) (hb : b.Wf p) :
    cmpG p a b = expected p a.nums b.nums a.patch b.patch := by
  have := compare_numeric none none (a.soft p).patch p a.ds b.ds b.patch ha.ds hb.ds hb.shape
  rw [soft_patch] at this
  exact this

theorem opensshPatchCmp_antisymm :
    ∀ a ∈ opensshPatches, ∀ b ∈ opensshPatches, opensshPatchCmp a b = - opensshPatchCmp b a := by
  decide +kernel

theorem opensshPatchCmp_trans :
    ∀ a ∈ opensshPatches, ∀ b ∈ opensshPatches, ∀ d ∈ opensshPatches,
      opensshPatchCmp a b ≤ 0 → opensshPatchCmp b d ≤ 0 → opensshPatchCmp a d ≤ 0 := by
  decide +kernel

/-- the patch comparison of every product is a total pre-order on its patch grammar -/
theorem patchCmp_isPreCmp (p : Str) : IsPreCmp (PatchOK p) (patchCmp p) := by
  by_cases hd : p = pDropbear
  · have h := (strCmp_isPreCmp dropbearKey).weaken (Q := PatchOK p) (fun _ _ => trivial)
    exact h.congr (fun a b _ _ => by simp [patchCmp, hd])
  · by_cases ho : p = pOpenSSH
    · subst ho
      refine ⟨fun a b ha hb => ?_, fun a b d ha hb hd' => ?_⟩
      · simp only [patchCmp, hd, if_false, if_true]
        exact opensshPatchCmp_antisymm a (ha rfl) b (hb rfl)
      · simp only [patchCmp, hd, if_false, if_true]
        exact opensshPatchCmp_trans a (ha rfl) b (hb rfl) d (hd' rfl)
    · have h := (strCmp_isPreCmp (fun x : Str => x)).weaken (Q := PatchOK p) (fun _ _ => trivial)
      exact h.congr (fun a b _ _ => by simp [patchCmp, hd, ho])

/-- `compare_version` restricted to the grammar versions of one product is the three-way
    comparison of a total pre-order -/
theorem cmpG_isPreCmp (p : Str) : IsPreCmp (GV.Wf p) (cmpG p) := by
  have h₁ : IsPreCmp (GV.Wf p) (fun a b => numCmp a.nums b.nums) :=
    ⟨fun a b _ _ => numCmp_antisymm _ _, fun a b d _ _ _ => numCmp_trans _ _ _⟩
  have h₂ : IsPreCmp (GV.Wf p) (fun a b => patchCmp p a.patch b.patch) :=
    (patchCmp_isPreCmp p).comap (fun v : GV => v.patch) (fun v hv => hv.grammar)
  exact (h₁.lex h₂).congr (fun a b ha hb => cmpG_eq p a b ha hb)

/-- **compare_antisymm.**  Swapping the two versions flips the verdict. -/
theorem compare_antisymm (p : Str) (a b : GV) (ha : a.Wf p) (hb : b.Wf p) : cmpG p a b = - cmpG p b a :=
  (cmpG_isPreCmp p).antisymm a b ha hb

/-- **compare_trans.**  "not newer than" is transitive. -/
theorem compare_trans (p : Str) (a b c : GV) (ha : a.Wf p) (hb : b.Wf p) (hc : c.Wf p) :
    cmpG p a b ≤ 0 → cmpG p b c ≤ 0 → cmpG p a c ≤ 0 :=
  (cmpG_isPreCmp p).trans a b c ha hb hc

/-- strict forms: older-then-not-newer is older; same-as is transitive -/
theorem compare_trans_strict (p : Str) (a b c : GV) (ha : a.Wf p) (hb : b.Wf p) (hc : c.Wf p) :
    (cmpG p a b < 0 → cmpG p b c ≤ 0 → cmpG p a c < 0)
    ∧ (cmpG p a b ≤ 0 → cmpG p b c < 0 → cmpG p a c < 0)
    ∧ (cmpG p a b = 0 → cmpG p b c = 0 → cmpG p a c = 0) :=
  ⟨(cmpG_isPreCmp p).lt_of_lt_of_le ha hb hc, (cmpG_isPreCmp p).lt_of_le_of_lt ha hb hc,
   (cmpG_isPreCmp p).eq_trans ha hb hc⟩

theorem cmpOf_range {α : Type} (lt : α → α → Bool) (a b : α) : cmpOf lt a b = -1 ∨ cmpOf lt a b = 0 ∨ cmpOf lt a b = 1 := by
  simp only [cmpOf]; split
  · simp
  · split <;> simp

theorem ite0_range (c : Prop) [Decidable c] (x y : Str) :
    (if c then (0 : Int) else cmpOf strLt x y) = -1 ∨ (if c then (0 : Int) else cmpOf strLt x y) = 0
      ∨ (if c then (0 : Int) else cmpOf strLt x y) = 1 := by
  split
  · simp
  · exact cmpOf_range _ _ _

theorem opensshPatchCmp_range (a b : Str) :
    opensshPatchCmp a b = -1 ∨ opensshPatchCmp a b = 0 ∨ opensshPatchCmp a b = 1 := by
  unfold opensshPatchCmp
  exact ite0_range _ _ _

theorem patchCmp_range (p a b : Str) : patchCmp p a b = -1 ∨ patchCmp p a b = 0 ∨ patchCmp p a b = 1 := by
  simp only [patchCmp]
  split
  · exact cmpOf_range _ _ _
  · split
    · exact opensshPatchCmp_range _ _
    · exact cmpOf_range _ _ _

/-- the verdict is one of older (−1) / same (0) / newer (1) -/
theorem compare_sign (p : Str) (a b : GV) (ha : a.Wf p) (hb : b.Wf p) :
    cmpG p a b = -1 ∨ cmpG p a b = 0 ∨ cmpG p a b = 1 := by
  rw [cmpG_eq p a b ha hb, expected]
  split
  · rw [numCmp_eq_lexCmp]; exact lexCmp_range _ _ _
  · exact patchCmp_range _ _ _

/-! ### The product patch orders -/

def opensshRank : Str → Nat
  | ['p', d] => d.toNat - '0'.toNat
  | _ => 1

/-- OpenSSH: a plain release counts as p1, and p1 < p2 < … < p9. -/
theorem openssh_patch_order :
    ∀ a ∈ opensshPatches, ∀ b ∈ opensshPatches,
      patchCmp pOpenSSH a b = (if opensshRank a < opensshRank b then -1 else if opensshRank b < opensshRank a then 1 else 0) := by
  decide +kernel

theorem openssh_p1_same_as_plain (ds : List Str) (h : WfDs ds) :
    cmpG pOpenSSH ⟨ds, []⟩ ⟨ds, ['p','1']⟩ = 0 ∧ cmpG pOpenSSH ⟨ds, ['p','1']⟩ ⟨ds, []⟩ = 0 := by
  have m0 : ([] : Str) ∈ opensshPatches := by decide
  have m1 : ['p','1'] ∈ opensshPatches := by decide
  have w0 : GV.Wf pOpenSSH ⟨ds, []⟩ := ⟨h, patchShape_nil, fun _ => m0⟩
  have w1 : GV.Wf pOpenSSH ⟨ds, ['p','1']⟩ := ⟨h, patchShape_of_check ['p','1'] (by decide), fun _ => m1⟩
  rw [cmpG_eq _ _ _ w0 w1, cmpG_eq _ _ _ w1 w0]
  simp only [expected, GV.nums, numCmp_self]
  decide

/-- Dropbear: a `testN…` pre-release of a version is older than the release itself. -/
theorem dropbear_test_older_than_release (ds : List Str) (h : WfDs ds)
    (d : Char) (rest : Str) (hd : isDigit d = true) (hp : PatchShape ('t' :: 'e' :: 's' :: 't' :: d :: rest)) :
    cmpG pDropbear ⟨ds, 't' :: 'e' :: 's' :: 't' :: d :: rest⟩ ⟨ds, []⟩ = -1
    ∧ cmpG pDropbear ⟨ds, []⟩ ⟨ds, 't' :: 'e' :: 's' :: 't' :: d :: rest⟩ = 1 := by
  have hne : pDropbear ≠ pOpenSSH := by decide
  have w0 : GV.Wf pDropbear ⟨ds, []⟩ := ⟨h, patchShape_nil, fun e => absurd e hne⟩
  have w1 : GV.Wf pDropbear ⟨ds, 't' :: 'e' :: 's' :: 't' :: d :: rest⟩ := ⟨h, hp, fun e => absurd e hne⟩
  have hr : '\n' ∉ rest := fun hm => hp.noNl (by simp [hm])
  have ht : isTestPatch ('t' :: 'e' :: 's' :: 't' :: d :: rest) = true := by
    simp [isTestPatch, hd, dotTail_noNl rest hr]
  have hz : isTestPatch [] = false := by decide
  rw [cmpG_eq _ _ _ w1 w0, cmpG_eq _ _ _ w0 w1]
  simp only [expected, GV.nums, numCmp_self, patchCmp, dropbearKey, ht, hz]
  constructor <;> simp [cmpOf, strLt, lexLt, charLt]

/-- Remark: outside the grammar (text after `pN`) the OpenSSH patch rule is not transitive:
    7.4 ≡ 7.4p1, 7.4 ≡ 7.4p1-hpn, but 7.4p1 < 7.4p1-hpn. -/
theorem hpn_triple_not_transitive :
    compareVersion (mk pOpenSSH (s "7.4")) (s "7.4p1") = 0
    ∧ compareVersion (mk pOpenSSH (s "7.4")) (s "7.4p1-hpn") = 0
    ∧ compareVersion (mk pOpenSSH (s "7.4") (some (s "p1"))) (s "7.4p1-hpn") = -1 := by
  decide +kernel

/-- Remark: `p0` (not a real OpenSSH suffix) is outside the grammar for the same reason:
    7.4 < 7.4p0 < 7.4p1 but 7.4 ≡ 7.4p1. -/
theorem openssh_p0_not_transitive :
    compareVersion (mk pOpenSSH (s "7.4")) (s "7.4p0") = -1
    ∧ compareVersion (mk pOpenSSH (s "7.4") (some (s "p0"))) (s "7.4p1") = -1
    ∧ compareVersion (mk pOpenSSH (s "7.4")) (s "7.4p1") = 0 := by
  decide +kernel

/-! ### between_versions -/

theorem patchCmp_nil (p : Str) : patchCmp p [] [] = 0 := by
  simp only [patchCmp]
  split
  · decide
  · split
    · decide
    · decide

/-- A release lies between two versions iff it does numerically. -/
theorem between_numeric (p : Str) (ds f t : List Str) (h : WfDs ds) (hf : WfDs f) (ht : WfDs t) :
    betweenVersions (mk p (render ds)) (render f) (render t) = true
      ↔ 0 ≤ numCmp (vals ds) (vals f) ∧ numCmp (vals ds) (vals t) ≤ 0 := by
  have e1 := compare_numeric none none none p ds f [] h hf patchShape_nil
  have e2 := compare_numeric none none none p ds t [] h ht patchShape_nil
  simp only [List.append_nil, Option.getD_none, expected, patchCmp_nil] at e1 e2
  have n1 := render_ne_nil f hf
  have n2 := render_ne_nil t ht
  simp only [betweenVersions, mk, e1, e2, ne_eq, n1, n2, not_false_eq_true, true_and]
  split
  · split <;> simp <;> omega
  · split <;> simp <;> omega

/-! ### The version filter of the recommendations -/

/-- a database descriptor: product prefix, version, client-only marker -/
structure Desc where
  prod : Str
  ds : List Str
  cli : Bool

def prefixOf (p : Str) : Str := if p = pDropbear then ['d'] else if p = pLibSSH then ['l','1'] else []

def Desc.text (d : Desc) : Str := prefixOf d.prod ++ render d.ds ++ (if d.cli then ['C'] else [])

structure Desc.Wf (d : Desc) : Prop where
  prod : d.prod = pOpenSSH ∨ d.prod = pDropbear ∨ d.prod = pLibSSH
  ds : WfDs d.ds

theorem render_first (ds : List Str) (h : WfDs ds) : ∃ c rest, render ds = c :: rest ∧ isDigit c = true := by
  obtain ⟨hne, hall⟩ := h
  cases ds with
  | nil => exact absurd rfl hne
  | cons d rest =>
    have hd := hall d (by simp)
    cases d with
    | nil => exact absurd rfl hd.1
    | cons c cs =>
      have hc : isDigit c = true := (List.all_eq_true.mp hd.2) c (by simp)
      cases rest with
      | nil => exact ⟨c, cs, by simp [render, join], hc⟩
      | cons q rs => exact ⟨c, cs ++ ['.'] ++ join ['.'] (q :: rs), by simp [render, join], hc⟩

theorem productOfDesc_text (d : Desc) (h : d.Wf) : productOfDesc (prefixOf d.prod ++ render d.ds) = (d.prod, render d.ds) := by
  obtain ⟨c0, rest0, e0, hc0⟩ := render_first d.ds h.ds
  have hd0 : c0 ≠ 'd' := by intro e'; subst e'; revert hc0; decide
  have hl0 : c0 ≠ 'l' := by intro e'; subst e'; revert hc0; decide
  rcases h.prod with hp | hp | hp
  · have : prefixOf d.prod = [] := by rw [hp]; decide
    rw [this, List.nil_append, e0, hp]
    unfold productOfDesc
    split
    · rename_i heq; simp only [List.cons.injEq] at heq; exact absurd heq.1 hd0
    · rename_i heq; simp only [List.cons.injEq] at heq; exact absurd heq.1 hl0
    · rfl
  · have : prefixOf d.prod = ['d'] := by rw [hp]; decide
    rw [this, hp]; simp [productOfDesc]
  · have : prefixOf d.prod = ['l','1'] := by rw [hp]; decide
    rw [this, hp]; simp [productOfDesc]

theorem getSshVersion_desc (d : Desc) (h : d.Wf) : getSshVersion d.text = (d.prod, render d.ds, d.cli) := by
  obtain ⟨pre, c, e, hc⟩ := render_last d.ds h.ds
  have hcC : c ≠ 'C' := by intro e'; subst e'; revert hc; decide
  have hb := productOfDesc_text d h
  cases hcli : d.cli
  · have ht : d.text = prefixOf d.prod ++ render d.ds := by simp [Desc.text, hcli]
    have hl : d.text.getLast? = some c := by rw [ht, e, ← List.append_assoc, List.getLast?_concat]
    have hne : (d.text.getLast? == some 'C') = false := by rw [hl]; simp [hcC]
    unfold getSshVersion
    simp only [hne, Bool.false_eq_true, if_false]
    rw [ht, hb]
  · have ht : d.text = (prefixOf d.prod ++ render d.ds) ++ ['C'] := by simp [Desc.text, hcli]
    have hl : (d.text.getLast? == some 'C') = true := by rw [ht, List.getLast?_concat]; simp
    unfold getSshVersion
    simp only [hl, if_true]
    rw [ht, List.dropLast_concat, hb]

/-- One database descriptor admits the algorithm for an identified server exactly when it names
    the server's product, is not client-only (for a server audit) and the server's version is
    `expected ≥ 0`, i.e. numerically at least the descriptor's version (patch order on ties). -/
theorem admits_iff_numeric (vendor os patch : Option Str) (product : Str) (ds : List Str) (h : WfDs ds)
    (d : Desc) (hd : d.Wf) (forServer : Bool) :
    admits (some ⟨vendor, product, render ds, patch, os⟩) forServer d.text = true
      ↔ d.prod = product ∧ ¬ (d.cli = true ∧ forServer = true)
        ∧ 0 ≤ expected product (vals ds) (vals d.ds) (patch.getD []) [] := by
  have hcmp := compare_numeric vendor os patch product ds d.ds [] h hd.ds patchShape_nil
  rw [List.append_nil] at hcmp
  have hne := render_ne_nil d.ds hd.ds
  simp only [admits, getSshVersion_desc d hd, hne, if_false, hcmp]
  by_cases hp : d.prod = product
  · cases d.cli <;> cases forServer <;> simp [hp] <;> omega
  · simp [hp]

/-- **available_iff_numeric** (used by C13).  For an identified OpenSSH (plain or pN), Dropbear
    or libssh release, the whole `versions[0]` string of a database entry lets the algorithm
    count as available iff some descriptor names the product, is not client-only when auditing
    a server, and the server's version is numerically at least the descriptor's version. -/
theorem available_iff_numeric (vendor os patch : Option Str) (product : Str) (ds : List Str) (h : WfDs ds)
    (hrel : ∀ n, 0 ≤ expected product (vals ds) n (patch.getD []) [] ↔ 0 ≤ numCmp (vals ds) n)
    (descs : List Desc) (hne : descs ≠ []) (hd : ∀ d ∈ descs, d.Wf) (forServer : Bool) :
    versionFilter (some ⟨vendor, product, render ds, patch, os⟩) false forServer (join [','] (descs.map Desc.text)) = true
      ↔ ∃ d ∈ descs, d.prod = product ∧ ¬ (d.cli = true ∧ forServer = true) ∧ 0 ≤ numCmp (vals ds) (vals d.ds) := by
  have hcomma : ∀ t ∈ descs.map Desc.text, ',' ∉ t := by
    intro t ht
    obtain ⟨d, hdm, rfl⟩ := List.mem_map.mp ht
    have hv := render_verChars d.ds (hd d hdm).ds.2
    intro hm
    simp only [Desc.text, List.mem_append] at hm
    rcases hm with (hm | hm) | hm
    · rcases (hd d hdm).prod with hp | hp | hp <;> rw [hp] at hm <;> revert hm <;> decide
    · have := hv _ hm; revert this; decide
    · split at hm <;> simp at hm
  simp only [versionFilter, Bool.false_or]
  rw [split_join ',' (descs.map Desc.text) (by simpa using hne) hcomma]
  simp only [List.any_map, List.any_eq_true, Function.comp]
  constructor
  · rintro ⟨d, hdm, ha⟩
    have := (admits_iff_numeric vendor os patch product ds h d (hd d hdm) forServer).mp ha
    exact ⟨d, hdm, this.1, this.2.1, (hrel _).mp this.2.2⟩
  · rintro ⟨d, hdm, h1, h2, h3⟩
    exact ⟨d, hdm, (admits_iff_numeric vendor os patch product ds h d (hd d hdm) forServer).mpr ⟨h1, h2, (hrel _).mpr h3⟩⟩

/-- the side condition `hrel` of `available_iff_numeric` holds for every release without patch
    and for every OpenSSH portable release p1 … p9 -/
theorem release_patch_ok (product : Str) (n₁ n₂ : List Nat) (pa : Str)
    (hpa : pa = [] ∨ (product = pOpenSSH ∧ pa ∈ opensshPatches)) :
    0 ≤ expected product n₁ n₂ pa [] ↔ 0 ≤ numCmp n₁ n₂ := by
  simp only [expected]
  split
  · exact Iff.rfl
  · rename_i h0
    have h0' : numCmp n₁ n₂ = 0 := by simpa using h0
    rw [h0']
    rcases hpa with hpa | ⟨hp, hm⟩
    · subst hpa; simp [patchCmp_nil]
    · subst hp
      have : ∀ a ∈ opensshPatches, 0 ≤ patchCmp pOpenSSH a [] := by decide +kernel
      simpa using this pa hm

/-! ### Timeframe: string min/max is numerically right for today's database -/

/-- numeric "older than" on version texts (false when either is not dot-separated decimal) -/
def verLt (a b : Str) : Bool :=
  match dotNum? a, dotNum? b with
  | some x, some y => decide (numCmp x y < 0)
  | _, _ => false

/-- both are dot-separated decimal versions and Python's `str <` orders them as numbers do -/
def orderSafe (a b : Str) : Bool :=
  (dotNum? a).isSome && (dotNum? b).isSome && (strLt a b == verLt a b) && (strLt b a == verLt b a)

/-- On an order-safe pair the slot rule of `Timeframe._update` keeps the numerically newest
    version in the "from" slots (even) and the numerically oldest in the "till" slots (odd). -/
theorem slotStep_numeric (pos : Nat) (prev ver : Str) (h : orderSafe prev ver = true) :
    slotStep pos (some prev) ver =
      some (if pos % 2 = 0 then (if verLt prev ver then ver else prev) else (if verLt ver prev then ver else prev)) := by
  simp only [orderSafe, Bool.and_eq_true, beq_iff_eq] at h
  obtain ⟨⟨_, h1⟩, h2⟩ := h
  simp only [slotStep, h1, h2]
  have : pos % 2 = 0 ∨ pos % 2 = 1 := by omega
  rcases this with hp | hp <;> simp [hp] <;> split <;> simp_all

def numsOf (v : Str) : List Nat := (dotNum? v).getD []

theorem verLt_iff (a b : Str) (h : orderSafe a b = true) : verLt a b = true ↔ numCmp (numsOf a) (numsOf b) < 0 := by
  simp only [orderSafe, Bool.and_eq_true, Option.isSome_iff_exists] at h
  obtain ⟨⟨⟨⟨x, hx⟩, ⟨y, hy⟩⟩, _⟩, _⟩ := h
  simp [verLt, numsOf, hx, hy]

/-- Folding the slot rule over any list of versions that are pairwise order-safe leaves the
    numerically newest of them in a "from" slot (even position) and the numerically oldest in a
    "till" slot (odd position): on such a set the string min/max of `Timeframe._update` is the
    numeric one. -/
theorem timeframe_fold_numeric (pos : Nat) (v0 : Str) (vs : List Str)
    (hs : ∀ a ∈ v0 :: vs, ∀ b ∈ v0 :: vs, orderSafe a b = true) :
    ∃ r, vs.foldl (slotStep pos) (some v0) = some r ∧ r ∈ v0 :: vs ∧
      ∀ v ∈ v0 :: vs, (if pos % 2 = 0 then verLt r v else verLt v r) = false := by
  induction vs generalizing v0 with
  | nil =>
    refine ⟨v0, rfl, by simp, ?_⟩
    intro v hv
    simp only [List.mem_singleton] at hv; subst hv
    have h0 := hs v (by simp) v (by simp)
    have : ¬ (verLt v v = true) := by rw [verLt_iff v v h0, numCmp_self]; omega
    split <;> simpa using this
  | cons x xs ih =>
    have hv0x := hs v0 (by simp) x (by simp)
    have hxv0 := hs x (by simp) v0 (by simp)
    rw [List.foldl_cons, slotStep_numeric pos v0 x hv0x]
    generalize hm : (if pos % 2 = 0 then (if verLt v0 x then x else v0) else (if verLt x v0 then x else v0)) = m
    have hmem : m = v0 ∨ m = x := by
      rw [← hm]; split <;> split <;> simp
    have hsub : ∀ a ∈ m :: xs, a ∈ v0 :: x :: xs := by
      intro a ha
      simp only [List.mem_cons] at ha ⊢
      rcases ha with ha | ha
      · rcases hmem with h | h <;> simp [ha, h]
      · simp [ha]
    obtain ⟨r, hr, hrm, hall⟩ := ih m (fun a ha b hb => hs a (hsub a ha) b (hsub b hb))
    have hr' : r ∈ v0 :: x :: xs := hsub r hrm
    refine ⟨r, hr, hr', ?_⟩
    intro v hv
    simp only [List.mem_cons] at hv
    have hbm := hall m (by simp)
    -- the comparisons involved, as integers
    have a1 := numCmp_antisymm (numsOf r) (numsOf v0)
    have a2 := numCmp_antisymm (numsOf r) (numsOf x)
    have a3 := numCmp_antisymm (numsOf v0) (numsOf x)
    have t1 := numCmp_trans (numsOf x) (numsOf v0) (numsOf r)
    have t2 := numCmp_trans (numsOf v0) (numsOf x) (numsOf r)
    have t3 := numCmp_trans (numsOf r) (numsOf v0) (numsOf x)
    have t4 := numCmp_trans (numsOf r) (numsOf x) (numsOf v0)
    have t5 := numCmp_trans (numsOf x) (numsOf r) (numsOf v0)
    have t6 := numCmp_trans (numsOf v0) (numsOf r) (numsOf x)
    have e5 := verLt_iff v0 x hv0x
    have e6 := verLt_iff x v0 hxv0
    have n1 : verLt r v0 = false ↔ 0 ≤ numCmp (numsOf r) (numsOf v0) := by
      rw [← Bool.not_eq_true, verLt_iff r v0 (hs r hr' v0 (by simp))]; omega
    have n2 : verLt r x = false ↔ 0 ≤ numCmp (numsOf r) (numsOf x) := by
      rw [← Bool.not_eq_true, verLt_iff r x (hs r hr' x (by simp))]; omega
    have n3 : verLt v0 r = false ↔ 0 ≤ numCmp (numsOf v0) (numsOf r) := by
      rw [← Bool.not_eq_true, verLt_iff v0 r (hs v0 (by simp) r hr')]; omega
    have n4 : verLt x r = false ↔ 0 ≤ numCmp (numsOf x) (numsOf r) := by
      rw [← Bool.not_eq_true, verLt_iff x r (hs x (by simp) r hr')]; omega
    by_cases hp : pos % 2 = 0
    · simp only [hp, if_true] at hbm hm ⊢
      have key : verLt r v0 = false ∧ verLt r x = false := by
        by_cases h1 : verLt v0 x = true
        · simp only [h1, if_true] at hm; subst hm
          have := n2.mp hbm; have := e5.mp h1
          exact ⟨n1.mpr (by omega), hbm⟩
        · simp only [h1, Bool.false_eq_true, if_false] at hm; subst hm
          have := n1.mp hbm; have : ¬ numCmp (numsOf v0) (numsOf x) < 0 := fun h => h1 (e5.mpr h)
          exact ⟨hbm, n2.mpr (by omega)⟩
      rcases hv with hv | hv | hv
      · rw [hv]; exact key.1
      · rw [hv]; exact key.2
      · exact by simpa [hp] using hall v (by simp [hv])
    · simp only [hp, if_false] at hbm hm ⊢
      have key : verLt v0 r = false ∧ verLt x r = false := by
        by_cases h1 : verLt x v0 = true
        · simp only [h1, if_true] at hm; subst hm
          have := n4.mp hbm; have := e6.mp h1
          exact ⟨n3.mpr (by omega), hbm⟩
        · simp only [h1, Bool.false_eq_true, if_false] at hm; subst hm
          have := n3.mp hbm; have : ¬ numCmp (numsOf x) (numsOf v0) < 0 := fun h => h1 (e6.mpr h)
          exact ⟨hbm, n4.mpr (by omega)⟩
      rcases hv with hv | hv | hv
      · rw [hv]; exact key.1
      · rw [hv]; exact key.2
      · exact by simpa [hp] using hall v (by simp [hv])

/-- every `(product, version)` the two rating databases mention -/
def dbVersions : List (Str × Str) := dbVersionsOf Gen.ssh2db ++ dbVersionsOf Gen.ssh1db

/-- every pair of versions of one product occurring anywhere in the two rating databases -/
def dbPairs : List (Str × Str) :=
  let vs := dbVersions.eraseDups
  vs.flatMap fun a => (vs.filter (fun b => b.1 = a.1)).map fun b => (a.2, b.2)

theorem mem_dbPairs (p a b : Str) (ha : (p, a) ∈ dbVersions) (hb : (p, b) ∈ dbVersions) : (a, b) ∈ dbPairs := by
  simp only [dbPairs, List.mem_flatMap, List.mem_map, List.mem_filter, List.mem_eraseDups, decide_eq_true_eq]
  exact ⟨(p, a), ha, (p, b), ⟨hb, rfl⟩, rfl⟩

/-- **Table obligation** (regenerated from /repo on every run): every same-product pair of
    version strings in the databases is order-safe, so `Timeframe`'s string comparisons — hence
    the `(gen) compatibility` line — are numerically right for the current tables.  Adding e.g.
    OpenSSH `10.0` next to `9.9` to a database breaks this theorem. -/
theorem db_versions_order_safe : ∀ ab ∈ dbPairs, orderSafe ab.1 ab.2 = true := by
  decide +kernel

/-- Consequently, whatever versions of one product the databases feed into one `Timeframe` slot,
    in whatever order, the slot ends up holding the numerically newest ("from") / oldest ("till"). -/
theorem db_timeframe_numeric (pos : Nat) (p v0 : Str) (vs : List Str) (h : ∀ v ∈ v0 :: vs, (p, v) ∈ dbVersions) :
    ∃ r, vs.foldl (slotStep pos) (some v0) = some r ∧ r ∈ v0 :: vs ∧
      ∀ v ∈ v0 :: vs, (if pos % 2 = 0 then verLt r v else verLt v r) = false :=
  timeframe_fold_numeric pos v0 vs (fun a ha b hb =>
    db_versions_order_safe (a, b) (mem_dbPairs p a b (h a ha) (h b hb)))

-- GOAL (not yet proved): `tfUpdate` / `sshTimeframe` as a whole (which descriptor of which list
-- reaches which of the four slots, the per-product association list) equals a numeric min/max
-- specification.  Proved above: the slot rule itself (`slotStep`, folded in any order over
-- pairwise order-safe versions) and the order-safety of everything the databases contain; the
-- bookkeeping around it is tied to timeframe.py by correspondence (ops ver.tf / ver.dbtf) and
-- checked against an independent numeric re-implementation by the oracle (check 'timeframe').

/-! ### Non-vacuity -/

example : WfDs [s "10", s "0"] ∧ render [s "10", s "0"] = s "10.0" ∧ vals [s "10", s "0"] = [10, 0] := by
  refine ⟨⟨by simp, ?_⟩, by decide, by decide⟩
  intro d hd; simp at hd; rcases hd with rfl | rfl <;> exact ⟨by decide, by decide⟩
example : numCmp [10, 0] [9, 9] = 1 ∧ numCmp [0, 10, 6] [0, 7, 0] = 1 ∧ numCmp [7, 4] [7, 4, 1] = -1 ∧ numCmp [7, 4] [7, 4] = 0 := by decide
example : PatchShape (s "p1") ∧ PatchShape (s "test3") ∧ PatchShape (s "-hpn14v1") :=
  ⟨patchShape_of_check _ (by decide), patchShape_of_check _ (by decide), patchShape_of_check _ (by decide)⟩
example : dbPairs.length > 1000 := by decide +kernel
example : orderSafe (s "10.0") (s "9.9") = false := by decide +kernel
example : (⟨pDropbear, [s "2018", s "76"], false⟩ : Desc).text = s "d2018.76" ∧ (⟨pLibSSH, [s "0", s "6", s "0"], false⟩ : Desc).text = s "l10.6.0"
    ∧ (⟨pOpenSSH, [s "8", s "0"], true⟩ : Desc).text = s "8.0C" := by decide +kernel
example : versionFilter (some (mk pOpenSSH (s "10.0"))) false true (s "9.9,d2020.79") = true
    ∧ versionFilter (some (mk pOpenSSH (s "9.8"))) false true (s "9.9,d2020.79") = false
    ∧ versionFilter (some (mk pLibSSH (s "0.10.6"))) false true (s "6.4,d2013.62,l10.7.0") = true := by decide +kernel

end SshAudit.C14
