/-
  Target handling: which host/port/address family the tool resolves and dials, and how the
  report is labelled.  Mirrors, as the code is NOW in /repo:

    utils.py        Utils.parse_host_and_port, Utils.parse_int, Utils.is_ipv6_address
    auditconf.py    AuditConf.__setattr__  ('port', 'ipv4'/'ipv6' -> ip_version_preference)
    ssh_audit.py    process_commandline (target / -p / -4 / -6 / -T part), main (targets loop,
                    target_worker_thread), audit (connect part), output/evaluate_policy (labels)
    ssh_socket.py   SSH_Socket.__init__ (port check), _resolve, connect

  Python -> Lean conventions: text is `List Char`; `int` is `Int`; exceptions are data (`Exn`);
  CPython built-ins that the code calls are modelled as executable functions and tied by
  correspondence: `int(str)` (`pyInt`), `str.strip` (`pyStrip`), `re.match` of the one bracket regex
  (`bracketMatch`), text-mode `readlines()` (`readlines`), `ipaddress.IPv6Address` (`isIPv6`),
  `sorted(key=…, reverse=…)` (`sortBy`), `'%d' %` (`showInt`).  The name resolver and the network
  are parameters (`Resolver`, `up`).  Non-ASCII decimal digits (Unicode category Nd) are treated as
  non-digits (CPython's `\d` and `int()` would accept them): excluded from generated inputs.
  Core Lean only.
-/
import SshAudit.Model.Wire
namespace SshAudit
namespace Target
open SshAudit.Text

/-! ### CPython text built-ins -/

/-- `str.isspace()` per character (Py_UNICODE_ISSPACE): the set `str.strip()` removes. -/
def pySpace (c : Char) : Bool :=
  let n := c.toNat
  (9 ≤ n && n ≤ 13) || (28 ≤ n && n ≤ 32) || n == 0x85 || n == 0xa0 || n == 0x1680 ||
  (0x2000 ≤ n && n ≤ 0x200a) || n == 0x2028 || n == 0x2029 || n == 0x202f || n == 0x205f || n == 0x3000

/-- white space skipped by `int(str)`: as `pySpace` except the ASCII separators 0x1c–0x1f
    (CPython maps only non-ASCII spaces to `' '` and then uses the C `isspace`) -/
def intSpace (c : Char) : Bool :=
  pySpace c && !(28 ≤ c.toNat && c.toNat ≤ 31)

/-- `s.strip()` -/
def pyStrip (s : Str) : Str := ((s.dropWhile pySpace).reverse.dropWhile pySpace).reverse

def intStrip (s : Str) : Str := ((s.dropWhile intSpace).reverse.dropWhile intSpace).reverse

def digitVal (c : Char) : Nat := c.toNat - 48

/-- value of a decimal digit string -/
def decVal (ds : Str) : Nat := ds.foldl (fun a c => a * 10 + digitVal c) 0

/-- the digits of `digit ('_'? digit)*` (PEP 515 grouping), `none` if the text has another shape -/
def groupedDigits : Str → Option Str
  | [] => none
  | [c] => if isDigit c then some [c] else none
  | c :: d :: r =>
    if !isDigit c then none
    else if d = '_' then (groupedDigits r).map (c :: ·)
    else (groupedDigits (d :: r)).map (c :: ·)

/-- CPython's `sys.int_max_str_digits` default -/
def maxStrDigits : Nat := 4300

/-- optional sign: (negative?, rest) -/
def signSplit : Str → Bool × Str
  | '-' :: r => (true, r)
  | '+' :: r => (false, r)
  | r => (false, r)

/-- `int(s)` for a `str` argument; `none` = `ValueError` -/
def pyInt (s : Str) : Option Int :=
  let sb := signSplit (intStrip s)
  match groupedDigits sb.2 with
  | none => none
  | some ds =>
    if ds.length > maxStrDigits then none
    else some (if sb.1 then -((decVal ds : Nat) : Int) else ((decVal ds : Nat) : Int))

def digitChar (d : Nat) : Char := Char.ofNat (48 + d)

/-- decimal digits of a natural number (`str(n)`, `'%d' % n`) -/
def showNat (n : Nat) : Str :=
  if _h : n < 10 then [digitChar n] else showNat (n / 10) ++ [digitChar (n % 10)]
termination_by n
decreasing_by omega

def showInt (i : Int) : Str :=
  match i with
  | .ofNat n => showNat n
  | .negSucc n => '-' :: showNat (n + 1)

/-! ### `Utils.parse_host_and_port` -/

/-- `$` of the `re` module (no MULTILINE): at the end, or just before a final newline -/
def atDollar (r : Str) : Bool := r == [] || r == ['\n']

/-- the regex after group 1 = `g` and `]`: `(?::(\d+))?$` on the rest `r`.  The optional port group is
    tried first with the maximal digit run (giving digits back cannot help: `$` would then face a
    digit), then without. -/
def afterBracket (g r : Str) : Option (Str × Option Str) :=
  let withPort : Option (Str × Option Str) :=
    match r with
    | ':' :: q =>
      let ds := q.takeWhile isDigit
      if !ds.isEmpty && atDollar (q.dropWhile isDigit) then some (g, some ds) else none
    | _ => none
  match withPort with
  | some m => some m
  | none => if atDollar r then some (g, none) else none

/-- `re.match(r'^\[([^\]]+)\](?::(\d+))?$', s)`: groups 1 and 2.
    `[^\]]+` is greedy and cannot give characters back (the next item is `]`). -/
def bracketMatch (s : Str) : Option (Str × Option Str) :=
  match s with
  | '[' :: t =>
    let g := t.takeWhile (· != ']')
    match t.dropWhile (· != ']') with
    | ']' :: r => if g.isEmpty then none else afterBracket g r
    | _ => none
  | _ => none

/-- `Utils.parse_host_and_port(host_and_port, default_port)`; `.error .value` = the `ValueError`
    of `int()` -/
def parseHostPort (s : Str) (dflt : Int) : Except Exn (Str × Int) :=
  match bracketMatch s with
  | some (h, some ps) =>
    match pyInt ps with
    | some p => .ok (h, p)
    | none => .error .value
  | some (h, none) => .ok (h, dflt)
  | none =>
    match splitOn ':' s with
    | [h, ps] =>
      if ps.length > 0 then
        match pyInt ps with
        | some p => .ok (h, p)
        | none => .error .value
      else .ok (h, dflt)
    | _ => .ok (s, dflt)

/-! ### `ipaddress.IPv6Address(str)` succeeds (`Utils.is_ipv6_address`) -/

def isHexDigit (c : Char) : Bool :=
  isDigit c || ('a' ≤ c && c ≤ 'f') || ('A' ≤ c && c ≤ 'F')

/-- `_parse_hextet` does not raise -/
def validHextet (p : Str) : Bool := p.all isHexDigit && p.length ≤ 4 && !p.isEmpty

/-- `IPv4Address._parse_octet` does not raise -/
def validOctet (o : Str) : Bool :=
  !o.isEmpty && o.all isDigit && o.length ≤ 3 && (o == ['0'] || o.head? != some '0') && decVal o ≤ 255

/-- `IPv4Address(s)` does not raise -/
def isIPv4 (s : Str) : Bool :=
  !s.contains '/' && !s.isEmpty && (splitOn '.' s).length == 4 && (splitOn '.' s).all validOctet

/-- indexes `1 ≤ i < n-1` of empty parts -/
def innerEmpty (parts : List Str) : List Nat :=
  (List.range parts.length).filter (fun i => 1 ≤ i && i + 1 < parts.length && (parts.getD i []).isEmpty)

/-- the `::` bookkeeping and the hextet checks of `IPv6Address._ip_int_from_string` on the list of
    parts (an IPv4 suffix already replaced by two hextets) -/
def skipCheck (parts : List Str) : Bool :=
  match innerEmpty parts with
  | _ :: _ :: _ => false                         -- more than one '::'
  | [k] =>
    let hi0 := k
    let lo0 := parts.length - k - 1
    let headEmpty := (parts.headD []).isEmpty
    let lastEmpty := (parts.getLastD []).isEmpty
    let hi := if headEmpty then hi0 - 1 else hi0
    let lo := if lastEmpty then lo0 - 1 else lo0
    if headEmpty && hi != 0 then false
    else if lastEmpty && lo != 0 then false
    else if 8 < hi + lo + 1 then false
    else (parts.take hi).all validHextet && ((parts.drop (parts.length - lo)).all validHextet)
  | [] =>
    if parts.length != 8 then false
    else parts.all validHextet

/-- `IPv6Address._ip_int_from_string(addr)` does not raise -/
def isIPv6Addr (a : Str) : Bool :=
  if a.isEmpty then false else
  let parts0 := splitOn ':' a
  if parts0.length < 3 then false else
  let last := parts0.getLastD []
  -- an IPv4-style suffix becomes two hextets
  let v4ok := !last.contains '.' || isIPv4 last
  let parts := if last.contains '.' then parts0.dropLast ++ [['0'], ['0']] else parts0
  if !v4ok then false else
  if parts.length > 9 then false else
  skipCheck parts

/-- `ipaddress.IPv6Address(s)` does not raise `AddressValueError` (`Utils.is_ipv6_address`) -/
def isIPv6 (s : Str) : Bool :=
  if s.contains '/' then false else
  match splitOn '%' s with
  | [a] => isIPv6Addr a
  | [a, scope] => !scope.isEmpty && isIPv6Addr a
  | _ => false                                    -- '%' inside the scope id

/-! ### labels -/

def bracketed (host : Str) : Str := if isIPv6 host then ['['] ++ host ++ [']'] else host

/-- `output(print_target=True)` "(gen) target: …" and `evaluate_policy` "Host:   …" -/
def labelText (host : Str) (port : Int) : Str :=
  if port != 22 then bracketed host ++ [':'] ++ showInt port else host

/-- `audit`: "Starting audit of %s:%d..." (shown with -v) -/
def labelVerbose (host : Str) (port : Int) : Str := bracketed host ++ [':'] ++ showInt port

/-- JSON `"target"`: `aconf.host + ":" + str(aconf.port)` -/
def labelJson (host : Str) (port : Int) : Str := host ++ [':'] ++ showInt port

/-! ### `AuditConf.__setattr__` / `SSH_Socket.__init__` -/

/-- `aconf.port = v`, and the same test in `SSH_Socket.__init__` -/
def checkPort (v : Int) : Except Exn Int := if v < 1 ∨ v > 65535 then .error .value else .ok v

/-- one round of `for ip_version in (argument.ip_versions or []):` — `aconf.ipv4 = True` /
    `aconf.ipv6 = True` append 4 / 6 to `ip_version_preference`, each at most once
    (`not aconf.ipv4` ⇔ 4 is not yet in the list) -/
def ipPrefStep (pref : List Nat) (v : Nat) : List Nat :=
  if v = 4 ∧ pref.contains 4 = false then pref ++ [4]
  else if v = 6 ∧ pref.contains 6 = false then pref ++ [6]
  else pref

/-- the `ip_version_preference` that `process_commandline` builds.  `flags` is argparse's
    `ip_versions` (`append_const`): the `-4`/`-6` options in the order they were written (4 or 6;
    clustered short options such as `-64` count letter by letter). -/
def ipPref (flags : List Nat) : List Nat := flags.foldl ipPrefStep []

/-- what the user asked for: the distinct flags in the order written -/
def requestedOrder : List Nat → List Nat
  | [] => []
  | f :: r => f :: (requestedOrder r).filter (· != f)

/-! ### `SSH_Socket._resolve` / `connect` -/

def AF_INET : Nat := 2
def AF_INET6 : Nat := 10
def SOCK_STREAM : Nat := 1

structure AddrInfo where
  af : Nat
  stype : Nat
  ip : Str
  port : Int
deriving Repr, DecidableEq

/-- `getaddrinfo(host, port, family, SOCK_STREAM)`; `none` = `socket.gaierror` -/
abbrev Resolver := Str → Int → Nat → Option (List AddrInfo)

inductive Event where
  | resolve (host : Str) (port : Int) (family : Nat)
  | connect (af : Nat) (ip : Str) (port : Int)
deriving Repr, DecidableEq

/-- the `family` argument of `getaddrinfo` -/
def familyArg (pref : List Nat) : Nat :=
  match pref with
  | [v] => if v = 4 then AF_INET else AF_INET6
  | _ => 0

/-- insertion that keeps the sort stable when elements are inserted right-to-left:
    `x` goes in front of the first element it may precede -/
def insBy (le : Nat → Nat → Bool) (x : AddrInfo) : List AddrInfo → List AddrInfo
  | [] => [x]
  | y :: ys => if le x.af y.af then x :: y :: ys else y :: insBy le x ys

/-- `sorted(r, key=lambda x: x[0], reverse=rev)` (stable in both directions) -/
def sortBy (rev : Bool) (l : List AddrInfo) : List AddrInfo :=
  l.foldr (insBy (fun a b => if rev then b ≤ a else a ≤ b)) []

/-- the `(af, addr)` sequence `_resolve` yields from the resolver's answer -/
def resolveOrder (pref : List Nat) (ans : List AddrInfo) : List AddrInfo :=
  let r := if pref.length = 2 then sortBy (pref.head? == some 6) ans else ans
  r.filter (fun a => a.stype == SOCK_STREAM)

inductive ConnErr where
  | gai          -- resolver raised
  | noRecords    -- "host … has no DNS records"
  | refused      -- first address did not accept
deriving Repr, DecidableEq

/-- one `SSH_Socket.connect()`: the `try` encloses the loop, so only the first address is dialled -/
def dial (pref : List Nat) (host : Str) (port : Int) (res : Resolver) (up : AddrInfo → Bool) :
    List Event × Option ConnErr :=
  let ev := Event.resolve host port (familyArg pref)
  match res host port (familyArg pref) with
  | none => ([ev], some .gai)
  | some ans =>
    match resolveOrder pref ans with
    | [] => ([ev], some .noRecords)
    | a :: _ => ([ev, .connect a.af a.ip a.port], if up a then none else some .refused)

/-! ### `process_commandline` (target part) -/

/-- what argparse hands over -/
structure Args where
  host : Str                 -- positional (`""` when absent)
  oport : Option Int         -- `-p/--port` (argparse `type=int`)
  flags : List Nat           -- `-4`/`-6` in the order written
  clientAudit : Bool         -- `-c`
  targets : Option Str       -- `-T`: the text of the file
deriving Repr

structure Conf where
  host : Str
  port : Int
  pref : List Nat
  clientAudit : Bool
  targetList : List Str
deriving Repr, DecidableEq

/-- universal-newline translation of text-mode files (`\r\n` and lone `\r` become `\n`) -/
def univNl (prevCR : Bool) : Str → Str
  | [] => []
  | c :: r =>
    if c = '\r' then '\n' :: univNl true r
    else if c = '\n' then (if prevCR then univNl false r else '\n' :: univNl false r)
    else c :: univNl false r

/-- split after every `\n`, keeping it -/
def splitKeep : Str → List Str
  | [] => []
  | c :: r =>
    if c = '\n' then ['\n'] :: splitKeep r
    else match splitKeep r with
      | [] => [[c]]
      | l :: ls => (c :: l) :: ls

/-- `f.readlines()` of a file opened in text mode with the default `newline=None` -/
def readlines (content : Str) : List Str := splitKeep (univNl false content)

/-- `[t.strip() for t in lines if t.strip() != ""]` -/
def cleanLines (lines : List Str) : List Str :=
  (lines.filter (fun l => pyStrip l != [])).map pyStrip

def fileTargets (content : Str) : List Str := cleanLines (readlines content)

def UNKNOWN_ERROR : Int := -1
def CONNECTION_ERROR : Int := 1

/-- `22 if oport is None else oport` -/
def optDefault (q : Option Int) : Int := match q with | none => 22 | some v => v

/-- `process_commandline`: the positional target of a single-target run; `-p` is only the default
    (`host, port = '', 22` otherwise) -/
def cmdTarget (a : Args) : Except Exn (Str × Int) :=
  if a.clientAudit = false ∧ a.targets = none then
    match parseHostPort a.host (optDefault a.oport) with
    | .error e => .error e
    | .ok (h, p) => if h = [] then .error (.sysExit UNKNOWN_ERROR) else .ok (h, p)
  else .ok ([], 22)

/-- `process_commandline`: the `-p` statements that follow (client-audit default 2222; range check of
    the option; the option is *the* port for `-c` and `-T`) -/
def cmdPort (a : Args) (port : Int) : Except Exn Int :=
  let port := if a.oport = none ∧ a.clientAudit = true then 2222 else port
  match a.oport with
  | none => .ok port
  | some q =>
    if q < 1 ∨ q > 65535 then .error (.sysExit UNKNOWN_ERROR)
    else .ok (if a.clientAudit = true ∨ a.targets ≠ none then q else port)

/-- `process_commandline`, the statements that touch host / port / IP versions / target list, in
    program order (`-L`, `-m`, `--lookup` are not used) -/
def cmdline (a : Args) : Except Exn Conf :=
  if a.host = [] ∧ a.clientAudit = false ∧ a.targets = none then .error (.sysExit UNKNOWN_ERROR) else
  match cmdTarget a with
  | .error e => .error e
  | .ok (host, port) =>
    match cmdPort a port with
    | .error e => .error e
    | .ok port =>
      match checkPort port with                     -- aconf.port = port
      | .error e => .error e
      | .ok port =>
        .ok { host := host, port := port, pref := ipPref a.flags, clientAudit := a.clientAudit,
              targetList := match a.targets with
                | none => []
                | some content => fileTargets content }

/-! ### `main` / `audit` (connection part) -/

structure Report where
  host : Str
  port : Int
  text : Str          -- "(gen) target:" / "Host:" label
  verbose : Str       -- "Starting audit of …"
  json : Str          -- JSON "target"
  err : Option ConnErr
deriving Repr, DecidableEq

/-- `audit(out, aconf)` up to the end of the first `connect()` -/
def auditTarget (pref : List Nat) (host : Str) (port : Int) (res : Resolver) (up : AddrInfo → Bool) :
    List Event × Except Exn Report :=
  match checkPort port with                        -- SSH_Socket.__init__
  | .error e => ([], .error e)
  | .ok p =>
    let (evs, err) := dial pref host p res up
    (evs, .ok { host := host, port := p, text := labelText host p, verbose := labelVerbose host p,
                json := labelJson host p, err := err })

/-- `target_worker_thread(host, port, shared_aconf)`: `my_aconf.port = port` is outside the `try` -/
def worker (pref : List Nat) (res : Resolver) (up : AddrInfo → Bool) (t : Str × Int) :
    List Event × Except Exn Report :=
  match checkPort t.2 with
  | .error e => ([], .error e)
  | .ok p => auditTarget pref t.1 p res up

/-- `for target in aconf.target_list: host, port = Utils.parse_host_and_port(target, default_port=aconf.port)`:
    the first `ValueError` aborts the loop (and `main`) -/
def parseAll (d : Int) : List Str → Except Exn (List (Str × Int))
  | [] => .ok []
  | t :: ts =>
    match parseHostPort t d with
    | .error e => .error e
    | .ok hp =>
      match parseAll d ts with
      | .error e => .error e
      | .ok r => .ok (hp :: r)

/-- `main()` after `process_commandline`: a list of targets (every line is parsed before the
    first worker starts; all submitted workers run; an exception in a worker surfaces from
    `future.result()`), or the single target.  Events in submission order (`--threads 1`). -/
def runConf (c : Conf) (res : Resolver) (up : AddrInfo → Bool) :
    List Event × Except Exn (List (Except Exn Report)) :=
  if c.clientAudit then ([], .ok [])               -- listens; no outgoing connection (not modelled)
  else if c.targetList.length > 0 then
    match parseAll c.port c.targetList with
    | .error e => ([], .error e)
    | .ok ts =>
      let rs := ts.map (worker c.pref res up)
      ((rs.map (·.1)).flatten, .ok (rs.map (·.2)))
  else
    match auditTarget c.pref c.host c.port res up with
    | (evs, .error e) => (evs, .error e)
    | (evs, .ok r) =>
      (evs, match r.err with
            | some _ => .error (.sysExit CONNECTION_ERROR)     -- single target: sys.exit
            | none => .ok [.ok r])

/-- the whole run: command line, then connections -/
def mainRun (a : Args) (res : Resolver) (up : AddrInfo → Bool) :
    List Event × Except Exn (List (Except Exn Report)) :=
  match cmdline a with
  | .error e => ([], .error e)
  | .ok c => runConf c res up

end Target
end SshAudit
