import SshAudit.Driver.WireOps
import SshAudit.Model.Policy
namespace SshAudit.Driver
open SshAudit SshAudit.Pol

/-- `name:size:catype:casize;…`  (`_` = empty dict, `~` = None) -/
def decHKS (tok : String) : Option (Option (List (Str × HKS))) :=
  if tok = "~" then some none else if tok = "_" then some (some []) else
  ((tok.splitOn ";").mapM fun (e : String) =>
    match e.splitOn ":" with
    | [n, sz, ct, cs] => do
      let n ← decStr n; let sz ← decNat sz; let ct ← decStr ct; let cs ← decNat cs
      pure (n, ({ size := sz, caType := ct, caSize := cs } : HKS))
    | _ => none).map some

def decDH (tok : String) : Option (Option (List (Str × Nat))) :=
  if tok = "~" then some none else if tok = "_" then some (some []) else
  ((tok.splitOn ";").mapM fun (e : String) =>
    match e.splitOn ":" with
    | [n, sz] => do let n ← decStr n; let sz ← decNat sz; pure (n, sz)
    | _ => none).map some

def decPolicy : List String → Option Policy
  | [b, c, hk, ohk, k, ci, m, hs, dh, sub, lg] => do
    let banner ← decOptStr b; let compressions ← decOptStrs c; let hostKeys ← decOptStrs hk
    let optionalHostKeys ← decOptStrs ohk; let kex ← decOptStrs k; let ciphers ← decOptStrs ci; let macs ← decOptStrs m
    let hostkeySizes ← decHKS hs; let dhSizes ← decDH dh; let allowSubset ← decBool sub; let allowLarger ← decBool lg
    pure { banner, compressions, hostKeys, optionalHostKeys, kex, ciphers, macs, hostkeySizes, dhSizes, allowSubset, allowLarger }
  | _ => none

def decPeer : List String → Option Peer
  | [b, hk, c, key, k, e, m, hs, dh] => do
    let bannerStr ← decStr b; let hasKex ← decBool hk; let comp ← decStrs c; let key ← decStrs key; let kex ← decStrs k
    let enc ← decStrs e; let mac ← decStrs m; let hostKeys ← decHKS hs; let dhSizes ← decDH dh
    pure { bannerStr, hasKex, comp, key, kex, enc, mac, hostKeys := hostKeys.getD [], dhSizes := dhSizes.getD [] }
  | _ => none

def jerrs (es : List PErr) : J := .arr (es.map fun e => .obj [
  ("mismatched_field", .str e.field), ("expected_required", J.ofStrs e.expectedRequired),
  ("expected_optional", J.ofStrs e.expectedOptional), ("actual", J.ofStrs e.actual)])

def jhks (l : List (Str × HKS)) : J := .arr (l.map fun (n, h) => .arr [.str n, .nat h.size, .str h.caType, .nat h.caSize])
def jdh (l : List (Str × Nat)) : J := .arr (l.map fun (n, v) => .arr [.str n, .nat v])

def jpol (p : Policy) : J := .obj [
  ("banner", J.ofOpt .str p.banner), ("compressions", J.ofOpt J.ofStrs p.compressions), ("host_keys", J.ofOpt J.ofStrs p.hostKeys),
  ("optional_host_keys", J.ofOpt J.ofStrs p.optionalHostKeys), ("kex", J.ofOpt J.ofStrs p.kex), ("ciphers", J.ofOpt J.ofStrs p.ciphers),
  ("macs", J.ofOpt J.ofStrs p.macs), ("hostkey_sizes", J.ofOpt jhks p.hostkeySizes), ("dh_modulus_sizes", J.ofOpt jdh p.dhSizes),
  ("subset", .bool p.allowSubset), ("larger", .bool p.allowLarger)]

def policyOp (op : String) (args : List String) : Option J :=
  match op with
  | "policy.evaluate" => do
    let p ← decPolicy (args.take 11)
    let peer ← decPeer (args.drop 11)
    let (ret, errs) := evaluate p peer []
    pure (jok (.obj [("passed", .bool ret), ("errors", jerrs errs)]))
  | "policy.evaluate2" => do   -- the same policy object evaluated twice (D29: errors accumulate)
    let p ← decPolicy (args.take 11)
    let peer ← decPeer (args.drop 11)
    let (_, errs1) := evaluate p peer []
    let (ret, errs) := evaluate p peer errs1
    pure (jok (.obj [("passed", .bool ret), ("errors", jerrs errs)]))
  | "policy.made" => do
    let peer ← decPeer args
    pure (jok (jpol (policyOf peer)))
  | "policy.parseline" => match args with
    | [l] => do
      let l ← decStr l
      pure (match parseListLine l with
        | some (k, v) => jok (.arr [.str k, J.ofStrs v])
        | none => jerr .value)
    | _ => none
  | "policy.renderlist" => match args with
    | [k, ns] => do let k ← decStr k; let ns ← decStrs ns; pure (jok (.str (renderList k ns)))
    | _ => none
  | _ => none

end SshAudit.Driver
